#!/bin/sh
# Build the Coq development from files on disk (full .vo build, no -vos).
cd "$(dirname "$0")/coq" || exit 2
set -e
coq_makefile -f _CoqProject -o Makefile
timeout 3000 make -j16
