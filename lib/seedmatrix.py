"""Run every seeded change against its target check (or all checks) under a given VERIF_SEED, from a snapshot copy of
/verif (so that /verif can be edited meanwhile).  Results: <snapshot>/seeded/<id>/meta.json, summary on stdout and
merged into /verif/seeded/<id>/meta.json under "by_seed".

usage: python3 lib/seedmatrix.py SEED [--all] [--jobs N] [--only PREFIX]"""
import json, os, shutil, subprocess, sys
from concurrent.futures import ThreadPoolExecutor
ROOT = os.path.dirname(os.path.dirname(os.path.abspath(__file__)))


def main():
    seed = sys.argv[1]
    run_all = "--all" in sys.argv
    jobs = int(sys.argv[sys.argv.index("--jobs") + 1]) if "--jobs" in sys.argv else 4
    only = sys.argv[sys.argv.index("--only") + 1] if "--only" in sys.argv else ""
    snap = "/tmp/verif_snap_%s" % seed
    subprocess.run(["rsync", "-a", "--delete", "--exclude", ".git", "--exclude", ".work", "--exclude", "replays", ROOT + "/", snap + "/"], check=True)
    os.makedirs(os.path.join(snap, ".work"), exist_ok=True)
    ids = sorted(d for d in os.listdir(os.path.join(ROOT, "seeded")) if d.startswith(only) and os.path.exists(os.path.join(ROOT, "seeded", d, "patch.diff"))
                 and not json.load(open(os.path.join(ROOT, "seeded", d, "meta.json"))).get("superseded"))

    def one(sid):
        pid = json.load(open(os.path.join(ROOT, "seeded", sid, "meta.json")))["property"]
        src = os.path.join(ROOT, "seeded", sid)
        cmd = ["python3", os.path.join(snap, "lib", "seedtest.py"), sid, pid, os.path.join(src, "patch.diff"), os.path.join(src, "demo.py")] + (["--all"] if run_all else [])
        p = subprocess.run(cmd, cwd=snap, env=dict(os.environ, SEEDTEST_SEED=seed), stdout=subprocess.PIPE, stderr=subprocess.STDOUT, universal_newlines=True)
        try:
            m = json.load(open(os.path.join(snap, "seeded", sid, "meta.json")))
        except Exception:
            m = {"error": p.stdout[-300:]}
        return sid, m
    missed = []
    with ThreadPoolExecutor(jobs) as ex:
        for sid, m in ex.map(one, ids):
            ok = m.get("caught_by_target")
            print(sid, "caught" if ok else "MISSED", " ".join(m.get("caught_by", [])), "" if m.get("confirmed") else "(UNCONFIRMED)", flush=True)
            if not ok:
                missed.append(sid)
            dst = os.path.join(ROOT, "seeded", sid, "meta.json")
            try:
                cur = json.load(open(dst))
                cur.setdefault("by_seed", {})[seed] = {"caught_by_target": bool(ok), "caught_by": m.get("caught_by", []), "all": run_all}
                json.dump(cur, open(dst, "w"), indent=1)
            except Exception as e:
                print("could not merge", sid, e)
    print("MATRIX-DONE seed=%s missed=%s" % (seed, " ".join(missed)))
    shutil.rmtree(snap, ignore_errors=True)


main()
