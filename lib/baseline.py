"""Run /repo's pinned test suite and compare with BASELINE.json's stable_pass list.
usage: python3 lib/baseline.py [repo_dir]"""
import json, os, subprocess, sys, tempfile
import xml.etree.ElementTree as ET
repo = sys.argv[1] if len(sys.argv) > 1 else "/repo"
base = json.load(open("/root/.vp/BASELINE.json"))
fd, path = tempfile.mkstemp(suffix=".xml", dir="/verif/.work" if os.path.isdir("/verif/.work") else None)
os.close(fd)
env = dict(os.environ); env.pop("ELIOT_VERIF", None); env["PYTHONPATH"] = repo
subprocess.run(["/venv/bin/python", "-m", "pytest", "-q", "-p", "no:cacheprovider", "--timeout=900",
                "--continue-on-collection-errors", "--junitxml=" + path], cwd=repo, env=env,
               stdout=subprocess.DEVNULL, stderr=subprocess.DEVNULL)
passed = set()
for tc in ET.parse(path).getroot().iter("testcase"):
    if not any(ch.tag in ("failure", "error", "skipped") for ch in tc):
        passed.add("%s::%s" % (tc.get("classname"), tc.get("name")))
os.unlink(path)
missing = [t for t in base["stable_pass"] if t not in passed]
print("baseline stable_pass: %d, passing now: %d, missing: %d" % (len(base["stable_pass"]), len(base["stable_pass"]) - len(missing), len(missing)))
for t in missing[:20]:
    print("  NOT PASSING:", t)
sys.exit(1 if missing else 0)
