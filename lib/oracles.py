"""Executable statements of the properties over what the real library emitted.
Written from the property texts; they do not use the Coq model.

Every oracle returns None (holds) or a short string naming what fails."""
from . import progs

ENDED = ("succeeded", "failed")


def _posint(x):
    return isinstance(x, int) and not isinstance(x, bool) and x >= 1


def note_failures(obs, kinds):
    for n in obs.get("notes", []):
        if n.split(":")[0] in kinds:
            return n
    return None


def static_outcome(stmts):
    """id of the exception escaping the statement list, judged from the program text alone"""
    for st in stmts:
        k = st[0]
        if k == "raise":
            return st[1]["id"]
        if k == "act":
            r = static_outcome(st[8])
            if r is not None:
                return r
        if k == "reenter":
            r = static_outcome(st[2])
            if r is not None:
                return r
        if k == "handler":
            r = static_outcome(st[1])
            if r is not None:
                return r
    return None


def all_exns(stmts, acc=None):
    acc = {} if acc is None else acc
    for st in stmts:
        k = st[0]
        if k in ("raise", "tb"):
            acc[st[1]["id"]] = st[1]
        elif k == "act":
            all_exns(st[8], acc)
        elif k in ("try", "handler"):
            all_exns(st[1], acc)
        elif k == "handoff":
            all_exns(st[5], acc)
        elif k == "reenter":
            all_exns(st[2], acc)
    return acc


def all_acts(stmts, acc=None):
    acc = {} if acc is None else acc
    for st in stmts:
        k = st[0]
        if k == "act":
            acc[st[1]] = st
            all_acts(st[8], acc)
        elif k in ("try", "handler"):
            all_acts(st[1], acc)
        elif k == "handoff":
            all_acts(st[5], acc)
        elif k == "reenter":
            all_acts(st[2], acc)
    return acc


# ---------------------------------------------------------------- C02
def placement(msgs):
    """the C02 statement on one destination's trace"""
    seen = set()
    owners = {}
    for idx, m in enumerate(msgs):
        u, l = m.get("task_uuid"), m.get("task_level")
        if not isinstance(u, str):
            return "message %d has no task_uuid" % idx
        if not (isinstance(l, list) and l and all(_posint(x) for x in l)):
            return "message %d has task_level %r (not a non-empty list of positive ints)" % (idx, l)
        if not isinstance(m.get("timestamp"), float):
            return "message %d has timestamp %r (not a float)" % (idx, m.get("timestamp"))
        if not ("message_type" in m or ("action_type" in m and "action_status" in m)):
            return "message %d has neither message_type nor action_type+action_status" % idx
        key = (u, tuple(l))
        if key in seen:
            return "two messages share (task_uuid, task_level) = %s%r" % (u[:8], l)
        seen.add(key)
        for depth in range(len(l)):
            o = owners.setdefault((u, tuple(l[:depth])), {"pos": [], "direct": {}, "child": set()})
            k = l[depth]
            if k not in o["direct"] and k not in o["child"]:
                o["pos"].append(k)
            if depth == len(l) - 1:
                if k in o["child"]:
                    return "position %r used by a message and by a child action" % (l,)
                o["direct"][k] = m
            else:
                if k in o["direct"]:
                    return "position %r used by a message and by a child action" % (l[:depth + 1],)
                o["child"].add(k)
    for (u, p), o in owners.items():
        pos = o["pos"]
        if pos != sorted(pos):
            return "inside action %r emission order %r is not level order" % (list(p), pos)
        n = max(pos)
        if sorted(pos) != list(range(1, n + 1)):
            return "inside action %r the positions used are %r, not 1..%d" % (list(p), sorted(pos), n)
        starts = [k for k, m in o["direct"].items() if m.get("action_status") == "started"]
        ends = [k for k, m in o["direct"].items() if m.get("action_status") in ENDED]
        if starts and starts != [1]:
            return "action %r has start message(s) at %r" % (list(p), starts)
        if ends and ends != [n]:
            return "action %r has end message(s) at %r but uses positions up to %d" % (list(p), ends, n)
        if (starts or ends) and not (starts and ends):
            return "action %r has start %r / end %r" % (list(p), starts, ends)
    return None


def oracle_c02(case, obs):
    bad = note_failures(obs, ("logging_raised", "foreign_exception", "delivered_message_changed"))
    if bad:
        return bad
    return placement(obs["raw"]["1"])


# ---------------------------------------------------------------- C03
def class_name(case, cid):
    cls = progs.build_classes(case["classes"])[cid]
    return cls.__module__ + "." + cls.__name__


def expected_extractor(case, cid):
    classes = progs.build_classes(case["classes"])
    reg = {}
    for c, x in case.get("registry", []):
        reg[c] = x
    rev = {v: k for k, v in classes.items()}
    for k in classes[cid].__mro__:
        if k in rev and rev[k] in reg:
            return reg[rev[k]]
    return None


def oracle_c03(case, obs):
    bad = note_failures(obs, ("logging_raised", "foreign_exception", "delivered_message_changed"))
    if bad:
        return bad
    msgs = obs["raw"]["1"]
    exns = all_exns(case["prog"])
    acts = all_acts(case["prog"])
    # generic: every action that logged anything has exactly one start and one end
    groups = {}
    for m in msgs:
        if "action_status" in m:
            groups.setdefault((m["task_uuid"], tuple(m["task_level"][:-1])), []).append(m)
    for (u, p), ms in groups.items():
        ns = sum(1 for m in ms if m["action_status"] == "started")
        ne = sum(1 for m in ms if m["action_status"] in ENDED)
        if ns != 1 or ne != 1:
            return "action at %r logged %d start and %d end messages" % (list(p), ns, ne)
    for hs, rec in obs["arec"].items():
        h = int(hs)
        if rec["style"] == "remote" or h not in acts:
            continue
        st = acts[h]
        # explicit finish() inside the action's own block (only if control reaches it)
        finished_inside = [x for i, x in enumerate(st[8]) if x[0] == "finish_again" and x[1] == h
                           and static_outcome(st[8][:i]) is None]
        starts = [m for m in msgs if m.get("f19") == h and m.get("action_status") == "started"]
        if len(starts) != 1:
            return "action %d logged %d start messages" % (h, len(starts))
        s = starts[0]
        ends = [m for m in groups[(s["task_uuid"], tuple(s["task_level"][:-1]))] if m["action_status"] in ENDED]
        e = ends[0]
        if e.get("action_type") != s.get("action_type"):
            return "action %d end message has another action_type" % h
        failed = rec["exc"] is not None
        if finished_inside:
            # finish() was called explicitly inside the block: that call decides the end message
            fin_exc = finished_inside[0][2]
            if (e["action_status"] == "failed") != (fin_exc is not None):
                return "action %d: finish(%s) inside the block but end status is %r" % (h, "exc" if fin_exc else "", e["action_status"])
            continue
        if (e["action_status"] == "failed") != failed:
            return "action %d: body %s but end status is %r" % (h, "raised" if failed else "returned", e["action_status"])
        # application fields only: reserved names used as field names are overwritten by the library
        start_keys = {progs.key_name(k) for k, _ in st[5] if k >= 20}
        succ_keys = {progs.key_name(k) for k, _ in st[7] if k >= 19}
        if start_keys & set(e):
            return "action %d: start fields %r on the end message" % (h, sorted(start_keys & set(e)))
        if succ_keys & set(s) - {"f19"}:
            return "action %d: success fields on the start message" % h
        if failed:
            if succ_keys & set(e):
                return "action %d failed but its end message has success fields" % h
            x = exns.get(rec["exc"])
            if x is None:
                return "action %d failed with an exception the program did not raise (%r)" % (h, rec["exc"])
            if e.get("exception") != class_name(case, x["cls"]):
                return "action %d: exception field %r, expected %r" % (h, e.get("exception"), class_name(case, x["cls"]))
            want = progs.SAFEFAIL if x["sr"] else progs.exn_text(x["text"])
            if e.get("reason") != want:
                return "action %d: reason %r, expected %r" % (h, e.get("reason"), want)
            ext = expected_extractor(case, x["cls"])
            extra = {k for k in e if k.startswith("f") and 40 <= int(k[1:]) < 46}
            if ext is not None and ext[0] == "fields":
                for k, v in ext[1]:
                    if k < 20:
                        continue
                    if progs.canon_value(e.get(progs.key_name(k), None)) != progs.canon_value(progs.py_value(v)) \
                            and not progs.is_hostile_atom(v.get("a", 0)):
                        return "action %d: extractor field %s missing or wrong on the failed end" % (h, progs.key_name(k))
                if extra != {progs.key_name(k) for k, _ in ext[1] if k >= 20}:
                    return "action %d: extractor fields %r, expected those of the nearest registered class" % (h, sorted(extra))
            elif extra:
                return "action %d: unexpected extractor fields %r" % (h, sorted(extra))
        else:
            own = {progs.key_name(k) for k, _ in st[7]}
            if ("exception" in e and "exception" not in own) or ("reason" in e and "reason" not in own):
                return "action %d succeeded but its end message has exception/reason" % h
            if st[6] is None:    # untyped: success field values arrive unchanged
                for k, v in st[7]:
                    if k < 19:
                        continue
                    if progs.is_hostile_atom(v.get("a", 0)):
                        continue
                    if progs.canon_value(e.get(progs.key_name(k))) != progs.canon_value(progs.py_value(v)):
                        return "action %d: success field %s missing or changed" % (h, progs.key_name(k))
    want = static_outcome(case["prog"])
    if obs["outcome"] != want:
        return "program outcome %r, expected exception id %r to propagate unchanged" % (obs["outcome"], want)
    return None


# ---------------------------------------------------------------- C04
def oracle_c04(case, obs):
    bad = note_failures(obs, ("probe_mismatch", "logging_raised", "foreign_exception"))
    if bad:
        return bad
    msgs = obs["raw"]["1"]
    start_of = {}
    for m in msgs:
        if m.get("action_status") == "started" and "f19" in m:
            start_of[m["f19"]] = m
    for hs, rec in obs["arec"].items():
        h = int(hs)
        if h not in start_of:
            continue
        s = start_of[h]
        par = rec["parent"]
        if rec["task"] or par is None:
            if s["task_level"] != [1]:
                return "action %d should begin a new tree but starts at %r" % (h, s["task_level"])
            if par is not None and par in start_of and start_of[par]["task_uuid"] == s["task_uuid"]:
                return "start_task %d reused the enclosing task's uuid" % h
        elif par in start_of:
            ps = start_of[par]
            if s["task_uuid"] != ps["task_uuid"] or s["task_level"][:-2] != ps["task_level"][:-1] or s["task_level"][-1] != 1:
                return "action %d (level %r) is not a child of the action current when it started (%d, level %r)" % (
                    h, s["task_level"], par, ps["task_level"])
    count = {}
    for m in msgs:
        count[m["task_uuid"]] = count.get(m["task_uuid"], 0) + 1
    for st in case["prog"]:
        pass
    return None


# ---------------------------------------------------------------- C07
def oracle_c07(case, obs):
    bad = note_failures(obs, ("logging_raised", "foreign_exception", "caller_dict_mutated", "delivered_message_changed"))
    if bad:
        return bad
    want = static_outcome(case["prog"])
    if obs["outcome"] != want:
        return "program outcome %r, expected %r: application exceptions must propagate unchanged" % (obs["outcome"], want)
    return None


# ---------------------------------------------------------------- C08
def oracle_c08(case, obs):
    bad = note_failures(obs, ("logging_raised", "foreign_exception", "render_mismatch", "delivered_message_changed"))
    if bad:
        return bad
    dests = obs["dests"]
    if not dests:
        return None
    ids = [d[0] for d in dests]
    ref = dests[0][1]
    for did, ms in dests[1:]:
        if ms != ref:
            return "destinations %d and %d were offered different message sequences (lengths %d / %d)" % (
                dests[0][0], did, len(ref), len(ms))
    raw = obs["raw"][str(ids[0])]
    fails = obs["fails"]
    # file destinations also fail; they are not observed directly, so exact accounting
    # is done only when every destination is a recording one
    only_rec = all(d[1][0] != "file" for o in case["pre"] if o[0] == "add" for d in o[1])
    j = 0
    n = len(raw)
    while j < n:
        m = raw[j]
        if m.get("message_type") == "eliot:destination_failure":
            return "report at index %d is not preceded by the message it is about" % j
        failing = [i for i in ids if fails[str(i)][j]]
        k = j + 1
        reports = []
        while k < n and raw[k].get("message_type") == "eliot:destination_failure":
            reports.append(raw[k])
            k += 1
        if only_rec:
            if len(reports) != len(failing):
                return "message %d failed at %d destination(s) but %d report(s) follow it" % (j, len(failing), len(reports))
            for i, r in zip(failing, reports):
                x = obs["dest_exn"][str(i)]
                if r.get("exception") != class_name(case, x["cls"]):
                    return "report for destination %d names exception %r" % (i, r.get("exception"))
                want = progs.SAFEFAIL if x["sr"] else progs.exn_text(x["text"])
                if r.get("reason") != want:
                    return "report for destination %d has reason %r, expected %r" % (i, r.get("reason"), want)
        j = k
    return None


# ---------------------------------------------------------------- C13
def ref_serfn(f, v):
    """reference semantics of the serializer library: (ok, value)"""
    name = f[0]
    isint = isinstance(v, int) and not isinstance(v, bool) and id(v) not in progs.HOSTILE_ID
    if name == "id":
        return True, v
    if name == "const":
        return True, f[1]
    if name == "succ":
        return (True, v + 1) if isint else (False, None)
    if name == "double":
        return (True, 2 * v) if isint else (False, None)
    if name == "fail":
        return False, None
    if name == "failneg":
        return (False, None) if (isint and v < 0) else (True, v)
    raise ValueError(f)


def oracle_c13(case, obs):
    bad = note_failures(obs, ("logging_raised", "foreign_exception", "caller_dict_mutated", "delivered_message_changed"))
    if bad:
        return bad
    raw = obs["raw"]["1"]
    for ev in obs["events"]:
        decl = ev.get("decl")
        if decl is None or (ev["kind"] == "end" and ev.get("failed")):
            continue
        logged = {k: progs.py_value(v) for k, v in ev["logged"]}
        full_window = raw[ev["lo"]:ev["hi"]]
        window = [m for m in full_window if m.get("message_type") != "eliot:destination_failure"]
        calls = obs["ser_calls"][ev["slo"]:ev["shi"]]
        expect = {}
        ok = True
        ncalls = 0
        for k, f in decl:
            if k not in logged:
                ok = False
                break
            ncalls += 1
            good, out = ref_serfn(f, logged[k])
            if not good:
                ok = False
                break
            expect[k] = out
        if ok and ev["kind"] == "raw" and 5 not in logged:
            ok = False      # message_type (Field.forValue) is the last declared field: KeyError
        where = "%s of type%s" % (ev["kind"], ev.get("t"))
        if ok:
            if len(window) != 1:
                return "%s: serialization succeeds but %d messages were delivered" % (where, len(window))
            m = window[0]
            if m.get("message_type") in ("eliot:traceback", "eliot:serialization_failure"):
                return "%s: delivered a failure message although every serializer succeeds" % where
            for k, want in expect.items():
                got = m.get(progs.key_name(k), "<missing>")
                if progs.canon_value(got) != progs.canon_value(want):
                    return "%s: declared field %s delivered as %r, expected the serializer applied once: %r" % (
                        where, progs.key_name(k), got, want)
            for k, v in logged.items():
                if k not in expect and not progs.is_hostile_atom(ev_atom(ev, k)):
                    if progs.canon_value(m.get(progs.key_name(k), "<missing>")) != progs.canon_value(v):
                        return "%s: undeclared field %s changed" % (where, progs.key_name(k))
            # fields declared with the library's own Field.for_types (harness: "id" on even keys) have no
            # invocation counter
            counted = [k for k, f in decl if not (f[0] == "id" and k % 2 == 0)]
            if len(calls) != len(counted):
                return "%s: %d serializer invocations for %d declared fields" % (where, len(calls), len(counted))
            if sorted(c[0] for c in calls) != sorted(counted):
                return "%s: serializers invoked for %r" % (where, [c[0] for c in calls])
        else:
            kinds = [m.get("message_type") for m in window]
            if kinds != ["eliot:traceback", "eliot:serialization_failure"]:
                return "%s: a serializer fails, expected exactly one traceback then one serialization_failure, got %r" % (where, kinds)
            if any("action_status" in m for m in window):
                return "%s: failing message was delivered" % where
            u = {m["task_uuid"] for m in window}
            # both in the context current at the time of the call
            l0, l1 = window[0]["task_level"], window[1]["task_level"]
            if ev["cur"] is None:
                pass    # no current action: each is its own one-message task
            else:
                between = full_window[full_window.index(window[0]) + 1:full_window.index(window[1])]
                if len(u) != 1 or l0[:-1] != l1[:-1] or l1[-1] != l0[-1] + 1 + len(between):
                    return "%s: failure messages are not consecutive in one action: %r %r" % (where, l0, l1)
    return None


def ev_atom(ev, k):
    for kk, v in ev["logged"]:
        if kk == k:
            return v.get("a", 0)
    return 0
