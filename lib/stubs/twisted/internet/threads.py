import threading


class Handle(object):
    """what stands for the Deferred: ``done`` is set once ``f`` returned (``result``) or raised (``error``)"""

    def __init__(self):
        self.done = threading.Event()
        self.result = None
        self.error = None


def deferToThreadPool(reactor, threadpool, f, *args, **kwargs):
    """run f(*args, **kwargs) in a new thread; the returned handle completes when it has returned"""
    h = Handle()

    def run():
        try:
            h.result = f(*args, **kwargs)
        except BaseException as e:      # a Deferred would errback
            h.error = e
        finally:
            h.done.set()
    t = threading.Thread(target=run)
    t.daemon = True
    t.start()
    return h
