class Service(object):
    """twisted.application.service.Service reduced to what ThreadedWriter uses: the ``running`` flag."""
    running = 0
    name = None

    def startService(self):
        self.running = 1

    def stopService(self):
        self.running = 0
