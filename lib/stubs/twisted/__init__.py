"""Minimal stand-in for Twisted, used ONLY by the C19 check (props/C19.py puts this directory at the end of
sys.path inside its worker): Twisted is not installed in this sandbox and eliot/logwriter.py imports it."""
