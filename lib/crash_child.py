"""Child process for the SIGKILL family of C11: runs a generated program in a loop
against a real file and acknowledges every returned logging call on stdout.

usage: python -m lib.crash_child <case.json> <logfile> <repeats>"""
import json
import os
import sys
import warnings


def main():
    warnings.simplefilter("ignore")
    case = json.load(open(sys.argv[1]))
    path, repeats = sys.argv[2], int(sys.argv[3])
    from lib import progs
    case = dict(case)
    case["pre"] = [["add", [[9, ["realfile", path] + (["text"] if case.get("textfile") else []), {"id": 0, "cls": 15, "text": 1, "sr": False}]]]]
    it = progs.Interp(case)
    for o in case["pre"]:
        it.preop(o)
    out = sys.stdout
    count = [0]

    def on_return():
        # bytes on disk when this logging call returned: everything written so far is flushed
        out.write("%d\n" % os.fstat(it.realfile.fileno()).st_size)
        out.flush()
    it.on_return = on_return
    out.write("ready\n")
    out.flush()
    for r in range(repeats):
        try:
            it.block(case["prog"], 0)
        except BaseException:
            pass
    out.write("done\n")
    out.flush()


if __name__ == "__main__":
    main()
