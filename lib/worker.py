"""Implementation-side worker: runs cases of one family against the eliot
source tree on PYTHONPATH (``/repo`` unless ELIOT_SRC says otherwise).

usage: python -m lib.worker <props module> <family name> < cases.json > obs.json
"""
import importlib
import json
import os
import sys
import traceback
import warnings


def main():
    modname, famname = sys.argv[1], sys.argv[2]
    src = os.environ.get("ELIOT_SRC", "/repo")
    warnings.simplefilter("ignore")
    import eliot

    if not os.path.abspath(eliot.__file__).startswith(os.path.abspath(src) + os.sep):
        sys.stderr.write("eliot imported from %s, expected under %s\n" % (eliot.__file__, src))
        sys.exit(3)
    mod = importlib.import_module(modname)
    fam = [f for f in mod.FAMILIES if f.name == famname][0]
    cases = json.load(sys.stdin)
    real_stdout = sys.stdout
    sys.stdout = sys.stderr  # nothing the library prints may corrupt the protocol
    out = []
    for case in cases:
        try:
            obs = fam.impl(case)
        except BaseException as e:  # the driver itself must never die
            obs = {"driver_crash": "%s: %s" % (type(e).__name__, e), "tb": traceback.format_exc()[-1500:]}
        out.append(obs)
    real_stdout.write(json.dumps(out))
    real_stdout.flush()


if __name__ == "__main__":
    main()
