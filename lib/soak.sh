#!/bin/sh
# run every ready check over several seeds; print the failures
cd "$(dirname "$0")/.." || exit 2
for seed in "$@"; do
  for p in $(cat props/READY); do
    out=$(VERIF_SEED=$seed ./check $p --tier quick 2>&1); rc=$?
    if [ $rc -ne 0 ]; then echo "SEED $seed $p rc=$rc"; echo "$out" | grep -E "VIOLATION|Error|error" | head -3; mkdir -p .work/soak; cp replays/$p-$seed-1.json .work/soak/ 2>/dev/null; fi
  done
done
echo SOAK-DONE
