"""Print markdown tables for DESIGN.md: per property the theorems (from coq/Props) and the families."""
import importlib, json, os, re, sys
ROOT = os.path.dirname(os.path.dirname(os.path.abspath(__file__)))
sys.path.insert(0, ROOT)
from lib.framework import _strip_comments
print("| id | theorems in `coq/Props/Cxx.v` (all closed under the global context) | correspondence / oracle families (`props/Cxx.py`) |")
print("|---|---|---|")
for i in range(1, 21):
    pid = "C%02d" % i
    text = _strip_comments(open(os.path.join(ROOT, "coq", "Props", pid + ".v")).read())
    ths = re.findall(r"^\s*Theorem\s+([A-Za-z_0-9']+)", text, flags=re.M)
    mod = importlib.import_module("props." + pid)
    fams = ", ".join(f.name for f in mod.FAMILIES)
    short = [t.replace(pid + "_", "") for t in ths]
    print("| %s | %s | %s |" % (pid, ", ".join(short), fams))
print()
if os.path.isdir(os.path.join(ROOT, "seeded")):
    print("| seeded change | property | what it needs to manifest | confirmed (tests pass, demo fails/passes) | target check | all checks that report it |")
    print("|---|---|---|---|---|---|")
    for sid in sorted(os.listdir(os.path.join(ROOT, "seeded"))):
        mp = os.path.join(ROOT, "seeded", sid, "meta.json")
        if not os.path.exists(mp):
            continue
        m = json.load(open(mp))
        am = m.get("author_meta", {})
        needs = str(am.get("needs", am.get("summary", "")))[:160].replace("|", "/").replace("\n", " ")
        print("| %s | %s | %s | %s | %s | %s |" % (sid, m["property"], needs, "yes" if m.get("confirmed") else "NO",
                                                   "caught" if m.get("caught_by_target") else "MISSED", " ".join(m.get("caught_by", []))))
