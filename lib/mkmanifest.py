"""Regenerate MANIFEST.json from the props modules present (run with python3-vt
so that jsonschema is available for validation)."""
import importlib, json, os, sys
ROOT = os.path.dirname(os.path.dirname(os.path.abspath(__file__)))
sys.path.insert(0, ROOT)
ALL = ["C%02d" % i for i in range(1, 21)]
checks, na = [], []
READY = open(os.path.join(ROOT, "props", "READY")).read().split()
for pid in ALL:
    if pid not in READY or not os.path.exists(os.path.join(ROOT, "props", pid + ".py")):
        na.append({"property_id": pid, "reason": "not built yet in this development (planned: see DESIGN.md section 8); no claim is made"})
        continue
    mod = importlib.import_module("props." + pid)
    checks.append({
        "property_id": pid,
        "quick_cmd": "./check %s --tier quick" % pid,
        "thorough_cmd": "./check %s --tier thorough" % pid,
        "evidence_file": "evidence/%s.json" % pid,
        "replay_cmd_template": "./check %s --replay {path}" % pid,
        "engine": "coq-model+correspondence",
        "level_claimed": {"category": "proof", "text": mod.LEVEL_TEXT, "design_ref": "DESIGN.md section 8, " + pid},
        "level_note": mod.LEVEL_NOTE,
        "technique": getattr(mod, "TECHNIQUE", "Coq 8.16 theorems about a hand-written executable model + behavioural correspondence (model evaluated inside Coq vs real eliot on the same cases) + executable statement on the real outputs"),
    })
man = {
    "version": 1,
    "setup_cmd": "./setup.sh",
    "hooks": {"guard": "ELIOT_VERIF", "enable": "no source hooks exist; checks import eliot from /repo's working tree with PYTHONPATH=/repo (ELIOT_VERIF=1 is set but nothing in /repo reads it)",
              "baseline_off_cmd": "cd /repo && /venv/bin/python -m pytest -ra -q -p no:cacheprovider --timeout=900 --continue-on-collection-errors",
              "source_commits": [], "add_only": True},
    "engines": [{"name": "coq-model+correspondence", "path": "check", "serves_properties": [c["property_id"] for c in checks],
                 "kind_free_text": "Coq 8.16.1 development under coq/ (Model, Proofs, Props) + Python correspondence harness (lib/, props/)"}],
    "checks": checks,
    "not_applicable": na,
    "notes": "fix: commits in /repo and known findings are listed in known_findings.json and DESIGN.md section 9",
}
json.dump(man, open(os.path.join(ROOT, "MANIFEST.json"), "w"), indent=1)
try:
    import jsonschema
    jsonschema.validate(man, json.load(open("/root/.vp/MANIFEST.schema.json")))
    print("MANIFEST valid:", len(checks), "checks,", len(na), "not claimed")
    ev_schema = json.load(open("/root/.vp/EVIDENCE.schema.json"))
    for c in checks:
        p = os.path.join(ROOT, c["evidence_file"])
        if os.path.exists(p):
            jsonschema.validate(json.load(open(p)), ev_schema)
    print("evidence files valid")
except ImportError:
    print("jsonschema not available; not validated")
