"""Operation-level scripts: sequences of API calls that the program AST cannot express
(an action created in one place and entered elsewhere, destinations added while an action is
open, enter/exit issued directly).  Executed against the real API; the model runs the same
operation list with `run`.

op := ["start", h, task, type, fields] | ["enter", h] | ["exit", h, exn|None] | ["ctxenter", h] | ["ctxexit"]
    | ["finish", h, exn|None] | ["log", type, fields] | ["actlog", h, type, fields] | ["tb", exn]
    | ["add", dests] | ["remove", id] | ["globals", fields] | ["probe"]
    | ["mknew", slot, type, fields] | ["mwrite", slot]   Message.new(...) built in one place, .write() called elsewhere
                                        (possibly another thread): it belongs where it is WRITTEN; model: a log op there
    | ["register", cls, extractor]      register_exception_extractor in the middle of the run (model: the
                                        configuration changes between two segments of the operation list)
case := {"classes", "registry", "ops": [op...]}     (one execution context)
"""
import json

from . import progs
from .coqbridge import Nat, C, Some, to_coq


def c_op(o):
    k = o[0]
    if k == "start":
        _, h, task, t, fs = o
        return C("OStart", Nat(h), bool(task), progs.c_type(t), progs.c_fields(fs), None)
    if k == "enter":
        return C("OEnter", Nat(o[1]))
    if k == "exit":
        return C("OExit", Nat(o[1]), progs.c_opt(o[2], progs.c_exn))
    if k == "ctxenter":
        return C("OCtxEnter", Nat(o[1]))
    if k == "ctxexit":
        return C("OCtxExit")
    if k == "runenter":       # action.run(f): f's body is the operations up to the matching runexit
        return C("OCtxEnter", Nat(o[1]))
    if k == "runexit":
        return C("OCtxExit")
    if k == "finish":
        return C("OFinish", Nat(o[1]), progs.c_opt(o[2], progs.c_exn))
    if k == "log":
        return C("OLog", progs.c_type(o[1]), progs.c_fields(o[2]), None)
    if k == "actlog":
        return C("OActionLog", Nat(o[1]), progs.c_type(o[2]), progs.c_fields(o[3]))
    if k == "tb":
        return C("OTraceback", progs.c_exn(o[1]))
    if k == "add":
        return C("OAddDests", [progs.c_dest(d) for d in o[1]])
    if k == "remove":
        return C("ORemoveDest", Nat(o[1]))
    if k == "globals":
        return C("OAddGlobals", progs.c_fields(o[1]))
    if k == "probe":
        return C("OProbe")
    raise ValueError(o)


def dest_ids(case):
    return [d[0] for c, o in ctx_ops(case) if o[0] == "add" for d in o[1] if d[1][0] not in ("file",)]


def model_ops(case):
    """the operations as the model sees them: a message object built in one place and written in another is a
    plain log operation where it is written"""
    built, out = {}, []
    for c, o in ctx_ops(case):
        if o[0] == "mknew":
            built[o[1]] = o
        elif o[0] == "mwrite":
            b = built[o[1]]
            out.append((c, ["log", b[2], b[3]]))
        else:
            out.append((c, o))
    return out


def segments(case):
    """[(registry in force, [(ctx, op)])]: the operation list cut at every mid-run extractor registration"""
    reg = list(case.get("registry", []))
    segs = [(list(reg), [])]
    for c, o in model_ops(case):
        if o[0] == "register":
            reg = reg + [[o[1], o[2]]]
            segs.append((list(reg), []))
        else:
            segs[-1][1].append((c, o))
    return segs


def model_state_expr(case):
    expr = "init_state"
    for reg, ops in segments(case):
        fake = {"classes": case["classes"], "registry": reg}
        expr = "(run %s %s %s)" % (to_coq(progs.c_config(fake)), to_coq([(Nat(c), c_op(o)) for c, o in ops]), expr)
    return expr


def model_expr(case):
    return "observe %s %s" % (model_state_expr(case), to_coq([Nat(i) for i in dest_ids(case)]))


def model_obs(case, parsed):
    traces, probes = parsed
    obs = {"dests": [[i, [progs.m_msg(m) for m in ms]] for i, ms in traces],
           "probes": [[c, (h[1] if isinstance(h, tuple) else None)] for c, h in probes], "outcome": None}
    return progs.rename_uuids(obs)


class _Runner(object):
    """executes operations against the real API, one execution context (thread) each"""

    def __init__(self, case):
        self.it = progs.Interp({"classes": case["classes"], "registry": case.get("registry", []), "pre": [], "prog": []})
        self.cms = {}       # context -> stack of context managers of a.context()
        self.stack = {}     # context -> the interpreter's own idea of the current action stack

    def do(self, c, o):
        it, el = self.it, self.it.eliot
        stack = self.stack.setdefault(c, [])
        cms = self.cms.setdefault(c, [])
        k = o[0]
        if k == "start":
            _, h, task, t, fs = o
            kw = it.fields(fs)
            fn = el.start_task if task else el.start_action
            it.register(h, it.call("start", fn, action_type=progs.type_name(t), **kw))
        elif k == "enter":
            a = it.actions[o[1]]
            it.call("__enter__", a.__enter__)
            stack.append(o[1])
        elif k == "exit":
            a = it.actions[o[1]]
            exc = None if o[2] is None else it.make_exn(o[2])
            # __exit__ restores what was current in THIS context when the action was entered
            while stack and stack[-1] != o[1]:
                stack.pop()
            if stack:
                stack.pop()
            it.call("__exit__", a.__exit__, type(exc) if exc is not None else None, exc, None)
        elif k == "ctxenter":
            cm = it.actions[o[1]].context()
            it.call("context.__enter__", cm.__enter__)
            cms.append(cm)
            stack.append(o[1])
        elif k == "ctxexit":
            if cms:
                cm = cms.pop()
                stack.pop()
                it.call("context.__exit__", cm.__exit__, None, None, None)
        elif k == "finish":
            exc = None if o[2] is None else it.make_exn(o[2])
            if o[1] in it.actions:
                it.call("finish", it.actions[o[1]].finish, exc)
        elif k == "log":
            it.call("log_message", el.log_message, message_type=progs.type_name(o[1]), **it.fields(o[2]))
        elif k == "mknew":
            self.built = getattr(self, "built", {})
            self.built[o[1]] = it.call("Message.new", el.Message.new, message_type=progs.type_name(o[2]), **it.fields(o[3]))
        elif k == "mwrite":
            it.call("Message.write", self.built[o[1]].write)
        elif k == "actlog":
            it.call("Action.log", it.actions[o[1]].log, message_type=progs.type_name(o[2]), **it.fields(o[3]))
        elif k == "tb":
            e = it.make_exn(o[1])
            try:
                raise e
            except BaseException:
                it.call("write_traceback", el.write_traceback)
        elif k in ("add", "remove", "globals"):
            it.preop(o)
        elif k == "register":
            el.register_exception_extractor(it.classes[o[1]], it.make_extractor(o[2]))
        elif k == "probe":
            a = el.current_action()
            got = None if a is None else it.handle_of.get(id(a), -1)
            it.probes.append([c, got])
            want = stack[-1] if stack else None
            if got != want:
                it.notes.append("probe_mismatch:ctx%d:got=%s:want=%s" % (c, got, want))

    def finish(self, case):
        it = self.it
        ids = dest_ids(case)
        obs = {"dests": [[i, [progs.canon_msg(m, it) for m in it.dests[i].log]] for i in ids], "probes": it.probes, "outcome": None}
        obs = progs.rename_uuids(obs)
        it.check_renders()
        obs["notes"] = it.notes
        obs["raw"] = {str(i): [progs.raw_msg(m) for m in it.dests[i].log] for i in ids}
        obs["fails"] = {str(i): it.dests[i].fails for i in ids}
        return obs


def ctx_ops(case):
    """[(context, op)]: single-context cases keep plain ops"""
    return [(o[0], o[1]) if case.get("mt") else (0, o) for o in case["ops"]]


def run_case(case, post=None):
    """`post(runner, obs)`: optional hook run in the worker after the script finished (extra observations)"""
    r = _Runner(case)
    ops = ctx_ops(case)
    if not case.get("mt"):
        it = iter(ops)

        def drive(inside_run):
            for c, o in it:
                if o[0] == "runenter":
                    r.stack.setdefault(c, []).append(o[1])
                    r.it.actions[o[1]].run(lambda: drive(True))
                    r.stack[c].pop()
                elif o[0] == "runexit":
                    if inside_run:
                        return
                else:
                    r.do(c, o)
        try:
            drive(False)
        except progs.LoggingRaised:
            pass
        obs = r.finish(case)
        if post:
            post(r, obs)
        return obs
    # one real thread per execution context; the controller hands out one operation at a time
    import threading
    ctxs = sorted({c for c, _ in ops})
    turn = {c: threading.Semaphore(0) for c in ctxs}
    done = threading.Semaphore(0)
    queues = {c: [o for cc, o in ops if cc == c] for c in ctxs}
    failed = []

    def body(c):
        it = iter(queues[c])

        def drive(inside_run):
            for o in it:
                turn[c].acquire()
                nested = None
                try:
                    if failed:
                        pass
                    elif o[0] == "runenter":
                        nested = o[1]
                    elif o[0] == "runexit":
                        if inside_run:
                            return
                    else:
                        r.do(c, o)
                except progs.LoggingRaised:
                    failed.append(c)
                except BaseException as e:
                    failed.append("%s:%s" % (c, type(e).__name__))
                finally:
                    done.release()
                if nested is not None:
                    # action.run(f), called from this thread: the following operations of this thread,
                    # up to the matching runexit, are f's body
                    r.stack.setdefault(c, []).append(nested)
                    try:
                        r.it.actions[nested].run(lambda: drive(True))
                    except BaseException as e:
                        failed.append("%s:run:%s" % (c, type(e).__name__))
                    r.stack[c].pop()
        drive(False)
    threads = [threading.Thread(target=body, args=(c,), daemon=True) for c in ctxs]
    for t in threads:
        t.start()
    for c, o in ops:
        turn[c].release()
        if not done.acquire(timeout=20):
            r.it.notes.append("hang:ctx%d" % c)
            break
    for t in threads:
        t.join(5)
    obs = r.finish(case)
    if failed:
        obs["notes"].append("thread_failed:%r" % failed)
    if post:
        post(r, obs)
    return obs


def project(case, obs):
    return {"dests": obs["dests"], "probes": obs["probes"], "outcome": None}


def attribution(case, msgs):
    """statement: every numbered message (field f19 >= 1000) and every started action belongs to the action that was
    current in ITS execution context when it was logged/started (judged from the script alone), else it is a task of its own"""
    where = {}
    for m in msgs:
        if m.get("action_status") == "started" and isinstance(m.get("f19"), int) and m["f19"] < 1000:
            where[m["f19"]] = (m.get("task_uuid"), list(m.get("task_level", []))[:-1])
    stacks = {}
    expect = {}         # marker -> handle or None
    for c, o in model_ops(case):
        st = stacks.setdefault(c, [])
        cur = st[-1] if st else None
        k = o[0]
        if k in ("enter", "ctxenter", "runenter"):
            st.append(o[1])
        elif k == "exit":
            while st and st[-1] != o[1]:
                st.pop()
            if st:
                st.pop()
        elif k in ("ctxexit", "runexit"):
            if st:
                st.pop()
        elif k == "log":
            for a, v in o[2]:
                if a == 19 and isinstance(v.get("i"), int) and v["i"] >= 1000:
                    expect[v["i"]] = cur
        elif k == "start":
            expect[o[1]] = None if o[2] else cur
    for m in msgs:
        mk = m.get("f19")
        if not isinstance(mk, int) or mk not in expect:
            continue
        if mk < 1000 and m.get("action_status") != "started":
            continue
        h = expect[mk]
        lvl = list(m.get("task_level", []))
        own = lvl[:-1] if mk >= 1000 else lvl[:-2]
        what = "message #%d" % mk if mk >= 1000 else "action #%d" % mk
        if h is None:
            if own != []:
                return "%s was logged with no current action in its context but sits inside an action (level %r)" % (what, lvl)
        else:
            if h not in where:
                continue
            if (m.get("task_uuid"), own) != where[h]:
                return "%s was logged while action #%d was current in its context, but sits at %r of task %s (action #%d is %r of %s)" % (
                    what, h, lvl, str(m.get("task_uuid"))[:8], h, where[h][1], str(where[h][0])[:8])
    return None


# ---------------------------------------------------------------------------
def gen_script(rng, late_add=False, n_ops=14, fault=0.5, p_register=0.0, p_exn=0.3, p_finish_open=0.0):
    g = progs.Gen(rng)
    g.class_ids = g.gen_classes(3) + [2, 8, 9]
    dests = progs.gen_dests(rng, g, rng.randrange(1, 3), fault)
    ops = []
    if not late_add:
        ops.append(["add", dests])
    created = []        # actions started, not yet entered/finished
    open_with = []      # entered with __enter__, innermost last
    nh = [0]
    nm = [0]

    def fields():
        return g.fields(2, 32, 40)
    for i in range(n_ops):
        r = rng.random()
        if open_with and rng.random() < p_finish_open:
            # finish() called explicitly on an action that stays current: what is started or logged next still
            # belongs to it (after its end message)
            ops.append(["finish", rng.choice(open_with), g.exn() if rng.random() < 0.3 else None])
        elif r < 0.25:
            nh[0] += 1
            ops.append(["start", nh[0], rng.random() < 0.1, rng.randrange(10, 14), fields() + [[19, {"i": nh[0]}]]])
            created.append(nh[0])
        elif r < 0.45 and created:
            # enter an action created earlier, possibly under a different current action
            h = created.pop(rng.randrange(len(created)))
            ops.append(["enter", h])
            open_with.append(h)
        elif r < 0.6 and open_with:
            h = open_with.pop()
            ops.append(["exit", h, g.exn() if rng.random() < p_exn else None])
        elif r < 0.8:
            nm[0] += 1
            if rng.random() < p_register:
                # an extractor registered in the middle of the run, possibly for a class whose subclasses
                # (or which itself) already failed an action or went through write_traceback
                x = ["fields", g.fields(2, 40, 46)] if rng.random() < 0.85 else ["raise", g.exn(cls=rng.choice([8, 9]))]
                ops.append(["register", rng.choice(g.class_ids + [2]), x])
            else:
                ops.append(["log", rng.randrange(10, 14), fields() + [[19, {"i": 1000 + nm[0]}]]])
        elif r < 0.85:
            ops.append(["tb", g.exn()])
        elif late_add and r < 0.95 and not any(o[0] == "add" for o in ops):
            ops.append(["add", dests])
        ops.append(["probe"])
    while open_with:
        ops.append(["exit", open_with.pop(), None])
        ops.append(["probe"])
    for h in created:
        ops.append(["finish", h, g.exn() if rng.random() < p_exn and p_register else None])
    if late_add and not any(o[0] == "add" for o in ops):
        ops.append(["add", dests])
    return {"classes": g.classes, "registry": [], "ops": ops}


def describe(case):
    out = ["op:" + o[0] for c, o in ctx_ops(case)]
    kinds = [o[0] for c, o in ctx_ops(case)]
    if "add" in kinds and kinds.index("add") > 0:
        out.append("late_add")
    return out


def gen_script_mt(rng, n_ops=16):
    """dispatcher/worker scripts: actions are created in one execution context (thread) and run with
    `with action:` in another, whose own current action is something else"""
    g = progs.Gen(rng)
    g.class_ids = g.gen_classes(2) + [2, 8]
    dests = progs.gen_dests(rng, g, 1, 0.0)
    ops = [[0, ["add", dests]]]
    nctx = rng.choice([2, 2, 3])
    created = []                       # handles started, not yet entered
    open_with = {c: [] for c in range(1, nctx + 1)}
    nh = [0]
    nm = [0]
    built = []                         # message objects built with Message.new, not yet written

    def marker():
        nm[0] += 1
        return [[19, {"i": 1000 + nm[0]}]]
    for i in range(n_ops):
        c = rng.randrange(1, nctx + 1)
        r = rng.random()
        if rng.random() < 0.12:
            # a message object built here ...
            slot = nm[0] + 500
            ops.append([c, ["mknew", slot, rng.randrange(10, 14), g.fields(1, 32, 36) + marker()]])
            built.append(slot)
        elif built and rng.random() < 0.25:
            # ... and written later, by whichever context gets to it (a queue hand-off, a callback)
            ops.append([c, ["mwrite", built.pop(rng.randrange(len(built)))]])
        elif r < 0.3:
            nh[0] += 1
            ops.append([c, ["start", nh[0], rng.random() < 0.15, rng.randrange(10, 14), [[19, {"i": nh[0]}]]]])
            created.append(nh[0])
        elif r < 0.55 and created:
            h = created.pop(rng.randrange(len(created)))      # possibly created by another context
            ops.append([c, ["enter", h]])
            open_with[c].append(h)
        elif r < 0.7 and open_with[c]:
            ops.append([c, ["exit", open_with[c].pop(), g.exn() if rng.random() < 0.3 else None]])
        elif r < 0.8 and any(open_with[c2] for c2 in open_with):
            # action.run(f) called from this thread on an action that some thread (possibly another one)
            # is inside of: f runs with that action current here, and this thread's context is restored after
            h = rng.choice([h for c2 in open_with for h in open_with[c2]])
            ops.append([c, ["runenter", h]])
            ops.append([c, ["probe"]])
            ops.append([c, ["log", rng.randrange(10, 14), g.fields(1, 32, 36) + marker()]])
            ops.append([c, ["runexit"]])
        else:
            ops.append([c, ["log", rng.randrange(10, 14), g.fields(1, 32, 36) + marker()]])
        ops.append([c, ["probe"]])
    for slot in built:
        ops.append([rng.randrange(1, nctx + 1), ["mwrite", slot]])
    for c in open_with:
        while open_with[c]:
            ops.append([c, ["exit", open_with[c].pop(), None]])
            ops.append([c, ["probe"]])
    for h in created:
        ops.append([1, ["finish", h, None]])
    return {"classes": g.classes, "registry": [], "ops": ops, "mt": True}
