"""Operation-level scripts: sequences of API calls that the program AST cannot express
(an action created in one place and entered elsewhere, destinations added while an action is
open, enter/exit issued directly).  Executed against the real API; the model runs the same
operation list with `run`.

op := ["start", h, task, type, fields] | ["enter", h] | ["exit", h, exn|None] | ["ctxenter", h] | ["ctxexit"]
    | ["finish", h, exn|None] | ["log", type, fields] | ["actlog", h, type, fields] | ["tb", exn]
    | ["add", dests] | ["remove", id] | ["globals", fields] | ["probe"]
case := {"classes", "registry", "ops": [op...]}     (one execution context)
"""
import json

from . import progs
from .coqbridge import Nat, C, Some, to_coq


def c_op(o):
    k = o[0]
    if k == "start":
        _, h, task, t, fs = o
        return C("OStart", Nat(h), bool(task), progs.c_type(t), progs.c_fields(fs), None)
    if k == "enter":
        return C("OEnter", Nat(o[1]))
    if k == "exit":
        return C("OExit", Nat(o[1]), progs.c_opt(o[2], progs.c_exn))
    if k == "ctxenter":
        return C("OCtxEnter", Nat(o[1]))
    if k == "ctxexit":
        return C("OCtxExit")
    if k == "finish":
        return C("OFinish", Nat(o[1]), progs.c_opt(o[2], progs.c_exn))
    if k == "log":
        return C("OLog", progs.c_type(o[1]), progs.c_fields(o[2]), None)
    if k == "actlog":
        return C("OActionLog", Nat(o[1]), progs.c_type(o[2]), progs.c_fields(o[3]))
    if k == "tb":
        return C("OTraceback", progs.c_exn(o[1]))
    if k == "add":
        return C("OAddDests", [progs.c_dest(d) for d in o[1]])
    if k == "remove":
        return C("ORemoveDest", Nat(o[1]))
    if k == "globals":
        return C("OAddGlobals", progs.c_fields(o[1]))
    if k == "probe":
        return C("OProbe")
    raise ValueError(o)


def dest_ids(case):
    return [d[0] for o in case["ops"] if o[0] == "add" for d in o[1] if d[1][0] not in ("file",)]


def model_expr(case):
    ops = [(Nat(0), c_op(o)) for o in case["ops"]]
    fake = {"classes": case["classes"], "registry": case.get("registry", [])}
    return "observe (run %s %s init_state) %s" % (to_coq(progs.c_config(fake)), to_coq(ops), to_coq([Nat(i) for i in dest_ids(case)]))


def model_obs(case, parsed):
    traces, probes = parsed
    obs = {"dests": [[i, [progs.m_msg(m) for m in ms]] for i, ms in traces],
           "probes": [[c, (h[1] if isinstance(h, tuple) else None)] for c, h in probes], "outcome": None}
    return progs.rename_uuids(obs)


def run_case(case):
    it = progs.Interp({"classes": case["classes"], "registry": case.get("registry", []), "pre": [], "prog": []})
    el = it.eliot
    cms = []
    stack = []      # the interpreter's own idea of the current action
    saved = {}      # h -> value the with-style enter must restore
    for o in case["ops"]:
        k = o[0]
        try:
            if k == "start":
                _, h, task, t, fs = o
                kw = it.fields(fs)
                fn = el.start_task if task else el.start_action
                it.register(h, it.call("start", fn, action_type=progs.type_name(t), **kw))
            elif k == "enter":
                a = it.actions[o[1]]
                saved[o[1]] = stack[-1] if stack else None
                it.call("__enter__", a.__enter__)
                stack.append(o[1])
            elif k == "exit":
                a = it.actions[o[1]]
                exc = None if o[2] is None else it.make_exn(o[2])
                # __exit__ restores what was current at __enter__ time
                while stack and stack[-1] != o[1]:
                    stack.pop()
                if stack:
                    stack.pop()
                it.call("__exit__", a.__exit__, type(exc) if exc is not None else None, exc, None)
            elif k == "ctxenter":
                cm = it.actions[o[1]].context()
                it.call("context.__enter__", cm.__enter__)
                cms.append(cm)
                stack.append(o[1])
            elif k == "ctxexit":
                if cms:
                    cm = cms.pop()
                    stack.pop()
                    it.call("context.__exit__", cm.__exit__, None, None, None)
            elif k == "finish":
                exc = None if o[2] is None else it.make_exn(o[2])
                if o[1] in it.actions:
                    it.call("finish", it.actions[o[1]].finish, exc)
            elif k == "log":
                it.call("log_message", el.log_message, message_type=progs.type_name(o[1]), **it.fields(o[2]))
            elif k == "actlog":
                it.call("Action.log", it.actions[o[1]].log, message_type=progs.type_name(o[2]), **it.fields(o[3]))
            elif k == "tb":
                e = it.make_exn(o[1])
                try:
                    raise e
                except BaseException:
                    it.call("write_traceback", el.write_traceback)
            elif k in ("add", "remove", "globals"):
                it.preop(o)
            elif k == "probe":
                a = el.current_action()
                got = None if a is None else it.handle_of.get(id(a), -1)
                it.probes.append([0, got])
                want = stack[-1] if stack else None
                if got != want:
                    it.notes.append("probe_mismatch:got=%s:want=%s" % (got, want))
        except progs.LoggingRaised:
            break
    ids = dest_ids(case)
    obs = {"dests": [[i, [progs.canon_msg(m, it) for m in it.dests[i].log]] for i in ids], "probes": it.probes, "outcome": None}
    obs = progs.rename_uuids(obs)
    it.check_renders()
    obs["notes"] = it.notes
    obs["raw"] = {str(i): [progs.raw_msg(m) for m in it.dests[i].log] for i in ids}
    obs["fails"] = {str(i): it.dests[i].fails for i in ids}
    return obs


def project(case, obs):
    return {"dests": obs["dests"], "probes": obs["probes"], "outcome": None}


# ---------------------------------------------------------------------------
def gen_script(rng, late_add=False, n_ops=14, fault=0.5):
    g = progs.Gen(rng)
    g.class_ids = g.gen_classes(3) + [2, 8, 9]
    dests = progs.gen_dests(rng, g, rng.randrange(1, 3), fault)
    ops = []
    if not late_add:
        ops.append(["add", dests])
    created = []        # actions started, not yet entered/finished
    open_with = []      # entered with __enter__, innermost last
    nh = [0]

    def fields():
        return g.fields(2, 32, 40)
    for i in range(n_ops):
        r = rng.random()
        if r < 0.25:
            nh[0] += 1
            ops.append(["start", nh[0], rng.random() < 0.1, rng.randrange(10, 14), fields() + [[19, {"i": nh[0]}]]])
            created.append(nh[0])
        elif r < 0.45 and created:
            # enter an action created earlier, possibly under a different current action
            h = created.pop(rng.randrange(len(created)))
            ops.append(["enter", h])
            open_with.append(h)
        elif r < 0.6 and open_with:
            h = open_with.pop()
            ops.append(["exit", h, g.exn() if rng.random() < 0.3 else None])
        elif r < 0.8:
            ops.append(["log", rng.randrange(10, 14), fields()])
        elif r < 0.85:
            ops.append(["tb", g.exn()])
        elif late_add and r < 0.95 and not any(o[0] == "add" for o in ops):
            ops.append(["add", dests])
        ops.append(["probe"])
    while open_with:
        ops.append(["exit", open_with.pop(), None])
        ops.append(["probe"])
    for h in created:
        ops.append(["finish", h, None])
    if late_add and not any(o[0] == "add" for o in ops):
        ops.append(["add", dests])
    return {"classes": g.classes, "registry": [], "ops": ops}


def describe(case):
    out = ["op:" + o[0] for o in case["ops"]]
    kinds = [o[0] for o in case["ops"]]
    if "add" in kinds and kinds.index("add") > 0:
        out.append("late_add")
    return out
