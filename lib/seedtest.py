"""Confirm a seeded change and run the checks against it.

usage: python3 lib/seedtest.py <seed id> <property> <patch.diff> <demo.py> [--all] [--keep]

Makes a scratch copy of /repo under /verif/.work/seed/<id>, applies the patch, confirms
 (1) the pinned baseline tests still pass with the change,
 (2) the demonstration fails with the change and passes without it,
then runs ./check <property> (or every ready check with --all) with --src pointing at the copy,
stores patch/demo/meta under /verif/seeded/<id>/ and removes the scratch copy.
"""
import json
import os
import shutil
import subprocess
import sys
import time

ROOT = os.path.dirname(os.path.dirname(os.path.abspath(__file__)))


def sh(cmd, **kw):
    return subprocess.run(cmd, capture_output=True, text=True, **kw)


def main():
    sid, pid, patch, demo = sys.argv[1:5]
    run_all = "--all" in sys.argv
    work = os.path.join(ROOT, ".work", "seed", sid)
    shutil.rmtree(work, ignore_errors=True)
    os.makedirs(work)
    copy = os.path.join(work, "repo")
    sh(["rsync", "-a", "--exclude", ".git", "/repo/", copy + "/"])
    p = sh(["patch", "-p1", "-i", os.path.abspath(patch)], cwd=copy)
    meta = {"id": sid, "property": pid, "patch_applies": p.returncode == 0}
    if p.returncode != 0:
        meta["patch_error"] = (p.stdout + p.stderr)[-500:]
        print(json.dumps(meta, indent=1))
        return 2
    env = dict(os.environ, PYTHONHASHSEED="0")
    # demonstrations written in a scratch worktree sometimes assert that path: neutralise such lines
    demo_src = open(demo).read().split("\n")
    demo_src = [("pass  # " + l.strip() if ("assert" in l and "/tmp/mut_" in l) else l) if not l.startswith((" ", "\t")) or "/tmp/mut_" not in l
                else (l[:len(l) - len(l.lstrip())] + "pass  # " + l.strip() if "assert" in l else l) for l in demo_src]
    demo_src = [(l[:len(l) - len(l.lstrip())] + "pass  # " + l.strip()) if (l.strip().startswith("assert") and "eliot.__file__" in l) else l
                for l in demo_src]
    # run it from its own directory (it may use helper files next to it)
    orig_demo = demo
    demo = os.path.join(os.path.dirname(os.path.abspath(orig_demo)), "_run_" + os.path.basename(orig_demo))
    open(demo, "w").write("\n".join(demo_src))
    # (2) demonstration
    helper_dir = os.path.dirname(os.path.abspath(sys.argv[4]))     # demos may import helper modules written next to them
    d_with = sh(["/venv/bin/python", os.path.abspath(demo)], env=dict(env, PYTHONPATH=copy + os.pathsep + helper_dir), cwd=work, timeout=300)
    d_without = sh(["/venv/bin/python", os.path.abspath(demo)], env=dict(env, PYTHONPATH="/repo" + os.pathsep + helper_dir), cwd=work, timeout=300)
    meta["demo_with_change_rc"] = d_with.returncode
    meta["demo_without_change_rc"] = d_without.returncode
    meta["demo_with_change_out"] = (d_with.stdout + d_with.stderr)[-400:]
    # (1) baseline
    b = sh(["python3", os.path.join(ROOT, "lib", "baseline.py"), copy])
    meta["baseline_ok"] = b.returncode == 0
    meta["baseline_out"] = b.stdout[-300:]
    meta["confirmed"] = bool(meta["baseline_ok"] and d_with.returncode != 0 and d_without.returncode == 0)
    # checks
    ready = open(os.path.join(ROOT, "props", "READY")).read().split()
    targets = ready if run_all else [pid]
    results = {}
    for t in targets:
        t0 = time.time()
        c = sh([os.path.join(ROOT, "check"), t, "--tier", "quick", "--src", copy], cwd=ROOT,
               env=dict(env, VERIF_SEED=os.environ.get("SEEDTEST_SEED", "0")))
        viol = [l for l in c.stdout.splitlines() if l.startswith("VIOLATION")]
        results[t] = {"rc": c.returncode, "violations": len(viol),
                      "no_failing_input": sum(1 for l in viol if l.endswith("no-failing-input-found")),
                      "wall_s": round(time.time() - t0, 1), "summary": c.stdout.splitlines()[-1][:300] if c.stdout else c.stderr[-300:]}
        if viol and t == pid:
            # keep the replay of the target property's first violation as evidence of what was found
            rp = viol[0].split("replay=")[1].split()[0]
            try:
                r = json.load(open(os.path.join(ROOT, rp)))
                meta["first_failure"] = str(r.get("failure"))[:400]
            except Exception:
                pass
    meta["checks"] = results
    # caught = the check exited 1 AND printed a VIOLATION line (a crash of the harness is not a catch)
    meta["caught_by_target"] = results.get(pid, {}).get("rc") == 1 and results.get(pid, {}).get("violations", 0) > 0
    meta["caught_by"] = sorted(t for t, r in results.items() if r["rc"] == 1 and r["violations"] > 0)
    out = os.path.join(ROOT, "seeded", sid)
    os.makedirs(out, exist_ok=True)
    if os.path.abspath(patch) != os.path.abspath(os.path.join(out, "patch.diff")):
        shutil.copy(patch, os.path.join(out, "patch.diff"))
    if os.path.abspath(orig_demo) != os.path.abspath(os.path.join(out, "demo.py")):
        shutil.copy(orig_demo, os.path.join(out, "demo.py"))
    for extra in ("stubs", "c02check.py"):
        src = os.path.join(os.path.dirname(os.path.abspath(orig_demo)), extra)
        if os.path.abspath(src) == os.path.abspath(os.path.join(out, extra)):
            continue
        if os.path.isdir(src):
            shutil.copytree(src, os.path.join(out, extra), dirs_exist_ok=True)
        elif os.path.isfile(src):
            shutil.copy(src, os.path.join(out, extra))
    src_meta = os.path.join(os.path.dirname(os.path.abspath(patch)), "meta%s.json" % os.path.basename(patch)[5:-5])
    if os.path.exists(src_meta):
        try:
            am = json.load(open(src_meta))
            meta["author_meta"] = am.get("author_meta", am)
        except Exception:
            pass
    meta["what_i_ran"] = ("rsync copy of /repo + patch -p1; lib/baseline.py on the copy (404 pinned tests); demo.py with PYTHONPATH=copy and "
                          "PYTHONPATH=/repo; ./check <id> --tier quick --src copy for: " + " ".join(targets))
    try:
        meta["by_seed"] = json.load(open(os.path.join(out, "meta.json"))).get("by_seed", {})
    except Exception:
        pass
    json.dump(meta, open(os.path.join(out, "meta.json"), "w"), indent=1)
    if "--keep" not in sys.argv:
        shutil.rmtree(work, ignore_errors=True)
    print(json.dumps({k: meta[k] for k in ("id", "property", "confirmed", "baseline_ok", "demo_with_change_rc",
                                           "demo_without_change_rc", "caught_by_target", "caught_by")}, indent=None))
    return 0


if __name__ == "__main__":
    sys.exit(main())
