"""Line-granular cooperative scheduler for real threads, without source hooks.

Worker threads run under a ``sys.settrace`` tracer; on every ``line`` event inside the
chosen source files the thread parks until the controller grants it its next step.
Locks and queues that the code under test reaches through attributes are replaced by the
scheduler-aware ``SchedLock`` / ``SchedQueue`` (same semantics; a thread that would block
is reported as disabled instead of blocking the controller).

A schedule is a list of thread indices; a step of a disabled or finished thread is skipped.
``run`` returns the executed schedule (one entry per granted step) and per-thread results.
"""
import sys
import threading


class Deadlock(Exception):
    pass


# After a few runs in one worker process have dead-locked (a tree on which the code under test blocks
# on something the scheduler cannot see), further runs fail fast instead of waiting out the timeout again.
_DEADLOCKS = [0]
FAST_FAIL_AFTER = 3


class LineScheduler(object):
    def __init__(self, files, timeout=8):
        self.files = tuple(files)
        self.timeout = timeout if _DEADLOCKS[0] < FAST_FAIL_AFTER else 0.5
        self.sems = []
        self.ctrl = threading.Semaphore(0)
        self.done = []
        self.blocked = {}          # thread index -> predicate "still blocked"
        self.trace = []            # executed schedule
        self.where = []            # (thread, file basename, line) per granted step
        self.results = []
        self.tids = {}
        self.events = []           # linearisation log: (kind, thread, info) appended by SchedLock/SchedQueue/user
        self.current = None

    # ---- called from worker threads
    def me(self):
        return self.tids.get(threading.get_ident())

    def gate(self, t, frame=None):
        if frame is not None:
            self.last_pos[t] = (frame.f_code.co_filename.rsplit("/", 1)[-1], frame.f_lineno, frame.f_code.co_name)
        self.ctrl.release()
        self.sems[t].acquire()

    def block_until(self, pred_blocked):
        """park the calling worker until pred_blocked() is False (re-evaluated by the controller)"""
        t = self.me()
        if t is None:
            # not a scheduled thread (e.g. the controller itself): plain spin is never needed in our drivers
            if pred_blocked():
                raise Deadlock("unscheduled thread would block")
            return
        while pred_blocked():
            self.blocked[t] = pred_blocked
            self.gate(t)
        self.blocked.pop(t, None)

    def log(self, kind, info=None):
        self.events.append([kind, self.me(), info])

    def _tracer(self, t):
        files = self.files

        def local(frame, event, arg):
            if event == "line":
                self.gate(t, frame)
            return local

        def glob(frame, event, arg):
            if event == "call" and frame.f_code.co_filename.endswith(files):
                return local
            return None
        return glob

    # ---- controller
    def run(self, targets, schedule, fallback="roundrobin"):
        n = len(targets)
        self.sems = [threading.Semaphore(0) for _ in range(n)]
        self.done = [False] * n
        self.results = [None] * n
        self.last_pos = [None] * n

        def wrap(t, fn):
            def body():
                self.tids[threading.get_ident()] = t
                # first park: nothing of the target runs before the controller says so
                self.gate(t)
                sys.settrace(self._tracer(t))
                try:
                    self.results[t] = ["ok", fn()]
                except BaseException as e:
                    self.results[t] = ["raised", type(e).__name__, str(e)[:200]]
                finally:
                    sys.settrace(None)
                    self.done[t] = True
                    self.ctrl.release()
            return body
        threads = [threading.Thread(target=wrap(t, fn), daemon=True) for t, fn in enumerate(targets)]
        for th in threads:
            th.start()
        for _ in range(n):
            if not self.ctrl.acquire(timeout=self.timeout):
                _DEADLOCKS[0] += 1
                raise Deadlock("thread did not reach its first gate")
        import collections
        pending = collections.deque(schedule)
        rr = 0
        steps = 0
        while not all(self.done):
            enabled = [t for t in range(n) if not self.done[t] and not (t in self.blocked and self.blocked[t]())]
            if not enabled:
                _DEADLOCKS[0] += 1
                raise Deadlock("all unfinished threads are blocked: %r" % ([(t, self.last_pos[t]) for t in range(n) if not self.done[t]],))
            t = None
            while pending:
                cand = pending.popleft() % n
                if cand in enabled:
                    t = cand
                    break
            if t is None:
                if fallback == "finish_first":
                    t = enabled[0]
                else:
                    while (rr % n) not in enabled:
                        rr += 1
                    t = rr % n
                    rr += 1
            self.trace.append(t)
            self.where.append([t] + list(self.last_pos[t] or ("start", 0, "")))
            self.current = t
            self.sems[t].release()
            if not self.ctrl.acquire(timeout=self.timeout):
                _DEADLOCKS[0] += 1
                raise Deadlock("thread %d did not yield (at %r)" % (t, self.last_pos[t]))
            steps += 1
            if steps > 200000:
                raise Deadlock("step budget exhausted")
        for th in threads:
            th.join(self.timeout)
        return self.trace


class SchedLock(object):
    """threading.Lock with the same semantics, visible to the scheduler"""

    def __init__(self, sched, name="lock"):
        self.sched, self.name = sched, name
        self.holder = None
        self.locked_ = False

    def acquire(self, blocking=True, timeout=-1):
        if not blocking:
            if self.locked_:
                return False
        elif timeout is not None and timeout >= 0:
            # a timed wait: the holder may take arbitrarily long, so the wait can expire whenever the lock is taken
            if self.locked_:
                self.sched.log("acquire-timeout", self.name)
                return False
        else:
            self.sched.block_until(lambda: self.locked_)
        self.locked_ = True
        self.holder = self.sched.me()
        self.sched.log("acquire", self.name)
        return True

    def release(self):
        if not self.locked_:
            raise RuntimeError("release unlocked lock")
        self.locked_ = False
        self.holder = None
        self.sched.log("release", self.name)

    def locked(self):
        return self.locked_

    __enter__ = acquire

    def __exit__(self, *a):
        self.release()


class SchedQueue(object):
    """queue.SimpleQueue (unbounded FIFO) visible to the scheduler"""

    def __init__(self, sched, name="queue"):
        self.sched, self.name = sched, name
        self.items = []

    def put(self, item, block=True, timeout=None):
        self.items.append(item)
        self.sched.log("put", self.name)

    def get(self, block=True, timeout=None):
        self.sched.block_until(lambda: not self.items)
        self.sched.log("get", self.name)
        return self.items.pop(0)

    def empty(self):
        return not self.items

    def qsize(self):
        return len(self.items)


def segments_to_schedule(segments):
    """[(thread, nsteps), ...] -> flat schedule"""
    out = []
    for t, n in segments:
        out += [t] * n
    return out


class SchedRLock(SchedLock):
    """threading.RLock visible to the scheduler"""

    def __init__(self, sched, name="rlock"):
        SchedLock.__init__(self, sched, name)
        self.count = 0

    def acquire(self, blocking=True, timeout=-1):
        me = threading.get_ident()
        if self.locked_ and self.owner == me:
            self.count += 1
            return True
        if not blocking:
            if self.locked_:
                return False
        elif timeout is not None and timeout >= 0:
            if self.locked_:       # a timed wait can expire whenever another thread holds the lock
                self.sched.log("acquire-timeout", self.name)
                return False
        else:
            self.sched.block_until(lambda: self.locked_)
        self.locked_ = True
        self.owner = me
        self.count = 1
        self.holder = self.sched.me()
        self.sched.log("acquire", self.name)
        return True

    def release(self):
        if not self.locked_ or self.owner != threading.get_ident():
            raise RuntimeError("cannot release un-acquired lock")
        self.count -= 1
        if self.count == 0:
            self.locked_ = False
            self.owner = None
            self.holder = None
            self.sched.log("release", self.name)

    __enter__ = acquire

    def __exit__(self, *a):
        self.release()


def instrument(obj, sched):
    """Replace every threading.Lock / RLock / queue.SimpleQueue held in an attribute of `obj`
    by its scheduler-aware twin, whatever the attribute is called (so that a harmless rename in
    the code under test cannot turn into a hang).  Returns {attribute: replacement}."""
    import queue
    lock_t, rlock_t = type(threading.Lock()), type(threading.RLock())
    out = {}
    for name, val in list(vars(obj).items()):
        if isinstance(val, lock_t):
            out[name] = SchedLock(sched, name)
        elif isinstance(val, rlock_t):
            out[name] = SchedRLock(sched, name)
        elif isinstance(val, queue.SimpleQueue):
            q = SchedQueue(sched, name)
            while not val.empty():
                q.items.append(val.get())
            out[name] = q
    for name, val in out.items():
        setattr(obj, name, val)
    return out
