"""Ground-truth task forests and their messages, for the parser properties.

tree  := ["M", type]                       a message
       | ["A", type, status, [tree...]]    an action (status succeeded|failed); "eliot:remote_task" for remote sub-tasks
A task is one top-level action, or a single context-less message.
"""
import json

from .coqbridge import Nat, Pos, Some, C, to_coq

STATUS = {"started": "PStarted", "succeeded": "PSucceeded", "failed": "PFailed"}


def gen_tree(rng, depth, width, p_action=0.45):
    if depth > 0 and rng.random() < p_action:
        n = rng.randrange(0, width + 1)
        t = rng.choice([10, 10, 11, 12, 4, 5])    # 4 = eliot:remote_task, 5 = "" (start_action's default)
        return ["A", t, rng.choice(["succeeded", "succeeded", "failed"]),
                [gen_tree(rng, depth - 1, width, p_action) for _ in range(n)]]
    return ["M", rng.choice([10, 11, 12, 13])]


def gen_forest(rng, n_tasks, depth, width):
    forest = []
    for _ in range(n_tasks):
        if rng.random() < 0.15:
            forest.append(["M", rng.choice([10, 11])])
        else:
            n = rng.randrange(0, width + 1)
            forest.append(["A", rng.choice([10, 11, 12, 5]), rng.choice(["succeeded", "failed"]),
                           [gen_tree(rng, depth - 1, width) for _ in range(n)]])
    return forest


def linearize(forest):
    """messages of a forest, in emission order; each {"u": task index, "l": level, "t": type,
    "s": status|None (None = plain message), "id": index}"""
    out = []

    def walk(u, tree, prefix, pos):
        if tree[0] == "M":
            out.append({"u": u, "l": prefix + [pos], "t": tree[1], "s": None})
            return
        me = prefix + [pos] if pos is not None else prefix
        out.append({"u": u, "l": me + [1], "t": tree[1], "s": "started"})
        k = 2
        for ch in tree[3]:
            walk(u, ch, me, k)
            k += 1
        out.append({"u": u, "l": me + [k], "t": tree[1], "s": tree[2]})

    for u, tree in enumerate(forest):
        if tree[0] == "M":
            out.append({"u": u, "l": [1], "t": tree[1], "s": None})
        else:
            walk(u, tree, [], None)
    for i, m in enumerate(out):
        m["id"] = i
    return out


def type_name(t):
    return {4: "eliot:remote_task", 5: ""}.get(t, "type%d" % t)


def to_dict(m):
    # clocks are not synchronised between the machines/processes that log one task (remote sub-tasks), and wall clocks
    # step backwards: timestamps of odd-numbered tasks are scrambled, those of even-numbered ones increase
    ts = 1.0 + m["id"] if m["u"] % 2 == 0 else float((m["id"] * 7919 + 13) % 101)
    d = {"task_uuid": "uuid-%d" % m["u"], "task_level": list(m["l"]), "timestamp": ts, "id": m["id"]}
    if m["s"] is None:
        d["message_type"] = type_name(m["t"])
    else:
        d["action_type"] = type_name(m["t"])
        d["action_status"] = m["s"]
    return d


def c_pmsg(m):
    return C("mkPmsg", Nat(m["u"]), [Pos(k) for k in m["l"]],
             None if m["s"] is None else Some(Pos(m["t"])),
             None if m["s"] is None else Some(C(STATUS[m["s"]])), Nat(m["id"]))


# ---- dumps ---------------------------------------------------------------------

def dump_real(node):
    """canonical dump of a WrittenAction / WrittenMessage through its public API"""
    from eliot.parse import WrittenAction
    if isinstance(node, WrittenAction):
        return ["A", node.task_level.as_list(),
                None if node.start_message is None else node.start_message.contents["id"],
                None if node.end_message is None else node.end_message.contents["id"],
                [dump_real(c) for c in node.children]]
    return ["M", node.contents["id"]]


def dump_model(node):
    """same dump from the parsed Coq value of a [node]"""
    if node[0] == "NMsg":
        return ["M", node[1][5]]
    _, st, en, lvl, uuid, ch = node

    def mid(x):
        return None if x is None else x[1][5]
    return ["A", list(lvl), mid(st), mid(en), [dump_model(c[1]) for c in ch]]


def model_task(t):
    """parsed Coq [task] -> [is_complete, root dump]"""
    _, nodes, completed = t
    root = None
    for k, n in nodes:
        if list(k) == []:
            root = n
    return [any(list(c) == [] for c in completed), dump_model(root) if root is not None else None]
