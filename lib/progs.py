"""Logging programs: generator, real-eliot interpreter, rendering as Gallina
terms for Model/Prog.v, and canonicalisation of what both sides observed.

JSON forms
  value   {"i": n} | {"a": atom}            (ints; any other value, from VALUES)
  type    atom (>= 10: "type<n>"; 1..5 the library's own type names)
  fields  [[key_atom, value], ...]          key atoms >= 20 are user fields "f<n>"
  exn     {"id": n, "cls": class id, "text": atom, "sr": bool}
  serfn   ["id"] | ["succ", exn] | ["double", exn] | ["const", z] | ["fail", exn] | ["failneg", exn]
  stmt    ["msg", type, fields, ser|None, api]          api: log_message | Message.log | Message.new | Message.bind | Message.write_action | typed
          ["actlog", h, type, fields]
          ["act", h, style, task, type, fields, sers|None, succ, body, api]
                 style: with | ctx | run ; sers: {"start": [[k, serfn]..], "success": [...]} ; api: start_action | ActionType
          ["raise", exn] | ["try", body] | ["tb", exn]
          ["handoff", h, slot, h2, c2, body, via]       via: bytes | str | preserve
          ["reenter", h, body, how]                     how: context | run
          ["finish_again", h, exn|None]
          ["handler", body]                              body runs inside an `except` block (an unrelated exception is being
                                                        handled); for the model the body's statements are simply in sequence
  case    {"classes": [[id, [base ids], ...]], "registry": [[cls, ["fields", fields] | ["raise", exn]]],
           "dests": [[id, behave, exn]], "pre": [...ops before the program...], "prog": [stmt...]}
"""
import json
import re
import sys
import threading

from .coqbridge import Z, Pos, Nat, Some, C, Raw, to_coq

RESERVED = {"task_uuid": 1, "task_level": 2, "timestamp": 3, "action_type": 4, "message_type": 5,
            "action_status": 6, "exception": 7, "reason": 8, "traceback": 9, "message": 10}
RESERVED_REV = {v: k for k, v in RESERVED.items()}
TYPE_NAMES = {1: "eliot:destination_failure", 2: "eliot:traceback", 3: "eliot:serialization_failure",
              4: "eliot:remote_task", 5: ""}
TYPE_REV = {v: k for k, v in TYPE_NAMES.items()}
SAFEFAIL = "eliot: unknown, str() raised exception"
FOREIGN_CLASSES = {"orjson.JSONEncodeError": 15, "builtins.TypeError": 15}    # what a FileDestination raises

# builtin exception classes with fixed ids
BUILTIN_CLASSES = {1: "BaseException", 2: "Exception", 3: "KeyError", 4: "KeyboardInterrupt", 5: "GeneratorExit",
                   6: "CancelledError", 7: "SystemExit", 8: "ValueError", 9: "RuntimeError", 11: "LookupError",
                   12: "TypeError", 13: "ArithmeticError", 14: "ZeroDivisionError"}

# JSON-native value pool for atoms 20.. (index = atom - 20)
VALUES = ["", "x", "héllo\nwor\tld", "\U0001f600 astral", 1.5, -2.25e10, None, True, False, [1, 2, 3], [],
          {}, {"a": [1, {"b": None}]}, "quote\"back\\slash", " sep", [[["deep"]]], 1e-7, "0", "null",
          {"k": "v", "n": 0}, "ctrl\x01\x1f", "long " * 40, [True, None, 1.25], "7", 3.0e100, {"": ""},
          "\x7f", "tab\t", [{"x": []}], "end", 1.0, 0.0]
N_VALUES = len(VALUES)


def key_name(k):
    return RESERVED_REV.get(k) or ("f%d" % k)


def type_name(t):
    return TYPE_NAMES.get(t, "type%d" % t)


HOSTILE_LO, HOSTILE_HI = 60, 71
UNENCODABLE = [60, 61, 62, 63, 64, 65, 66, 70]     # what a FileDestination (orjson + json_default) cannot write


class _Handled(Exception):
    """the unrelated exception that is being handled while a ["handler", body] statement runs its body"""


class Hostile(object):
    """Application value whose str/repr raise and that JSON cannot encode."""
    def __str__(self):
        raise RuntimeError("hostile str")
    __repr__ = __str__


class OneShot(object):
    """an application's one-shot iterator: logging it must not advance it"""
    def __init__(self):
        self.taken = 0

    def __iter__(self):
        return self

    def __next__(self):
        self.taken += 1
        if self.taken > 3:
            raise StopIteration
        return self.taken


ONESHOT = OneShot()


def _deep(n):
    x = []
    for _ in range(n):
        x = [x]
    return x


HOSTILE = {60: Hostile(), 61: 2 ** 64, 62: b"by\xfftes", 63: "lone\ud800surrogate", 64: object(), 65: _deep(300),
           66: {1: "non-string key"}, 67: float("nan"), 68: {"a-set-member"}, 69: complex(1, -2), 70: ONESHOT}
HOSTILE_ID = {id(v): k for k, v in HOSTILE.items()}


def is_hostile_atom(a):
    return HOSTILE_LO <= a < HOSTILE_HI


def norm_atom(a):
    return a if is_hostile_atom(a) else 20 + (a - 20) % N_VALUES


def py_value(v):
    if "i" in v:
        return v["i"]
    if "t" in v:
        return type_name(v["t"])
    a = v["a"]
    if is_hostile_atom(a):
        return HOSTILE[a]
    return VALUES[(a - 20) % N_VALUES]


def _valkey(x):
    return json.dumps(x, sort_keys=True)


VALUE_REV = {}
for _i, _v in enumerate(VALUES):
    VALUE_REV[_valkey(_v)] = 20 + _i


# ---------------------------------------------------------------------------
# rendering as Gallina

def c_val(v):
    if "i" in v:
        return C("VInt", Z(v["i"]))
    if "t" in v:
        return C("VTypeName", Pos(v["t"]))
    return C("VAtom", Pos(norm_atom(v["a"])))


def c_type(t):
    return C("VTypeName", Pos(t))


def c_fields(fs):
    return [(Pos(k), c_val(v)) for k, v in fs]


def c_exn(e):
    return C("mkExn", Nat(e["id"]), Pos(e["cls"]), Pos(e["text"]), bool(e["sr"]))


def c_opt(x, f):
    return None if x is None else Some(f(x))


def c_serfn(f):
    name = f[0]
    if name == "id":
        return C("FId")
    if name == "const":
        return C("FConst", Z(f[1]))
    return C({"succ": "FSucc", "double": "FDouble", "fail": "FFail", "failneg": "FFailNeg"}[name], c_exn(f[1]))


def c_serlist(l):
    return [(Pos(k), c_serfn(f)) for k, f in l]


def c_behave(b):
    name = b[0]
    if name in ("never", "always", "on_end", "on_start", "on_reports", "not_reports"):
        return C({"never": "BNever", "always": "BAlways", "on_end": "BOnEnd", "on_start": "BOnStart",
                  "on_reports": "BOnReports", "not_reports": "BNotReports"}[name])
    if name == "mask":
        return C("BMask", [bool(x) for x in b[1]])
    if name == "cycle":
        return C("BCycle", [bool(x) for x in b[1]])
    if name == "on_atom":
        return C("BOnAtom", Pos(norm_atom(b[1])))
    if name == "file":
        return C("BFile", [Pos(a) for a in UNENCODABLE])
    if name in ("crashfile", "realfile"):
        return C("BNever")
    raise ValueError(b)


def c_stmt(st):
    k = st[0]
    if k == "msg":
        _, t, fs, ser, api = st
        return C("SMsg", c_type(t), c_fields(fs), c_opt(ser, lambda s: C("message_ser", c_type(t), c_serlist(s))))
    if k == "actlog":
        _, h, t, fs = st
        return C("SActLog", Nat(h), c_type(t), c_fields(fs))
    if k == "act":
        _, h, style, task, t, fs, sers, succ, body, api = st
        if api == "log_call":
            fs = fs + [[17, {"a": 30}], [18, {"a": 31}]]      # *f17 -> () (JSON []), **f18 -> {}
        return C("SAct", Nat(h), C({"with": "WithBlock", "ctx": "CtxFinish", "run": "RunFinish"}[style]), bool(task),
                 c_type(t), c_fields(fs),
                 c_opt(sers, lambda s: C("action_sers", c_type(t), c_serlist(s["start"]), c_serlist(s["success"]))),
                 c_fields(succ), c_stmts(body))
    if k == "raise":
        return C("SRaise", c_exn(st[1]))
    if k == "try":
        return C("STry", c_stmts(st[1]))
    if k == "tb":
        return C("STraceback", c_exn(st[1]))
    if k == "handoff":
        _, h, slot, h2, c2, body, via = st
        return C("SHandoff", Nat(h), Nat(slot), Nat(h2), Nat(c2), c_stmts(body))
    if k == "reenter":
        return C("SReenter", Nat(st[1]), c_stmts(st[2]))
    if k == "finish_again":
        return C("SFinishAgain", Nat(st[1]), c_opt(st[2], c_exn))
    if k == "rawwrite":
        _, t, fs, ser = st
        return C("SRawWrite", c_fields(fs), c_opt(ser, lambda x: C("message_ser", c_type(t), c_serlist(x))))
    raise ValueError(st)


def c_stmts(stmts):
    out = []
    for st in stmts:
        if st[0] == "handler":
            out += c_stmts(st[1])
        else:
            out.append(c_stmt(st))
    return out


def c_dest(d):
    did, b, e = d
    return C("mk_dest", Nat(did), c_behave(b), c_exn(e))


def c_preop(o):
    """operations before/around the program, in context 0"""
    k = o[0]
    if k == "add":
        return (Nat(0), C("OAddDests", [c_dest(d) for d in o[1]]))
    if k == "remove":
        return (Nat(0), C("ORemoveDest", Nat(o[1])))
    if k == "globals":
        return (Nat(0), C("OAddGlobals", c_fields(o[1])))
    raise ValueError(o)


def mros_of(case):
    """class id -> MRO as ids, computed by Python itself from the generated hierarchy"""
    classes = build_classes(case["classes"])
    rev = {v: k for k, v in classes.items()}
    out = []
    for cid, cls in sorted(classes.items()):
        out.append((cid, [rev[k] for k in cls.__mro__ if k in rev]))
    return out


def c_config(case):
    mros = [(Pos(c), [Pos(x) for x in m]) for c, m in mros_of(case)]
    reg = []
    for cls, x in case.get("registry", []):
        reg.append((Pos(cls), C("XFields", c_fields(x[1])) if x[0] == "fields" else C("XRaise", c_exn(x[1]))))
    # later registrations replace earlier ones: keep the last per class
    seen, out = set(), []
    for c, x in reversed(reg):
        if c.n not in seen:
            seen.add(c.n)
            out.append((c, x))
    return C("mk_config", mros, list(reversed(out)))


def all_dest_ids(case):
    """recording destinations (compared with the model); real file destinations only show through reports"""
    ids = []
    for o in case.get("pre", []):
        if o[0] == "add":
            ids += [d[0] for d in o[1] if d[1][0] not in ("file", "crashfile", "realfile")]
    return ids


def model_expr(case):
    pre = [c_preop(o) for o in case.get("pre", [])]
    prog = c_stmts(case["prog"])
    ids = [Nat(i) for i in all_dest_ids(case)]
    return ("let r := run_prog %s %s %s in (observe (fst r) %s, snd r)"
            % (to_coq(c_config(case)), to_coq(pre), to_coq(prog), to_coq(ids)))


# ---------------------------------------------------------------------------
# parsing the model's observation

def m_val(v):
    if isinstance(v, tuple):
        h = v[0]
        if h == "VInt":
            return ["i", v[1]]
        if h == "VAtom":
            return ["a", v[1]]
        if h == "VUuid":
            return ["u", v[1]]
        if h == "VLevel":
            return ["l", list(v[1])]
        if h == "VStatus":
            return ["status", {"Started": "started", "Succeeded": "succeeded", "Failed": "failed"}[v[1]]]
        if h == "VClassName":
            return ["cls", v[1]]
        if h == "VRender":
            u = v[1][1] if isinstance(v[1], tuple) else None
            l = list(v[2][1]) if isinstance(v[2], tuple) else None
            return ["render", u, l]
        if h == "VTypeName":
            return ["t", v[1]]
        if h == "VExnObj":
            return ["exnobj"]
    if v == "VTime":
        return ["time"]
    if v == "VSafeFail":
        return ["safefail"]
    if v == "VTb":
        return ["tb"]
    raise ValueError("unexpected model value %r" % (v,))


def m_msg(m):
    return sorted([[k, m_val(v)] for k, v in m])


def m_exn(e):
    # Some (mkExn id cls text sr)
    if e is None:
        return None
    _, x = e
    return x[1]


def model_obs(case, parsed):
    (traces, probes), out = parsed
    obs = {"dests": [[i, [m_msg(m) for m in ms]] for i, ms in traces],
           "probes": [[c, (h[1] if isinstance(h, tuple) else None)] for c, h in probes],
           "outcome": m_exn(out)}
    return rename_uuids(obs)


def rename_uuids(obs):
    table = {}

    def ren(u):
        if u is None:
            return None
        if u not in table:
            table[u] = len(table)
        return table[u]
    for _, msgs in obs["dests"]:
        for m in msgs:
            for kv in m:
                v = kv[1]
                if v[0] == "u":
                    v[1] = ren(v[1])
            for kv in m:
                v = kv[1]
                if v[0] == "render":
                    v[1] = ren(v[1])
    return obs


# ---------------------------------------------------------------------------
# the real thing

def build_classes(spec):
    import asyncio
    classes = {1: BaseException, 2: Exception, 3: KeyError, 4: KeyboardInterrupt, 5: GeneratorExit,
               6: asyncio.CancelledError, 7: SystemExit, 8: ValueError, 9: RuntimeError, 11: LookupError,
               12: TypeError, 13: ArithmeticError, 14: ZeroDivisionError}
    for cid, bases in spec:
        def __str__(self):
            sr = getattr(self, "sr", False)
            if sr == 2:
                raise StrExit("str raises something that is not an Exception")
            if sr:
                raise RuntimeError("str raises")
            return self.args[0] if self.args else ""

        def __repr__(self):
            if getattr(self, "rr", False):
                raise AttributeError("repr raises")
            return "Cls(%r)" % (self.args,)

        def __bool__(self):
            return not getattr(self, "falsy", False)
        classes[cid] = type("Cls%d" % cid, tuple(classes[b] for b in bases),
                            {"__str__": __str__, "__repr__": __repr__, "__bool__": __bool__, "__module__": "verifgen"})
    return classes


class LoggingRaised(BaseException):
    pass


class StrExit(BaseException):
    """raised by str() of some generated exceptions: not an Exception subclass"""


EMPTY_TEXT = 120       # text atom of exceptions whose str() is the empty string


def exn_text(t):
    return "" if t == EMPTY_TEXT else "text%d" % t


class SimCrash(BaseException):
    """the process dies here"""


class CrashFile(object):
    """binary file object that 'kills the process' while performing its n-th operation
    (operations = write and flush calls, 0-based); a write may transfer a byte prefix first"""

    def __init__(self, crash_at, cut):
        self.crash_at, self.cut = crash_at, cut
        self.ops = 0
        self.buf = b""
        self.dead = False
        self.completed_writes = 0
        self.write_lens = []
        self.interrupted = None
        self.log = []

    def write(self, data):
        if self.dead:
            return
        if not isinstance(data, bytes):
            raise TypeError("bytes required")
        if data == b"" and self.ops == 0 and not self.log:
            self.log.append("probe")
            return 0
        self.write_lens.append(len(data))
        if self.ops == self.crash_at:
            if self.cut is not None:
                self.buf += data[:self.cut]
            self.dead = True
            self.interrupted = data
            raise SimCrash()
        self.buf += data
        self.ops += 1
        self.completed_writes += 1
        return len(data)

    def flush(self):
        if self.dead:
            return
        if self.ops == self.crash_at:
            self.dead = True
            raise SimCrash()
        self.ops += 1


class Interp(object):
    def __init__(self, case):
        import eliot
        from eliot import _output, _errors
        self.eliot = eliot
        self.case = case
        self.classes = build_classes(case["classes"])
        self.class_rev = {}
        for cid, cls in self.classes.items():
            self.class_rev[cls.__module__ + "." + cls.__name__] = cid
        self.actions = {}
        self.handle_of = {}
        self.raised = {}
        self.probes = []
        self.ids = {}
        self.notes = []
        self.dests = {}
        self.ser_calls = []
        self.files = {}
        self.passthrough_keys = set()
        self.crashfile = None
        self.on_return = None
        self.gate = None          # scheduler hook: called before every model-level operation
        self.events = []
        self.forest = []          # the interpreter's own record of what it did (C01 oracle)
        self.tnode = {}           # handle -> its shadow node
        self.shadow = {0: []}
        self.arec = {}
        self.lock = threading.Lock()
        # pristine output state
        self.destinations = _output.Destinations()
        _output.Logger._destinations = self.destinations
        _errors._error_extraction.registry.clear()
        for cls, x in case.get("registry", []):
            eliot.register_exception_extractor(self.classes[cls], self.make_extractor(x))
        self.types = {}

    # -- values
    def fields(self, fs):
        return {key_name(k): py_value(v) for k, v in fs}

    def make_exn(self, e):
        cls = self.classes[e["cls"]]
        try:
            obj = cls(exn_text(e["text"]))
        except Exception:
            obj = cls()
        try:
            # str() raises: an Exception (even ids) or a BaseException-only class (odd ids); repr() raises for every third
            obj.sr = (2 if e["id"] % 2 else 1) if e["sr"] else 0
            obj.rr = e["id"] % 3 == 0
            obj.falsy = bool(e.get("falsy", False))
        except Exception:
            pass
        return obj

    def make_extractor(self, x):
        if x[0] == "fields":
            # the extractor hands out a dictionary that belongs to the application (the same object every time,
            # as `lambda e: e.__dict__` or `lambda e: e.details` do): logging must leave it alone
            fs = self.fields(x[1])
            self.app_dicts = getattr(self, "app_dicts", [])
            self.app_dicts.append((fs, dict(fs)))
            return lambda e: fs
        exn = x[1]

        def bad(e):
            raise self.make_exn(exn)
        return bad

    def prebuilt_exn(self, e):
        """serializers raise a pre-built exception object: the SAME instance every time they fail"""
        cache = self.__dict__.setdefault("_prebuilt", {})
        if e["id"] not in cache:
            cache[e["id"]] = self.make_exn(e)
        return cache[e["id"]]

    def make_serfn(self, key, f):
        name = f[0]
        calls = self.ser_calls

        def fn(v):
            calls.append([key, canon_value(v, self)])
            if name == "id":
                return v
            if name == "const":
                return f[1]
            # atoms (incl. the hostile 2**64) are opaque to the serializer library: only {"i": n} values are ints
            isint = isinstance(v, int) and not isinstance(v, bool) and id(v) not in HOSTILE_ID
            if name == "succ":
                if isint:
                    return v + 1
                raise self.prebuilt_exn(f[1])
            if name == "double":
                if isint:
                    return 2 * v
                raise self.prebuilt_exn(f[1])
            if name == "fail":
                raise self.prebuilt_exn(f[1])
            if name == "failneg":
                if isint and v < 0:
                    raise self.prebuilt_exn(f[1])
                return v
            raise AssertionError(name)
        return fn

    def make_fields(self, l):
        from eliot import Field
        out = []
        for k, f in l:
            if f[0] == "id" and k % 2 == 0:
                # the library's own pass-through field (Field.for_types): accepts every JSON type here
                out.append(Field.for_types(key_name(k), [str, int, float, bool, list, dict, None], ""))
                self.passthrough_keys.add(k)
            else:
                out.append(Field(key_name(k), self.make_serfn(k, f), ""))
        return out

    def message_type(self, t, ser):
        from eliot import MessageType
        key = ("m", t, json.dumps(ser))
        if key not in self.types:
            self.types[key] = MessageType(type_name(t), self.make_fields(ser), "")
        return self.types[key]

    def action_type(self, t, sers):
        from eliot import ActionType
        key = ("a", t, json.dumps(sers, sort_keys=True))
        if key not in self.types:
            self.types[key] = ActionType(type_name(t), self.make_fields(sers["start"]), self.make_fields(sers["success"]), "")
        return self.types[key]

    # -- destinations
    def make_dest(self, d):
        did, b, e = d
        interp = self
        if b[0] == "file":
            import io
            from eliot import FileDestination
            f = io.BytesIO()
            self.files[did] = f
            return FileDestination(file=f)
        if b[0] == "crashfile":
            from eliot import FileDestination
            self.crashfile = CrashFile(b[1], b[2])
            return FileDestination(file=self.crashfile)
        if b[0] == "realfile":
            from eliot import FileDestination
            # b[2] == "text": a text-mode log file (as to_file(open(path, "a")) or sys.stdout give)
            self.realfile = open(b[1], "a", encoding="utf-8", newline="") if len(b) > 2 and b[2] == "text" else open(b[1], "ab")
            return FileDestination(file=self.realfile)

        class Rec(object):
            def __init__(self):
                self.calls = 0
                self.log = []
                self.objs = []
                self.threads = []
                self.fails = []
                self.exn = e

            def __call__(self, message):
                n = self.calls
                self.calls += 1
                self.log.append(dict(message))
                self.objs.append(message)          # a destination may keep the objects it is given (list.append does)
                self.threads.append(threading.get_ident())
                bad = behave_py(b, n, message, interp)
                self.fails.append(bool(bad))
                if bad:
                    raise interp.make_exn(e)

            if interp.case.get("equal_dests"):
                # value-equal destination objects (as FileDestinations on one file, list-subclass collectors, dataclass
                # destinations are): distinct registrations all the same
                def __eq__(self, other):
                    return type(other).__name__ == "Rec"

                def __hash__(self):
                    return 7
        r = Rec()
        self.dests[did] = r
        return r

    def preop(self, o):
        k = o[0]
        if k == "add":
            self.destinations.add(*[self.make_dest(d) for d in o[1]])
        elif k == "remove":
            try:
                self.destinations.remove(self.dests[o[1]])
            except (ValueError, KeyError):
                self.notes.append("remove_unknown")
        elif k == "globals":
            self.destinations.addGlobalFields(**self.fields(o[1]))

    # -- probes
    def g(self, c):
        if self.gate is not None:
            self.gate(c)

    def probe(self, c):
        self.g(c)
        a = self.eliot.current_action()
        got = None if a is None else self.handle_of.get(id(a), -1)
        self.probes.append([c, got])
        st = self.shadow.setdefault(c, [])
        want = st[-1] if st else None
        if got != want:
            self.notes.append("probe_mismatch:ctx%d:got=%s:want=%s" % (c, got, want))

    def window(self, kind, c, **info):
        """record which messages destination 1 was offered, and which field serializers ran, during a typed logging call"""
        interp = self

        class W(object):
            def __enter__(w):
                d = interp.dests.get(1)
                w.lo = len(d.log) if d else 0
                w.slo = len(interp.ser_calls)
                st = interp.shadow.setdefault(c, [])
                w.cur = st[-1] if st else None
                return w

            def __exit__(w, *a):
                d = interp.dests.get(1)
                ev = dict(info)
                ev.update({"kind": kind, "lo": w.lo, "hi": len(d.log) if d else 0, "slo": w.slo,
                           "shi": len(interp.ser_calls), "cur": w.cur})
                interp.events.append(ev)
                return False
        return W()

    def shadow_parent_children(self, c):
        st = self.shadow.setdefault(c, [])
        if st and st[-1] in self.tnode:
            return self.tnode[st[-1]]["children"]
        return None

    def shadow_msg(self, c, t, fs, h=None, ser=None):
        node = {"k": "M", "type": type_name(t), "fields": fs, "ser": ser}
        ch = self.tnode[h]["children"] if h is not None else self.shadow_parent_children(c)
        if ch is None:
            self.forest.append(node)
        else:
            ch.append(node)

    def push(self, c, h):
        self.shadow.setdefault(c, []).append(h)

    def pop(self, c):
        self.shadow[c].pop()

    def register(self, h, action):
        self.actions[h] = action
        self.handle_of[id(action)] = h

    # -- logging calls: anything they raise is a property violation, recorded
    def call(self, what, fn, *a, **kw):
        try:
            r = fn(*a, **kw)
            if self.on_return is not None:
                self.on_return()
            return r
        except BaseException as e:
            self.notes.append("logging_raised:%s:%s" % (what, type(e).__name__))
            raise LoggingRaised(what)

    # -- statements
    def block(self, stmts, c):
        for st in stmts:
            if self.case.get("reseed"):
                import random as _random
                _random.seed(12345)      # applications reseed the global PRNG; task uuids must stay unique
            try:
                self.stmt(st, c)
            finally:
                if st[0] != "handler":      # its body's statements are probed one by one
                    self.probe(c)

    def start(self, st):
        _, h, style, task, t, fs, sers, succ, body, api = st
        el = self.eliot
        kw = self.fields(fs)
        if sers is not None:
            at = self.action_type(t, sers)
            with self.window("start", self.cur_ctx, decl=sers["start"], logged=fs, t=t, h=h):
                a = self.call("ActionType", at.as_task if task else at, **kw)
        elif task:
            if h % 4 == 1 and not self.case.get("swapped_logger"):     # an explicit Logger object (all loggers share the process-wide destinations)
                a = self.call("start_task", el.start_task, el.Logger(), type_name(t), **kw)
            else:
                a = self.call("start_task", el.start_task, action_type=type_name(t), **kw)
        else:
            if h % 4 == 1 and not self.case.get("swapped_logger"):
                a = self.call("start_action", el.start_action, el.Logger(), type_name(t), **kw)
            else:
                a = self.call("start_action", el.start_action, action_type=type_name(t), **kw)
        self.register(h, a)
        return a

    def check_same(self, caught, where):
        """an exception seen by application code must be the very object the application raised"""
        if isinstance(caught, LoggingRaised):
            raise caught
        if not any(caught is x for x in self.raised.values()):
            self.notes.append("foreign_exception:%s:%s" % (where, type(caught).__name__))
            raise LoggingRaised(where)

    def stmt(self, st, c):
        el = self.eliot
        k = st[0]
        if k == "msg":
            _, t, fs, ser, api = st
            kw = self.fields(fs)
            self.g(c)
            self.shadow_msg(c, t, fs, ser=ser if api == "typed" else None)
            if api == "typed" and ser is not None:
                with self.window("msg", c, decl=ser, logged=fs, t=t):
                    self.call("MessageType.log", self.message_type(t, ser).log, **kw)
            elif api == "Message.log":
                self.call("Message.log", el.Message.log, message_type=type_name(t), **kw)
            elif api == "Message.new":
                m = self.call("Message.new", el.Message.new, message_type=type_name(t), **kw)
                self.call("Message.write", m.write)
            elif api == "Message.bind":
                # fields added in two steps: bind() returns a new message with the union
                items = sorted(kw.items())
                first, second = dict(items[:len(items) // 2]), dict(items[len(items) // 2:])
                m = self.call("Message.new", el.Message.new, message_type=type_name(t), **first)
                m2 = self.call("Message.bind", m.bind, **second)
                self.call("Message.write", m2.write)
            elif api == "Message.write_logger":
                m = self.call("Message.new", el.Message.new, message_type=type_name(t), **kw)
                if self.case.get("swapped_logger"):     # the run is captured by swapping the default logger: use that one
                    self.call("Message.write", m.write)
                else:
                    self.call("Message.write", m.write, el.Logger())
            elif api == "Message.write_action":
                # the current action passed explicitly
                m = self.call("Message.new", el.Message.new, message_type=type_name(t), **kw)
                self.call("Message.write", m.write, action=el.current_action())
            else:
                self.call("log_message", el.log_message, message_type=type_name(t), **kw)
        elif k == "actlog":
            _, h, t, fs = st
            self.g(c)
            self.shadow_msg(c, t, fs, h=h)
            self.call("Action.log", self.actions[h].log, message_type=type_name(t), **self.fields(fs))
        elif k == "act":
            _, h, style, task, t, fs, sers, succ, body, api = st
            st_now = self.shadow.setdefault(c, [])
            rec = {"exc": None, "task": bool(task), "parent": (st_now[-1] if st_now else None), "style": style,
                   "finished": False}
            self.arec[str(h)] = rec
            node = {"k": "A", "type": type_name(t), "h": h, "start": fs, "sers": sers, "succ": succ, "children": [], "rec": rec,
                    "api": api}
            pch = None if task else self.shadow_parent_children(c)
            (self.forest if pch is None else pch).append(node)
            self.tnode[h] = node
            self.cur_ctx = c
            if api == "log_call":
                self.run_log_call(st, c, rec)
                return
            self.g(c)
            a = self.start(st)
            self.g(c)
            if style == "with":
                try:
                    with a:
                        self.push(c, h)
                        try:
                            self.probe(c)
                            self.block(body, c)
                            self.g(c)
                            self.call("add_success_fields", a.add_success_fields, **self.fields(succ))
                        except LoggingRaised:
                            raise
                        except BaseException as e0:
                            rec["exc"] = self.exc_id(e0)
                            raise
                        finally:
                            self.g(c)
                            self.pop(c)
                            rec["finished"] = True
                            w = self.window("end", c, decl=(sers or {}).get("success"), logged=succ, t=t, h=h,
                                            failed=rec["exc"] is not None, typed=sers is not None)
                            w.__enter__()
                    w.__exit__()
                except LoggingRaised:
                    raise
                except BaseException as e:
                    w.__exit__()
                    self.check_same(e, "with")
                    raise
            else:
                exc = None

                def run_body():
                    self.push(c, h)
                    try:
                        self.probe(c)
                        self.block(body, c)
                        self.g(c)
                        self.call("add_success_fields", a.add_success_fields, **self.fields(succ))
                    finally:
                        self.g(c)
                        self.pop(c)
                try:
                    if style == "ctx":
                        with a.context():
                            run_body()
                    else:
                        a.run(run_body)
                except LoggingRaised:
                    raise
                except BaseException as e:
                    self.check_same(e, style)
                    exc = e
                    rec["exc"] = self.exc_id(e)
                self.probe(c)
                rec["finished"] = True
                self.g(c)
                with self.window("end", c, decl=(sers or {}).get("success"), logged=succ, t=t, h=h,
                                 failed=exc is not None, typed=sers is not None):
                    self.call("finish", a.finish, exc)
                if exc is not None:
                    raise exc
        elif k == "raise":
            e = self.make_exn(st[1])
            self.raised[st[1]["id"]] = e
            raise e
        elif k == "try":
            try:
                self.block(st[1], c)
            except LoggingRaised:
                raise
            except BaseException as e:
                self.check_same(e, "try")
        elif k == "handler":
            try:
                raise _Handled("being handled")
            except _Handled:
                self.block(st[1], c)
        elif k == "tb":
            e = self.make_exn(st[1])
            self.g(c)
            self.shadow_msg(c, 2, [], ser=None)
            marker = object()

            def thrower():
                kept_local = marker
                raise e
            try:
                thrower()
            except BaseException as caught:
                self.call("write_traceback", el.write_traceback)
                tb = caught.__traceback__
                while tb is not None and tb.tb_frame.f_code.co_name != "thrower":
                    tb = tb.tb_next
                if tb is None or tb.tb_frame.f_locals.get("kept_local") is not marker:
                    self.notes.append("caller_dict_mutated:write_traceback() wiped the local variables of the frames on the traceback")
        elif k == "handoff":
            _, h, slot, h2, c2, body, via = st
            from eliot import Action, preserve_context
            box = []
            inline = via.endswith("_inline")
            via = via.replace("_inline", "")
            if not inline:
                self.shadow[c2] = []
            self.arec[str(h2)] = {"exc": None, "task": False, "parent": None, "style": "remote", "finished": False,
                                  "remote_of": h}
            node = {"k": "A", "type": "eliot:remote_task", "h": h2, "start": [], "sers": None, "succ": [], "children": [],
                    "rec": self.arec[str(h2)]}
            self.tnode[h]["children"].append(node)
            self.tnode[h2] = node

            def in_thread_body(a2):
                self.register(h2, a2)
                self.push(c2, h2)
                try:
                    self.probe(c2)
                    self.block(body, c2)
                except LoggingRaised:
                    raise
                except BaseException as e0:
                    self.arec[str(h2)]["exc"] = self.exc_id(e0)
                    raise
                finally:
                    self.pop(c2)
                    self.arec[str(h2)]["finished"] = True

            def guarded(fn):
                def target():
                    self.probe(c2)
                    try:
                        fn()
                    except LoggingRaised as e:
                        box.append(e)
                    except BaseException as e:
                        try:
                            self.check_same(e, "thread")
                        except LoggingRaised as e2:
                            box.append(e2)
                    self.probe(c2)
                return target

            if via == "preserve":
                def f():
                    in_thread_body(el.current_action())
                target = guarded(self.call("preserve_context", preserve_context, f))
            else:
                tid = self.call("serialize_task_id", self.actions[h].serialize_task_id)
                if via == "str":
                    tid = tid.decode("ascii")

                def via_id():
                    with self.call("continue_task", Action.continue_task, task_id=tid) as a2:
                        in_thread_body(a2)
                target = guarded(via_id)
            if inline:
                target()
            else:
                t = threading.Thread(target=target)
                t.start()
                t.join()
            if box:
                raise box[0]
        elif k == "reenter":
            _, h, body, how = st
            a = self.actions[h]

            def f():
                self.push(c, h)
                try:
                    self.probe(c)
                    self.block(body, c)
                finally:
                    self.g(c)
                    self.pop(c)
            self.g(c)
            if how == "run":
                a.run(f)
            else:
                with a.context():
                    f()
        elif k == "finish_again":
            exc = None if st[2] is None else self.make_exn(st[2])
            self.g(c)
            if st[1] in self.actions:   # an action whose statement never ran does not exist (model: no-op)
                self.call("finish", self.actions[st[1]].finish, exc)
        elif k == "rawwrite":
            _, t, fs, ser = st
            import copy
            from eliot import Logger
            self.g(c)
            # the application keeps ONE dictionary for its raw writes and refills it before each of them
            d = self.raw_shared = getattr(self, "raw_shared", {})
            d.clear()
            d.update(self.fields(fs))
            before = dict(d)
            serializer = None if ser is None else self.message_type(t, ser)._serializer
            with self.window("raw", c, decl=ser, logged=fs, t=t):
                self.call("Logger.write", Logger().write, d, serializer)
            if set(d.keys()) != set(before.keys()) or any(d[x] is not before[x] for x in before):
                self.notes.append("caller_dict_mutated")
        else:
            raise ValueError(st)

    def run_log_call(self, st, c, rec):
        """the action is made by a log_call-decorated function whose parameters are the start fields"""
        _, h, style, task, t, fs, sers, succ, body, api = st
        el = self.eliot
        names = [key_name(k) for k, _ in fs]
        src = "def fn(%s):\n    return __body__()\n" % ", ".join(names + ["*f17", "**f18"])
        interp = self

        def __body__():
            a = el.current_action()
            interp.register(h, a)
            interp.push(c, h)
            try:
                interp.probe(c)
                interp.block(body, c)
                interp.call("add_success_fields", a.add_success_fields, **interp.fields(succ))
            except LoggingRaised:
                raise
            except BaseException as e0:
                rec["exc"] = interp.exc_id(e0)
                raise
            finally:
                interp.pop(c)
                rec["finished"] = True
        ns = {"__body__": __body__, "__name__": "verifgen"}
        exec(src, ns)
        dec = el.log_call(action_type=type_name(t), include_result=False)(ns["fn"])
        try:
            dec(**self.fields(fs))
        except LoggingRaised:
            raise
        except BaseException as e:
            self.check_same(e, "log_call")
            raise

    def exc_id(self, e):
        ids = [i for i, x in self.raised.items() if x is e]
        return ids[0] if ids else "foreign:%s" % type(e).__name__

    def run(self):
        case = self.case
        outcome = None
        for o in case.get("pre", []):
            self.preop(o)
        try:
            self.block(case["prog"], 0)
        except LoggingRaised:
            outcome = "logging_raised"
        except BaseException as e:
            ids = [i for i, x in self.raised.items() if x is e]
            outcome = ids[0] if ids else "foreign:%s" % type(e).__name__
        obs = {"dests": [[i, [canon_msg(m, self) for m in self.dests[i].log]] for i in all_dest_ids(case)],
               "probes": self.probes, "outcome": outcome}
        obs = rename_uuids(obs)
        self.check_renders()
        obs["notes"] = self.notes
        obs["arec"] = self.arec
        obs["events"] = self.events
        obs["forest"] = self.forest
        obs["fails"] = {str(i): self.dests[i].fails for i in all_dest_ids(case)}
        obs["dest_exn"] = {str(i): self.dests[i].exn for i in all_dest_ids(case)}
        obs["files"] = {str(i): f.getvalue().decode("utf-8", "replace") for i, f in self.files.items()}
        obs["raw"] = {str(i): [raw_msg(m) for m in self.dests[i].log] for i in all_dest_ids(case)}
        obs["ser_calls"] = self.ser_calls
        return obs


def expected_render(message):
    """_safe_unicode_dictionary as documented: str of the dict of safe reprs"""
    def saferepr(o):
        try:
            return str(repr(o))
        except BaseException:
            return SAFEFAIL
    return str(dict((saferepr(k), saferepr(v)) for k, v in message.items()))


def _check_renders(self):
    """every failure report renders the message the report is about: the closest
    earlier non-report message offered to the same destination"""
    for did, d in self.dests.items():
        last = None
        for m in d.log:
            mt = m.get("message_type")
            if mt == "eliot:destination_failure":
                if last is None or m.get("message") != expected_render(last):
                    self.notes.append("render_mismatch:dest%s" % did)
            else:
                last = m
    for did, d in self.dests.items():
        objs = getattr(d, "objs", [])
        if len({id(o) for o in objs}) != len(objs):
            self.notes.append("delivered_message_changed:destination %s was handed the same dictionary object for several messages" % did)
        elif any(dict(o) != c for o, c in zip(objs, d.log)):
            self.notes.append("delivered_message_changed:a message object kept by destination %s changed after it was delivered" % did)
    for d, snapshot in getattr(self, "app_dicts", []):
        if list(d.keys()) != list(snapshot.keys()) or any(d[k] is not snapshot[k] for k in snapshot):
            self.notes.append("caller_dict_mutated:the dictionary returned by an exception extractor now has keys %r" % sorted(map(str, d.keys())))
    if ONESHOT.taken:
        self.notes.append("caller_dict_mutated:an iterator passed as a field value was advanced by %d items" % ONESHOT.taken)
        ONESHOT.taken = 0


Interp.check_renders = _check_renders


def behave_py(b, n, message, interp):
    name = b[0]
    if name == "never":
        return False
    if name == "always":
        return True
    if name == "mask":
        return n < len(b[1]) and bool(b[1][n])
    if name == "cycle":
        return bool(b[1]) and bool(b[1][n % len(b[1])])
    if name == "on_end":
        return message.get("action_status") in ("succeeded", "failed")
    if name == "on_start":
        return message.get("action_status") == "started"
    if name == "on_reports":
        return message.get("message_type") == "eliot:destination_failure"
    if name == "not_reports":
        return message.get("message_type") != "eliot:destination_failure"
    if name == "on_atom":
        a = norm_atom(b[1])
        # application field values only: library-made strings (e.g. the default action_type "") are not atoms
        return any(canon_value(v) == ["a", a] for k, v in message.items()
                   if isinstance(k, str) and k[:1] == "f" and k[1:].isdigit())
    raise ValueError(b)


def canon_value(v, interp=None):
    if id(v) in HOSTILE_ID:
        return ["a", HOSTILE_ID[id(v)]]
    if isinstance(v, int) and not isinstance(v, bool):
        return ["i", v]
    try:
        k = _valkey(v)
    except Exception:
        return ["?", type(v).__name__]
    if k in VALUE_REV:
        return ["a", VALUE_REV[k]]
    return ["?", k[:80]]


_RENDER_UUID = re.compile(r"\"'task_uuid'\": \"'([^']*)'\"")
_RENDER_LEVEL = re.compile(r"\"'task_level'\": '(\[[0-9, ]*\])'")


def canon_msg(m, interp):
    out = []
    for k, v in m.items():
        if k in RESERVED:
            kk = RESERVED[k]
        elif isinstance(k, str) and re.match(r"^f\d+$", k):
            kk = int(k[1:])
        else:
            out.append([0, ["?key", repr(k)]])
            continue
        if kk == 1:
            cv = ["u", v]
        elif kk == 2:
            cv = ["l", list(v)] if isinstance(v, list) else ["?", repr(v)]
        elif kk == 3:
            cv = ["time"] if isinstance(v, float) else ["badtime", repr(v)]
        elif kk in (4, 5):
            if v in TYPE_REV:
                cv = ["t", TYPE_REV[v]]
            elif isinstance(v, str) and re.match(r"^type\d+$", v):
                cv = ["t", int(v[4:])]
            else:
                cv = ["?", repr(v)]
        elif kk == 6:
            cv = ["status", v] if v in ("started", "succeeded", "failed") else canon_value(v)
        elif kk == 7:
            known_cls = FOREIGN_CLASSES.get(v, interp.class_rev.get(v)) if isinstance(v, str) and "." in v else None
            cv = ["cls", known_cls] if known_cls is not None else canon_value(v)
        elif kk == 8:
            if v == SAFEFAIL:
                cv = ["safefail"]
            elif isinstance(v, str) and re.match(r"^text\d+$", v):
                cv = ["a", int(v[4:])]
            elif v == "" and "exception" in m:
                cv = ["a", EMPTY_TEXT]
            elif isinstance(v, str) and re.match(r"^'f\d+'$", v):
                cv = ["a", 1000 + int(v[2:-1])]
            elif isinstance(v, str) and v[:1] == "'" and v[-1:] == "'" and v[1:-1] in RESERVED:
                cv = ["a", 1000 + RESERVED[v[1:-1]]]
            elif isinstance(v, str) and m.get("exception") in FOREIGN_CLASSES:
                cv = ["a", 1]      # text of an exception made by a library (orjson): not compared
            else:
                cv = canon_value(v)
        elif kk == 9:
            cv = ["tb"] if isinstance(v, str) else canon_value(v)
        elif kk == 10 and isinstance(v, str) and v.startswith("{"):
            mu = _RENDER_UUID.search(v)
            ml = _RENDER_LEVEL.search(v)
            cv = ["render", mu.group(1) if mu else None, json.loads(ml.group(1)) if ml else None]
        else:
            cv = canon_value(v)
        out.append([kk, cv])
    return sorted(out, key=lambda kv: kv[0])


def raw_msg(m):
    out = {}
    for k, v in m.items():
        try:
            json.dumps(v)
            out[str(k)] = v
        except Exception:
            out[str(k)] = "<%s>" % type(v).__name__
    return out


def run_case(case):
    return Interp(case).run()


def project(case, obs):
    return {"dests": obs["dests"], "probes": obs["probes"], "outcome": obs["outcome"]}


# ---------------------------------------------------------------------------
# generator

def _escapes(stmts):
    """does an exception escape this statement list (judged from the text)?"""
    for st in stmts:
        if st[0] == "raise":
            return True
        if st[0] == "act" and _escapes(st[8]):
            return True
        if st[0] == "reenter" and _escapes(st[2]):
            return True
        if st[0] == "handler" and _escapes(st[1]):
            return True
    return False


class Gen(object):
    def __init__(self, rng, depth=4, width=4, p_raise=0.15, p_typed=0.3, p_fault_ser=0.0, p_handoff=0.08,
                 p_reenter=0.05, p_tb=0.05, p_finish_again=0.05, base_only=0.3, sr=0.15, p_try=0.15,
                 styles=("with", "with", "ctx", "run"), p_actlog=0.08, p_task=0.08, p_raw=0.0, p_hostile=0.0,
                 p_finish_inside=0.0, p_reserved=0.0, p_logcall=0.0, p_handler=0.05, vias=None):
        self.rng = rng
        self.__dict__.update(locals())
        self.next_h = 0
        self.next_exn = 1
        self.next_slot = 0
        self.next_ctx = 1
        self.classes = []
        self.finished = []

    def new_h(self):
        self.next_h += 1
        return self.next_h

    def gen_classes(self, n):
        rng = self.rng
        roots = [2, 2, 2, 8, 9, 1, 4, 5, 6, 7]
        ids = []
        for i in range(n):
            cid = 50 + i
            if ids and rng.random() < 0.5:
                bases = [rng.choice(ids)]
                if rng.random() < 0.2:
                    other = rng.choice(ids)
                    if other != bases[0]:
                        bases.append(other)
            else:
                bases = [rng.choice(roots)]
            # check Python accepts the hierarchy (MRO conflicts, layout conflicts)
            try:
                build_classes(self.classes + [[cid, bases]])
            except TypeError:
                bases = [2]
            self.classes.append([cid, bases])
            ids.append(cid)
        return ids

    def exn(self, cls=None):
        rng = self.rng
        cls = cls if cls is not None else rng.choice(self.class_ids)
        e = {"id": self.next_exn, "cls": cls,
             "text": rng.randrange(100, 121), "sr": cls >= 50 and rng.random() < self.sr,
             "falsy": cls >= 50 and rng.random() < 0.12}
        self.next_exn += 1
        return e

    def value(self):
        rng = self.rng
        if rng.random() < self.p_hostile:
            return {"a": rng.randrange(HOSTILE_LO, HOSTILE_HI)}
        if rng.random() < 0.4:
            return {"i": rng.choice([0, 1, 1, 0, -1, 7, -5, 2 ** 31, 2 ** 53 + 1, -2 ** 63, 2 ** 63 - 1, rng.randrange(-100, 100)])}
        return {"a": 20 + rng.randrange(N_VALUES)}

    def fields(self, maxn=3, lo=20, hi=30, reserved=()):
        """`reserved`: reserved field names (as key atoms) that may additionally be used as application
        field names; the library overwrites them, so they must never show through"""
        rng = self.rng
        n = rng.randrange(0, maxn + 1)
        keys = rng.sample(range(lo, hi), n)
        out = [[k, self.value()] for k in keys]
        if reserved and rng.random() < self.p_reserved:
            k = rng.choice(list(reserved))
            out.append([k, {"t": rng.randrange(10, 16)} if k in (4, 5) else rng.choice([{"i": rng.randrange(0, 9)}, {"a": 20 + rng.randrange(N_VALUES)}])])
        return out

    def serfn(self):
        rng = self.rng
        r = rng.random()
        if r < 0.4:
            return ["id"]
        if r < 0.6:
            return ["succ", self.exn()]
        if r < 0.7:
            return ["double", self.exn()]
        if r < 0.8:
            return ["const", rng.randrange(-3, 50)]
        if r < 0.8 + self.p_fault_ser:
            return ["fail", self.exn()]
        return ["failneg", self.exn()]

    def typed_fields(self, lo, hi, conform=True):
        """declared fields + matching logged fields"""
        rng = self.rng
        n = rng.randrange(0, 4)
        keys = rng.sample(range(lo, hi), n)
        decl, logged = [], []
        for k in keys:
            f = self.serfn()
            decl.append([k, f])
            if f[0] in ("succ", "double", "failneg") and rng.random() > self.p_fault_ser:
                logged.append([k, {"i": rng.randrange(0, 50)}])
            else:
                logged.append([k, self.value()])
        if rng.random() < self.p_fault_ser and logged:
            logged.pop(rng.randrange(len(logged)))      # missing declared field
        return decl, logged

    def stmts(self, depth, enclosing, c):
        rng = self.rng
        out = []
        n = rng.randrange(0, self.width + 1)
        for _ in range(n):
            st = self.stmt(depth, enclosing, c)
            if st is not None:
                out.append(st)
                if st[0] == "raise":
                    break
                if st[0] == "msg" and st[3] is not None and rng.random() < 0.3:
                    dup = json.loads(json.dumps(st))           # the same typed message again: same type object, equal values
                    if rng.random() < 0.5:
                        # ... or values that are equal (==, same hash) but are different JSON values: 1 / True, 0 / False
                        # (atoms 27/28 = True/False, 50/51 = 1.0/0.0)
                        swap = rng.choice([{'{"i": 1}': {"a": 27}, '{"i": 0}': {"a": 28}, '{"a": 27}': {"i": 1}, '{"a": 28}': {"i": 0}},
                                           {'{"a": 50}': {"a": 27}, '{"a": 51}': {"a": 28}, '{"a": 27}': {"a": 50}, '{"a": 28}': {"a": 51},
                                            '{"i": 1}': {"a": 50}, '{"i": 0}': {"a": 51}}])
                        plain = {k for k, fn in st[3] if fn[0] == "id"}          # fields whose serializer accepts any value
                        idx = [i for i, f in enumerate(st[2]) if f[0] in plain]
                        if idx and not any(json.dumps(f[1]) in swap for f in st[2]):
                            v = rng.choice([{"i": 1}, {"i": 0}, {"a": 27}, {"a": 28}])
                            st[2][idx[0]][1], dup[2][idx[0]][1] = dict(v), dict(v)
                        for f in dup[2]:
                            if f[0] in plain:
                                f[1] = swap.get(json.dumps(f[1]), f[1])
                    out.append(dup)
        return out

    def stmt(self, depth, enclosing, c):
        rng = self.rng
        if rng.random() < self.p_raw:
            t = rng.randrange(10, 16)
            if rng.random() < 0.6:
                decl, logged = self.typed_fields(32, 40)
            else:
                decl, logged = None, self.fields(3, 32, 40)
            if rng.random() < 0.9:
                logged = logged + [[5, {"t": t}]]
            return ["rawwrite", t, logged, decl]
        if depth > 0 and rng.random() < self.p_handler:
            # always at least one action that starts and ends normally while the unrelated exception is being handled
            h = self.new_h()
            inner = [["msg", rng.randrange(10, 16), self.fields(2, 32, 40), None, "log_message"]] if rng.random() < 0.5 else []
            act = ["act", h, rng.choice(self.styles), False, rng.randrange(10, 16), self.fields(2, 20, 26) + [[19, {"i": h}]], None,
                   self.fields(2, 26, 32) + [[19, {"i": h}]], inner, "start_action"]
            self.finished.append(h)
            return ["handler", [act] + self.stmts(depth - 1, enclosing, c)]
        r = rng.random()
        if depth > 0 and r < 0.45:
            h = self.new_h()
            style = rng.choice(self.styles)
            task = rng.random() < self.p_task
            t = 5 if rng.random() < 0.08 else rng.randrange(10, 16)      # 5 = "" (start_action's default type)
            if rng.random() < self.p_typed:
                sd, sl = self.typed_fields(20, 26)
                ud, ul = self.typed_fields(26, 32)
                sers = {"start": sd, "success": ud}
                fs, succ = sl, ul
                api = "ActionType"
            else:
                sers, fs, succ, api = None, self.fields(3, 20, 26, reserved=(1, 2, 3, 6)), self.fields(2, 26, 32, reserved=(1, 2, 3, 6, 7, 8)), "start_action"
                if rng.random() < self.p_logcall:
                    # a log_call-decorated function: the start fields are its arguments; it also has *args/**kwargs
                    # parameters (f17, f18) that receive nothing and must be logged as () and {}
                    api, style, task = "log_call", "with", False
                    fs = [f for f in fs if f[0] >= 20]
            fs = fs + [[19, {"i": h}]]
            succ = succ + [[19, {"i": h}]]
            body = self.stmts(depth - 1, enclosing + [h], c)
            if sers is None and rng.random() < self.p_finish_inside and not _escapes(body):
                # finish() called as the last thing inside the action's own block (the block's exit then finishes again: no-op)
                body = body + [["finish_again", h, self.exn() if rng.random() < 0.5 else None]]
                if rng.random() < 0.5:
                    body = body + [["raise", self.exn()]]     # finished explicitly, then the block still fails
            self.finished.append(h)
            return ["act", h, style, task, t, fs, sers, succ, body, api]
        if r < 0.62:
            t = rng.randrange(10, 16)
            if rng.random() < self.p_typed:
                decl, logged = self.typed_fields(32, 40)
                return ["msg", t, logged, decl, "typed"]
            if rng.random() < 0.06:
                t = 5
            return ["msg", t, self.fields(3, 32, 40, reserved=(1, 2, 3)), None, rng.choice(["log_message", "log_message", "Message.log", "Message.new", "Message.bind", "Message.write_action", "Message.write_logger"])]
        if r < 0.62 + self.p_raise:
            return ["raise", self.exn()]
        r2 = rng.random()
        if depth > 0 and r2 < self.p_try:
            return ["try", self.stmts(depth - 1, enclosing, c)]
        if r2 < self.p_try + self.p_tb:
            return ["tb", self.exn()]
        if enclosing and r2 < self.p_try + self.p_tb + self.p_actlog:
            return ["actlog", rng.choice(enclosing), rng.randrange(10, 16), self.fields(2, 32, 40)]
        if enclosing and depth > 0 and r2 < self.p_try + self.p_tb + self.p_actlog + self.p_handoff:
            via = rng.choice(list(self.vias) if self.vias else ["bytes", "str", "preserve", "bytes_inline", "preserve_inline"])
            h = enclosing[-1] if via.startswith("preserve") else rng.choice(enclosing)
            # preserve_context uses current_action(): only valid if the innermost enclosing action is current
            self.next_slot += 1
            if via.endswith("_inline"):
                c2 = c          # the callable is run by the submitting thread itself
            else:
                c2 = self.next_ctx
                self.next_ctx += 1
            h2 = self.new_h()
            body = self.stmts(depth - 1, [h2], c2)
            return ["handoff", h, self.next_slot, h2, c2, body, via]
        if enclosing and depth > 0 and r2 < self.p_try + self.p_tb + self.p_actlog + self.p_handoff + self.p_reenter:
            h = rng.choice(enclosing)
            return ["reenter", h, self.stmts(depth - 1, enclosing + [h], c), rng.choice(["context", "run"])]
        if self.finished and r2 < self.p_try + self.p_tb + self.p_actlog + self.p_handoff + self.p_reenter + self.p_finish_again:
            cand = [h for h in self.finished if h not in enclosing]
            if cand:
                return ["finish_again", rng.choice(cand), self.exn() if rng.random() < 0.5 else None]
        return ["msg", rng.randrange(10, 16), self.fields(2, 32, 40), None, "log_message"]

    def program(self, n_classes=4):
        self.class_ids = self.gen_classes(n_classes) + [2, 8, 9, 4, 5, 6, 7]
        return self.stmts(self.depth, [], 0)


def gen_dests(rng, gen, n, fault=0.5):
    dests = []
    for i in range(n):
        r = rng.random()
        if i == 0 or r > fault:
            b = ["never"]
        else:
            kind = rng.choice(["always", "mask", "mask", "cycle", "on_end", "on_start", "on_reports", "not_reports", "on_atom"])
            if kind in ("mask", "cycle"):
                b = [kind, [rng.random() < 0.4 for _ in range(rng.randrange(1, 12))]]
            elif kind == "on_atom":
                b = [kind, 20 + rng.randrange(N_VALUES)]
            else:
                b = [kind]
        dests.append([i + 1, b, gen.exn(cls=rng.choice([2, 8, 9] + [c for c in gen.class_ids if c >= 50 and is_exception_class(gen.classes, c)]))])
    return dests


def is_exception_class(classes_spec, cid):
    classes = build_classes(classes_spec)
    return issubclass(classes[cid], Exception)


def gen_case(rng, n_dests=2, fault=0.5, registry_rate=0.5, file_dest=False, p_globals=0.0, **kw):
    gkw = dict(kw)
    gkw.pop("p_reseed", None)
    g = Gen(rng, **gkw)
    prog = g.program()
    dests = gen_dests(rng, g, n_dests, fault)
    if file_dest:
        dests.insert(rng.randrange(1, len(dests) + 1), [9, ["file"], {"id": 0, "cls": 15, "text": 1, "sr": False}])
    registry = []
    for cid in g.class_ids:
        if rng.random() < registry_rate * 0.5:
            if rng.random() < 0.7:
                registry.append([cid, ["fields", g.fields(2, 40, 46, reserved=(5, 6, 7, 8))]])
            else:
                registry.append([cid, ["raise", g.exn(cls=rng.choice([8, 9] + [c for c in g.class_ids if c >= 50]))]])
    pre = [["add", dests]]
    if rng.random() < p_globals:
        gl = ["globals", g.fields(2, 46, 50)]
        if rng.random() < 0.5:
            pre.insert(0, gl)
        else:
            pre.append(gl)
    case = {"classes": g.classes, "registry": registry, "pre": pre, "prog": prog}
    if rng.random() < kw.get("p_reseed", 0.0):
        case["reseed"] = True
    return case


def describe(case):
    """input-distribution keys for the evidence"""
    out = []

    def walk(stmts, depth):
        m = depth
        for st in stmts:
            out.append("stmt:" + st[0])
            if st[0] == "act":
                out.append("style:" + st[2])
                if st[6] is not None:
                    out.append("typed_action")
                m = max(m, walk(st[8], depth + 1))
            elif st[0] in ("try", "handler"):
                m = max(m, walk(st[1], depth))
            elif st[0] == "handoff":
                out.append("via:" + st[6])
                m = max(m, walk(st[5], depth + 1))
            elif st[0] == "reenter":
                m = max(m, walk(st[2], depth))
        return m
    d = walk(case["prog"], 0)
    out.append("depth:%d" % d)
    for o in case.get("pre", []):
        if o[0] == "add":
            for dd in o[1]:
                out.append("dest:" + dd[1][0])
    out.append("registry:%d" % min(len(case.get("registry", [])), 3))
    return out


def shrink(case):
    """smaller variants of a case: drop a statement, hoist a body, drop destinations/extractors"""
    import copy

    def variants(stmts):
        for i in range(len(stmts)):
            yield stmts[:i] + stmts[i + 1:]
        for i, st in enumerate(stmts):
            body_ix = {"act": 8, "try": 1, "handoff": 5, "reenter": 2, "handler": 1}.get(st[0])
            if body_ix is None:
                continue
            if st[0] in ("try", "reenter", "handler"):
                yield stmts[:i] + st[body_ix] + stmts[i + 1:]
            for v in variants(st[body_ix]):
                st2 = list(st)
                st2[body_ix] = v
                yield stmts[:i] + [st2] + stmts[i + 1:]
    for v in variants(case["prog"]):
        c = copy.deepcopy(case)
        c["prog"] = v
        yield c
    if case.get("registry"):
        for i in range(len(case["registry"])):
            c = copy.deepcopy(case)
            del c["registry"][i]
            yield c
    for oi, o in enumerate(case.get("pre", [])):
        if o[0] == "add" and len(o[1]) > 1:
            for i in range(1, len(o[1])):
                c = copy.deepcopy(case)
                del c["pre"][oi][1][i]
                yield c


def program_family(name, oracle, n_quick, n_thorough, nontrivial=None, deep=None, **genkw):
    """A correspondence family over generated logging programs."""
    from .framework import Family

    def gen(rng, tier):
        n = n_quick if tier == "quick" else n_thorough
        out = []
        for i in range(n):
            kw = dict(genkw)
            if tier == "thorough" and i % 3 == 0 and deep:
                kw.update(deep)
            nd = kw.pop("n_dests", None)
            out.append(gen_case(rng, n_dests=nd if nd is not None else rng.randrange(1, 4), **kw))
        return out

    def nontriv(case, obs):
        n = sum(len(ms) for _, ms in obs.get("dests", [])) if isinstance(obs, dict) else 0
        return json.dumps(case["prog"], sort_keys=True) if n >= 3 else None

    return Family(name, gen, run_case, model_expr, model_obs, oracle, nontrivial or nontriv,
                  imports=["Model.Core", "Model.Prog"], project=project, describe=describe, shrink=shrink,
                  case_timeout=30, shard=40, coq_shard=60)


# ---------------------------------------------------------------------------
# feature corpus: small fixed programs that exercise, under EVERY seed, features whose random frequency is low
def _E(i, cls=8, text=101):
    return {"id": i, "cls": cls, "text": text, "sr": False, "falsy": False}


_D1 = [["add", [[1, ["never"], _E(90, 2, 100)]]]]
CORPUS_FEATURES = [
    # finish() inside the action's own block, then the block still raises
    {"classes": [], "registry": [], "pre": _D1,
     "prog": [["try", [["act", 1, "with", False, 10, [[19, {"i": 1}]], None, [[19, {"i": 1}]],
                        [["finish_again", 1, None], ["raise", _E(1)]], "start_action"]]],
              ["try", [["act", 2, "with", False, 11, [[19, {"i": 2}]], None, [[19, {"i": 2}]],
                        [["finish_again", 2, _E(2, 9, 102)], ["raise", _E(3)]], "start_action"]]]]},
    # ... and the exception must keep propagating out of the program
    {"classes": [], "registry": [], "pre": _D1,
     "prog": [["act", 1, "with", False, 10, [[19, {"i": 1}]], None, [[19, {"i": 1}]],
               [["act", 2, "with", False, 11, [[19, {"i": 2}]], None, [[19, {"i": 2}]],
                 [["finish_again", 2, None], ["raise", _E(1)]], "start_action"]], "start_action"]]},
    # success fields / extractor fields named like the end message's own fields
    {"classes": [], "registry": [[8, ["fields", [[6, {"a": 21}], [8, {"i": 5}], [7, {"i": 6}], [41, {"i": 3}]]]]], "pre": _D1,
     "prog": [["act", 1, "with", False, 10, [[19, {"i": 1}]], None, [[6, {"a": 22}], [7, {"i": 1}], [8, {"i": 2}], [19, {"i": 1}]], [], "start_action"],
              ["try", [["act", 2, "with", False, 11, [[19, {"i": 2}]], None, [[27, {"i": 4}], [19, {"i": 2}]], [["raise", _E(1)]], "start_action"]]]]},
    # finish(exc) while the action is still current, with an extractor that itself raises
    {"classes": [], "registry": [[8, ["raise", _E(50, 9, 103)]]], "pre": _D1,
     "prog": [["act", 1, "with", False, 10, [[19, {"i": 1}]], None, [[19, {"i": 1}]],
               [["act", 2, "ctx", False, 11, [[19, {"i": 2}]], None, [[19, {"i": 2}]], [["finish_again", 2, _E(1)]], "start_action"],
                ["msg", 12, [[33, {"i": 1}]], None, "log_message"]], "start_action"]]},
    # the action's own context entered again while it is already entered (context() under with / under context(), run())
    {"classes": [], "registry": [], "pre": _D1,
     "prog": [["act", 1, "with", False, 10, [[19, {"i": 1}]], None, [[19, {"i": 1}]],
               [["reenter", 1, [["msg", 12, [[33, {"i": 1}]], None, "log_message"]], "context"],
                ["msg", 12, [[33, {"i": 2}]], None, "log_message"],
                ["reenter", 1, [["msg", 12, [[33, {"i": 3}]], None, "log_message"]], "run"]], "start_action"],
              ["msg", 13, [[33, {"i": 4}]], None, "log_message"],
              ["act", 2, "ctx", False, 11, [[19, {"i": 2}]], None, [[19, {"i": 2}]],
               [["reenter", 2, [["reenter", 2, [["msg", 12, [[33, {"i": 5}]], None, "log_message"]], "context"]], "context"],
                ["msg", 12, [[33, {"i": 6}]], None, "log_message"]], "start_action"],
              ["msg", 13, [[33, {"i": 7}]], None, "log_message"],
              ["try", [["act", 3, "with", False, 10, [[19, {"i": 3}]], None, [[19, {"i": 3}]],
                        [["reenter", 3, [["raise", _E(1)]], "context"]], "start_action"]]],
              ["msg", 13, [[33, {"i": 8}]], None, "log_message"]]},
    # an exception escapes `with action.context():` / action.run() INSIDE the action's block and is caught there: the action
    # itself goes on and ends normally
    {"classes": [], "registry": [], "pre": _D1,
     "prog": [["act", 1, "with", False, 10, [[19, {"i": 1}]], None, [[26, {"i": 1}], [19, {"i": 1}]],
               [["try", [["reenter", 1, [["msg", 12, [[33, {"i": 1}]], None, "log_message"], ["raise", _E(1)]], "context"]]],
                ["msg", 12, [[33, {"i": 2}]], None, "log_message"],
                ["try", [["reenter", 1, [["raise", _E(2, 9, 102)]], "run"]]],
                ["msg", 12, [[33, {"i": 3}]], None, "log_message"]], "start_action"],
              ["msg", 13, [[33, {"i": 4}]], None, "log_message"]]},
    # an action that starts and ends normally while an unrelated exception is being handled
    {"classes": [], "registry": [], "pre": _D1,
     "prog": [["handler", [["act", 1, "with", False, 10, [[19, {"i": 1}]], None, [[26, {"i": 1}], [19, {"i": 1}]],
                            [["msg", 12, [[33, {"i": 1}]], None, "log_message"]], "start_action"],
                           ["act", 2, "run", False, 11, [[19, {"i": 2}]], None, [[19, {"i": 2}]], [], "start_action"]]]]},
]
