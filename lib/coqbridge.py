"""Bridge between Python values and Gallina terms, and a runner that evaluates
model expressions inside Coq (``Eval vm_compute``) in parallel shards.

Python-side representation of a Gallina value
    Z(n) / Pos(n) / Nat(n) / NN(n)   numbers with their scope
    True / False                     bool
    [a, b]                           list
    (a, b)                           pair (tuples nest to the left like Coq's)
    None                             None;  Some(x) -> Some x
    C("Ctor", a, b)                  constructor / function application
    Raw("text")                      verbatim Gallina
    Str("abc")                       Coq string literal

Parsed results (``parse_term``) use: int for every number, bool, list, tuple,
None for ``None``, ("Ctor", args...) for applications (``("Some", x)`` included),
and plain ``str`` for identifiers without arguments and string literals
(wrapped as ("#str", s)).
"""
import os
import re
import subprocess
import sys
import tempfile
import time
from concurrent.futures import ThreadPoolExecutor

COQ_DIR = os.path.join(os.path.dirname(os.path.dirname(os.path.abspath(__file__))), "coq")


class _Num(object):
    scope = ""

    def __init__(self, n):
        self.n = int(n)

    def __repr__(self):
        return "%s(%d)" % (self.__class__.__name__, self.n)


class Z(_Num):
    scope = "Z"


class Pos(_Num):
    scope = "positive"


class Nat(_Num):
    scope = "nat"


class NN(_Num):
    scope = "N"


class Some(object):
    def __init__(self, x):
        self.x = x


class C(object):
    def __init__(self, name, *args):
        self.name = name
        self.args = args


class Raw(object):
    def __init__(self, text):
        self.text = text


class Str(object):
    def __init__(self, s):
        self.s = s


def to_coq(v):
    """Render a Python-side value as a Gallina term."""
    if isinstance(v, bool):
        return "true" if v else "false"
    if isinstance(v, _Num):
        if v.n < 0:
            return "(%d)%%%s" % (v.n, v.scope)
        return "%d%%%s" % (v.n, v.scope)
    if v is None:
        return "None"
    if isinstance(v, Some):
        return "(Some %s)" % to_coq(v.x)
    if isinstance(v, list):
        return "[" + "; ".join(to_coq(x) for x in v) + "]"
    if isinstance(v, tuple):
        return "(" + ", ".join(to_coq(x) for x in v) + ")"
    if isinstance(v, C):
        if not v.args:
            return v.name
        return "(" + v.name + " " + " ".join(to_coq(x) for x in v.args) + ")"
    if isinstance(v, Raw):
        return v.text
    if isinstance(v, Str):
        return '"' + v.s.replace('"', '""') + '"%string'
    if isinstance(v, int):
        raise TypeError("bare int %r: wrap in Z/Pos/Nat/NN" % (v,))
    raise TypeError("cannot render %r" % (v,))


# ---------------------------------------------------------------------------
# Parsing what Coq prints

_TOKEN = re.compile(
    r"""\s*(?:
      (?P<str>"(?:[^"]|"")*")
    | (?P<num>-?\d+)
    | (?P<id>[A-Za-z_][A-Za-z_0-9'.]*)
    | (?P<sym>\{\||\|\}|::|:=|[()\[\];,%\-])
    )""",
    re.X,
)


def _tokenize(s):
    pos = 0
    out = []
    n = len(s)
    while pos < n:
        m = _TOKEN.match(s, pos)
        if not m:
            if s[pos:].strip() == "":
                break
            raise ValueError("cannot tokenize at %r" % s[pos : pos + 40])
        pos = m.end()
        if m.group("str") is not None:
            out.append(("str", m.group("str")[1:-1].replace('""', '"')))
        elif m.group("num") is not None:
            out.append(("num", int(m.group("num"))))
        elif m.group("id") is not None:
            out.append(("id", m.group("id")))
        else:
            out.append(("sym", m.group("sym")))
    return out


class _P(object):
    def __init__(self, toks):
        self.t = toks
        self.i = 0

    def peek(self):
        return self.t[self.i] if self.i < len(self.t) else ("eof", None)

    def next(self):
        tok = self.peek()
        self.i += 1
        return tok

    def expect(self, sym):
        tok = self.next()
        if tok != ("sym", sym):
            raise ValueError("expected %r got %r at %d" % (sym, tok, self.i))

    def skip_scope(self):
        while self.peek() == ("sym", "%"):
            self.next()
            self.next()

    def atom(self):
        kind, val = self.next()
        if kind == "num":
            self.skip_scope()
            return val
        if kind == "str":
            self.skip_scope()
            return ("#str", val)
        if kind == "id":
            if val == "true":
                return True
            if val == "false":
                return False
            if val == "None":
                return None
            if val == "tt":
                return ()
            return val
        if (kind, val) == ("sym", "-"):
            kind2, val2 = self.next()
            assert kind2 == "num"
            return -val2
        if (kind, val) == ("sym", "("):
            items = [self.expr()]
            while self.peek() == ("sym", ","):
                self.next()
                items.append(self.expr())
            self.expect(")")
            self.skip_scope()
            acc = items[0]
            for it in items[1:]:
                acc = (acc, it)   # Coq tuples nest to the left
            return acc
        if (kind, val) == ("sym", "["):
            items = []
            if self.peek() != ("sym", "]"):
                items.append(self.expr())
                while self.peek() == ("sym", ";"):
                    self.next()
                    items.append(self.expr())
            self.expect("]")
            self.skip_scope()
            return items
        raise ValueError("unexpected token %r at %d" % ((kind, val), self.i))

    def app(self):
        head = self.atom()
        args = []
        while True:
            kind, val = self.peek()
            if kind in ("num", "str", "id") or (kind, val) in (("sym", "("), ("sym", "[")):
                args.append(self.atom())
            else:
                break
        if args:
            if not isinstance(head, str):
                raise ValueError("application of non-identifier %r" % (head,))
            return (head,) + tuple(args)
        return head

    def expr(self):
        left = self.app()
        if self.peek() == ("sym", "::"):
            self.next()
            right = self.expr()
            if not isinstance(right, list):
                raise ValueError("cons onto non-list")
            return [left] + right
        return left


def flat(v, n):
    """Flatten a left-nested Coq tuple ((a, b), c) ... into n components."""
    out = []
    while n > 1:
        v, last = v
        out.append(last)
        n -= 1
    out.append(v)
    return list(reversed(out))


def parse_term(s):
    p = _P(_tokenize(s))
    v = p.expr()
    if p.peek()[0] != "eof":
        raise ValueError("trailing tokens after term: %r" % (p.peek(),))
    return v


_RESULT = re.compile(r"^\s*= (.*?)\n\s*: [^\n]*(?:\n[^=\n][^\n]*)*?$", re.S | re.M)


def split_eval_output(out):
    """Split coqc stdout into the printed value of each ``Eval``."""
    parts = re.split(r"^\s{5}= ", out, flags=re.M)[1:]
    vals = []
    for p in parts:
        m = re.search(r"\n\s{5}: ", p)
        vals.append(p[: m.start()] if m else p)
    return vals


HEADER = """From Coq Require Import List ZArith PArith NArith Bool String Ascii.
Import ListNotations.
Unset Printing Records.
Set Printing Width 2000000.
Set Printing Depth 10000000.
Local Open Scope nat_scope.
"""


class CoqError(Exception):
    pass


def _run_shard(args):
    workdir, idx, imports, prelude, exprs, timeout = args
    path = os.path.join(workdir, "cases_%d.v" % idx)
    with open(path, "w") as f:
        f.write(HEADER)
        for imp in imports:
            f.write("Require Import Eliot.%s.\n" % imp)
        f.write(prelude + "\n")
        for e in exprs:
            f.write("Eval vm_compute in (%s).\n" % e)
    cmd = ["timeout", str(timeout), "coqc", "-Q", COQ_DIR, "Eliot", "-w", "none", path]
    p = subprocess.run(cmd, capture_output=True, text=True, cwd=workdir,
                       preexec_fn=_unlimit_stack)
    if p.returncode != 0:
        raise CoqError("coqc failed on %s (rc=%s):\n%s\n%s" % (path, p.returncode, p.stdout[-2000:], p.stderr[-4000:]))
    vals = split_eval_output(p.stdout)
    if len(vals) != len(exprs):
        raise CoqError("expected %d values, got %d from %s" % (len(exprs), len(vals), path))
    return [parse_term(v) for v in vals]


def _unlimit_stack():
    import resource
    try:
        resource.setrlimit(resource.RLIMIT_STACK, (resource.RLIM_INFINITY, resource.RLIM_INFINITY))
    except Exception:
        pass


def eval_in_coq(imports, exprs, prelude="", shard=250, jobs=8, timeout=600, workdir=None):
    """Evaluate each Gallina expression with vm_compute inside Coq; return the
    parsed values in order.  ``imports`` are module paths under Eliot."""
    exprs = [e if isinstance(e, str) else to_coq(e) for e in exprs]
    if not exprs:
        return []
    own = workdir is None
    if own:
        base = os.path.join(os.path.dirname(COQ_DIR), ".work")
        os.makedirs(base, exist_ok=True)
        workdir = tempfile.mkdtemp(prefix="coq", dir=base)
    try:
        shards = [exprs[i : i + shard] for i in range(0, len(exprs), shard)]
        args = [(workdir, i, imports, prelude, s, timeout) for i, s in enumerate(shards)]
        with ThreadPoolExecutor(max_workers=jobs) as ex:
            res = list(ex.map(_run_shard, args))
        return [v for r in res for v in r]
    finally:
        if own:
            import shutil
            shutil.rmtree(workdir, ignore_errors=True)


if __name__ == "__main__":
    print(parse_term("[(Some 3%Z, [1; 2]%positive, (-4)%Z); (None, [], 0%Z)]"))
    print(parse_term('Build_foo 3 (Bar true "a""b"%string) [Baz; Qux 1]'))
