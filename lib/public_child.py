"""Child process for the public-API registration family (C12): a fresh interpreter, the import-time singleton, only
public eliot calls (add_destinations / add_destination / remove_destination / add_global_fields / log_message).

usage: python -m lib.public_child <history.json>   -> prints one JSON line: per destination id the serials received"""
import json
import sys
import warnings


def main():
    warnings.simplefilter("ignore")
    hist = json.load(open(sys.argv[1]))
    import eliot
    from lib import progs
    dests, got, raised = {}, {}, []

    def make(did, mask):
        log = got.setdefault(did, [])

        def dest(m):
            n = len(log)
            log.append(m.get("f19"))
            if mask and mask[n % len(mask)] and m.get("message_type") != "eliot:destination_failure":
                raise ValueError("destination %d failed" % did)
        return dest
    for o in hist:
        try:
            if o[0] == "log":
                eliot.log_message(message_type=progs.type_name(o[1]), **{progs.key_name(k): progs.py_value(v) for k, v in o[2]})
            elif o[0] == "add":
                fns = []
                for did, mask in o[1]:
                    dests[did] = make(did, mask)
                    fns.append(dests[did])
                if o[2] == "single" and len(fns) == 1:
                    eliot.add_destination(fns[0])
                else:
                    eliot.add_destinations(*fns)
            elif o[0] == "remove":
                eliot.remove_destination(dests[o[1]])
            elif o[0] == "globals":
                eliot.add_global_fields(**{progs.key_name(k): progs.py_value(v) for k, v in o[1]})
        except BaseException as e:
            raised.append("%s: %s" % (o[0], type(e).__name__))
    print(json.dumps({"got": {str(k): v for k, v in got.items()}, "raised": raised}))


if __name__ == "__main__":
    main()
