"""Check driver shared by all properties.

A property module (props/Cxx.py) exposes

    ID            "C07"
    PROPS_FILE    "Props/C07.v"         theorems (statement + exact + Print Assumptions)
    FAMILIES      [Family(...), ...]    correspondence / executable-statement families
    TRUSTED       [str, ...]            property-specific trusted-base lines
    ASSUMPTIONS   [str, ...]

and the driver runs, per family: generate cases from the seed, run them on the
implementation (worker processes importing eliot from /repo), evaluate the Coq
model on the same cases inside Coq, compare, and evaluate the executable
statement of the property (``oracle``) on what the implementation did.
"""
import fcntl
import hashlib
import importlib
import json
import os
import random
import re
import subprocess
import sys
import time
import shutil
import tempfile
from concurrent.futures import ThreadPoolExecutor

from . import coqbridge

ROOT = os.path.dirname(os.path.dirname(os.path.abspath(__file__)))
COQ = os.path.join(ROOT, "coq")
WORK = os.path.join(ROOT, ".work")
PY = "/venv/bin/python"

ALLOWED_AXIOMS = {
    # standard-library axioms that may appear; each is reported in the evidence
    "functional_extensionality_dep",
    "FunctionalExtensionality.functional_extensionality_dep",
    "Eqdep.Eq_rect_eq.eq_rect_eq",
    "Coq.Logic.Eqdep.Eq_rect_eq.eq_rect_eq",
}

BASE_TRUSTED = [
    "Coq 8.16.1 kernel (coqc, full .vo build; vm_compute used for model evaluation and a few reflective proofs; native_compute not used)",
    "No Axiom/Parameter/Conjecture/Admitted in /verif/coq (grep-checked every run); Print Assumptions output parsed every run",
    "Hand-written Gallina model of the anchored eliot functions, tied to /repo by the behavioural correspondence of this run (same cases through the real library and through the model evaluated inside Coq with vm_compute)",
    "Python harness: case generators, implementation drivers, canonicalisation, executable statements (lib/, props/)",
    "No extraction is used (no Extract Constant / Extract Inductive directives)",
]


class Family(object):
    def __init__(self, name, gen, impl, model_expr=None, model_obs=None, oracle=None,
                 nontrivial=None, known=None, imports=(), prelude="", project=None,
                 corpus=(), shrink=None, case_timeout=20, shard=200, describe=None,
                 workers=12, coq_shard=150):
        self.name = name
        self.gen = gen
        self.impl = impl
        self.model_expr = model_expr
        self.model_obs = model_obs or (lambda case, parsed: parsed)
        self.oracle = oracle or (lambda case, obs: None)
        self.nontrivial = nontrivial or (lambda case, obs: json.dumps(case, sort_keys=True))
        self.known = known or (lambda case, obs, failure: None)
        self.imports = list(imports)
        self.prelude = prelude
        self.project = project or (lambda case, obs: obs)
        self.corpus = list(corpus)
        self.shrink = shrink
        self.case_timeout = case_timeout
        self.shard = shard
        self.describe = describe or (lambda case: None)
        self.workers = workers
        self.coq_shard = coq_shard


# ---------------------------------------------------------------------------
# proof stage

def _lock():
    os.makedirs(WORK, exist_ok=True)
    f = open(os.path.join(WORK, "coq.lock"), "w")
    fcntl.flock(f, fcntl.LOCK_EX)
    return f


FORBIDDEN = re.compile(
    r"\b(Admitted|admit|Axiom|Axioms|Parameter|Parameters|Conjecture|Conjectures|Admit Obligations|"
    r"Unset Guard Checking|Unset Positivity Checking|Unset Universe Checking|bypass_check|"
    r"type-in-type|impredicative-set)\b")


def _strip_comments(text):
    out = []
    depth = 0
    i = 0
    n = len(text)
    while i < n:
        if text.startswith("(*", i):
            depth += 1
            i += 2
        elif text.startswith("*)", i) and depth:
            depth -= 1
            i += 2
        else:
            if depth == 0:
                out.append(text[i])
            i += 1
    return "".join(out)


def grep_forbidden():
    bad = []
    for d, _, files in os.walk(COQ):
        for fn in files:
            if fn.endswith(".v") or fn == "_CoqProject":
                p = os.path.join(d, fn)
                text = _strip_comments(open(p).read())
                for ln, line in enumerate(text.split("\n"), 1):
                    m = FORBIDDEN.search(line)
                    if m:
                        bad.append("%s:%d:%s" % (os.path.relpath(p, ROOT), ln, m.group(0)))
    return bad


def build_coq(jobs=16, timeout=3000):
    """Full .vo build of the development (no -vos)."""
    with _lock():
        if not os.path.exists(os.path.join(COQ, "Makefile")) or \
           os.path.getmtime(os.path.join(COQ, "Makefile")) < os.path.getmtime(os.path.join(COQ, "_CoqProject")):
            subprocess.run(["coq_makefile", "-f", "_CoqProject", "-o", "Makefile"], cwd=COQ, check=True,
                           capture_output=True)
        p = subprocess.run(["timeout", str(timeout), "make", "-k", "-j%d" % jobs], cwd=COQ,
                           capture_output=True, text=True)
        return p.returncode, (p.stdout[-3000:] + p.stderr[-6000:])


def proof_stage(props_file, tier):
    """Compile the property file (after making sure its dependencies are built),
    parse Print Assumptions.  Returns dict with obligations, discharged, theorems,
    axioms, errors."""
    res = {"obligations": 0, "discharged": 0, "theorems": [], "errors": [], "axioms": {}}
    path = os.path.join(COQ, props_file)
    text = _strip_comments(open(path).read())
    theorems = re.findall(r"^\s*Theorem\s+([A-Za-z_0-9']+)", text, flags=re.M)
    printed = re.findall(r"^\s*Print Assumptions\s+([A-Za-z_0-9']+)\s*\.", text, flags=re.M)
    res["obligations"] = len(theorems)
    res["theorems"] = theorems
    missing = [t for t in theorems if t not in printed]
    if missing:
        res["errors"].append("no Print Assumptions for: %s" % ", ".join(missing))
    bad = grep_forbidden()
    if bad:
        res["errors"].append("forbidden declarations: " + "; ".join(bad[:10]))
    rc, log = build_coq()
    if rc != 0:
        # some file of the development does not build; whether that concerns this property is
        # decided by compiling its Props file below (it fails if any of its dependencies is missing)
        res["make_rc"] = rc
        res["make_log_tail"] = log[-1500:]
    with _lock():
        p = subprocess.run(["timeout", "900", "coqc", "-Q", COQ, "Eliot", path], capture_output=True, text=True, cwd=COQ)
    if p.returncode != 0:
        res["errors"].append("coqc %s failed: %s" % (props_file, (p.stdout + p.stderr)[-3000:]))
        return res
    out = p.stdout
    # Print Assumptions output blocks, in order
    blocks = re.split(r"(?=^Closed under the global context|^Axioms:)", out, flags=re.M)
    blocks = [b for b in blocks if b.startswith("Closed under") or b.startswith("Axioms:")]
    if len(blocks) != len(printed):
        res["errors"].append("expected %d Print Assumptions blocks, got %d" % (len(printed), len(blocks)))
        return res
    for name, b in zip(printed, blocks):
        if b.startswith("Closed under"):
            res["axioms"][name] = []
        else:
            ax = re.findall(r"^([A-Za-z_][A-Za-z_0-9'.]*)\s*:", b, flags=re.M)
            res["axioms"][name] = ax
    for t in theorems:
        ax = res["axioms"].get(t)
        if ax is None:
            continue
        notallowed = [a for a in ax if a not in ALLOWED_AXIOMS]
        if notallowed:
            res["errors"].append("theorem %s depends on non-allowed axioms %s" % (t, notallowed))
        else:
            res["discharged"] += 1
    if tier == "thorough":
        lib = "Eliot." + props_file[:-2].replace("/", ".")
        with _lock():
            p = subprocess.run(["timeout", "1800", "coqchk", "-silent", "-o", "-Q", COQ, "Eliot", lib],
                               capture_output=True, text=True, cwd=COQ)
        res["coqchk_rc"] = p.returncode
        res["coqchk_tail"] = (p.stdout + p.stderr)[-1500:]
        if p.returncode != 0:
            res["errors"].append("coqchk failed: " + res["coqchk_tail"])
    return res


# ---------------------------------------------------------------------------
# implementation stage

def _worker_env():
    src = os.environ.get("ELIOT_SRC", "/repo")
    env = dict(os.environ)
    env["PYTHONPATH"] = src + os.pathsep + ROOT
    env["PYTHONHASHSEED"] = "0"
    env["ELIOT_SRC"] = src
    env["ELIOT_VERIF"] = "1"
    env["PYTHONDONTWRITEBYTECODE"] = "1"
    return env


def _run_impl_shard(modname, fam, cases, timeout):
    try:
        p = subprocess.run([PY, "-m", "lib.worker", modname, fam.name], input=json.dumps(cases),
                           capture_output=True, text=True, env=_worker_env(), cwd=ROOT, timeout=timeout)
    except subprocess.TimeoutExpired:
        return None, "timeout"
    if p.returncode != 0:
        return None, "worker rc=%s: %s" % (p.returncode, p.stderr[-2000:])
    try:
        return json.loads(p.stdout), None
    except ValueError:
        return None, "bad worker output: %r / %s" % (p.stdout[-300:], p.stderr[-1000:])


def run_impl(modname, fam, cases):
    shards = [cases[i:i + fam.shard] for i in range(0, len(cases), fam.shard)]

    family_hangs = [0]      # cases of this family that hung on their own, over all shards

    def do(shard):
        if family_hangs[0] >= 3:
            # this tree hangs the family's harness again and again: report what was seen, do not wait for the rest
            return [{"driver_crash": "not run: three cases of this family already hung", "hang": True} for _ in shard]
        # a healthy shard takes seconds; the cap bounds what a hard-hung worker (a tree that dead-locks outside the scheduler's view) costs
        obs, err = _run_impl_shard(modname, fam, shard, min(fam.case_timeout * len(shard) + 30, max(420, fam.case_timeout + 30)))
        if obs is not None:
            return obs
        if len(shard) == 1:
            # a single-case shard that timed out IS the culprit: no second attempt
            if err == "timeout":
                family_hangs[0] += 1
            return [{"driver_crash": err, "hang": err == "timeout"}]
        # isolate the culprit(s); once two cases have hung on their own the rest of the shard is not retried
        # one by one (a tree on which everything hangs would otherwise take hours to report the obvious)
        out = []
        hangs = 0
        for c in shard:
            if hangs >= 2:
                out.append({"driver_crash": "not run: earlier cases of this shard hung", "hang": True})
                continue
            o, e = _run_impl_shard(modname, fam, [c], fam.case_timeout + 20)
            if o is None and e == "timeout":
                hangs += 1
                family_hangs[0] += 1
            out.append(o[0] if o is not None else {"driver_crash": e, "hang": e == "timeout"})
        return out

    with ThreadPoolExecutor(max_workers=fam.workers) as ex:
        res = list(ex.map(do, shards))
    return [o for r in res for o in r]


# ---------------------------------------------------------------------------

def canon(x):
    return json.dumps(x, sort_keys=True, default=str)


def abbreviate(x, max_str=300, max_list=12, depth=0):
    """evidence samples are for reading: long strings and lists are cut (with a note of the real size)"""
    if isinstance(x, str):
        return x if len(x) <= max_str else x[:max_str] + "...<%d chars>" % len(x)
    if isinstance(x, (list, tuple)):
        out = [abbreviate(v, max_str, max_list, depth + 1) for v in x[:max_list]]
        if len(x) > max_list:
            out.append("...<%d items>" % len(x))
        return out
    if isinstance(x, dict):
        items = list(x.items())
        out = {str(k): abbreviate(v, max_str, max_list, depth + 1) for k, v in items[:40]}
        if len(items) > 40:
            out["..."] = "<%d keys>" % len(items)
        return out
    return x


def load_known():
    p = os.path.join(ROOT, "known_findings.json")
    if not os.path.exists(p):
        return {}
    return {e["id"]: e for e in json.load(open(p)) if e.get("kind") == "known"}


def write_replay(pid, seed, n, payload):
    os.makedirs(os.path.join(ROOT, "replays"), exist_ok=True)
    path = os.path.join("replays", "%s-%s-%d.json" % (pid, seed, n))
    with open(os.path.join(ROOT, path), "w") as f:
        json.dump(payload, f, indent=1, sort_keys=True, default=str)
    return path


def eval_family(modname, fam, cases, with_model=True):
    """Returns (impl_obs, model_obs or None per case)."""
    impl_obs = run_impl(modname, fam, cases)
    model_obs = [None] * len(cases)
    if getattr(fam, "post_model", None) is not None and with_model:
        # two-stage family: the model consumes data captured from the implementation run
        good = [i for i, o in enumerate(impl_obs) if not (isinstance(o, dict) and "driver_crash" in o)]
        if good:
            vals = fam.post_model([cases[i] for i in good], [impl_obs[i] for i in good])
            for i, v in zip(good, vals):
                model_obs[i] = v
    elif fam.model_expr is not None and with_model:
        idx, exprs = [], []
        for i, c in enumerate(cases):
            e = fam.model_expr(c)
            if e is not None:
                idx.append(i)
                exprs.append(e)
        vals = coqbridge.eval_in_coq(fam.imports, exprs, prelude=fam.prelude, shard=fam.coq_shard, jobs=12)
        for i, v in zip(idx, vals):
            model_obs[i] = fam.model_obs(cases[i], v)
    return impl_obs, model_obs


def judge(fam, case, iobs, mobs):
    """-> (oracle_failure or None, disagreement or None)"""
    failure = None
    if isinstance(iobs, dict) and "driver_crash" in iobs:
        failure = "implementation run did not complete: %s" % iobs["driver_crash"]
    else:
        failure = fam.oracle(case, iobs)
    disagree = None
    if mobs is not None:
        proj = fam.project(case, iobs) if not (isinstance(iobs, dict) and "driver_crash" in iobs) else iobs
        if canon(proj) != canon(mobs):
            disagree = {"impl": proj, "model": mobs}
    return failure, disagree


def try_shrink(modname, fam, case, pred, budget=60):
    """Greedy shrinking: pred(case) -> bool (still failing)."""
    if fam.shrink is None:
        return case
    t0 = time.time()
    cur = case
    improved = True
    while improved and time.time() - t0 < budget:
        improved = False
        for cand in fam.shrink(cur):
            if time.time() - t0 > budget:
                break
            try:
                if pred(cand):
                    cur = cand
                    improved = True
                    break
            except Exception:
                continue
    return cur


def run_check(mod, tier, seed, replay=None):
    t0 = time.time()
    pid = mod.ID
    modname = mod.__name__
    known = load_known()
    lines = []
    violations = []
    known_hits = {}
    stats = {"evaluations": 0, "traces_validated_against_impl": 0, "families": {}}
    nontrivial = set()
    samples = []
    replay_n = [0]

    def report(kind, fam, case, iobs, mobs, failure, extra=None):
        replay_n[0] += 1
        payload = {"property": pid, "kind": kind, "family": fam.name if fam else None, "case": case,
                   "impl_obs": iobs, "model_obs": mobs, "failure": failure, "seed": seed, "tier": tier}
        if extra:
            payload.update(extra)
        path = write_replay(pid, seed, replay_n[0], payload)
        suffix = "" if kind == "oracle" else " no-failing-input-found"
        violations.append("VIOLATION property=%s replay=%s%s" % (pid, path, suffix))

    # ---- replay mode
    if replay is not None:
        payload = json.load(open(replay if os.path.isabs(replay) else os.path.join(ROOT, replay)))
        if payload.get("family") is None:
            print("replay names a broken proof obligation: %s" % payload.get("failure"))
            pr = proof_stage(mod.PROPS_FILE, "quick")
            print("proof stage now: obligations=%d discharged=%d errors=%s" % (pr["obligations"], pr["discharged"], pr["errors"]))
            return 1 if pr["errors"] else 0
        fam = [f for f in mod.FAMILIES if f.name == payload["family"]][0]
        case = payload["case"]
        iobs, mobs = eval_family(modname, fam, [case])
        failure, disagree = judge(fam, case, iobs[0], mobs[0])
        print("case: %s" % canon(case)[:3000])
        print("implementation: %s" % canon(iobs[0])[:3000])
        print("model: %s" % canon(mobs[0])[:3000])
        print("executable statement: %s" % ("holds" if failure is None else "FAILS: %s" % failure))
        print("correspondence: %s" % ("agrees" if disagree is None else "DIFFERS"))
        if failure is not None:
            kid = fam.known(case, iobs[0], failure)
            if kid is not None and kid in known:
                print("KNOWN-FINDING: property=%s %s (id=%s)" % (pid, known[kid]["what"], kid))
                failure = None
        if failure is not None or disagree is not None:
            print("VIOLATION property=%s replay=%s%s" % (pid, replay, "" if failure else " no-failing-input-found"))
            return 1
        return 0

    # ---- proof stage
    pr = proof_stage(mod.PROPS_FILE, tier)
    proof_broken = bool(pr["errors"]) or pr["discharged"] != pr["obligations"]

    # ---- correspondence + executable statement
    corr_broken = []  # (fam, case, iobs, mobs, disagree)
    oracle_fail = []
    for fam in mod.FAMILIES:
        rng = random.Random("%s/%s/%s" % (seed, pid, fam.name))
        cases = list(fam.corpus) + list(fam.gen(rng, tier))
        fstat = {"cases": len(cases), "disagreements": 0, "oracle_failures": 0, "with_model": 0}
        impl_obs, model_obs = eval_family(modname, fam, cases)
        dist = {}
        for case, iobs, mobs in zip(cases, impl_obs, model_obs):
            stats["evaluations"] += 1
            if mobs is not None:
                stats["traces_validated_against_impl"] += 1
                fstat["with_model"] += 1
            try:
                key = fam.nontrivial(case, iobs)
            except Exception:
                key = None
            if key is not None:
                nontrivial.add((fam.name, key if isinstance(key, str) else canon(key)))
            d = fam.describe(case)
            if d is not None:
                for k in (d if isinstance(d, (list, tuple)) else [d]):
                    dist[k] = dist.get(k, 0) + 1
            failure, disagree = judge(fam, case, iobs, mobs)
            if failure is not None:
                fstat["oracle_failures"] += 1
                oracle_fail.append((fam, case, iobs, mobs, failure))
            if disagree is not None:
                fstat["disagreements"] += 1
                corr_broken.append((fam, case, iobs, mobs, disagree))
        if dist:
            fstat["distribution"] = dist
        stats["families"][fam.name] = fstat
        if cases:
            k = min(len(cases) - 1, len(fam.corpus))
            samples.append(abbreviate({"family": fam.name, "case": cases[k], "impl_obs": impl_obs[k], "model_obs": model_obs[k]}))

    # ---- verdict
    reported_unknown = 0
    seen_sig = set()
    for fam, case, iobs, mobs, failure in oracle_fail:
        kid = fam.known(case, iobs, failure)
        if kid is not None and kid in known:
            known_hits.setdefault(kid, 0)
            known_hits[kid] += 1
            continue
        sig = (fam.name, failure if isinstance(failure, str) else canon(failure))
        if sig in seen_sig or reported_unknown >= 5:
            continue
        seen_sig.add(sig)
        reported_unknown += 1

        crashed = isinstance(failure, str) and failure.startswith("implementation run did not complete")

        def still_fails(c, fam=fam, crashed=crashed):
            io, mo = eval_family(modname, fam, [c], with_model=False)
            f, _ = judge(fam, c, io[0], mo[0])
            if f is None or fam.known(c, io[0], f) is not None:
                return False
            # a candidate that merely breaks the driver (e.g. by dropping a destination it needs) is not a smaller failing case
            return crashed or not (isinstance(f, str) and f.startswith("implementation run did not complete"))
        small = try_shrink(modname, fam, case, still_fails)
        if small is not case:
            try:
                io, mo = eval_family(modname, fam, [small])
            except Exception:            # the model could not be evaluated on the shrunk case: report it without
                io, mo = eval_family(modname, fam, [small], with_model=False)
            f2, _ = judge(fam, small, io[0], mo[0])
            report("oracle", fam, small, io[0], mo[0], f2, {"original_case": case})
        else:
            report("oracle", fam, case, iobs, mobs, failure)
    unknown_oracle = reported_unknown > 0
    if not unknown_oracle:
        # broken correspondence with no failing input (known findings excluded:
        # a disagreement on a case that is a known finding is still a disagreement
        # unless the model reproduces the defect, which it does by construction)
        shown = 0
        for fam, case, iobs, mobs, disagree in corr_broken:
            if shown >= 3:
                break
            shown += 1
            report("correspondence", fam, case, iobs, mobs,
                   "model and implementation differ; the executable statement of the property holds on every case explored",
                   {"differs": disagree, "broken": "correspondence %s/%s" % (pid, fam.name)})
        if proof_broken:
            report("proof", None, None, None, None,
                   "proof obligations not discharged: %s" % (pr["errors"] or "discharged %d of %d" % (pr["discharged"], pr["obligations"])),
                   {"broken": "theorems of %s: %s" % (mod.PROPS_FILE, pr["theorems"])})

    for kid, n in sorted(known_hits.items()):
        print("KNOWN-FINDING: property=%s %s (%d matching cases this run; id=%s)" % (pid, known[kid]["what"], n, kid))
    for v in violations:
        print(v)

    # ---- evidence
    wall = time.time() - t0
    axioms_used = sorted({a for ax in pr["axioms"].values() for a in ax})
    ev = {
        "property_id": pid,
        "tier": tier,
        "seed": int(seed) if str(seed).lstrip("-").isdigit() else 0,
        "level": "proof",
        "coverage": {
            "obligations": pr["obligations"],
            "discharged": pr["discharged"],
            "theorems": pr["theorems"],
            "axioms_per_theorem": pr["axioms"],
            "checker_cmd": "make -C coq (coqc, full .vo) && coqc -Q coq Eliot coq/%s%s" % (
                mod.PROPS_FILE, " && coqchk -o Eliot.%s" % mod.PROPS_FILE[:-2].replace("/", ".") if tier == "thorough" else ""),
            "trusted_base": BASE_TRUSTED + list(getattr(mod, "TRUSTED", [])) + (
                ["standard-library axioms used: " + ", ".join(axioms_used)] if axioms_used else
                ["every theorem of this property is closed under the global context (no axioms)"]),
            "proof_errors": pr["errors"],
            "evaluations": stats["evaluations"],
            "traces_validated_against_impl": stats["traces_validated_against_impl"],
            "distinct_nontrivial": len(nontrivial),
            "rule": getattr(mod, "RULE", "cases generated from VERIF_SEED by the family generators; distinct by canonical JSON of the case, non-trivial by the family's rule"),
            "families": stats["families"],
            "samples": samples,
            "known_findings_hit": known_hits,
            "eliot_src": os.environ.get("ELIOT_SRC", "/repo"),
        },
        "assumptions": list(getattr(mod, "ASSUMPTIONS", [])),
        "wall_s": round(wall, 2),
        "violations": len(violations),
    }
    if "coqchk_rc" in pr:
        ev["coverage"]["coqchk"] = {"rc": pr["coqchk_rc"], "tail": pr["coqchk_tail"]}
    os.makedirs(os.path.join(ROOT, "evidence"), exist_ok=True)
    with open(os.path.join(ROOT, "evidence", pid + ".json"), "w") as f:
        json.dump(ev, f, indent=1, sort_keys=True, default=str)
    print("%s tier=%s seed=%s: obligations=%d discharged=%d cases=%d model-compared=%d nontrivial=%d disagreements=%d oracle-failures=%d known=%d wall=%.1fs" % (
        pid, tier, seed, pr["obligations"], pr["discharged"], stats["evaluations"], stats["traces_validated_against_impl"],
        len(nontrivial), len(corr_broken), len(oracle_fail), sum(known_hits.values()), wall))
    return 1 if violations else 0


def main(argv=None):
    import argparse
    ap = argparse.ArgumentParser()
    ap.add_argument("prop")
    ap.add_argument("--tier", default=os.environ.get("VERIF_TIER") or "quick")
    ap.add_argument("--replay")
    ap.add_argument("--seed", default=os.environ.get("VERIF_SEED") or "0")
    ap.add_argument("--src", help="eliot source tree to test instead of /repo (self-test only)")
    a = ap.parse_args(argv)
    if a.src:
        os.environ["ELIOT_SRC"] = a.src
    if a.tier not in ("quick", "thorough"):
        a.tier = "quick"
    mod = importlib.import_module("props." + a.prop)
    os.makedirs(WORK, exist_ok=True)
    rc = run_check(mod, a.tier, a.seed, a.replay)
    sys.exit(rc)


if __name__ == "__main__":
    main()
