"""Cooperative scheduler: real threads that run one model-level operation per grant."""
import threading


class Coop(object):
    def __init__(self, n):
        self.n = n
        self.sems = [threading.Semaphore(0) for _ in range(n)]
        self.ctrl = threading.Semaphore(0)
        self.done = [False] * n
        self.trace = []
        self.errors = []

    def gate(self, t):
        self.ctrl.release()
        self.sems[t].acquire()

    def run(self, targets, schedule, timeout=20):
        def wrap(t, fn):
            def body():
                try:
                    fn()
                except BaseException as e:   # recorded, never lost
                    self.errors.append([t, type(e).__name__])
                finally:
                    self.done[t] = True
                    self.ctrl.release()
            return body
        threads = [threading.Thread(target=wrap(t, fn), daemon=True) for t, fn in enumerate(targets)]
        for th in threads:
            th.start()
        for _ in range(self.n):
            if not self.ctrl.acquire(timeout=timeout):
                raise RuntimeError("scheduler: thread did not reach its first gate")
        pending = list(schedule)
        rr = 0
        while not all(self.done):
            if pending:
                t = pending.pop(0) % self.n
                if self.done[t]:
                    continue
            else:
                while self.done[rr % self.n]:
                    rr += 1
                t = rr % self.n
                rr += 1
            self.trace.append(t)
            self.sems[t].release()
            if not self.ctrl.acquire(timeout=timeout):
                raise RuntimeError("scheduler: thread %d did not yield" % t)
        for th in threads:
            th.join(timeout)
        return self.trace
