(* Task levels (eliot/_action.py:49-158 TaskLevel) and their string form.

   level            = list positive            (TaskLevel._level)
   child l          = l ++ [1]                 (TaskLevel.child)
   next_sibling l   = last component + 1       (TaskLevel.next_sibling)
   parent l         = removelast               (TaskLevel.parent, None on [])
   to_string l      = "/" ++ join "/" (map str l)          (toString)
   from_string s    = [int(i) for i in s.split("/") if i]  (fromString)
   make_id u l      = u ++ "@" ++ to_string l              (serialize_task_id)
   parse_id s       = uuid, level = s.split("@")           (continue_task)

   Strings are [list ascii].  Only definitions here; proofs are in
   Proofs/LevelProofs.v. *)
From Coq Require Import List PArith NArith Ascii String Bool Decimal DecimalString DecimalPos.
Import ListNotations.

Definition level := list positive.

Definition child (l : level) : level := l ++ [1%positive].

Fixpoint next_sibling (l : level) : level :=
  match l with
  | [] => []
  | [k] => [Pos.succ k]
  | x :: r => x :: next_sibling r
  end.

Definition parent (l : level) : option level :=
  match l with
  | [] => None
  | _ => Some (removelast l)
  end.

Definition str := list ascii.

Definition slash : ascii := "/"%char.
Definition at_sign : ascii := "@"%char.

(* Python's s.split(sep) for a one-character separator: always at least one
   segment; [cur] accumulates the current segment. *)
Fixpoint split_on (sep : ascii) (s : str) (cur : str) : list str :=
  match s with
  | [] => [cur]
  | c :: r => if Ascii.eqb c sep then cur :: split_on sep r [] else split_on sep r (cur ++ [c])
  end.

Definition split (sep : ascii) (s : str) : list str := split_on sep s [].

Fixpoint join (sep : ascii) (l : list str) : str :=
  match l with
  | [] => []
  | [x] => x
  | x :: r => x ++ sep :: join sep r
  end.

(* str(int) for a positive int: decimal digits, no sign, no leading zero *)
Definition dec (p : positive) : str :=
  list_ascii_of_string (NilEmpty.string_of_uint (Pos.to_uint p)).

(* int(s) restricted to plain decimal digit strings denoting a positive
   number; anything else is [None] (Python: ValueError, or a non-positive
   value the library never produces). *)
Definition undec (s : str) : option positive :=
  match NilEmpty.uint_of_string (string_of_list_ascii s) with
  | Some d => match Pos.of_uint d with
              | Npos p => Some p
              | N0 => None
              end
  | None => None
  end.

Definition to_string (l : level) : str := slash :: join slash (map dec l).

Definition nonempty (s : str) : bool := match s with [] => false | _ => true end.

Fixpoint all_some {A} (l : list (option A)) : option (list A) :=
  match l with
  | [] => Some []
  | None :: _ => None
  | Some x :: r => match all_some r with Some r' => Some (x :: r') | None => None end
  end.

Definition from_string (s : str) : option level :=
  all_some (map undec (filter nonempty (split slash s))).

Definition make_id (uuid : str) (l : level) : str := uuid ++ at_sign :: to_string l.

(* uuid, task_level = task_id.split("@"): exactly two parts or ValueError *)
Definition parse_id (s : str) : option (str * level) :=
  match split at_sign s with
  | [u; ls] => match from_string ls with Some l => Some (u, l) | None => None end
  | _ => None
  end.

(* lexicographic order on levels, as Python compares lists *)
Fixpoint level_ltb (a b : level) : bool :=
  match a, b with
  | [], [] => false
  | [], _ :: _ => true
  | _ :: _, [] => false
  | x :: a', y :: b' =>
      if Pos.ltb x y then true else if Pos.eqb x y then level_ltb a' b' else false
  end.

Fixpoint level_eqb (a b : level) : bool :=
  match a, b with
  | [], [] => true
  | x :: a', y :: b' => Pos.eqb x y && level_eqb a' b'
  | _, _ => false
  end.

Fixpoint is_prefix (a b : level) : bool :=
  match a, b with
  | [], _ => true
  | x :: a', y :: b' => Pos.eqb x y && is_prefix a' b'
  | _ :: _, [] => false
  end.
