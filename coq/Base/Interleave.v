(* Generic interleaving model for calls made by several threads on one shared object
   (C16; definitions only).

   A thread is a list of calls.  A call [c : C] is interpreted by
     locked c : bool        does the call run under the object's ONE lock ([@exclusively])?
     init c   : L           the call's private variables when it starts
     body c   : list step   its atomic body steps (one per source line that touches the
                            shared state), each a function on (locals, shared state)
   A locked call performs   Acquire; step_1; ...; step_n; Release
   an unlocked call         Enter;   step_1; ...; step_n; Return
   one scheduler grant = one of these micro-steps.  The locals at Release/Return are the
   call's return value.  A schedule is a list of thread ids; the step of a thread that wants
   the lock while another thread holds it is disabled (no-op), as is the step of a finished
   or non-existent thread. *)
From Coq Require Import List Arith Bool.
Import ListNotations.

Section Interleave.
  Variables (St L C : Type).

  Definition step := L -> St -> L * St.

  Variable locked : C -> bool.
  Variable init : C -> L.
  Variable body : C -> list step.

  (* one thread: the call in progress (with its locals and its remaining body steps), the calls
     still to make, and the finished calls with their return values, oldest first *)
  Record tstate := mkT { cur : option (C * L * list step); todo : list C; rets : list (C * L) }.

  (* acq: the linearisation log, one entry per successful Acquire, oldest first *)
  Record config := mkC { shared : St; holder : option nat; thr : list tstate; acq : list (nat * C) }.

  Fixpoint upd {A : Type} (n : nat) (x : A) (l : list A) : list A :=
    match l with
    | [] => []
    | y :: r => match n with 0 => x :: r | S k => y :: upd k x r end
    end.

  Definition init_config (progs : list (list C)) (s0 : St) : config :=
    mkC s0 None (map (fun p => mkT None p []) progs) [].

  Definition step_thread (t : nat) (cfg : config) : config :=
    match nth_error (thr cfg) t with
    | None => cfg
    | Some ts =>
      match cur ts with
      | Some (c, l, st :: more) =>                                   (* one body step *)
          let '(l', s') := st l (shared cfg) in
          mkC s' (holder cfg) (upd t (mkT (Some (c, l', more)) (todo ts) (rets ts)) (thr cfg)) (acq cfg)
      | Some (c, l, []) =>                                           (* Release / Return *)
          mkC (shared cfg) (if locked c then None else holder cfg)
              (upd t (mkT None (todo ts) (rets ts ++ [(c, l)])) (thr cfg)) (acq cfg)
      | None =>
          match todo ts with
          | [] => cfg                                                (* finished *)
          | c :: rest =>
              if locked c then
                match holder cfg with
                | Some _ => cfg                                      (* disabled: lock is held *)
                | None =>                                            (* Acquire *)
                    mkC (shared cfg) (Some t)
                        (upd t (mkT (Some (c, init c, body c)) rest (rets ts)) (thr cfg))
                        (acq cfg ++ [(t, c)])
                end
              else                                                   (* Enter (no lock) *)
                mkC (shared cfg) (holder cfg)
                    (upd t (mkT (Some (c, init c, body c)) rest (rets ts)) (thr cfg)) (acq cfg)
          end
      end
    end.

  Definition run_sched (sched : list nat) (cfg : config) : config :=
    fold_left (fun cfg t => step_thread t cfg) sched cfg.

  Definition finished (cfg : config) : Prop :=
    Forall (fun ts => cur ts = None /\ todo ts = []) (thr cfg).

  Definition finishedb (cfg : config) : bool :=
    forallb (fun ts => match cur ts, todo ts with None, [] => true | _, _ => false end) (thr cfg).

  (* ---- the serial (atomic) semantics *)
  Fixpoint run_steps (b : list step) (l : L) (s : St) : L * St :=
    match b with
    | [] => (l, s)
    | st :: r => let '(l', s') := st l s in run_steps r l' s'
    end.

  Definition run_call (c : C) (s : St) : L * St := run_steps (body c) (init c) s.

  (* the calls of a log, one after the other, each atomically: final state and (thread, call, return value) *)
  Fixpoint serial (lg : list (nat * C)) (s : St) : St * list (nat * (C * L)) :=
    match lg with
    | [] => (s, [])
    | (t, c) :: r =>
        let '(l, s') := run_call c s in
        let '(sf, rs) := serial r s' in (sf, (t, (c, l)) :: rs)
    end.

  Definition of_thread {A : Type} (t : nat) (l : list (nat * A)) : list A :=
    map snd (filter (fun x => Nat.eqb (fst x) t) l).
End Interleave.

Arguments mkT {St L C}.
Arguments mkC {St L C}.
Arguments cur {St L C}.
Arguments todo {St L C}.
Arguments rets {St L C}.
Arguments shared {St L C}.
Arguments holder {St L C}.
Arguments thr {St L C}.
Arguments acq {St L C}.
Arguments upd {A}.
Arguments init_config {St L C}.
Arguments step_thread {St L C}.
Arguments run_sched {St L C}.
Arguments finished {St L C}.
Arguments finishedb {St L C}.
Arguments run_steps {St L}.
Arguments run_call {St L C}.
Arguments serial {St L C}.
Arguments of_thread {A}.

(* [(thread, number of grants)] -> schedule *)
Fixpoint segments (segs : list (nat * nat)) : list nat :=
  match segs with
  | [] => []
  | (t, n) :: r => repeat t n ++ segments r
  end.
