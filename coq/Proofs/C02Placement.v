(* C02 -- placement of messages by (task_uuid, task_level), for ARBITRARY
   sequences of API operations (every interleaving of threads / coroutines at
   API-call granularity is one [list (nat * op)]).

   Setting: [final cfg c0 ds ops] = the run of [(c0, OAddDests ds) :: ops] from
   [init_state]; the observed destination is the one registered under id [i] by that
   first add_destinations ([observed i ds]); what it is OFFERED is judged (so it may
   even fail itself), whatever the other destinations do.

   Results
     under [disciplined i cfg ops (registered ds) = true]   (section 6)
       C02_unique           no two messages share (task_uuid, task_level)
       C02_emission_order   under one owner (uuid, level prefix) positions appear in
                            the trace in strictly increasing order
       C02_placed           every message has a uuid and a non-empty level handed out
                            by the action object owning that prefix (k <= _last_child),
                            or is message [1] of a uuid no action has
       C02_child_extends, C02_distinct_owners, C02_exclusive
     under the stronger [disciplined2 i cfg ops (registered ds) = true]   (section 9)
       C02_contiguous       per action object the used positions (messages, child /
                            continued actions, serialized ids) are exactly
                            1.._last_child, start message at 1, once finished the end
                            message at the last position
     programs
       C02_compile_disciplined   fst (compile c p) is [disciplined] for every
                            syntactically well-formed program (wf_prog, NoDup handles)
       C02_unique_program   hence uniqueness for all such programs
     limits of the statements (vm_compute witnesses)
       Refute.C02_unscoped_refuted       finish() while current + failing destination:
                            end message not last (DESIGN F6) -- needs disciplined2
       Buffered.C02_buffered_replay_refuted   messages buffered before the first
                            add_destinations, replayed while a destination fails:
                            emission order <> level order (also on /repo)

   Structure: 1 fields; 2 invariant PI on (heap, next_uuid, ids, trace); 3 pio;
   4 live handles HI; 5 state invariant Inv and the send chain; 6 discipline,
   api_step; 7 theorems; 8 example; 9 contiguity invariant CI/CInv, discipline2;
   10 theorem 2; 11 compiled programs. *)
From Coq Require Import List PArith NArith ZArith Bool Arith Lia.
Require Import Eliot.Base.Level Eliot.Model.Core Eliot.Model.Prog Eliot.Proofs.CoreBasics.
Import ListNotations.

(* ====================================================================== *)
(* 1. fields: the place of a message, keys untouched by updates           *)
(* ====================================================================== *)
Definition place (m : msg) : option val * option val := (fget K_uuid m, fget K_level m).
Definition mkplace (u : nat) (l : level) : option val * option val :=
  (Some (VUuid u), Some (VLevel l)).

Lemma mkplace_inj u l u' l' : mkplace u l = mkplace u' l' -> u = u' /\ l = l'.
Proof. unfold mkplace; intros H; inversion H; auto. Qed.

Definition nokey (k : key) (l : fields) : bool :=
  forallb (fun kv => negb (Pos.eqb (fst kv) k)) l.

Lemma fget_fupdate_nokey k m upd : nokey k upd = true -> fget k (fupdate m upd) = fget k m.
Proof.
  unfold fupdate. revert m. induction upd as [|[k' v] r IH]; intros m H; cbn in *; [reflexivity|].
  apply andb_true_iff in H as [H1 H2]. rewrite IH by exact H2.
  apply fget_fset_other. apply negb_true_iff in H1. apply Pos.eqb_neq in H1. exact H1.
Qed.

Lemma place_fupdate m g :
  nokey K_uuid g = true -> nokey K_level g = true -> place (fupdate m g) = place m.
Proof. intros A B. unfold place. now rewrite !fget_fupdate_nokey. Qed.

Lemma nokey_fset k k' v m : k' <> k -> nokey k m = true -> nokey k (fset k' v m) = true.
Proof.
  intros Hne. induction m as [|[k2 v2] r IH]; intros H; cbn [fset].
  - cbn. destruct (Pos.eqb_spec k' k); [congruence | reflexivity].
  - cbn in H. apply andb_true_iff in H as [H1 H2].
    destruct (Pos.compare k' k2); cbn; rewrite ?H1, ?H2; cbn.
    + destruct (Pos.eqb_spec k' k); [congruence | reflexivity].
    + destruct (Pos.eqb_spec k' k); [congruence | reflexivity].
    + apply IH, H2.
Qed.

Lemma nokey_fupdate k m upd :
  nokey k m = true -> nokey k upd = true -> nokey k (fupdate m upd) = true.
Proof.
  unfold fupdate. revert m. induction upd as [|[k' v] r IH]; intros m A B; cbn in *; [exact A|].
  apply andb_true_iff in B as [B1 B2]. apply IH; [|exact B2].
  apply nokey_fset; [|exact A]. apply negb_true_iff in B1. now apply Pos.eqb_neq in B1.
Qed.

(* declared serializer fields: eliot's _MessageSerializer refuses the reserved
   names task_uuid / task_level (ValueError at construction) *)
Definition ser_ok (sr : mser) : bool :=
  forallb (fun kf => negb (Pos.eqb (fst kf) K_uuid) && negb (Pos.eqb (fst kf) K_level)) sr.

Definition oser_ok (o : option mser) : bool :=
  match o with Some sr => ser_ok sr | None => true end.

Definition asers_ok (o : option asers) : bool :=
  match o with
  | Some x => ser_ok (s_start x) && ser_ok (s_success x) && ser_ok (s_failure x)
  | None => true
  end.

Lemma serialize_place sr : forall m m',
  ser_ok sr = true -> serialize sr m = Ok m' -> place m' = place m.
Proof.
  induction sr as [|[k f] r IH]; intros m m' H E; cbn [serialize] in E.
  - inversion E; reflexivity.
  - change (ser_ok ((k, f) :: r))
      with ((negb (Pos.eqb k K_uuid) && negb (Pos.eqb k K_level)) && ser_ok r) in H.
    apply andb_true_iff in H as [H1 H2]. apply andb_true_iff in H1 as [Hu Hl].
    apply negb_true_iff in Hu, Hl. apply Pos.eqb_neq in Hu, Hl.
    destruct (fget k m) as [v|]; [|discriminate]. destruct (f v) as [v'|]; [|discriminate].
    rewrite (IH _ _ H2 E). unfold place. now rewrite !fget_fset_other.
Qed.

Ltac keys_ne := unfold K_uuid, K_level, K_ts, K_atype, K_mtype, K_status; discriminate.
Ltac place_tac :=
  unfold place, mkplace; f_equal;
  repeat (rewrite fget_fset_same || (rewrite fget_fset_other by keys_ne)); reflexivity.

Lemma place_stamp u l mt fs : place (stamp u l mt fs) = mkplace u l.
Proof. unfold stamp. place_tac. Qed.

(* ====================================================================== *)
(* 2. the placement invariant on (heap, next_uuid, ids, trace)            *)
(* ====================================================================== *)
Definition heapT := list (nat * action).

(* (u, l) is a position handed out by a heap action: l = its level ++ [k], k <= _last_child *)
Definition hcovered (hp : heapT) (u : nat) (l : level) : Prop :=
  exists h a k, alookup h hp = Some a /\ a_uuid a = u /\
                l = a_level a ++ [Pos.of_nat k] /\ 1 <= k <= a_last a.

(* (u, [1]) is the message of a throw-away action (log_message with no current action) *)
Definition lone (hp : heapT) (nu : nat) (u : nat) (l : level) : Prop :=
  l = [1%positive] /\ u < nu /\ forall h a, alookup h hp = Some a -> a_uuid a <> u.

Definition covered (hp : heapT) (nu : nat) (u : nat) (l : level) : Prop :=
  hcovered hp u l \/ lone hp nu u l.

Definition free_node (hp : heapT) (u : nat) (l : level) : Prop :=
  forall h a, alookup h hp = Some a -> a_uuid a = u -> a_level a = l -> False.

Definition free_id (idz : list (nat * (nat * level))) (u : nat) (l : level) : Prop :=
  forall slot, alookup slot idz = Some (u, l) -> False.

(* every earlier message under the same owner (uuid, prefix) has a smaller last component *)
Definition above (t : list msg) (u : nat) (l : level) : Prop :=
  forall m p k1 k2, In m t -> place m = mkplace u (p ++ [k1]) -> l = p ++ [k2] -> (k1 < k2)%positive.

Inductive pio : list msg -> Prop :=
| pio_nil : pio []
| pio_snoc t m u p k : pio t -> place m = mkplace u (p ++ [k]) -> above t u (p ++ [k]) -> pio (t ++ [m]).

Record PI (hp : heapT) (nu : nat) (idz : list (nat * (nat * level))) (t : list msg) : Prop := {
  pi_nodes : forall h1 h2 a1 a2, alookup h1 hp = Some a1 -> alookup h2 hp = Some a2 ->
             a_uuid a1 = a_uuid a2 -> a_level a1 = a_level a2 -> h1 = h2;
  pi_uuids : forall h a, alookup h hp = Some a -> a_uuid a < nu;
  pi_sers : forall h a, alookup h hp = Some a -> asers_ok (a_sers a) = true;
  pi_parent : forall h a, alookup h hp = Some a ->
              a_level a = [] \/ hcovered hp (a_uuid a) (a_level a);
  pi_ids : forall slot u l, alookup slot idz = Some (u, l) -> hcovered hp u l;
  pi_trace : forall m, In m t -> exists u l, place m = mkplace u l /\ covered hp nu u l;
  pi_order : pio t;
  (* a position used by a message is not also an action's own level, nor a serialized task id *)
  pi_msg_node : forall m h a, In m t -> alookup h hp = Some a ->
                place m <> mkplace (a_uuid a) (a_level a);
  pi_msg_ids : forall m slot u l, In m t -> alookup slot idz = Some (u, l) -> place m <> mkplace u l
}.

(* heap growth: same handles keep uuid/level, _last_child only grows *)
Definition hext (hp hp' : heapT) : Prop :=
  forall h a, alookup h hp = Some a ->
    exists a', alookup h hp' = Some a' /\ a_uuid a' = a_uuid a /\ a_level a' = a_level a /\
               a_last a <= a_last a'.

Definition hback (hp hp' : heapT) : Prop :=
  forall h a', alookup h hp' = Some a' ->
    exists a, alookup h hp = Some a /\ a_uuid a' = a_uuid a /\ a_level a' = a_level a /\
              a_sers a' = a_sers a /\ a_last a <= a_last a'.

Lemma hcovered_ext hp hp' u l : hext hp hp' -> hcovered hp u l -> hcovered hp' u l.
Proof.
  intros E (h & a & k & L & U & EQ & K). destruct (E _ _ L) as (a' & L' & U' & V' & N').
  exists h, a', k. rewrite U', V'. repeat split; auto; lia.
Qed.

Lemma alookup_aset {A} k k' (v : A) l :
  alookup k' (aset k v l) = if Nat.eqb k k' then Some v else alookup k' l.
Proof.
  destruct (Nat.eqb_spec k k') as [->|N]; [apply alookup_aset_same | now apply alookup_aset_other].
Qed.

Lemma hext_upd hp h a a' :
  alookup h hp = Some a -> a_uuid a' = a_uuid a -> a_level a' = a_level a -> a_last a <= a_last a' ->
  hext hp (aset h a' hp).
Proof.
  intros L U V N h0 a0 L0. rewrite alookup_aset. destruct (Nat.eqb_spec h h0) as [->|Hne].
  - rewrite L in L0; inversion L0; subst a0. exists a'; auto.
  - exists a0; auto.
Qed.

Lemma hback_upd hp h a a' :
  alookup h hp = Some a -> a_uuid a' = a_uuid a -> a_level a' = a_level a -> a_sers a' = a_sers a ->
  a_last a <= a_last a' -> hback hp (aset h a' hp).
Proof.
  intros L U V S N h0 a0. rewrite alookup_aset. destruct (Nat.eqb_spec h h0) as [->|Hne]; intros L0.
  - inversion L0; subst a0. exists a; auto.
  - exists a0; auto.
Qed.

Lemma hext_new hp h a' : alookup h hp = None -> hext hp (aset h a' hp).
Proof.
  intros L h0 a0 L0. rewrite alookup_aset. destruct (Nat.eqb_spec h h0) as [->|Hne].
  - congruence.
  - exists a0; auto.
Qed.

Lemma PI_same_domain hp hp' nu idz t :
  PI hp nu idz t -> hext hp hp' -> hback hp hp' -> PI hp' nu idz t.
Proof.
  intros [Nd Uu Se Pa Id Tr Or Mn Mi] E B. constructor.
  - intros h1 h2 a1 a2 L1 L2 U V.
    destruct (B _ _ L1) as (b1 & M1 & U1 & V1 & _). destruct (B _ _ L2) as (b2 & M2 & U2 & V2 & _).
    apply (Nd h1 h2 b1 b2); congruence.
  - intros h a L. destruct (B _ _ L) as (b & M & U & _). rewrite U. eauto.
  - intros h a L. destruct (B _ _ L) as (b & M & _ & _ & S & _). rewrite S. eauto.
  - intros h a L. destruct (B _ _ L) as (b & M & U & V & _). rewrite U, V.
    destruct (Pa _ _ M); [left; auto | right; eapply hcovered_ext; eauto].
  - intros slot u l L. eapply hcovered_ext; eauto.
  - intros m I. destruct (Tr m I) as (u & l & P & [C|(C1 & C2 & C3)]); exists u, l; split; auto.
    + left. eapply hcovered_ext; eauto.
    + right. repeat split; auto. intros h a L. destruct (B _ _ L) as (b & M & U & _). rewrite U. eauto.
  - exact Or.
  - intros m h a I L. destruct (B _ _ L) as (b & M & U & V & _). rewrite U, V. eapply Mn; eauto.
  - exact Mi.
Qed.

(* --- taking the next position of a heap action ------------------------- *)
Definition bump (a : action) : action := fst (next_level a).
Definition nextpos (a : action) : level := snd (next_level a).

Lemma nextpos_eq a : nextpos a = a_level a ++ [Pos.of_nat (S (a_last a))].
Proof. reflexivity. Qed.

Lemma app_tail_inj (p q : level) x y : p ++ [x] = q ++ [y] -> p = q /\ x = y.
Proof. apply app_inj_tail. Qed.

Lemma PI_take hp nu idz t h a :
  PI hp nu idz t -> alookup h hp = Some a ->
  PI (aset h (bump a) hp) nu idz t /\
  hcovered (aset h (bump a) hp) (a_uuid a) (nextpos a) /\
  above t (a_uuid a) (nextpos a) /\
  free_node (aset h (bump a) hp) (a_uuid a) (nextpos a) /\
  free_id idz (a_uuid a) (nextpos a).
Proof.
  intros P L.
  assert (E : hext hp (aset h (bump a) hp)) by (eapply hext_upd; eauto; cbn; lia).
  assert (B : hback hp (aset h (bump a) hp)) by (eapply hback_upd; eauto; cbn; lia).
  split; [eapply PI_same_domain; eauto|]. destruct P as [Nd Uu Se Pa Id Tr Or Mn Mi].
  split; [|split; [|split]].
  - exists h, (bump a), (S (a_last a)). rewrite alookup_aset_same. cbn. repeat split; auto; lia.
  - intros m p k1 k2 I Pm EQ. rewrite nextpos_eq in EQ. apply app_tail_inj in EQ as [<- <-].
    destruct (Tr m I) as (u & l & Pm' & C). rewrite Pm in Pm'. apply mkplace_inj in Pm' as [<- <-].
    destruct C as [(h0 & a0 & k0 & L0 & U0 & EQ0 & K0)|(_ & _ & C3)].
    + apply app_tail_inj in EQ0 as [V0 ->].
      assert (h0 = h) by (eapply Nd; eauto). subst h0. rewrite L in L0; inversion L0; subst a0. lia.
    + exfalso. eapply C3; eauto.
  - intros h0 a0 L0 U0 V0. destruct (B _ _ L0) as (b & M & U & V & _).
    destruct (Pa _ _ M) as [N|(h1 & a1 & k1 & L1 & U1 & EQ1 & K1)].
    + rewrite <- V, V0, nextpos_eq in N. destruct (a_level a); discriminate.
    + rewrite <- V, V0, nextpos_eq in EQ1. apply app_tail_inj in EQ1 as [V1 K].
      assert (h1 = h) by (eapply Nd; eauto; congruence). subst h1.
      rewrite L in L1; inversion L1; subst a1. lia.
  - intros slot L0. destruct (Id _ _ _ L0) as (h1 & a1 & k1 & L1 & U1 & EQ1 & K1).
    rewrite nextpos_eq in EQ1. apply app_tail_inj in EQ1 as [V1 K].
    assert (h1 = h) by (eapply Nd; eauto; congruence). subst h1.
    rewrite L in L1; inversion L1; subst a1. lia.
Qed.

(* --- a fresh uuid ------------------------------------------------------- *)
Lemma PI_fresh_uuid hp nu idz t :
  PI hp nu idz t ->
  PI hp (S nu) idz t /\ covered hp (S nu) nu [1%positive] /\ above t nu [1%positive] /\
  (forall h a, alookup h hp = Some a -> a_uuid a <> nu) /\
  free_node hp nu [1%positive] /\ free_id idz nu [1%positive].
Proof.
  intros [Nd Uu Se Pa Id Tr Or Mn Mi].
  assert (F : forall h a, alookup h hp = Some a -> a_uuid a <> nu).
  { intros h a L. specialize (Uu _ _ L). lia. }
  split; [|split; [|split; [|split; [exact F|split]]]].
  - constructor; auto.
    + intros h a L. specialize (Uu _ _ L). lia.
    + intros m I. destruct (Tr m I) as (u & l & P & [C|(C1 & C2 & C3)]); exists u, l; split; auto.
      * left; auto.
      * right. repeat split; auto.
  - right. repeat split; auto.
  - intros m p k1 k2 I Pm _. exfalso. destruct (Tr m I) as (u & l & Pm' & C).
    rewrite Pm in Pm'. apply mkplace_inj in Pm' as [<- <-].
    destruct C as [(h0 & a0 & k0 & L0 & U0 & _)|(_ & C2 & _)]; [|lia].
    specialize (Uu _ _ L0). lia.
  - intros h a L U _. eapply F; eauto.
  - intros slot L. destruct (Id _ _ _ L) as (h1 & a1 & k1 & L1 & U1 & _). eapply F; eauto.
Qed.

(* --- new heap entries --------------------------------------------------- *)
Lemma PI_new hp nu idz t h a' :
  PI hp nu idz t -> alookup h hp = None ->
  a_uuid a' < nu -> asers_ok (a_sers a') = true ->
  (a_level a' = [] \/ hcovered hp (a_uuid a') (a_level a')) ->
  free_node hp (a_uuid a') (a_level a') ->
  (* no context-less message carries this uuid *)
  (forall m l, In m t -> place m = mkplace (a_uuid a') l -> hcovered hp (a_uuid a') l) ->
  (forall m, In m t -> place m <> mkplace (a_uuid a') (a_level a')) ->
  PI (aset h a' hp) nu idz t.
Proof.
  intros [Nd Uu Se Pa Id Tr Or Mn Mi] L U S P F C Mx.
  assert (E : hext hp (aset h a' hp)) by now apply hext_new.
  constructor.
  - intros h1 h2 a1 a2. rewrite !alookup_aset.
    destruct (Nat.eqb_spec h h1) as [<-|N1], (Nat.eqb_spec h h2) as [<-|N2]; intros L1 L2 U12 V12; auto.
    + inversion L1; subst a1. exfalso. eapply F; eauto.
    + inversion L2; subst a2. exfalso. eapply F; eauto.
    + eapply Nd; eauto.
  - intros h0 a0. rewrite alookup_aset. destruct (Nat.eqb_spec h h0) as [<-|N]; intros L0.
    + now inversion L0; subst.
    + eauto.
  - intros h0 a0. rewrite alookup_aset. destruct (Nat.eqb_spec h h0) as [<-|N]; intros L0.
    + now inversion L0; subst.
    + eauto.
  - intros h0 a0. rewrite alookup_aset. destruct (Nat.eqb_spec h h0) as [<-|N]; intros L0.
    + inversion L0; subst a0. destruct P; [left; auto | right; eapply hcovered_ext; eauto].
    + destruct (Pa _ _ L0); [left; auto | right; eapply hcovered_ext; eauto].
  - intros slot u l L0. eapply hcovered_ext; eauto.
  - intros m I. destruct (Tr m I) as (u & l & Pm & [Cv|(C1 & C2 & C3)]); exists u, l; split; auto.
    + left; eapply hcovered_ext; eauto.
    + destruct (Nat.eq_dec (a_uuid a') u) as [<-|Nu].
      * left. eapply hcovered_ext; eauto.
      * right. repeat split; auto. intros h0 a0. rewrite alookup_aset.
        destruct (Nat.eqb_spec h h0) as [<-|N]; intros L0; [now inversion L0; subst | eauto].
  - exact Or.
  - intros m h0 a0 I. rewrite alookup_aset.
    destruct (Nat.eqb_spec h h0) as [<-|N]; intros L0; [inversion L0; subst a0; auto | eauto].
  - exact Mi.
Qed.

(* --- ids and the trace -------------------------------------------------- *)
Lemma PI_ids hp nu idz t slot u l :
  PI hp nu idz t -> hcovered hp u l -> (forall m, In m t -> place m <> mkplace u l) ->
  PI hp nu (aset slot (u, l) idz) t.
Proof.
  intros [Nd Uu Se Pa Id Tr Or Mn Mi] C Mx. constructor; auto.
  - intros slot0 u0 l0. rewrite alookup_aset. destruct (Nat.eqb_spec slot slot0) as [<-|N]; intros L.
    + now inversion L; subst.
    + eauto.
  - intros m slot0 u0 l0 I. rewrite alookup_aset.
    destruct (Nat.eqb_spec slot slot0) as [<-|N]; intros L; [inversion L; subst; auto | eauto].
Qed.

Lemma covered_nonempty hp nu u l : covered hp nu u l -> exists p k, l = p ++ [k].
Proof.
  intros [(h & a & k & _ & _ & EQ & _)|(EQ & _)].
  - eauto.
  - exists [], 1%positive. exact EQ.
Qed.

Lemma PI_append hp nu idz t m u l :
  PI hp nu idz t -> place m = mkplace u l -> covered hp nu u l -> above t u l ->
  free_node hp u l -> free_id idz u l ->
  PI hp nu idz (t ++ [m]).
Proof.
  intros [Nd Uu Se Pa Id Tr Or Mn Mi] Pm C A Fn Fi. constructor; auto.
  - intros m0 I. apply in_app_or in I as [I|[<-|[]]]; eauto.
  - destruct (covered_nonempty _ _ _ _ C) as (p & k & ->). econstructor; eauto.
  - intros m0 h a I L. apply in_app_or in I as [I|[<-|[]]]; [eauto|].
    rewrite Pm. intros Q. apply mkplace_inj in Q as [-> ->]. eapply Fn; eauto.
  - intros m0 slot u0 l0 I L. apply in_app_or in I as [I|[<-|[]]]; [eauto|].
    rewrite Pm. intros Q. apply mkplace_inj in Q as [-> ->]. eapply Fi; eauto.
Qed.

Lemma above_fresh t u p k m : above t u (p ++ [k]) -> In m t -> place m <> mkplace u (p ++ [k]).
Proof. intros A I Q. specialize (A m p k k I Q eq_refl). lia. Qed.

(* ====================================================================== *)
(* 3. consequences of [pio]                                               *)
(* ====================================================================== *)
Lemma pio_NoDup t : pio t -> NoDup (map place t).
Proof.
  induction 1 as [|t m u p k Hp IH Pm A].
  - constructor.
  - rewrite map_app. cbn. apply NoDup_rev in IH. rewrite <- (rev_involutive (_ ++ _)).
    apply NoDup_rev. rewrite rev_app_distr. cbn. constructor; [|exact IH].
    rewrite <- in_rev. intros I. apply in_map_iff in I as (m1 & P1 & I1).
    rewrite Pm in P1. specialize (A m1 p k k I1 P1 eq_refl). lia.
Qed.

(* the readable form of emission order *)
Definition emission_ordered (t : list msg) : Prop :=
  forall t1 m1 t2 m2 t3 u p k1 k2,
    t = t1 ++ m1 :: t2 ++ m2 :: t3 ->
    place m1 = mkplace u (p ++ [k1]) -> place m2 = mkplace u (p ++ [k2]) -> (k1 < k2)%positive.

Lemma snoc_split {A} (t : list A) m t1 m2 t3 :
  t ++ [m] = t1 ++ m2 :: t3 ->
  (t3 = [] /\ t1 = t /\ m2 = m) \/ exists t3', t3 = t3' ++ [m] /\ t = t1 ++ m2 :: t3'.
Proof.
  intros E. destruct t3 as [|x r] using rev_ind.
  - left. apply app_inj_tail in E as [-> ->]. auto.
  - right. clear IHr. exists r. split.
    + f_equal. change (t1 ++ m2 :: r ++ [x]) with (t1 ++ (m2 :: r) ++ [x]) in E.
      rewrite app_assoc in E. apply app_inj_tail in E as [_ ->]. reflexivity.
    + change (t1 ++ m2 :: r ++ [x]) with (t1 ++ (m2 :: r) ++ [x]) in E.
      rewrite app_assoc in E. now apply app_inj_tail in E as [-> _].
Qed.

Lemma pio_emission_ordered t : pio t -> emission_ordered t.
Proof.
  induction 1 as [|t m u p k Hp IH Pm A]; intros t1 m1 t2 m2 t3 u0 p0 k1 k2 E P1 P2.
  - destruct t1; discriminate.
  - rewrite app_comm_cons, app_assoc in E.
    apply snoc_split in E as [(-> & E1 & ->)|(t3' & -> & E1)].
    + rewrite Pm in P2. apply mkplace_inj in P2 as [-> EQ].
      eapply (A m1 p0 k1 k2); eauto. subst t. apply in_or_app. right. left. reflexivity.
    + eapply IH; eauto. rewrite E1, <- app_assoc. reflexivity.
Qed.

(* ====================================================================== *)
(* 4. handles referenced from contexts and saved tokens are live          *)
(* ====================================================================== *)
Definition live (hp : heapT) (h : nat) : Prop := alookup h hp <> None.
Definition olive (hp : heapT) (v : option nat) : Prop :=
  match v with Some h => live hp h | None => True end.

Record HI (hp : heapT) (cx : list (nat * option nat)) (tk : list (nat * list (option nat))) : Prop := {
  hi_ctx : forall c v, alookup c cx = Some v -> olive hp v;
  hi_tok : forall c t v, alookup c tk = Some t -> In v t -> olive hp v;
  hi_atok : forall h a v, alookup h hp = Some a -> a_token a = Some v -> olive hp v
}.

Lemma live_aset hp h a h' : live hp h' -> live (aset h a hp) h'.
Proof.
  unfold live. rewrite alookup_aset. destruct (Nat.eqb h h'); [discriminate | auto].
Qed.

Lemma olive_aset hp h a v : olive hp v -> olive (aset h a hp) v.
Proof. destruct v; cbn; [apply live_aset | auto]. Qed.

Lemma HI_aset hp cx tk h a' :
  HI hp cx tk -> (forall v, a_token a' = Some v -> olive hp v) -> HI (aset h a' hp) cx tk.
Proof.
  intros [C T A] N. constructor.
  - intros; eapply olive_aset; eauto.
  - intros; eapply olive_aset; eauto.
  - intros h0 a0 v. rewrite alookup_aset. destruct (Nat.eqb h h0); intros L E; apply olive_aset.
    + inversion L; subst a0; auto.
    + eauto.
Qed.

Lemma HI_ctx hp cx tk c v : HI hp cx tk -> olive hp v -> HI hp (aset c v cx) tk.
Proof.
  intros [C T A] N. constructor; auto.
  intros c0 v0. rewrite alookup_aset. destruct (Nat.eqb c c0); intros L; [inversion L; subst; auto | eauto].
Qed.

Lemma HI_tok hp cx tk c t :
  HI hp cx tk -> (forall v, In v t -> olive hp v) -> HI hp cx (aset c t tk).
Proof.
  intros [C T A] N. constructor; auto.
  intros c0 t0 v0. rewrite alookup_aset. destruct (Nat.eqb c c0); intros L; [inversion L; subst; auto | eauto].
Qed.

(* ====================================================================== *)
(* 5. the invariant on states, for the observed destination id [i]        *)
(* ====================================================================== *)
Section Obs.
Variable i : nat.
Definition is_i (d : dest) : bool := Nat.eqb (d_id d) i.

Record Inv (s : state) : Prop := {
  inv_added : any_added s = true;
  inv_dest : exists d, find is_i (dests s) = Some d;
  inv_gu : nokey K_uuid (globals s) = true;
  inv_gl : nokey K_level (globals s) = true;
  inv_PI : PI (heap s) (next_uuid s) (ids s) (trace_of s i);
  inv_HI : HI (heap s) (ctx s) (tokens s)
}.

Definition Step (s s' : state) : Prop := Inv s' /\ hext (heap s) (heap s').

Lemma hext_refl hp : hext hp hp.
Proof. intros h a L. exists a; auto. Qed.

Lemma hext_trans a b c : hext a b -> hext b c -> hext a c.
Proof.
  intros H1 H2 h x L. destruct (H1 _ _ L) as (y & L1 & U1 & V1 & N1).
  destruct (H2 _ _ L1) as (z & L2 & U2 & V2 & N2). exists z. repeat split; try congruence. lia.
Qed.

Lemma Step_refl s : Inv s -> Step s s.
Proof. split; [auto | apply hext_refl]. Qed.

Lemma Step_trans s1 s2 s3 : Step s1 s2 -> Step s2 s3 -> Step s1 s3.
Proof. intros [_ A] [I B]. split; [auto | eapply hext_trans; eauto]. Qed.

(* --- what the observed destination has seen ----------------------------- *)
Lemma find_app {A} f (l1 l2 : list A) :
  find f (l1 ++ l2) = match find f l1 with Some x => Some x | None => find f l2 end.
Proof. induction l1 as [|x r IH]; cbn; [reflexivity|]. destruct (f x); auto. Qed.

Lemma trace_reg s d : find is_i (dests s) = Some d -> trace_of s i = d_log d.
Proof.
  intros F. unfold trace_of, all_dests. rewrite find_app.
  change (fun d0 : dest => Nat.eqb (d_id d0) i) with is_i. now rewrite F.
Qed.

Lemma fanout_find m ds d :
  find is_i ds = Some d ->
  find is_i (fst (fanout m ds)) = Some (mkDest (d_id d) (d_behave d) (S (d_calls d)) (d_log d ++ [m])).
Proof.
  induction ds as [|x r IH]; cbn [find fanout]; [discriminate|].
  destruct (fanout m r) as [r' errs]. cbn [fst find] in *. unfold is_i at 1 3. cbn [d_id].
  fold (is_i x). destruct (is_i x); intros E; [inversion E; subst; reflexivity | auto].
Qed.

Lemma deliver_eq s m :
  any_added s = true ->
  deliver s m = (set_out s true (buffer s) (fst (fanout m (dests s))) (gone s), snd (fanout m (dests s))).
Proof. intros A. unfold deliver. rewrite A. now destruct (fanout m (dests s)). Qed.

Definition pending (s : state) (u : nat) (l : level) : Prop :=
  covered (heap s) (next_uuid s) u l /\ above (trace_of s i) u l /\
  free_node (heap s) u l /\ free_id (ids s) u l.

Lemma pending_fresh s u l : pending s u l -> forall m, In m (trace_of s i) -> place m <> mkplace u l.
Proof.
  intros (C & A & _) m I. destruct (covered_nonempty _ _ _ _ C) as (p & k & ->).
  eapply above_fresh; eauto.
Qed.

Definition sendable (s : state) (m : msg) : Prop :=
  exists u l, place m = mkplace u l /\ pending s u l.

Lemma deliver_step s m : Inv s -> sendable s m -> Step s (fst (deliver s m)).
Proof.
  intros [A [d D] Gu Gl P H] (u & l & Pm & C & Ab & Fn & Fi). rewrite deliver_eq by exact A. cbn [fst].
  split; [|apply hext_refl]. pose proof (fanout_find m _ _ D) as D'.
  constructor; cbn; auto.
  - eauto.
  - erewrite trace_reg by (cbn; exact D'). cbn [d_log].
    rewrite (trace_reg _ _ D) in P, Ab. eapply PI_append; eauto.
Qed.

(* --- positions ------------------------------------------------------------ *)
Lemma take_level_eq s h a :
  alookup h (heap s) = Some a -> take_level s h = (set_heap s h (bump a), nextpos a).
Proof. intros L. unfold take_level. now rewrite L. Qed.

Lemma take_step s h a :
  Inv s -> alookup h (heap s) = Some a ->
  let s1 := set_heap s h (bump a) in
  Step s s1 /\ pending s1 (a_uuid a) (nextpos a) /\
  hcovered (heap s1) (a_uuid a) (nextpos a) /\ free_node (heap s1) (a_uuid a) (nextpos a) /\
  alookup h (heap s1) = Some (bump a).
Proof.
  intros [A D Gu Gl P H] L s1.
  destruct (PI_take _ _ _ _ _ _ P L) as (P1 & C1 & A1 & F1 & Fi1).
  split; [split|].
  - constructor; cbn; auto. apply HI_aset; auto. intros v E. eapply hi_atok; eauto.
  - cbn. eapply hext_upd; eauto; cbn; lia.
  - split; [exact (conj (or_introl C1) (conj A1 (conj F1 Fi1)))|]. split; [exact C1|]. split; [exact F1|].
    cbn. apply alookup_aset_same.
Qed.

Lemma olive_cur s c : HI (heap s) (ctx s) (tokens s) -> olive (heap s) (cur s c).
Proof.
  intros H. unfold cur. destruct (alookup c (ctx s)) as [v|] eqn:E; [|exact I].
  eapply hi_ctx; eauto.
Qed.

Lemma live_lookup hp h : live hp h -> exists a, alookup h hp = Some a.
Proof. unfold live. destruct (alookup h hp); [eauto | congruence]. Qed.

Lemma msg_position_step s c s1 u l :
  Inv s -> msg_position s c = (s1, u, l) -> Step s s1 /\ pending s1 u l.
Proof.
  intros I E. unfold msg_position in E. pose proof (olive_cur s c (inv_HI _ I)) as O.
  destruct (cur s c) as [h|].
  - destruct (live_lookup _ _ O) as (a & L). rewrite (take_level_eq _ _ _ L), L in E.
    inversion E; subst. destruct (take_step _ _ _ I L) as (S1 & Pd & _). auto.
  - cbn in E. inversion E; subst. destruct I as [A D Gu Gl P H].
    destruct (PI_fresh_uuid _ _ _ _ P) as (P1 & C1 & A1 & _ & Fn & Fi).
    split; [split|].
    + constructor; cbn; auto.
    + apply hext_refl.
    + exact (conj C1 (conj A1 (conj Fn Fi))).
Qed.

Lemma stamp_here_step s c mt fs s1 m :
  Inv s -> stamp_here s c mt fs = (s1, m) -> Step s s1 /\ sendable s1 m.
Proof.
  intros I E. unfold stamp_here in E. destruct (msg_position s c) as [[s2 u] l] eqn:E2.
  inversion E; subst. destruct (msg_position_step _ _ _ _ _ I E2) as (S1 & Pd).
  split; [exact S1|]. exists u, l. split; [apply place_stamp | exact Pd].
Qed.

(* --- Destinations.send ------------------------------------------------------ *)
Lemma sendable_globals s m : Inv s -> sendable s m -> sendable s (fupdate m (globals s)).
Proof.
  intros I (u & l & Pm & Pd). exists u, l. split; [|exact Pd].
  rewrite place_fupdate; auto using inv_gu, inv_gl.
Qed.

Lemma send_report_step s m : Inv s -> sendable s m -> Step s (send_report s m).
Proof. intros I S. unfold send_report. apply deliver_step; auto using sendable_globals. Qed.

Lemma log_report_step c about s e : Inv s -> Step s (log_report c about s e).
Proof.
  intros I. unfold log_report.
  destruct (stamp_here s c _ _) as [s2 m] eqn:E.
  destruct (stamp_here_step _ _ _ _ _ _ I E) as (S1 & Sd).
  eapply Step_trans; [exact S1|]. apply send_report_step; [apply S1 | exact Sd].
Qed.

Lemma fold_log_report_step c about errs : forall s,
  Inv s -> Step s (fold_left (log_report c about) errs s).
Proof.
  induction errs as [|e r IH]; intros s I; cbn [fold_left]; [now apply Step_refl|].
  pose proof (log_report_step c about s e I) as S1.
  eapply Step_trans; [exact S1|]. apply IH, S1.
Qed.

Lemma send_step c s m : Inv s -> sendable s m -> Step s (send c s m).
Proof.
  intros I S. unfold send.
  pose proof (deliver_step s _ I (sendable_globals _ _ I S)) as S1.
  destruct (deliver s (fupdate m (globals s))) as [s1 errs]. cbn [fst] in S1.
  destruct (is_report _); [exact S1|].
  eapply Step_trans; [exact S1|]. apply fold_log_report_step, S1.
Qed.

(* --- tracebacks, Logger.write ------------------------------------------------ *)
Section Cfg.
Variable cfg : config.

Lemma log_traceback_plain_step c s e extra : Inv s -> Step s (log_traceback_plain c s e extra).
Proof.
  intros I. unfold log_traceback_plain.
  destruct (stamp_here s c _ _) as [s2 m] eqn:E.
  destruct (stamp_here_step _ _ _ _ _ _ I E) as (S1 & Sd).
  eapply Step_trans; [exact S1|]. apply send_step; [apply S1 | exact Sd].
Qed.

Lemma fields_for_exception_step c s e : Inv s -> Step s (fst (fields_for_exception cfg c s e)).
Proof.
  intros I. unfold fields_for_exception.
  destruct (first_registered _ _) as [[fs|e']|]; cbn [fst]; try now apply Step_refl.
  now apply log_traceback_plain_step.
Qed.

Lemma write_traceback_step c s e : Inv s -> Step s (write_traceback cfg c s e).
Proof.
  intros I. unfold write_traceback.
  pose proof (fields_for_exception_step c s e I) as S1.
  destruct (fields_for_exception cfg c s e) as [s1 extra]. cbn [fst] in S1.
  eapply Step_trans; [exact S1|]. apply log_traceback_plain_step, S1.
Qed.

Lemma logger_write_step c s m ser :
  Inv s -> sendable s m -> oser_ok ser = true -> Step s (logger_write cfg c s m ser).
Proof.
  intros I S O. unfold logger_write. destruct ser as [sr|]; [|now apply send_step].
  destruct (serialize sr m) as [m'|e] eqn:E.
  - apply send_step; auto. destruct S as (u & l & Pm & Pd). exists u, l. split; auto.
    now rewrite (serialize_place _ _ _ O E).
  - pose proof (write_traceback_step c s e I) as S1.
    destruct (stamp_here _ c _ _) as [s3 fm] eqn:E3.
    destruct (stamp_here_step _ _ _ _ _ _ (proj1 S1) E3) as (S3 & Sd).
    eapply Step_trans; [exact S1|]. eapply Step_trans; [exact S3|].
    apply send_step; [apply S3 | exact Sd].
Qed.

(* --- actions --------------------------------------------------------------------- *)
Lemma opt_ser_ok sers pick :
  asers_ok sers = true -> (pick = s_start \/ pick = s_success \/ pick = s_failure) ->
  oser_ok (opt_ser sers pick) = true.
Proof.
  destruct sers as [x|]; cbn; [|auto]. intros H.
  apply andb_true_iff in H as [H H3]. apply andb_true_iff in H as [H1 H2].
  intros [->|[->| ->]]; auto.
Qed.

Lemma start_message_step c s h fs : Inv s -> Step s (start_message cfg c s h fs).
Proof.
  intros I. unfold start_message. destruct (alookup h (heap s)) as [a|] eqn:L; [|now apply Step_refl].
  rewrite (take_level_eq _ _ _ L).
  destruct (take_step _ _ _ I L) as (S1 & Pd & _).
  eapply Step_trans; [exact S1|]. apply logger_write_step; [apply S1| |].
  - exists (a_uuid a), (nextpos a). split; [place_tac | exact Pd].
  - apply opt_ser_ok; auto. eapply pi_sers; eauto using inv_PI.
Qed.

Lemma PI_uuid_hcovered hp nu idz t h a m l :
  PI hp nu idz t -> alookup h hp = Some a -> In m t -> place m = mkplace (a_uuid a) l ->
  hcovered hp (a_uuid a) l.
Proof.
  intros P L I Pm. destruct (pi_trace _ _ _ _ P m I) as (u & l0 & Pm' & C).
  rewrite Pm in Pm'. apply mkplace_inj in Pm' as [<- <-].
  destruct C as [C|(_ & _ & C3)]; [exact C | exfalso; eapply C3; eauto].
Qed.

Lemma new_sub_step s h u l ty sers :
  Inv s -> alookup h (heap s) = None -> hcovered (heap s) u l -> free_node (heap s) u l ->
  asers_ok sers = true -> (forall m, In m (trace_of s i) -> place m <> mkplace u l) ->
  Step s (set_heap s h (mkAction u l 0 false [] ty sers None)).
Proof.
  intros [A D Gu Gl P H] L C F S Mx. split; [|cbn; now apply hext_new].
  constructor; cbn; auto.
  - destruct C as (h0 & a0 & k0 & L0 & U0 & EQ0 & K0).
    apply PI_new; cbn; auto.
    + subst u. eapply pi_uuids; eauto.
    + right. exists h0, a0, k0; auto.
    + intros m l' I Pm. subst u. eapply PI_uuid_hcovered; eauto.
  - apply HI_aset; auto. cbn; discriminate.
Qed.

Lemma new_root_step s h ty sers :
  Inv s -> alookup h (heap s) = None -> asers_ok sers = true ->
  Step s (set_heap (fst (fresh_uuid s)) h (mkAction (next_uuid s) [] 0 false [] ty sers None)).
Proof.
  intros [A D Gu Gl P H] L S. split; [|cbn; now apply hext_new].
  destruct (PI_fresh_uuid _ _ _ _ P) as (P1 & C1 & A1 & F1 & _ & _).
  constructor; cbn; auto.
  - apply PI_new; cbn; auto.
    + intros h0 a0 L0 U0 _. eapply F1; eauto.
    + intros m l I Pm. exfalso. destruct (pi_trace _ _ _ _ P m I) as (u & l0 & Pm' & C).
      rewrite Pm in Pm'. apply mkplace_inj in Pm' as [<- <-].
      destruct C as [(h0 & a0 & k0 & L0 & U0 & _)|(_ & C2 & _)]; [|lia].
      eapply F1; eauto.
    + intros m I Q. destruct (pi_trace _ _ _ _ P m I) as (u & l0 & Pm' & C).
      rewrite Q in Pm'. apply mkplace_inj in Pm' as [<- <-].
      destruct (covered_nonempty _ _ _ _ C) as (p & k & E). destruct p; discriminate.
  - apply HI_aset; auto. cbn; discriminate.
Qed.

Lemma start_action_step c s h task ty fs sers :
  Inv s -> alookup h (heap s) = None -> asers_ok sers = true ->
  Step s (start_action cfg c s h task ty fs sers).
Proof.
  intros I L S. unfold start_action.
  assert (O : olive (heap s) (if task then None else cur s c)).
  { destruct task; [exact Logic.I | apply olive_cur, I]. }
  destruct (if task then None else cur s c) as [p|].
  - destruct (live_lookup _ _ O) as (pa & Lp). rewrite Lp, (take_level_eq _ _ _ Lp).
    destruct (take_step _ _ _ I Lp) as (S1 & Pd & C1 & F1 & L1).
    assert (Hne : p <> h) by congruence.
    assert (S2 : Step (set_heap s p (bump pa))
                      (set_heap (set_heap s p (bump pa)) h
                                (mkAction (a_uuid pa) (nextpos pa) 0 false [] ty sers None))).
    { apply new_sub_step; auto;
        [apply S1 | cbn; now rewrite alookup_aset_other | eapply pending_fresh; exact Pd]. }
    eapply Step_trans; [exact S1|]. eapply Step_trans; [exact S2|].
    apply start_message_step, S2.
  - cbn [fresh_uuid].
    pose proof (new_root_step s h ty sers I L S) as S2.
    eapply Step_trans; [exact S2|]. apply start_message_step, S2.
Qed.

Lemma set_heap_same_step s h a a' :
  Inv s -> alookup h (heap s) = Some a ->
  a_uuid a' = a_uuid a -> a_level a' = a_level a -> a_sers a' = a_sers a -> a_last a' = a_last a ->
  (forall v, a_token a' = Some v -> olive (heap s) v) ->
  Step s (set_heap s h a').
Proof.
  intros [A D Gu Gl P H] L U V S N T.
  split; [|cbn; eapply hext_upd; eauto; lia].
  constructor; cbn; auto.
  - eapply PI_same_domain; eauto; [eapply hext_upd | eapply hback_upd]; eauto; lia.
  - apply HI_aset; auto.
Qed.

Lemma finish_tail c s s1 h a fs ser :
  Step s s1 -> alookup h (heap s) = Some a -> oser_ok ser = true ->
  Step s (let '(s2, l) := take_level s1 h in
          logger_write cfg c s2
            (fset K_level (VLevel l)
               (fset K_atype (a_type a)
               (fset K_uuid (VUuid (a_uuid a))
               (fset K_ts VTime fs)))) ser).
Proof.
  intros S01 L Os.
  destruct (proj2 S01 _ _ L) as (a1 & L1 & U1 & V1 & _).
  rewrite (take_level_eq _ _ _ L1).
  destruct (take_step _ _ _ (proj1 S01) L1) as (S2 & Pd & _).
  eapply Step_trans; [exact S01|]. eapply Step_trans; [exact S2|].
  apply logger_write_step; [apply S2 | | exact Os].
  exists (a_uuid a1), (nextpos a1). split; [rewrite U1; place_tac | exact Pd].
Qed.

Lemma finish_step c s h exc : Inv s -> Step s (finish cfg c s h exc).
Proof.
  intros I. unfold finish. destruct (alookup h (heap s)) as [a|] eqn:L; [|now apply Step_refl].
  destruct (a_finished a); [now apply Step_refl|].
  match goal with |- context [set_heap s h ?x] => set (af := x) end.
  assert (S0 : Step s (set_heap s h af)).
  { eapply set_heap_same_step; eauto. intros v E. eapply hi_atok; eauto using inv_HI. }
  assert (Sa : asers_ok (a_sers a) = true) by (eapply pi_sers; eauto using inv_PI).
  set (s0 := set_heap s h af) in *.
  destruct exc as [e|].
  - pose proof (fields_for_exception_step c s0 e (proj1 S0)) as S1.
    destruct (fields_for_exception cfg c s0 e) as [s' xf]. cbn [fst] in S1.
    apply finish_tail; auto; [eapply Step_trans; eauto | apply opt_ser_ok; auto].
  - apply finish_tail; auto. apply opt_ser_ok; auto.
Qed.

(* --- small state updates ------------------------------------------------------- *)
Lemma set_ctx_step s c v : Inv s -> olive (heap s) v -> Step s (set_ctx s c v).
Proof.
  intros [A D Gu Gl P H] O. split; [|apply hext_refl]. constructor; cbn; auto. now apply HI_ctx.
Qed.

Lemma set_tokens_step s c t :
  Inv s -> (forall v, In v t -> olive (heap s) v) -> Step s (set_tokens s c t).
Proof.
  intros [A D Gu Gl P H] O. split; [|apply hext_refl]. constructor; cbn; auto. now apply HI_tok.
Qed.

Lemma set_ids_step s slot u l :
  Inv s -> hcovered (heap s) u l -> (forall m, In m (trace_of s i) -> place m <> mkplace u l) ->
  Step s (set_ids s (aset slot (u, l) (ids s))).
Proof.
  intros [A D Gu Gl P H] O Mx. split; [|apply hext_refl]. constructor; cbn; auto. now apply PI_ids.
Qed.

Lemma remove_dest_find id ds :
  id <> i -> find is_i (fst (remove_dest id ds)) = find is_i ds.
Proof.
  intros N. induction ds as [|d r IH]; cbn [remove_dest]; [reflexivity|].
  destruct (Nat.eqb_spec (d_id d) id) as [E|E]; cbn [fst find].
  - unfold is_i at 2. rewrite E. destruct (Nat.eqb_spec id i); [congruence | reflexivity].
  - destruct (remove_dest id r) as [r' x]. cbn [fst find] in *. now rewrite IH.
Qed.

(* ====================================================================== *)
(* 6. the discipline, and preservation by every API operation             *)
(* ====================================================================== *)
Definition fresh_handle (s : state) (h : nat) : bool :=
  match alookup h (heap s) with None => true | Some _ => false end.

(* no action object with this uuid and level exists (yet) *)
Definition node_free (s : state) (u : nat) (l : level) : bool :=
  forallb (fun h => match alookup h (heap s) with
                    | Some a => negb (Nat.eqb (a_uuid a) u && level_eqb (a_level a) l)
                    | None => true
                    end) (map fst (heap s)).

(* [op_ok s o]: operation [o] may be issued in state [s] (whatever the context):
   - start_action/startTask and continue_task create a NEW action object (fresh handle);
     declared serializers do not name task_uuid/task_level (eliot rejects those);
   - a task id is continued at most once (no action with that uuid and level exists);
   - a.context()/a.run() is applied to an existing action;
   - Logger.write with a caller-made dictionary is not part of the property;
   - the observed destination is not removed;
   - global fields do not use the names task_uuid/task_level. *)
Definition op_ok (s : state) (o : op) : bool :=
  match o with
  | OStart h _ _ _ sers => fresh_handle s h && asers_ok sers
  | OContinue h slot _ =>
      match alookup slot (ids s) with
      | None => true
      | Some (u, l) => fresh_handle s h && node_free s u l
      end
  | OCtxEnter h => negb (fresh_handle s h)
  | OLog _ _ ser => oser_ok ser
  | ORawWrite _ _ => false
  | ORemoveDest id => negb (Nat.eqb id i)
  | OAddGlobals fs => nokey K_uuid fs && nokey K_level fs
  | _ => true
  end.

Fixpoint disciplined (ops : list (nat * op)) (s : state) : bool :=
  match ops with
  | [] => true
  | (c, o) :: r => op_ok s o && disciplined r (api cfg c s o)
  end.

Lemma alookup_In {A} k (v : A) l : alookup k l = Some v -> In (k, v) l.
Proof.
  induction l as [|[k' v'] r IH]; cbn; [discriminate|].
  destruct (Nat.eqb_spec k k') as [->|N]; intros E; [inversion E; auto | auto].
Qed.

Lemma level_eqb_refl l : level_eqb l l = true.
Proof. induction l; cbn; [reflexivity|]. now rewrite Pos.eqb_refl. Qed.

Lemma level_eqb_eq l : forall l', level_eqb l l' = true -> l = l'.
Proof.
  induction l as [|x r IH]; intros [|y r']; cbn; try discriminate; auto.
  intros H. apply andb_true_iff in H as [H1 H2]. apply Pos.eqb_eq in H1. f_equal; auto.
Qed.

Lemma node_free_spec s u l : node_free s u l = true -> free_node (heap s) u l.
Proof.
  unfold node_free. rewrite forallb_forall. intros F h a L U V.
  assert (J : In h (map fst (heap s))) by (apply (in_map fst _ _ (alookup_In _ _ _ L))).
  specialize (F _ J). rewrite L, U, V, Nat.eqb_refl, level_eqb_refl in F. discriminate.
Qed.

Lemma node_free_complete s u l : free_node (heap s) u l -> node_free s u l = true.
Proof.
  intros F. unfold node_free. apply forallb_forall. intros h _.
  destruct (alookup h (heap s)) as [a|] eqn:L; [|reflexivity].
  apply negb_true_iff. apply not_true_iff_false. intros H.
  apply andb_true_iff in H as [H1 H2]. apply Nat.eqb_eq in H1. apply level_eqb_eq in H2.
  eapply F; eauto.
Qed.

Lemma fresh_handle_spec s h : fresh_handle s h = true -> alookup h (heap s) = None.
Proof. unfold fresh_handle. destruct (alookup h (heap s)); [discriminate | auto]. Qed.

Lemma api_step c s o : Inv s -> op_ok s o = true -> Step s (api cfg c s o).
Proof.
  intros I O. destruct o; cbn [api op_ok] in *.
  - (* OStart *)
    apply andb_true_iff in O as [O1 O2]. apply start_action_step; auto using fresh_handle_spec.
  - (* OEnter *)
    destruct (alookup h (heap s)) as [a|] eqn:L; [|now apply Step_refl].
    match goal with |- Step s (set_ctx ?s1 c _) => assert (S1 : Step s s1) end.
    { eapply set_heap_same_step; eauto. cbn. intros v E. inversion E. apply olive_cur, I. }
    eapply Step_trans; [exact S1|]. apply set_ctx_step; [apply S1|].
    cbn. unfold live. rewrite alookup_aset_same. discriminate.
  - (* OExit *)
    destruct (alookup h (heap s)) as [a|] eqn:L; [|now apply Step_refl].
    match goal with |- Step s (finish cfg c (set_heap ?s1 h _) h exc) => assert (S1 : Step s s1) end.
    { apply set_ctx_step; auto. destruct (a_token a) as [t|] eqn:E; [|exact Logic.I].
      eapply hi_atok; eauto using inv_HI. }
    match goal with |- Step s (finish cfg c ?s2 h exc) => assert (S2 : Step s s2) end.
    { eapply Step_trans; [exact S1|]. eapply set_heap_same_step; [apply S1 | cbn; exact L | | | | |]; auto.
      cbn; discriminate. }
    eapply Step_trans; [exact S2|]. apply finish_step, S2.
  - (* OCtxEnter *)
    apply negb_true_iff in O. unfold fresh_handle in O.
    match goal with |- Step s (set_ctx ?s1 c _) => assert (S1 : Step s s1) end.
    { apply set_tokens_step; auto. intros v [<-|J]; [apply olive_cur, I|].
      destruct (alookup c (tokens s)) as [t|] eqn:E; [|destruct J].
      eapply hi_tok; eauto using inv_HI. }
    eapply Step_trans; [exact S1|]. apply set_ctx_step; [apply S1|].
    cbn. unfold live. destruct (alookup h (heap s)); [discriminate | discriminate].
  - (* OCtxExit *)
    destruct (alookup c (tokens s)) as [[|t st]|] eqn:E; try now apply Step_refl.
    assert (S1 : Step s (set_tokens s c st)).
    { apply set_tokens_step; auto. intros v J. eapply hi_tok; eauto using inv_HI. now right. }
    eapply Step_trans; [exact S1|]. apply set_ctx_step; [apply S1|].
    cbn. eapply hi_tok; eauto using inv_HI. now left.
  - (* OFinish *) now apply finish_step.
  - (* OAddSuccess *)
    destruct (alookup h (heap s)) as [a|] eqn:L; [|now apply Step_refl].
    eapply set_heap_same_step; eauto. cbn. intros v E. eapply hi_atok; eauto using inv_HI.
  - (* OLog *)
    destruct (stamp_here s c mt (mkfields fs)) as [s2 m] eqn:E.
    destruct (stamp_here_step _ _ _ _ _ _ I E) as (S1 & Sd).
    eapply Step_trans; [exact S1|]. apply logger_write_step; [apply S1 | exact Sd | exact O].
  - (* OActionLog *)
    destruct (alookup h (heap s)) as [a|] eqn:L; [|now apply Step_refl].
    rewrite (take_level_eq _ _ _ L). destruct (take_step _ _ _ I L) as (S1 & Pd & _).
    eapply Step_trans; [exact S1|]. apply logger_write_step; [apply S1 | | reflexivity].
    exists (a_uuid a), (nextpos a). split; [apply place_stamp | exact Pd].
  - (* OTraceback *) now apply write_traceback_step.
  - (* OSerializeId *)
    destruct (alookup h (heap s)) as [a|] eqn:L; [|now apply Step_refl].
    rewrite (take_level_eq _ _ _ L). destruct (take_step _ _ _ I L) as (S1 & Pd & C1 & _).
    eapply Step_trans; [exact S1|].
    apply set_ids_step; [apply S1 | exact C1 | eapply pending_fresh; exact Pd].
  - (* OContinue *)
    destruct (alookup slot (ids s)) as [[u l]|] eqn:L; [|now apply Step_refl].
    apply andb_true_iff in O as [O1 O2].
    match goal with |- Step s (start_message cfg c ?s1 h fs) => assert (S1 : Step s s1) end.
    { assert (Hc : hcovered (heap s) u l) by (eapply pi_ids; eauto using inv_PI).
      assert (Hm : forall m, In m (trace_of s i) -> place m <> mkplace u l)
        by (intros m Im; eapply pi_msg_ids; eauto using inv_PI).
      apply new_sub_step; auto using fresh_handle_spec, node_free_spec. }
    eapply Step_trans; [exact S1|]. apply start_message_step, S1.
  - (* OSpawn *) apply set_ctx_step; auto. apply olive_cur, I.
  - (* OAddDests *)
    rewrite (inv_added _ I). split; [|apply hext_refl].
    destruct I as [A [d D] Gu Gl P H].
    assert (D' : find is_i (dests s ++ ds) = Some d) by (rewrite find_app, D; reflexivity).
    constructor; cbn; auto.
    + eauto.
    + erewrite trace_reg by (cbn; exact D'). now rewrite <- (trace_reg _ _ D).
  - (* ORemoveDest *)
    apply negb_true_iff in O. apply Nat.eqb_neq in O.
    pose proof (remove_dest_find id (dests s) O) as F.
    destruct (remove_dest id (dests s)) as [ds x]. cbn [fst] in F.
    destruct x as [d0|]; [|now apply Step_refl].
    split; [|apply hext_refl]. destruct I as [A [d D] Gu Gl P H].
    assert (D' : find is_i ds = Some d) by congruence.
    constructor; cbn; auto.
    + eauto.
    + erewrite trace_reg by (cbn; exact D'). now rewrite <- (trace_reg _ _ D).
  - (* OAddGlobals *)
    apply andb_true_iff in O as [O1 O2]. split; [|apply hext_refl].
    destruct I as [A D Gu Gl P H].
    constructor; try (cbn; assumption);
      [exact (nokey_fupdate _ _ _ Gu O1) | exact (nokey_fupdate _ _ _ Gl O2)].
  - (* OProbe *)
    split; [|apply hext_refl]. destruct I as [A D Gu Gl P H]. constructor; cbn; auto.
  - (* ORawWrite *) discriminate.
Qed.

Lemma run_inv ops : forall s, Inv s -> disciplined ops s = true -> Inv (run cfg ops s).
Proof.
  induction ops as [|[c o] r IH]; intros s I D; cbn [run fold_left fst snd]; [exact I|].
  cbn [disciplined] in D. apply andb_true_iff in D as [D1 D2].
  apply IH; [apply (api_step c s o I D1) | exact D2].
Qed.

(* the state right after [add_destinations(ds)] as the first operation *)
Definition registered (ds : list dest) : state := set_out init_state true [] ds [].

Lemma registered_eq c0 ds : api cfg c0 init_state (OAddDests ds) = registered ds.
Proof. reflexivity. Qed.

Lemma Inv_registered ds d : find is_i ds = Some d -> d_log d = [] -> Inv (registered ds).
Proof.
  intros F E. constructor; cbn; eauto.
  - erewrite trace_reg by (cbn; exact F). rewrite E.
    constructor; cbn; try discriminate; try contradiction. constructor.
  - constructor; cbn; discriminate.
Qed.

End Cfg.
End Obs.

(* ====================================================================== *)
(* 7. theorems                                                            *)
(* ====================================================================== *)
Section Theorems.
Variable cfg : config.
Variable i : nat.          (* id of the observed destination *)

(* the observed destination is the one registered under id [i] by the first
   add_destinations call, with nothing in its log yet *)
Definition observed (ds : list dest) : Prop :=
  exists d, find (fun d => Nat.eqb (d_id d) i) ds = Some d /\ d_log d = [].

Lemma Inv_start ds : observed ds -> Inv i (registered ds).
Proof. intros (d & F & E). eapply Inv_registered; eauto. Qed.

Definition final (c0 : nat) (ds : list dest) (ops : list (nat * op)) : state :=
  run cfg ((c0, OAddDests ds) :: ops) init_state.

Lemma final_eq c0 ds ops : final c0 ds ops = run cfg ops (registered ds).
Proof. reflexivity. Qed.

(* 1. no two messages offered to the observed destination share (task_uuid, task_level) *)
Theorem C02_unique_from s ops :
  Inv i s -> disciplined i cfg ops s = true ->
  NoDup (map (fun m => (fget K_uuid m, fget K_level m)) (trace_of (run cfg ops s) i)).
Proof.
  intros I D. apply (pio_NoDup (trace_of (run cfg ops s) i)).
  apply (pi_order _ _ _ _ (inv_PI _ _ (run_inv i cfg ops s I D))).
Qed.

Theorem C02_unique c0 ds ops :
  observed ds -> disciplined i cfg ops (registered ds) = true ->
  NoDup (map (fun m => (fget K_uuid m, fget K_level m)) (trace_of (final c0 ds ops) i)).
Proof. intros O D. rewrite final_eq. apply C02_unique_from; auto using Inv_start. Qed.

(* 3. under one owner (same uuid, same level prefix) positions are emitted in increasing order *)
Theorem C02_emission_order c0 ds ops :
  observed ds -> disciplined i cfg ops (registered ds) = true ->
  forall t1 m1 t2 m2 t3 u p k1 k2,
    trace_of (final c0 ds ops) i = t1 ++ m1 :: t2 ++ m2 :: t3 ->
    (fget K_uuid m1, fget K_level m1) = (Some (VUuid u), Some (VLevel (p ++ [k1]))) ->
    (fget K_uuid m2, fget K_level m2) = (Some (VUuid u), Some (VLevel (p ++ [k2]))) ->
    (k1 < k2)%positive.
Proof.
  intros O D. rewrite final_eq.
  apply (pio_emission_ordered (trace_of (run cfg ops (registered ds)) i)).
  apply (pi_order _ _ _ _ (inv_PI _ _ (run_inv i cfg ops _ (Inv_start _ O) D))).
Qed.

(* every message carries a uuid and a non-empty level p ++ [k] that was handed out:
   either by the action object with that uuid and level p, as one of its first
   _last_child positions, or it is message [1] of a uuid no action ever had *)
Theorem C02_placed c0 ds ops :
  observed ds -> disciplined i cfg ops (registered ds) = true ->
  forall m, In m (trace_of (final c0 ds ops) i) ->
  exists u p k,
    fget K_uuid m = Some (VUuid u) /\ fget K_level m = Some (VLevel (p ++ [Pos.of_nat k])) /\
    ((exists h a, alookup h (heap (final c0 ds ops)) = Some a /\ a_uuid a = u /\ a_level a = p /\
                  1 <= k <= a_last a) \/
     (p = [] /\ k = 1 /\ u < next_uuid (final c0 ds ops) /\
      forall h a, alookup h (heap (final c0 ds ops)) = Some a -> a_uuid a <> u)).
Proof.
  intros O D m I. rewrite final_eq in *.
  pose proof (inv_PI _ _ (run_inv i cfg ops _ (Inv_start _ O) D)) as P.
  destruct (pi_trace _ _ _ _ P m I) as (u & l & Pm & C). inversion Pm as [[Pu Pl]].
  destruct C as [(h & a & k & L & U & -> & K)|(-> & C2 & C3)].
  - exists u, (a_level a), k. repeat split; auto. left. exists h, a. auto.
  - exists u, [], 1. repeat split; auto.
Qed.

(* each action's level is the root level [] or extends, under the same uuid, the level
   of an action object that handed that position out (child or continued task) *)
Theorem C02_child_extends c0 ds ops :
  observed ds -> disciplined i cfg ops (registered ds) = true ->
  forall h a, alookup h (heap (final c0 ds ops)) = Some a ->
  a_level a = [] \/
  exists hp pa k, alookup hp (heap (final c0 ds ops)) = Some pa /\ a_uuid pa = a_uuid a /\
                  a_level a = a_level pa ++ [Pos.of_nat k] /\ 1 <= k <= a_last pa.
Proof.
  intros O D h a L. rewrite final_eq in *.
  pose proof (inv_PI _ _ (run_inv i cfg ops _ (Inv_start _ O) D)) as P.
  destruct (pi_parent _ _ _ _ P h a L) as [E|C]; [left; exact E | right; exact C].
Qed.

(* distinct action objects own distinct (uuid, level) *)
Theorem C02_distinct_owners c0 ds ops :
  observed ds -> disciplined i cfg ops (registered ds) = true ->
  forall h1 h2 a1 a2,
    alookup h1 (heap (final c0 ds ops)) = Some a1 -> alookup h2 (heap (final c0 ds ops)) = Some a2 ->
    a_uuid a1 = a_uuid a2 -> a_level a1 = a_level a2 -> h1 = h2.
Proof.
  intros O D. rewrite final_eq in *.
  apply (pi_nodes _ _ _ _ (inv_PI _ _ (run_inv i cfg ops _ (Inv_start _ O) D))).
Qed.

(* the three kinds of use exclude each other where they must: a position carrying a
   message is neither an action object's own level nor a serialized task id *)
Theorem C02_exclusive c0 ds ops :
  observed ds -> disciplined i cfg ops (registered ds) = true ->
  (forall m h a, In m (trace_of (final c0 ds ops) i) ->
     alookup h (heap (final c0 ds ops)) = Some a ->
     (fget K_uuid m, fget K_level m) <> (Some (VUuid (a_uuid a)), Some (VLevel (a_level a)))) /\
  (forall m slot u l, In m (trace_of (final c0 ds ops) i) ->
     alookup slot (ids (final c0 ds ops)) = Some (u, l) ->
     (fget K_uuid m, fget K_level m) <> (Some (VUuid u), Some (VLevel l))).
Proof.
  intros O D. rewrite final_eq in *.
  pose proof (inv_PI _ _ (run_inv i cfg ops _ (Inv_start _ O) D)) as P.
  split; [exact (pi_msg_node _ _ _ _ P) | exact (pi_msg_ids _ _ _ _ P)].
Qed.

End Theorems.

(* ====================================================================== *)
(* 8. the hypotheses are satisfiable: a concrete program                  *)
(* ====================================================================== *)
Module Ex.
Definition cfg0 : config := mk_config [] [].
Definition e1 : exn := mkExn 1 C_Exception 7%positive false.
(* destination 0 accepts everything, destination 1 fails on every second call *)
Definition dests0 : list dest := [mk_dest 0 BNever e1; mk_dest 1 (BCycle [false; true]) e1].
Definition A (n : positive) : val := VAtom n.

Definition prog0 : list stmt :=
  [ SMsg (A 20) [] None;
    SAct 1 WithBlock false (A 21) [] None [(12%positive, VInt 3)]
      [ SMsg (A 22) [] None;
        SMsg (A 28) [(11%positive, VInt 1)] (Some (message_ser (A 28) [(11%positive, FFail e1)]));
        SAct 2 CtxFinish false (A 23) [] (Some (action_sers (A 23) [] [])) []
          [ SActLog 1 (A 24) [];
            SHandoff 2 0 3 1 [ SMsg (A 25) [] None ] ];
        STraceback e1;
        SSpawn 2 [ SMsg (A 26) [] None ] ];
    SAct 4 RunFinish true (A 27) [] None [] [ SRaise e1 ] ].

Definition ops0 : list (nat * op) := fst (compile 0 prog0).

Example ex_observed : observed 0 dests0.
Proof. eexists; split; reflexivity. Qed.

Example ex_disciplined : disciplined 0 cfg0 ops0 (registered dests0) = true.
Proof. vm_compute. reflexivity. Qed.

Example ex_nontrivial :
  length ops0 = 48 /\ length (trace_of (final cfg0 0 dests0 ops0) 0) = 31.
Proof. vm_compute. split; reflexivity. Qed.

Example ex_unique :
  NoDup (map (fun m => (fget K_uuid m, fget K_level m)) (trace_of (final cfg0 0 dests0 ops0) 0)).
Proof. apply C02_unique; [exact ex_observed | exact ex_disciplined]. Qed.
End Ex.

(* ====================================================================== *)
(* 9. contiguity: positions 1..n all used, start at 1, end at n           *)
(* ====================================================================== *)
Definition is_end (m : msg) : Prop :=
  fget K_status m = Some (VStatus Succeeded) \/ fget K_status m = Some (VStatus Failed).

(* position (u, l) is used: by a message of the trace, by an action object
   (child or continued task), or by a serialized task id *)
Definition used (hp : heapT) (idz : list (nat * (nat * level))) (t : list msg)
           (u : nat) (l : level) : Prop :=
  (exists m, In m t /\ place m = mkplace u l) \/
  (exists h a, alookup h hp = Some a /\ a_uuid a = u /\ a_level a = l) \/
  (exists slot, alookup slot idz = Some (u, l)).

(* [busy]: the action whose finished flag is set but whose end message is not out yet *)
Record CI (hp : heapT) (idz : list (nat * (nat * level))) (t : list msg) (busy : option nat) : Prop := {
  ci_used : forall h a k, alookup h hp = Some a -> 1 <= k <= a_last a ->
            used hp idz t (a_uuid a) (a_level a ++ [Pos.of_nat k]);
  ci_start : forall h a, alookup h hp = Some a ->
             exists m, In m t /\ place m = mkplace (a_uuid a) (a_level a ++ [1%positive]) /\
                       fget K_status m = Some (VStatus Started);
  ci_end : forall h a, alookup h hp = Some a -> a_finished a = true -> busy <> Some h ->
           exists m, In m t /\ place m = mkplace (a_uuid a) (a_level a ++ [Pos.of_nat (a_last a)]) /\
                     is_end m
}.

Lemma used_mono hp idz t hp' idz' t' u l :
  used hp idz t u l -> hext hp hp' ->
  (forall slot v, alookup slot idz = Some v -> alookup slot idz' = Some v) ->
  incl t t' -> used hp' idz' t' u l.
Proof.
  intros [(m & I & P)|[(h & a & L & U & V)|(slot & L)]] E S T.
  - left. exists m. auto.
  - right; left. destruct (E _ _ L) as (a' & L' & U' & V' & _). exists h, a'. repeat split; congruence.
  - right; right. exists slot. auto.
Qed.

(* a generic transfer lemma: the new heap [hp'] differs from [hp] at the listed
   handles only; obligations for those are given explicitly *)
Lemma CI_transfer hp idz t b hp' idz' t' b' :
  CI hp idz t b -> hext hp hp' ->
  (forall slot v, alookup slot idz = Some v -> alookup slot idz' = Some v) -> incl t t' ->
  (forall h a', alookup h hp' = Some a' ->
     (exists a, alookup h hp = Some a /\ a_uuid a' = a_uuid a /\ a_level a' = a_level a /\
                a_last a' = a_last a /\ a_finished a' = a_finished a /\ (b = Some h -> b' = Some h)) \/
     ((forall k, 1 <= k <= a_last a' -> used hp' idz' t' (a_uuid a') (a_level a' ++ [Pos.of_nat k])) /\
      (exists m, In m t' /\ place m = mkplace (a_uuid a') (a_level a' ++ [1%positive]) /\
                 fget K_status m = Some (VStatus Started)) /\
      (a_finished a' = true -> b' <> Some h ->
       exists m, In m t' /\ place m = mkplace (a_uuid a') (a_level a' ++ [Pos.of_nat (a_last a')]) /\
                 is_end m))) ->
  CI hp' idz' t' b'.
Proof.
  intros [U S E] X Sl T H. constructor.
  - intros h a' k L K. destruct (H _ _ L) as [(a & L0 & Uu & Vv & Nn & Ff & Bb)|(A1 & _)]; [|auto].
    rewrite Uu, Vv. eapply used_mono; eauto. eapply U; eauto. lia.
  - intros h a' L. destruct (H _ _ L) as [(a & L0 & Uu & Vv & Nn & Ff & Bb)|(_ & A2 & _)]; [|auto].
    rewrite Uu, Vv. destruct (S _ _ L0) as (m & I & P & St). exists m. auto.
  - intros h a' L F B. destruct (H _ _ L) as [(a & L0 & Uu & Vv & Nn & Ff & Bb)|(_ & _ & A3)]; [|auto].
    rewrite Uu, Vv, Nn.
    assert (F0 : a_finished a = true) by congruence.
    assert (B0 : b <> Some h) by (intros Q; auto).
    destruct (E _ _ L0 F0 B0) as (m & I & P & St). exists m. auto.
Qed.

Lemma incl_snoc {A} (t : list A) m : incl t (t ++ [m]).
Proof. intros x I. apply in_or_app; auto. Qed.

Lemma in_snoc {A} (t : list A) m : In m (t ++ [m]).
Proof. apply in_or_app; right; left; reflexivity. Qed.

Lemma ids_same {A} (idz : list (nat * A)) : forall slot v, alookup slot idz = Some v -> alookup slot idz = Some v.
Proof. auto. Qed.

(* a message appended, heap unchanged *)
Lemma CI_msg hp idz t b m : CI hp idz t b -> CI hp idz (t ++ [m]) b.
Proof.
  intros C. eapply CI_transfer; eauto using hext_refl, incl_snoc, ids_same.
  intros h a' L. left. exists a'. auto 10.
Qed.

(* the next position of an unfinished action goes to a message *)
Lemma CI_emit hp idz t b h a m :
  CI hp idz t b -> alookup h hp = Some a -> a_finished a = false ->
  place m = mkplace (a_uuid a) (nextpos a) ->
  CI (aset h (bump a) hp) idz (t ++ [m]) b.
Proof.
  intros C L F Pm.
  assert (E : hext hp (aset h (bump a) hp)) by (eapply hext_upd; eauto; cbn; lia).
  eapply CI_transfer; eauto using incl_snoc, ids_same.
  intros h0 a0. rewrite alookup_aset. destruct (Nat.eqb_spec h h0) as [<-|N]; intros L0.
  - inversion L0; subst a0. right. split; [|split].
    + intros k K. cbn in K. destruct (Nat.eq_dec k (S (a_last a))) as [->|Nk].
      * left. exists m. split; [apply in_snoc | exact Pm].
      * eapply used_mono; eauto using incl_snoc, ids_same. cbn [bump next_level fst a_uuid a_level].
        eapply ci_used; eauto. lia.
    + destruct (ci_start _ _ _ _ C _ _ L) as (m0 & I0 & P0 & S0). exists m0.
      split; [apply incl_snoc; exact I0 | auto].
    + cbn. congruence.
  - left. exists a0. auto 10.
Qed.

(* the end message of the busy action *)
Lemma CI_end hp idz t h a m :
  CI hp idz t (Some h) -> alookup h hp = Some a ->
  place m = mkplace (a_uuid a) (nextpos a) -> is_end m ->
  CI (aset h (bump a) hp) idz (t ++ [m]) None.
Proof.
  intros C L Pm Em.
  assert (E : hext hp (aset h (bump a) hp)) by (eapply hext_upd; eauto; cbn; lia).
  eapply CI_transfer; eauto using incl_snoc, ids_same.
  intros h0 a0. rewrite alookup_aset. destruct (Nat.eqb_spec h h0) as [<-|N]; intros L0.
  - inversion L0; subst a0. right. split; [|split].
    + intros k K. cbn in K. destruct (Nat.eq_dec k (S (a_last a))) as [->|Nk].
      * left. exists m. split; [apply in_snoc | exact Pm].
      * eapply used_mono; eauto using incl_snoc, ids_same. cbn [bump next_level fst a_uuid a_level].
        eapply ci_used; eauto. lia.
    + destruct (ci_start _ _ _ _ C _ _ L) as (m0 & I0 & P0 & S0). exists m0.
      split; [apply incl_snoc; exact I0 | auto].
    + intros _ _. exists m. split; [apply in_snoc | split; [exact Pm | exact Em]].
  - left. exists a0. repeat split; auto. intros Q. congruence.
Qed.

(* token / success-field changes *)
Lemma CI_meta hp idz t b h a a' :
  CI hp idz t b -> alookup h hp = Some a ->
  a_uuid a' = a_uuid a -> a_level a' = a_level a -> a_last a' = a_last a ->
  a_finished a' = a_finished a ->
  CI (aset h a' hp) idz t b.
Proof.
  intros C L U V N F.
  assert (E : hext hp (aset h a' hp)) by (eapply hext_upd; eauto; lia).
  eapply CI_transfer; eauto using incl_refl, ids_same.
  intros h0 a0. rewrite alookup_aset. destruct (Nat.eqb_spec h h0) as [<-|Nh]; intros L0.
  - inversion L0; subst a0. left. exists a. auto 10.
  - left. exists a0. auto 10.
Qed.

(* Action.finish sets the flag first: the action becomes busy *)
Lemma CI_flag hp idz t h a a' :
  CI hp idz t None -> alookup h hp = Some a ->
  a_uuid a' = a_uuid a -> a_level a' = a_level a -> a_last a' = a_last a ->
  CI (aset h a' hp) idz t (Some h).
Proof.
  intros C L U V N.
  assert (E : hext hp (aset h a' hp)) by (eapply hext_upd; eauto; lia).
  eapply CI_transfer; eauto using incl_refl, ids_same.
  intros h0 a0. rewrite alookup_aset. destruct (Nat.eqb_spec h h0) as [<-|Nh]; intros L0.
  - inversion L0; subst a0. right. rewrite U, V, N. split; [|split].
    + intros k K. eapply used_mono; eauto using incl_refl, ids_same. eapply ci_used; eauto.
    + eapply ci_start; eauto.
    + intros _ Q. congruence.
  - left. exists a0. repeat split; auto. discriminate.
Qed.

(* a new action object (root or continued task) together with its start message *)
Lemma CI_start_new hp idz t b h anew m :
  CI hp idz t b -> alookup h hp = None -> a_last anew = 0 -> a_finished anew = false ->
  place m = mkplace (a_uuid anew) (a_level anew ++ [1%positive]) ->
  fget K_status m = Some (VStatus Started) ->
  CI (aset h (bump anew) (aset h anew hp)) idz (t ++ [m]) b.
Proof.
  intros C L N F Pm Sm.
  assert (E : hext hp (aset h (bump anew) (aset h anew hp))).
  { intros h0 a0 L0. rewrite !alookup_aset. destruct (Nat.eqb_spec h h0) as [<-|Nh]; [congruence|].
    exists a0; auto. }
  eapply CI_transfer; eauto using incl_snoc, ids_same.
  intros h0 a0. rewrite !alookup_aset. destruct (Nat.eqb_spec h h0) as [<-|Nh]; intros L0.
  - inversion L0; subst a0. right. split; [|split].
    + intros k K. cbn in K. rewrite N in K. assert (k = 1) by lia. subst k.
      left. exists m. split; [apply in_snoc | exact Pm].
    + exists m. split; [apply in_snoc | auto].
    + cbn. congruence.
  - left. exists a0. auto 10.
Qed.

(* a child action: the parent's next position goes to the child, whose start message is emitted *)
Lemma CI_start_child hp idz t b p pa h anew m :
  CI hp idz t b -> alookup p hp = Some pa -> a_finished pa = false -> alookup h hp = None ->
  a_last anew = 0 -> a_finished anew = false ->
  a_uuid anew = a_uuid pa -> a_level anew = nextpos pa ->
  place m = mkplace (a_uuid anew) (a_level anew ++ [1%positive]) ->
  fget K_status m = Some (VStatus Started) ->
  CI (aset h (bump anew) (aset h anew (aset p (bump pa) hp))) idz (t ++ [m]) b.
Proof.
  intros C Lp Fp L N F Uu Vv Pm Sm.
  assert (Hne : p <> h) by congruence.
  assert (E : hext hp (aset h (bump anew) (aset h anew (aset p (bump pa) hp)))).
  { intros h0 a0 L0. rewrite !alookup_aset. destruct (Nat.eqb_spec h h0) as [<-|Nh]; [congruence|].
    destruct (Nat.eqb_spec p h0) as [<-|Np].
    - rewrite Lp in L0; inversion L0; subst a0. exists (bump pa). cbn. repeat split; auto.
    - exists a0; auto. }
  eapply CI_transfer; eauto using incl_snoc, ids_same.
  intros h0 a0. rewrite !alookup_aset. destruct (Nat.eqb_spec h h0) as [<-|Nh]; intros L0.
  - inversion L0; subst a0. right. split; [|split].
    + intros k K. cbn in K. rewrite N in K. assert (k = 1) by lia. subst k.
      left. exists m. split; [apply in_snoc | exact Pm].
    + exists m. split; [apply in_snoc | auto].
    + cbn. congruence.
  - destruct (Nat.eqb_spec p h0) as [<-|Np].
    + inversion L0; subst a0. right. split; [|split].
      * intros k K. cbn in K. destruct (Nat.eq_dec k (S (a_last pa))) as [->|Nk].
        -- right; left. exists h, (bump anew). rewrite !alookup_aset, Nat.eqb_refl.
           repeat split; auto.
        -- eapply used_mono; eauto using incl_snoc, ids_same. cbn [bump next_level fst a_uuid a_level].
           eapply ci_used; eauto. lia.
      * destruct (ci_start _ _ _ _ C _ _ Lp) as (m0 & I0 & P0 & S0). exists m0.
        split; [apply incl_snoc; exact I0 | auto].
      * cbn. congruence.
    + left. exists a0. auto 10.
Qed.

(* serialize_task_id: the next position goes to a task id stored in a fresh slot *)
Lemma CI_ids hp idz t b h a slot :
  CI hp idz t b -> alookup h hp = Some a -> a_finished a = false -> alookup slot idz = None ->
  CI (aset h (bump a) hp) (aset slot (a_uuid a, nextpos a) idz) t b.
Proof.
  intros C L F Sl.
  assert (E : hext hp (aset h (bump a) hp)) by (eapply hext_upd; eauto; cbn; lia).
  assert (I : forall slot0 v, alookup slot0 idz = Some v ->
                              alookup slot0 (aset slot (a_uuid a, nextpos a) idz) = Some v).
  { intros slot0 v L0. rewrite alookup_aset. destruct (Nat.eqb_spec slot slot0); [congruence | auto]. }
  eapply CI_transfer; eauto using incl_refl.
  intros h0 a0. rewrite alookup_aset. destruct (Nat.eqb_spec h h0) as [<-|N]; intros L0.
  - inversion L0; subst a0. right. split; [|split].
    + intros k K. cbn in K. destruct (Nat.eq_dec k (S (a_last a))) as [->|Nk].
      * right; right. exists slot. now rewrite alookup_aset_same.
      * eapply used_mono; eauto using incl_refl. cbn [bump next_level fst a_uuid a_level].
        eapply ci_used; eauto. lia.
    + destruct (ci_start _ _ _ _ C _ _ L) as (m0 & I0 & P0 & S0). exists m0. auto.
    + cbn. congruence.
  - left. exists a0. auto 10.
Qed.

(* --- no position is requested from a finished action -------------------------- *)
Definition unfin (hp : heapT) (v : option nat) : Prop :=
  match v with
  | Some h => forall a, alookup h hp = Some a -> a_finished a = false
  | None => True
  end.

Lemma unfin_aset_same hp h a a' v :
  alookup h hp = Some a -> a_finished a' = a_finished a -> unfin hp v -> unfin (aset h a' hp) v.
Proof.
  intros L F. destruct v as [h0|]; cbn; [|auto]. intros U a0. rewrite alookup_aset.
  destruct (Nat.eqb_spec h h0) as [<-|N]; intros L0; [|eauto].
  inversion L0; subst a0. rewrite F. eauto.
Qed.

Lemma unfin_aset_unfin hp h a' v :
  a_finished a' = false -> unfin hp v -> unfin (aset h a' hp) v.
Proof.
  intros F. destruct v as [h0|]; cbn; [|auto]. intros U a0. rewrite alookup_aset.
  destruct (Nat.eqb_spec h h0) as [<-|N]; intros L0; [|eauto].
  inversion L0; subst a0. exact F.
Qed.

Lemma unfin_aset_other hp h a' v : v <> Some h -> unfin hp v -> unfin (aset h a' hp) v.
Proof.
  destruct v as [h0|]; cbn; [|auto]. intros Ne U a0. rewrite alookup_aset.
  destruct (Nat.eqb_spec h h0) as [<-|N]; intros L0; [congruence | eauto].
Qed.

(* --- the contiguity invariant on states ------------------------------------------ *)
Section Contig.
Variable i : nat.
Variable cfg : config.

Definition nosers (hp : heapT) : Prop := forall h a, alookup h hp = Some a -> a_sers a = None.

Lemma nosers_aset hp h a' : nosers hp -> a_sers a' = None -> nosers (aset h a' hp).
Proof.
  intros N S h0 a0. rewrite alookup_aset.
  destruct (Nat.eqb h h0); intros L; [inversion L; subst; auto | eauto].
Qed.

Record CInv (b : option nat) (s : state) : Prop := {
  c_inv : Inv i s;
  c_gs : nokey K_status (globals s) = true;
  c_ns : nosers (heap s);
  c_CI : CI (heap s) (ids s) (trace_of s i) b
}.

(* same contexts, and whatever was unfinished still is *)
Definition finpres (s s' : state) : Prop :=
  ctx s' = ctx s /\ forall v, unfin (heap s) v -> unfin (heap s') v.

Lemma finpres_refl s : finpres s s.
Proof. split; auto. Qed.

Lemma finpres_trans s1 s2 s3 : finpres s1 s2 -> finpres s2 s3 -> finpres s1 s3.
Proof. intros [A1 B1] [A2 B2]. split; [congruence | auto]. Qed.

(* the current action of context c (if any) is unfinished *)
Definition E (c : nat) (s : state) : Prop := unfin (heap s) (cur s c).

Lemma E_pres c s s' : finpres s s' -> E c s -> E c s'.
Proof. intros [A B] H. unfold E, cur in *. rewrite A. auto. Qed.

Lemma deliver_proj s m : Inv i s ->
  let s' := fst (deliver s m) in
  heap s' = heap s /\ ctx s' = ctx s /\ tokens s' = tokens s /\ ids s' = ids s /\
  globals s' = globals s /\ trace_of s' i = trace_of s i ++ [m].
Proof.
  intros [A [d D] Gu Gl P H]. rewrite deliver_eq by exact A. cbn [fst].
  repeat split. pose proof (fanout_find i m _ _ D) as D'.
  erewrite trace_reg by (cbn; exact D'). cbn [d_log]. now rewrite (trace_reg _ _ _ D).
Qed.

Lemma CInv_deliver b s m :
  Inv i (fst (deliver s m)) -> Inv i s -> nokey K_status (globals s) = true -> nosers (heap s) ->
  CI (heap s) (ids s) (trace_of s i ++ [m]) b ->
  CInv b (fst (deliver s m)).
Proof.
  intros I' I G N C. destruct (deliver_proj s m I) as (E1 & E2 & E3 & E4 & E5 & E6).
  constructor; auto; rewrite ?E1, ?E2, ?E3, ?E4, ?E5, ?E6; auto.
Qed.

Lemma finpres_deliver s0 s m : Inv i s -> finpres s0 s -> finpres s0 (fst (deliver s m)).
Proof.
  intros I [A B]. destruct (deliver_proj s m I) as (E1 & E2 & _). split; [congruence|].
  rewrite E1. exact B.
Qed.

Ltac proj_set := cbn [heap ctx tokens ids globals next_uuid set_heap set_ctx set_tokens set_ids
                      fresh_uuid fst snd].

Lemma finpres_bump s h a :
  alookup h (heap s) = Some a -> finpres s (set_heap s h (bump a)).
Proof. intros L. split; [reflexivity|]. intros v. proj_set. now apply (unfin_aset_same _ _ a). Qed.

Lemma emit_cinv b s h a m :
  CInv b s -> alookup h (heap s) = Some a -> a_finished a = false ->
  place m = mkplace (a_uuid a) (nextpos a) ->
  CInv b (fst (deliver (set_heap s h (bump a)) m)) /\
  finpres s (fst (deliver (set_heap s h (bump a)) m)).
Proof.
  intros [I G N C] L Fa Pm.
  destruct (take_step i _ _ _ I L) as (S1 & Pd & _).
  split; [|apply finpres_deliver; [apply S1 | now apply finpres_bump]].
  apply CInv_deliver; proj_set; auto.
  - apply deliver_step; [apply S1 | exists (a_uuid a), (nextpos a); auto].
  - apply S1.
  - apply nosers_aset; auto. cbn. eauto.
  - change (trace_of (set_heap s h (bump a)) i) with (trace_of s i). apply CI_emit; auto.
Qed.

Lemma end_cinv s h a m :
  CInv (Some h) s -> alookup h (heap s) = Some a ->
  place m = mkplace (a_uuid a) (nextpos a) -> is_end m ->
  CInv None (fst (deliver (set_heap s h (bump a)) m)) /\
  finpres s (fst (deliver (set_heap s h (bump a)) m)).
Proof.
  intros [I G N C] L Pm Em.
  destruct (take_step i _ _ _ I L) as (S1 & Pd & _).
  split; [|apply finpres_deliver; [apply S1 | now apply finpres_bump]].
  apply CInv_deliver; proj_set; auto.
  - apply deliver_step; [apply S1 | exists (a_uuid a), (nextpos a); auto].
  - apply S1.
  - apply nosers_aset; auto. cbn. eauto.
  - change (trace_of (set_heap s h (bump a)) i) with (trace_of s i). apply CI_end; auto.
Qed.

Lemma lone_cinv b s c m :
  CInv b s -> cur s c = None -> place m = mkplace (next_uuid s) [1%positive] ->
  CInv b (fst (deliver (fst (fresh_uuid s)) m)) /\
  finpres s (fst (deliver (fst (fresh_uuid s)) m)).
Proof.
  intros [I G N C] Cu Pm.
  assert (E0 : msg_position s c = (fst (fresh_uuid s), next_uuid s, [1%positive])).
  { unfold msg_position. rewrite Cu. reflexivity. }
  destruct (msg_position_step i _ _ _ _ _ I E0) as (S1 & Pd).
  split; [|apply finpres_deliver; [apply S1 | split; auto]].
  apply CInv_deliver; proj_set; auto.
  - apply deliver_step; [apply S1 | exists (next_uuid s), [1%positive]; auto].
  - apply S1.
  - change (trace_of (fst (fresh_uuid s)) i) with (trace_of s i). now apply CI_msg.
Qed.

(* one message logged "here" (current action of context c, or a fresh uuid) *)
Lemma stamp_deliver_cinv b s c mt fs s2 m m' :
  CInv b s -> E c s -> stamp_here s c mt fs = (s2, m) -> place m' = place m ->
  CInv b (fst (deliver s2 m')) /\ finpres s (fst (deliver s2 m')).
Proof.
  intros CI0 E0 Eq Pm. unfold stamp_here, msg_position in Eq.
  pose proof (olive_cur s c (inv_HI _ _ (c_inv _ _ CI0))) as O.
  unfold E in E0. destruct (cur s c) as [h|] eqn:Cu.
  - destruct (live_lookup _ _ O) as (a & L). rewrite (take_level_eq _ _ _ L), L in Eq.
    inversion Eq; subst s2 m. apply emit_cinv; auto.
    now rewrite Pm, place_stamp.
  - cbn in Eq. inversion Eq; subst s2 m. eapply lone_cinv; eauto. now rewrite Pm, place_stamp.
Qed.

Lemma place_globals s m : Inv i s -> place (fupdate m (globals s)) = place m.
Proof. intros I. apply place_fupdate; [apply (inv_gu _ _ I) | apply (inv_gl _ _ I)]. Qed.

Lemma log_report_cinv b c about s e :
  CInv b s -> E c s -> CInv b (log_report c about s e) /\ finpres s (log_report c about s e).
Proof.
  intros C E0. unfold log_report. destruct (stamp_here s c _ _) as [s2 m] eqn:Eq. unfold send_report.
  eapply stamp_deliver_cinv; eauto.
  destruct (stamp_here_step i _ _ _ _ _ _ (c_inv _ _ C) Eq) as (S1 & _).
  apply place_globals, S1.
Qed.

Lemma fold_log_report_cinv b c about errs : forall s,
  CInv b s -> E c s ->
  CInv b (fold_left (log_report c about) errs s) /\ finpres s (fold_left (log_report c about) errs s).
Proof.
  induction errs as [|e r IH]; intros s C E0; cbn [fold_left]; [split; [exact C | apply finpres_refl]|].
  destruct (log_report_cinv b c about s e C E0) as (C1 & P1).
  destruct (IH _ C1 (E_pres _ _ _ P1 E0)) as (C2 & P2).
  split; [exact C2 | eapply finpres_trans; eauto].
Qed.

Lemma send_cinv b c s m :
  CInv b (fst (deliver s (fupdate m (globals s)))) -> E c (fst (deliver s (fupdate m (globals s)))) ->
  CInv b (send c s m) /\ finpres (fst (deliver s (fupdate m (globals s)))) (send c s m).
Proof.
  intros C E0. unfold send. destruct (deliver s (fupdate m (globals s))) as [s1 errs]. cbn [fst] in *.
  destruct (is_report _); [split; [exact C | apply finpres_refl]|]. now apply fold_log_report_cinv.
Qed.

Lemma log_traceback_plain_cinv b c s e extra :
  CInv b s -> E c s ->
  CInv b (log_traceback_plain c s e extra) /\ finpres s (log_traceback_plain c s e extra).
Proof.
  intros C E0. unfold log_traceback_plain. destruct (stamp_here s c _ _) as [s2 m] eqn:Eq.
  destruct (stamp_here_step i _ _ _ _ _ _ (c_inv _ _ C) Eq) as (S1 & _).
  destruct (stamp_deliver_cinv b s c _ _ s2 m (fupdate m (globals s2)) C E0 Eq
              (place_globals _ _ (proj1 S1))) as (C1 & P1).
  destruct (send_cinv b c s2 m C1 (E_pres _ _ _ P1 E0)) as (C2 & P2).
  split; [exact C2 | eapply finpres_trans; eauto].
Qed.

Lemma fields_for_exception_cinv b c s e :
  CInv b s -> E c s ->
  CInv b (fst (fields_for_exception cfg c s e)) /\ finpres s (fst (fields_for_exception cfg c s e)).
Proof.
  intros C E0. unfold fields_for_exception.
  destruct (first_registered _ _) as [[fs|e']|]; cbn [fst]; try (split; [exact C | apply finpres_refl]).
  now apply log_traceback_plain_cinv.
Qed.

Lemma write_traceback_cinv b c s e : CInv b s -> E c s -> CInv b (write_traceback cfg c s e).
Proof.
  intros C E0. unfold write_traceback.
  destruct (fields_for_exception_cinv b c s e C E0) as (C1 & P1).
  destruct (fields_for_exception cfg c s e) as [s1 extra]. cbn [fst] in *.
  apply log_traceback_plain_cinv; auto. eapply E_pres; eauto.
Qed.

(* --- start messages ---------------------------------------------------------------- *)
Definition start_msg (a : action) (fs : fields) : msg :=
  fset K_level (VLevel (nextpos a))
    (fset K_atype (a_type a)
    (fset K_uuid (VUuid (a_uuid a))
    (fset K_ts VTime
    (fset K_status (VStatus Started) (mkfields fs))))).

Lemma start_message_eq c s h a fs :
  alookup h (heap s) = Some a -> a_sers a = None ->
  start_message cfg c s h fs = send c (set_heap s h (bump a)) (start_msg a fs).
Proof. intros L S. unfold start_message. rewrite L, (take_level_eq _ _ _ L), S. reflexivity. Qed.

Lemma place_start_msg a fs : place (start_msg a fs) = mkplace (a_uuid a) (nextpos a).
Proof. unfold start_msg. place_tac. Qed.

Lemma status_start_msg a fs : fget K_status (start_msg a fs) = Some (VStatus Started).
Proof.
  unfold start_msg. repeat (rewrite fget_fset_other by keys_ne). apply fget_fset_same.
Qed.

Lemma status_globals s m : nokey K_status (globals s) = true ->
  fget K_status (fupdate m (globals s)) = fget K_status m.
Proof. apply fget_fupdate_nokey. Qed.

(* a fresh action object (root or continued task) whose start message goes out *)
Lemma start_fresh_cinv b c s s2 h anew fs :
  CInv b s -> E c s -> Inv i s2 ->
  heap s2 = aset h anew (heap s) -> ctx s2 = ctx s -> ids s2 = ids s ->
  globals s2 = globals s -> trace_of s2 i = trace_of s i ->
  alookup h (heap s) = None ->
  a_last anew = 0 -> a_finished anew = false -> a_sers anew = None ->
  CInv b (start_message cfg c s2 h fs).
Proof.
  intros [I G N C] E0 I2 Eh Ec Ei Eg Etr L N0 F0 S0.
  assert (L2 : alookup h (heap s2) = Some anew) by (rewrite Eh; apply alookup_aset_same).
  rewrite (start_message_eq _ _ _ _ _ L2 S0).
  destruct (take_step i _ _ _ I2 L2) as (S1 & Pd & _).
  assert (Pm : place (fupdate (start_msg anew fs) (globals s2)) =
               mkplace (a_uuid anew) (nextpos anew)).
  { rewrite place_globals by exact I2. apply place_start_msg. }
  apply send_cinv.
  - apply CInv_deliver; proj_set.
    + apply deliver_step; [apply S1 | exists (a_uuid anew), (nextpos anew); auto].
    + apply S1.
    + now rewrite Eg.
    + rewrite Eh. apply nosers_aset; [now apply nosers_aset | exact S0].
    + change (trace_of (set_heap s2 h (bump anew)) i) with (trace_of s2 i). rewrite Eh, Ei, Etr.
      apply CI_start_new; auto.
      * rewrite Pm. unfold nextpos, next_level; cbn [snd]. now rewrite N0.
      * rewrite status_globals by (proj_set; now rewrite Eg). apply status_start_msg.
  - eapply E_pres; [|exact E0]. apply finpres_deliver; [apply S1|].
    split; [proj_set; exact Ec|]. intros v U. proj_set. rewrite Eh.
    apply unfin_aset_unfin; [exact F0|]. now apply unfin_aset_unfin.
Qed.

Lemma start_action_cinv b c s h task ty fs :
  CInv b s -> E c s -> alookup h (heap s) = None ->
  CInv b (start_action cfg c s h task ty fs None).
Proof.
  intros C0 E0 L. pose proof C0 as [I G N C]. unfold start_action.
  assert (O : olive (heap s) (if task then None else cur s c)).
  { destruct task; [exact Logic.I | apply olive_cur, I]. }
  assert (U : unfin (heap s) (if task then None else cur s c)).
  { destruct task; [exact Logic.I | exact E0]. }
  destruct (if task then None else cur s c) as [p|].
  - destruct (live_lookup _ _ O) as (pa & Lp). rewrite Lp, (take_level_eq _ _ _ Lp).
    specialize (U _ Lp).
    destruct (take_step i _ _ _ I Lp) as (S1 & Pd & C1 & F1 & L1).
    assert (Hne : p <> h) by congruence.
    set (anew := mkAction (a_uuid pa) (nextpos pa) 0 false [] ty None None).
    set (s1 := set_heap s p (bump pa)) in *.
    assert (Lh1 : alookup h (heap s1) = None) by (cbn; now rewrite alookup_aset_other).
    assert (S2 : Step i s1 (set_heap s1 h anew))
      by (apply new_sub_step; auto; [apply S1 | eapply pending_fresh; exact Pd]).
    set (s2 := set_heap s1 h anew) in *.
    assert (L2 : alookup h (heap s2) = Some anew) by (cbn; apply alookup_aset_same).
    rewrite (start_message_eq _ _ _ _ _ L2 eq_refl).
    destruct (take_step i _ _ _ (proj1 S2) L2) as (S3 & Pd3 & _).
    assert (Pm : place (fupdate (start_msg anew fs) (globals s)) =
                 mkplace (a_uuid anew) (nextpos anew)).
    { rewrite place_globals by exact I. apply place_start_msg. }
    apply send_cinv.
    + apply CInv_deliver; proj_set.
      * apply deliver_step; [apply S3 | exists (a_uuid anew), (nextpos anew); auto].
      * apply S3.
      * exact G.
      * repeat apply nosers_aset; auto. cbn. eauto.
      * change (trace_of (set_heap s2 h (bump anew)) i) with (trace_of s i).
        apply CI_start_child; auto.
        rewrite status_globals by exact G. apply status_start_msg.
    + eapply E_pres; [|exact E0]. apply finpres_deliver; [apply S3|].
      split; [reflexivity|]. intros v Uv. proj_set.
      apply unfin_aset_unfin; [reflexivity|]. apply unfin_aset_unfin; [reflexivity|].
      now apply (unfin_aset_same _ _ pa).
  - cbn [fresh_uuid].
    pose proof (new_root_step i s h ty None I L eq_refl) as S2.
    eapply start_fresh_cinv; eauto; try reflexivity. apply S2.
Qed.

(* --- Action.finish --------------------------------------------------------------- *)
Lemma finish_tail_cinv c s s1 h a fs :
  Step i s s1 -> CInv (Some h) s1 -> E c s1 -> alookup h (heap s) = Some a ->
  (fget K_status fs = Some (VStatus Succeeded) \/ fget K_status fs = Some (VStatus Failed)) ->
  CInv None (let '(s2, l) := take_level s1 h in
             logger_write cfg c s2
               (fset K_level (VLevel l)
                  (fset K_atype (a_type a)
                  (fset K_uuid (VUuid (a_uuid a))
                  (fset K_ts VTime fs)))) None).
Proof.
  intros S01 C1 E1 L St.
  destruct (proj2 S01 _ _ L) as (a1 & L1 & U1 & V1 & _).
  rewrite (take_level_eq _ _ _ L1). cbn [logger_write].
  destruct (take_step i _ _ _ (proj1 S01) L1) as (S2 & _).
  match goal with |- CInv None (send c ?s2 ?m) =>
    destruct (end_cinv s1 h a1 (fupdate m (globals s2)) C1 L1) as (C2 & P2) end.
  - rewrite place_globals by apply S2. rewrite U1. place_tac.
  - unfold is_end. rewrite status_globals by (proj_set; apply C1).
    repeat (rewrite fget_fset_other by keys_ne). exact St.
  - apply send_cinv; [exact C2 | eapply E_pres; eauto].
Qed.

Lemma finish_cinv c s h exc :
  CInv None s -> E c s ->
  (forall a, alookup h (heap s) = Some a -> a_finished a = false -> cur s c <> Some h) ->
  CInv None (finish cfg c s h exc).
Proof.
  intros C0 E0 UR. pose proof C0 as [I G N C]. unfold finish.
  destruct (alookup h (heap s)) as [a|] eqn:L; [|exact C0].
  destruct (a_finished a) eqn:Fa; [exact C0|].
  specialize (UR _ eq_refl Fa).
  match goal with |- context [set_heap s h ?x] => set (af := x) end.
  assert (Sa : a_sers a = None) by eauto.
  assert (S0 : Step i s (set_heap s h af)).
  { eapply set_heap_same_step; eauto. intros v Ev. eapply hi_atok; eauto using inv_HI. }
  assert (C1 : CInv (Some h) (set_heap s h af)).
  { constructor; proj_set; auto.
    - apply S0.
    - apply nosers_aset; auto.
    - change (trace_of (set_heap s h af) i) with (trace_of s i). eapply CI_flag; eauto. }
  assert (E1 : E c (set_heap s h af)).
  { unfold E. change (cur (set_heap s h af) c) with (cur s c). proj_set.
    apply unfin_aset_other; auto. }
  set (s0 := set_heap s h af) in *.
  rewrite Sa. cbn [opt_ser].
  destruct exc as [e|].
  - pose proof (fields_for_exception_step i cfg c s0 e (proj1 S0)) as S1.
    destruct (fields_for_exception_cinv (Some h) c s0 e C1 E1) as (C2 & P2).
    destruct (fields_for_exception cfg c s0 e) as [s' xf]. cbn [fst] in *.
    apply (finish_tail_cinv c s s' h a); auto; [eapply Step_trans; eauto | eapply E_pres; eauto|].
    right. apply fget_fset_same.
  - apply (finish_tail_cinv c s s0 h a); auto. left. apply fget_fset_same.
Qed.

(* --- the stronger discipline -------------------------------------------------------- *)
Definition oeqb (v : option nat) (h : nat) : bool :=
  match v with Some x => Nat.eqb x h | None => false end.

Definition unfinished (s : state) (h : nat) : bool :=
  match alookup h (heap s) with Some a => negb (a_finished a) | None => true end.

(* messages logged in context c go to an unfinished action (or to no action) *)
Definition emit_ok (s : state) (c : nat) : bool :=
  match cur s c with Some h => unfinished s h | None => true end.

(* finish() of h in context c: h is not the current action of c, whose current action
   (receiving tracebacks / failure reports) is unfinished; or h is finished already *)
Definition finish_ok (s : state) (c h : nat) : bool :=
  match alookup h (heap s) with
  | Some a => a_finished a || (emit_ok s c && negb (oeqb (cur s c) h))
  | None => true
  end.

(* the state in which __exit__ calls finish(): context reset, saved token dropped *)
Definition exit_state (s : state) (c h : nat) (a : action) : state :=
  set_heap (set_ctx s c (match a_token a with Some t => t | None => None end)) h
           (mkAction (a_uuid a) (a_level a) (a_last a) (a_finished a) (a_succ a)
                     (a_type a) (a_sers a) None).

Definition is_none {A} (o : option A) : bool := match o with None => true | Some _ => false end.

(* [op_ok2 c s o] = [op_ok] plus the conditions of the contiguity claim:
   - no field serializers (the property excludes failing ones);
   - no position is requested from a finished action: whatever an operation issued in
     context c logs (messages, start/end messages' failure reports, tracebacks) goes to
     the current action of c, which must be unfinished; action.log / serialize_task_id /
     finish are not applied to a finished action (a second finish is a no-op and fine),
     and finish()/__exit__ of h happen when h is no longer the current action of c;
   - serialized task ids go to fresh slots (so that the model state remembers them);
   - global fields do not use the name action_status. *)
Definition op_ok2 (c : nat) (s : state) (o : op) : bool :=
  op_ok i s o &&
  match o with
  | OStart _ _ _ _ sers => is_none sers && emit_ok s c
  | OLog _ _ ser => is_none ser && emit_ok s c
  | OActionLog h _ _ => unfinished s h && emit_ok s c
  | OTraceback _ => emit_ok s c
  | OContinue _ _ _ => emit_ok s c
  | OSerializeId h slot => unfinished s h && is_none (alookup slot (ids s))
  | OFinish h _ => finish_ok s c h
  | OExit h _ => match alookup h (heap s) with
                 | Some a => finish_ok (exit_state s c h a) c h
                 | None => true
                 end
  | OAddGlobals fs => nokey K_status fs
  | _ => true
  end.

Fixpoint disciplined2 (ops : list (nat * op)) (s : state) : bool :=
  match ops with
  | [] => true
  | (c, o) :: r => op_ok2 c s o && disciplined2 r (api cfg c s o)
  end.

Lemma disciplined2_disciplined ops : forall s,
  disciplined2 ops s = true -> disciplined i cfg ops s = true.
Proof.
  induction ops as [|[c o] r IH]; intros s D; cbn in *; [reflexivity|].
  apply andb_true_iff in D as [D1 D2]. unfold op_ok2 in D1. apply andb_true_iff in D1 as [D1 _].
  rewrite D1. cbn. auto.
Qed.

Lemma unfinished_spec s h a : unfinished s h = true -> alookup h (heap s) = Some a -> a_finished a = false.
Proof. unfold unfinished. intros U L. rewrite L in U. now apply negb_true_iff in U. Qed.

Lemma emit_ok_spec s c : emit_ok s c = true -> E c s.
Proof.
  unfold emit_ok, E. destruct (cur s c) as [h|]; [|intros _; exact I].
  intros U a L. eapply unfinished_spec; eauto.
Qed.

Lemma finish_ok_spec s c h :
  finish_ok s c h = true ->
  (forall a, alookup h (heap s) = Some a -> a_finished a = false -> E c s /\ cur s c <> Some h).
Proof.
  unfold finish_ok. intros M a L F. rewrite L, F in M. cbn in M.
  apply andb_true_iff in M as [M1 M2]. split; [now apply emit_ok_spec|].
  intros Q. rewrite Q in M2. cbn in M2. now rewrite Nat.eqb_refl in M2.
Qed.

Lemma finish_cinv' c s h exc :
  CInv None s -> finish_ok s c h = true -> CInv None (finish cfg c s h exc).
Proof.
  intros C0 M. destruct (alookup h (heap s)) as [a|] eqn:L.
  - destruct (a_finished a) eqn:Fa.
    + unfold finish. now rewrite L, Fa.
    + destruct (finish_ok_spec _ _ _ M _ L Fa) as (E0 & Ne).
      apply finish_cinv; auto.
  - unfold finish. now rewrite L.
Qed.

Lemma trace_add_dests s ds :
  Inv i s -> trace_of (set_out s true (buffer s) (dests s ++ ds) (gone s)) i = trace_of s i.
Proof.
  intros [A [d D] _ _ _ _].
  assert (D' : find (is_i i) (dests s ++ ds) = Some d) by (rewrite find_app, D; reflexivity).
  erewrite trace_reg by (cbn; exact D'). now rewrite <- (trace_reg _ _ _ D).
Qed.

Lemma trace_remove_dest s id ds x g :
  Inv i s -> id <> i -> remove_dest id (dests s) = (ds, x) ->
  trace_of (set_out s (any_added s) (buffer s) ds g) i = trace_of s i.
Proof.
  intros [A [d D] _ _ _ _] N Eq.
  pose proof (remove_dest_find i id (dests s) N) as F. rewrite Eq in F. cbn [fst] in F.
  assert (D' : find (is_i i) ds = Some d) by congruence.
  erewrite trace_reg by (cbn; exact D'). now rewrite <- (trace_reg _ _ _ D).
Qed.

Lemma api_cinv c s o : CInv None s -> op_ok2 c s o = true -> CInv None (api cfg c s o).
Proof.
  intros C0 O. unfold op_ok2 in O. apply andb_true_iff in O as [O1 O2].
  pose proof C0 as [I G N C].
  pose proof (proj1 (api_step i cfg c s o I O1)) as I'.
  destruct o; cbn [api op_ok] in *.
  - (* OStart *)
    destruct sers; [discriminate|]. apply andb_true_iff in O1 as [O1 _]. cbn in O2.
    apply start_action_cinv; auto using fresh_handle_spec, emit_ok_spec.
  - (* OEnter *)
    destruct (alookup h (heap s)) as [a|] eqn:L; [|exact C0].
    constructor; proj_set; auto.
    + apply nosers_aset; auto. cbn; eauto.
    + eapply CI_meta; eauto.
  - (* OExit *)
    destruct (alookup h (heap s)) as [a|] eqn:L; [|exact C0].
    fold (exit_state s c h a) in *.
    assert (S1 : Step i s (set_ctx s c (match a_token a with Some t => t | None => None end))).
    { apply set_ctx_step; auto. destruct (a_token a) as [t|] eqn:Eq; [|exact Logic.I].
      eapply hi_atok; eauto using inv_HI. }
    assert (S2 : Step i s (exit_state s c h a)).
    { eapply Step_trans; [exact S1|]. eapply set_heap_same_step; [apply S1 | cbn; exact L | | | | |]; auto.
      cbn; discriminate. }
    apply finish_cinv'; [|exact O2].
    constructor; unfold exit_state; proj_set; auto.
    + apply S2.
    + apply nosers_aset; auto. cbn; eauto.
    + eapply CI_meta; eauto.
  - (* OCtxEnter *) constructor; proj_set; auto.
  - (* OCtxExit *)
    destruct (alookup c (tokens s)) as [[|t st]|] eqn:Eq; try exact C0.
    constructor; proj_set; auto.
  - (* OFinish *) now apply finish_cinv'.
  - (* OAddSuccess *)
    destruct (alookup h (heap s)) as [a|] eqn:L; [|exact C0].
    constructor; proj_set; auto.
    + apply nosers_aset; auto. cbn; eauto.
    + eapply CI_meta; eauto.
  - (* OLog *)
    destruct ser; [discriminate|]. cbn in O2. apply emit_ok_spec in O2.
    destruct (stamp_here s c mt (mkfields fs)) as [s2 m] eqn:Eq. cbn [logger_write].
    destruct (stamp_here_step i _ _ _ _ _ _ I Eq) as (S1 & _).
    destruct (stamp_deliver_cinv None s c _ _ s2 m (fupdate m (globals s2)) C0 O2 Eq
                (place_globals _ _ (proj1 S1))) as (C1 & P1).
    apply send_cinv; [exact C1 | eapply E_pres; eauto].
  - (* OActionLog *)
    destruct (alookup h (heap s)) as [a|] eqn:L; [|exact C0].
    apply andb_true_iff in O2 as [O2 O3]. apply emit_ok_spec in O3.
    rewrite (take_level_eq _ _ _ L). cbn [logger_write].
    destruct (take_step i _ _ _ I L) as (S1 & _).
    match goal with |- CInv None (send c ?s2 ?m) =>
      destruct (emit_cinv None s h a (fupdate m (globals s2)) C0 L) as (C1 & P1) end.
    + eapply unfinished_spec; eauto.
    + rewrite place_globals by apply S1. apply place_stamp.
    + apply send_cinv; [exact C1 | eapply E_pres; eauto].
  - (* OTraceback *) apply write_traceback_cinv; auto using emit_ok_spec.
  - (* OSerializeId *)
    destruct (alookup h (heap s)) as [a|] eqn:L; [|exact C0].
    apply andb_true_iff in O2 as [O2 O3].
    rewrite (take_level_eq _ _ _ L) in *.
    constructor; proj_set; auto.
    + apply nosers_aset; auto. cbn; eauto.
    + change (trace_of (set_ids _ _) i) with (trace_of s i). apply CI_ids; eauto using unfinished_spec.
      destruct (alookup slot (ids s)); [discriminate | reflexivity].
  - (* OContinue *)
    destruct (alookup slot (ids s)) as [[u l]|] eqn:L; [|exact C0].
    apply andb_true_iff in O1 as [O1 O3].
    assert (Hc : hcovered (heap s) u l) by (eapply pi_ids; eauto using inv_PI).
    assert (Hm : forall m, In m (trace_of s i) -> place m <> mkplace u l)
      by (intros m Im; exact (pi_msg_ids _ _ _ _ (inv_PI _ _ I) m slot u l Im L)).
    eapply start_fresh_cinv; eauto using emit_ok_spec; try reflexivity; auto using fresh_handle_spec.
    apply new_sub_step; auto using fresh_handle_spec, node_free_spec.
  - (* OSpawn *) constructor; proj_set; auto.
  - (* OAddDests *)
    rewrite (inv_added _ _ I) in *. constructor; auto.
    now rewrite trace_add_dests.
  - (* ORemoveDest *)
    apply negb_true_iff in O1. apply Nat.eqb_neq in O1.
    destruct (remove_dest id (dests s)) as [ds x] eqn:Eq.
    destruct x as [d0|]; [|exact C0].
    constructor; auto. now erewrite trace_remove_dest by eauto.
  - (* OAddGlobals *)
    constructor; auto. exact (nokey_fupdate _ _ _ G O2).
  - (* OProbe *) constructor; auto.
  - (* ORawWrite *) discriminate.
Qed.

Lemma run_cinv ops : forall s, CInv None s -> disciplined2 ops s = true -> CInv None (run cfg ops s).
Proof.
  induction ops as [|[c o] r IH]; intros s C D; cbn [run fold_left fst snd]; [exact C|].
  cbn [disciplined2] in D. apply andb_true_iff in D as [D1 D2].
  apply IH; [now apply api_cinv | exact D2].
Qed.

Lemma CInv_registered ds : observed i ds -> CInv None (registered ds).
Proof.
  intros O. pose proof (Inv_start i ds O) as I. destruct O as (d & F & Eq).
  constructor; auto; cbn.
  - intros h a; discriminate.
  - erewrite trace_reg by (cbn; exact F). rewrite Eq. constructor; cbn; discriminate.
Qed.

End Contig.

(* ====================================================================== *)
(* 10. theorem 2: contiguity                                              *)
(* ====================================================================== *)
Lemma hcovered_bound hp nu idz t h a k :
  PI hp nu idz t -> alookup h hp = Some a -> 1 <= k ->
  hcovered hp (a_uuid a) (a_level a ++ [Pos.of_nat k]) -> k <= a_last a.
Proof.
  intros P L K (h0 & a0 & k0 & L0 & U0 & EQ & K0). apply app_tail_inj in EQ as [V0 EK].
  assert (h0 = h) by (eapply (pi_nodes _ _ _ _ P); eauto). subst h0.
  rewrite L in L0; inversion L0; subst a0. lia.
Qed.

Lemma used_bound hp nu idz t h a k :
  PI hp nu idz t -> alookup h hp = Some a -> 1 <= k ->
  used hp idz t (a_uuid a) (a_level a ++ [Pos.of_nat k]) -> k <= a_last a.
Proof.
  intros P L K [(m & I & Pm)|[(h1 & a1 & L1 & U1 & V1)|(slot & L1)]].
  - destruct (pi_trace _ _ _ _ P m I) as (u & l & Pm' & C). rewrite Pm in Pm'.
    apply mkplace_inj in Pm' as [<- <-]. destruct C as [C|(_ & _ & C3)].
    + eapply hcovered_bound; eauto.
    + exfalso. eapply C3; eauto.
  - destruct (pi_parent _ _ _ _ P _ _ L1) as [E|C].
    + rewrite V1 in E. destruct (a_level a); discriminate.
    + rewrite U1, V1 in C. eapply hcovered_bound; eauto.
  - eapply hcovered_bound; eauto. eapply pi_ids; eauto.
Qed.

Section Theorem2.
Variable cfg : config.
Variable i : nat.

(* 2. per action object: the positions used directly under it (by messages of the
      trace, by child / continued actions, by serialized task ids) are exactly
      1.._last_child; its start message sits at position 1; once finished, its end
      message sits at the last position *)
Theorem C02_contiguous c0 ds ops :
  observed i ds -> disciplined2 i cfg ops (registered ds) = true ->
  let s := final cfg c0 ds ops in
  forall h a, alookup h (heap s) = Some a ->
    (forall k, 1 <= k ->
       (used (heap s) (ids s) (trace_of s i) (a_uuid a) (a_level a ++ [Pos.of_nat k])
        <-> k <= a_last a)) /\
    (exists m, In m (trace_of s i) /\
       (fget K_uuid m, fget K_level m) =
         (Some (VUuid (a_uuid a)), Some (VLevel (a_level a ++ [1%positive]))) /\
       fget K_status m = Some (VStatus Started)) /\
    (a_finished a = true ->
     exists m, In m (trace_of s i) /\
       (fget K_uuid m, fget K_level m) =
         (Some (VUuid (a_uuid a)), Some (VLevel (a_level a ++ [Pos.of_nat (a_last a)]))) /\
       (fget K_status m = Some (VStatus Succeeded) \/ fget K_status m = Some (VStatus Failed))).
Proof.
  intros O D s h a L. unfold s in *. rewrite final_eq in *.
  pose proof (run_cinv i cfg ops _ (CInv_registered i ds O) D) as [I _ _ C].
  pose proof (inv_PI _ _ I) as P.
  split; [|split].
  - intros k K. split.
    + eapply used_bound; eauto.
    + intros K2. eapply ci_used; eauto.
  - eapply ci_start; eauto.
  - intros F. eapply ci_end; eauto. discriminate.
Qed.

(* the stronger discipline implies the weaker one: theorems 1 and 3 apply as well *)
Theorem C02_contiguous_unique c0 ds ops :
  observed i ds -> disciplined2 i cfg ops (registered ds) = true ->
  NoDup (map (fun m => (fget K_uuid m, fget K_level m)) (trace_of (final cfg c0 ds ops) i)).
Proof. intros O D. apply C02_unique; auto using disciplined2_disciplined. Qed.

End Theorem2.

Module Ex2.
Import Ex.
(* no serializers; every finish happens after the action has left every context *)
Definition prog1 : list stmt :=
  [ SMsg (A 20) [] None;
    SAct 1 WithBlock false (A 21) [] None [(12%positive, VInt 3)]
      [ SMsg (A 22) [] None;
        SAct 2 CtxFinish false (A 23) [] None []
          [ SActLog 1 (A 24) [];
            SHandoff 2 0 3 1 [ SMsg (A 25) [] None ];
            SAct 5 RunFinish true (A 29) [] None [] [ SMsg (A 30) [] None ] ];
        STraceback e1;
        SSpawn 2 [ SMsg (A 26) [] None ];
        STry [ SAct 6 WithBlock false (A 31) [] None [] [ SRaise e1 ] ] ];
    SAct 4 RunFinish true (A 27) [] None [] [ SRaise e1 ] ].

Definition ops1 : list (nat * op) := fst (compile 0 prog1).

Example ex_disciplined2 : disciplined2 0 cfg0 ops1 (registered dests0) = true.
Proof. vm_compute. reflexivity. Qed.

Example ex_nontrivial2 :
  length ops1 = 63 /\ length (trace_of (final cfg0 0 dests0 ops1) 0) = 37.
Proof. vm_compute. split; reflexivity. Qed.

(* the finish discipline is needed: finish() while the action is still current, with
   another destination failing on the end message, puts the failure report AFTER the end
   message inside the finished action (DESIGN F6): the end message is not at the last position *)
Definition dests_f6 : list dest := [mk_dest 0 BNever e1; mk_dest 1 BOnEnd e1].
Definition ops_f6 : list (nat * op) :=
  [(0, OStart 1 false (A 21) [] None); (0, OCtxEnter 1); (0, OFinish 1 None); (0, OCtxExit)].

Example f6_not_disciplined2 : disciplined2 0 cfg0 ops_f6 (registered dests_f6) = false.
Proof. vm_compute. reflexivity. Qed.

Example f6_still_disciplined : disciplined 0 cfg0 ops_f6 (registered dests_f6) = true.
Proof. vm_compute. reflexivity. Qed.

Example f6_end_not_last :
  map (fun m => (fget K_level m, fget K_status m)) (trace_of (final cfg0 0 dests_f6 ops_f6) 0) =
  [ (Some (VLevel [1%positive]), Some (VStatus Started));
    (Some (VLevel [2%positive]), Some (VStatus Succeeded));
    (Some (VLevel [3%positive]), None) ].
Proof. vm_compute. reflexivity. Qed.
End Ex2.

(* ====================================================================== *)
(* 11. compiled logging programs are disciplined                          *)
(* ====================================================================== *)
Section Programs.
Variable i : nat.
Variable cfg : config.

(* --- which handles an operation can add to the heap ------------------------------- *)
Definition hnone (s : state) (h : nat) : Prop := alookup h (heap s) = None.

Definition starts (o : op) (h : nat) : bool :=
  match o with
  | OStart h' _ _ _ _ => Nat.eqb h' h
  | OContinue h' _ _ => Nat.eqb h' h
  | _ => false
  end.

Lemma none_aset_live hp k (a' : action) h :
  alookup k hp <> None -> alookup h hp = None -> alookup h (aset k a' hp) = None.
Proof. intros Lk Lh. rewrite alookup_aset. destruct (Nat.eqb_spec k h); [congruence | auto]. Qed.

Lemma none_aset_other hp k (a' : action) h :
  k <> h -> alookup h hp = None -> alookup h (aset k a' hp) = None.
Proof. intros N Lh. now rewrite alookup_aset_other. Qed.

Lemma take_level_none s k h : hnone s h -> hnone (fst (take_level s k)) h.
Proof.
  unfold hnone, take_level. intros H. destruct (alookup k (heap s)) eqn:L; cbn; [|exact H].
  apply none_aset_live; congruence.
Qed.

Lemma deliver_none s m h : hnone s h -> hnone (fst (deliver s m)) h.
Proof.
  unfold hnone, deliver. intros H. destruct (any_added s); [destruct (fanout m (dests s))|]; exact H.
Qed.

Lemma stamp_here_none s c mt fs h : hnone s h -> hnone (fst (stamp_here s c mt fs)) h.
Proof.
  intros H. unfold stamp_here, msg_position. destruct (cur s c) as [k|].
  - pose proof (take_level_none s k h H) as T. destruct (take_level s k). exact T.
  - exact H.
Qed.

Lemma log_report_none c about s e h : hnone s h -> hnone (log_report c about s e) h.
Proof.
  intros H. unfold log_report. pose proof (stamp_here_none s c (VTypeName T_destination_failure)
    (fset K_message (render_of about) (fset K_exception (VClassName (e_cls e)) (fset K_reason (safe_str e) []))) h H) as T.
  destruct (stamp_here s c _ _) as [s2 m]. unfold send_report. now apply deliver_none.
Qed.

Lemma send_none c s m h : hnone s h -> hnone (send c s m) h.
Proof.
  intros H. unfold send. pose proof (deliver_none s (fupdate m (globals s)) h H) as T.
  destruct (deliver s _) as [s1 errs]. cbn [fst] in T. destruct (is_report _); [exact T|].
  revert s1 T. induction errs as [|e r IH]; intros s1 T; cbn [fold_left]; [exact T|].
  apply IH. now apply log_report_none.
Qed.

Lemma log_traceback_plain_none c s e extra h : hnone s h -> hnone (log_traceback_plain c s e extra) h.
Proof.
  intros H. unfold log_traceback_plain.
  pose proof (stamp_here_none s c (VTypeName T_traceback) (traceback_fields e extra) h H) as T.
  destruct (stamp_here s c _ _) as [s2 m]. now apply send_none.
Qed.

Lemma fields_for_exception_none c s e h : hnone s h -> hnone (fst (fields_for_exception cfg c s e)) h.
Proof.
  intros H. unfold fields_for_exception.
  destruct (first_registered _ _) as [[fs|e']|]; cbn [fst]; auto. now apply log_traceback_plain_none.
Qed.

Lemma write_traceback_none c s e h : hnone s h -> hnone (write_traceback cfg c s e) h.
Proof.
  intros H. unfold write_traceback. pose proof (fields_for_exception_none c s e h H) as T.
  destruct (fields_for_exception cfg c s e) as [s1 extra]. now apply log_traceback_plain_none.
Qed.

Lemma logger_write_none c s m ser h : hnone s h -> hnone (logger_write cfg c s m ser) h.
Proof.
  intros H. unfold logger_write. destruct ser as [sr|]; [|now apply send_none].
  destruct (serialize sr m); [now apply send_none|].
  pose proof (stamp_here_none _ c (VTypeName T_serialization_failure) (fset K_message (render_of m) []) h
                (write_traceback_none c s e h H)) as T.
  destruct (stamp_here _ c _ _) as [s3 fm]. now apply send_none.
Qed.

Lemma start_message_none c s k fs h : hnone s h -> hnone (start_message cfg c s k fs) h.
Proof.
  intros H. unfold start_message. destruct (alookup k (heap s)) as [a|]; [|exact H].
  pose proof (take_level_none s k h H) as T. destruct (take_level s k) as [s1 l].
  now apply logger_write_none.
Qed.

Lemma finish_none c s k exc h : hnone s h -> hnone (finish cfg c s k exc) h.
Proof.
  intros H. unfold finish. destruct (alookup k (heap s)) as [a|] eqn:L; [|exact H].
  destruct (a_finished a); [exact H|].
  match goal with |- context [set_heap s k ?x] => set (af := x) end.
  assert (H0 : hnone (set_heap s k af) h) by (apply none_aset_live; [congruence | exact H]).
  destruct exc as [e|].
  - pose proof (fields_for_exception_none c _ e h H0) as T.
    destruct (fields_for_exception cfg c (set_heap s k af) e) as [s' xf]. cbn [fst] in T.
    pose proof (take_level_none s' k h T) as T2. destruct (take_level s' k) as [s2 l].
    now apply logger_write_none.
  - pose proof (take_level_none _ k h H0) as T2. destruct (take_level (set_heap s k af) k) as [s2 l].
    now apply logger_write_none.
Qed.

Lemma api_none c s o h : hnone s h -> starts o h = false -> hnone (api cfg c s o) h.
Proof.
  intros H S. destruct o; cbn [api starts] in *; try exact H.
  - (* OStart *) apply Nat.eqb_neq in S. unfold start_action.
    destruct (if task then None else cur s c) as [p|].
    + destruct (alookup p (heap s)) as [pa|]; [|exact H].
      pose proof (take_level_none s p h H) as T. destruct (take_level s p) as [s1 l].
      apply start_message_none. apply none_aset_other; auto.
    + cbn [fresh_uuid]. apply start_message_none. apply none_aset_other; auto.
  - (* OEnter *) destruct (alookup h0 (heap s)) eqn:L; [|exact H]. apply none_aset_live; [congruence | exact H].
  - (* OExit *) destruct (alookup h0 (heap s)) eqn:L; [|exact H]. apply finish_none.
    apply none_aset_live; [cbn; congruence | exact H].
  - (* OCtxExit *) destruct (alookup c (tokens s)) as [[|t st]|]; exact H.
  - (* OFinish *) now apply finish_none.
  - (* OAddSuccess *) destruct (alookup h0 (heap s)) eqn:L; [|exact H]. apply none_aset_live; [congruence | exact H].
  - (* OLog *) pose proof (stamp_here_none s c mt (mkfields fs) h H) as T.
    destruct (stamp_here s c mt (mkfields fs)) as [s2 m]. now apply logger_write_none.
  - (* OActionLog *) destruct (alookup h0 (heap s)) eqn:L; [|exact H].
    pose proof (take_level_none s h0 h H) as T. destruct (take_level s h0) as [s2 l].
    now apply logger_write_none.
  - (* OTraceback *) now apply write_traceback_none.
  - (* OSerializeId *) destruct (alookup h0 (heap s)) eqn:L; [|exact H].
    pose proof (take_level_none s h0 h H) as T. destruct (take_level s h0) as [s1 l]. exact T.
  - (* OContinue *) apply Nat.eqb_neq in S. destruct (alookup slot (ids s)) as [[u l]|]; [|exact H].
    apply start_message_none. apply none_aset_other; auto.
  - (* OAddDests *) destruct (any_added s); [exact H|]. cbn. 
    generalize (set_out s true [] ds (gone s)) (H : hnone (set_out s true [] ds (gone s)) h).
    induction (buffer s) as [|m r IH]; intros s0 H0; cbn [resend]; [exact H0|].
    apply IH. now apply send_none.
  - (* ORemoveDest *) destruct (remove_dest id (dests s)) as [ds [d|]]; exact H.
  - (* ORawWrite *) now apply logger_write_none.
Qed.

Lemma run_none ops h : forall s,
  hnone s h -> forallb (fun co => negb (starts (snd co) h)) ops = true -> hnone (run cfg ops s) h.
Proof.
  induction ops as [|[c o] r IH]; intros s H F; cbn [run fold_left fst snd] in *; [exact H|].
  apply andb_true_iff in F as [F1 F2]. apply negb_true_iff in F1.
  apply IH; [now apply api_none | exact F2].
Qed.

(* --- start_action / continue_task make their handle live ------------------------------ *)
Lemma start_message_live c s k fs h : Inv i s -> live (heap s) h -> live (heap (start_message cfg c s k fs)) h.
Proof.
  intros I Lh. destruct (live_lookup _ _ Lh) as (a & La).
  destruct (proj2 (start_message_step i cfg c s k fs I) _ _ La) as (a' & La' & _).
  unfold live. congruence.
Qed.

Lemma start_live c s h task ty fs sers :
  Inv i s -> op_ok i s (OStart h task ty fs sers) = true ->
  live (heap (api cfg c s (OStart h task ty fs sers))) h.
Proof.
  intros I O. cbn [op_ok api] in *. apply andb_true_iff in O as [O1 O2].
  apply fresh_handle_spec in O1. unfold start_action.
  assert (Ol : olive (heap s) (if task then None else cur s c)).
  { destruct task; [exact Logic.I | apply olive_cur, I]. }
  destruct (if task then None else cur s c) as [p|].
  - destruct (live_lookup _ _ Ol) as (pa & Lp). rewrite Lp, (take_level_eq _ _ _ Lp).
    destruct (take_step i _ _ _ I Lp) as (S1 & Pd & C1 & F1 & L1).
    assert (Hne : p <> h) by congruence.
    assert (S2 : Step i (set_heap s p (bump pa))
                      (set_heap (set_heap s p (bump pa)) h
                                (mkAction (a_uuid pa) (nextpos pa) 0 false [] ty sers None))).
    { apply new_sub_step; auto;
        [apply S1 | cbn; now rewrite alookup_aset_other | eapply pending_fresh; exact Pd]. }
    apply start_message_live; [apply S2|]. cbn. unfold live. rewrite alookup_aset_same. discriminate.
  - cbn [fresh_uuid]. pose proof (new_root_step i s h ty sers I O1 O2) as S2.
    apply start_message_live; [apply S2|]. cbn. unfold live. rewrite alookup_aset_same. discriminate.
Qed.

Lemma continue_live c s h slot fs v :
  Inv i s -> op_ok i s (OContinue h slot fs) = true -> alookup slot (ids s) = Some v ->
  live (heap (api cfg c s (OContinue h slot fs))) h.
Proof.
  intros I O L. cbn [op_ok api] in *. rewrite L in *. destruct v as [u l].
  apply andb_true_iff in O as [O1 O2].
  apply start_message_live.
  - assert (Hc : hcovered (heap s) u l) by (eapply pi_ids; eauto using inv_PI).
    assert (Hm : forall m, In m (trace_of s i) -> place m <> mkplace u l)
      by (intros m Im; exact (pi_msg_ids _ _ _ _ (inv_PI _ _ I) m slot u l Im L)).
    apply new_sub_step; auto using fresh_handle_spec, node_free_spec.
  - cbn. unfold live. rewrite alookup_aset_same. discriminate.
Qed.

Lemma disciplined_app a : forall b s,
  disciplined i cfg (a ++ b) s = disciplined i cfg a s && disciplined i cfg b (run cfg a s).
Proof.
  induction a as [|[c o] r IH]; intros b s; cbn [app disciplined run fold_left fst snd]; [reflexivity|].
  rewrite IH, andb_assoc. reflexivity.
Qed.

Lemma run_step ops : forall s, Inv i s -> disciplined i cfg ops s = true -> Step i s (run cfg ops s).
Proof.
  induction ops as [|[c o] r IH]; intros s I D; cbn [run fold_left fst snd]; [now apply Step_refl|].
  cbn [disciplined] in D. apply andb_true_iff in D as [D1 D2].
  pose proof (api_step i cfg c s o I D1) as S1.
  eapply Step_trans; [exact S1|]. apply IH; [apply S1 | exact D2].
Qed.

Lemma live_step s s' h : Step i s s' -> live (heap s) h -> live (heap s') h.
Proof.
  intros [_ X] L. destruct (live_lookup _ _ L) as (a & La). destruct (X _ _ La) as (a' & La' & _).
  unfold live. congruence.
Qed.

(* --- programs ------------------------------------------------------------------------ *)
(* handles a program creates (start_action / continue_task) *)
Fixpoint declared_stmt (st : stmt) : list nat :=
  match st with
  | SAct h _ _ _ _ _ _ body => h :: flat_map declared_stmt body
  | STry body => flat_map declared_stmt body
  | SHandoff _ _ h' _ body => h' :: flat_map declared_stmt body
  | SReenter _ body => flat_map declared_stmt body
  | SSpawn _ body => flat_map declared_stmt body
  | _ => []
  end.
Definition declared (p : list stmt) : list nat := flat_map declared_stmt p.

(* simple syntactic conditions: serializers do not declare task_uuid/task_level; no raw
   Logger.write; serialize_task_id / re-entering only on an enclosing action ([scope]) *)
Fixpoint wf_stmt (scope : list nat) (st : stmt) : bool :=
  match st with
  | SMsg _ _ ser => oser_ok ser
  | SAct h _ _ _ _ sers _ body => asers_ok sers && forallb (wf_stmt (h :: scope)) body
  | STry body => forallb (wf_stmt scope) body
  | SHandoff h _ h' _ body => existsb (Nat.eqb h) scope && forallb (wf_stmt (h' :: scope)) body
  | SReenter h body => existsb (Nat.eqb h) scope && forallb (wf_stmt scope) body
  | SRawWrite _ _ => false
  | SSpawn _ body => forallb (wf_stmt scope) body
  | _ => true
  end.
Definition wf_prog (scope : list nat) (p : list stmt) : bool := forallb (wf_stmt scope) p.

Section StmtInd.
Variables (P : stmt -> Prop) (Q : list stmt -> Prop).
Hypotheses
  (Hnil : Q []) (Hcons : forall st r, P st -> Q r -> Q (st :: r))
  (HMsg : forall mt fs ser, P (SMsg mt fs ser))
  (HActLog : forall h mt fs, P (SActLog h mt fs))
  (HAct : forall h style task ty fs sers succ body, Q body -> P (SAct h style task ty fs sers succ body))
  (HRaise : forall e, P (SRaise e))
  (HTry : forall body, Q body -> P (STry body))
  (HTraceback : forall e, P (STraceback e))
  (HHandoff : forall h slot h' c' body, Q body -> P (SHandoff h slot h' c' body))
  (HReenter : forall h body, Q body -> P (SReenter h body))
  (HFinishAgain : forall h exc, P (SFinishAgain h exc))
  (HRawWrite : forall m ser, P (SRawWrite m ser))
  (HSpawn : forall c' body, Q body -> P (SSpawn c' body)).

Fixpoint stmt_ind2 (st : stmt) : P st :=
  let go := fix go (l : list stmt) : Q l :=
    match l with [] => Hnil | x :: r => Hcons x r (stmt_ind2 x) (go r) end in
  match st with
  | SMsg mt fs ser => HMsg mt fs ser
  | SActLog h mt fs => HActLog h mt fs
  | SAct h style task ty fs sers succ body => HAct h style task ty fs sers succ body (go body)
  | SRaise e => HRaise e
  | STry body => HTry body (go body)
  | STraceback e => HTraceback e
  | SHandoff h slot h' c' body => HHandoff h slot h' c' body (go body)
  | SReenter h body => HReenter h body (go body)
  | SFinishAgain h exc => HFinishAgain h exc
  | SRawWrite m ser => HRawWrite m ser
  | SSpawn c' body => HSpawn c' body (go body)
  end.

Fixpoint prog_ind2 (l : list stmt) : Q l :=
  match l with [] => Hnil | x :: r => Hcons x r (stmt_ind2 x) (prog_ind2 r) end.
End StmtInd.

(* unfolding equations of the compiler *)
Lemma compile_cons c st rest :
  compile c (st :: rest) =
  (let '(ops, out) := compile_stmt c st in
   match out with
   | Some e => (ops ++ probe c, Some e)
   | None => let '(rops, rout) := compile c rest in (ops ++ probe c ++ rops, rout)
   end).
Proof. reflexivity. Qed.

Lemma compile_SAct c h style task ty fs sers succ body :
  compile_stmt c (SAct h style task ty fs sers succ body) =
  (let '(bops, bout) := compile c body in
   let succ_ops := match bout with None => [(c, OAddSuccess h succ)] | Some _ => [] end in
   match style with
   | WithBlock =>
       ([(c, OStart h task ty fs sers); (c, OEnter h)] ++ probe c ++ bops ++ succ_ops
          ++ [(c, OExit h bout)], bout)
   | _ =>
       ([(c, OStart h task ty fs sers); (c, OCtxEnter h)] ++ probe c ++ bops ++ succ_ops
          ++ [(c, OCtxExit)] ++ probe c ++ [(c, OFinish h bout)], bout)
   end).
Proof. reflexivity. Qed.

Lemma compile_STry c body : compile_stmt c (STry body) = (fst (compile c body), None).
Proof. reflexivity. Qed.

Lemma compile_SHandoff c h slot h' c' body :
  compile_stmt c (SHandoff h slot h' c' body) =
  (let '(bops, bout) := compile c' body in
   ([(c, OSerializeId h slot); (c', OProbe); (c', OContinue h' slot []); (c', OEnter h')]
      ++ probe c' ++ bops ++ [(c', OExit h' bout)] ++ probe c', None)).
Proof. reflexivity. Qed.

Lemma compile_SReenter c h body :
  compile_stmt c (SReenter h body) =
  (let '(bops, bout) := compile c body in
   ([(c, OCtxEnter h)] ++ probe c ++ bops ++ [(c, OCtxExit)], bout)).
Proof. reflexivity. Qed.

Lemma compile_SSpawn c c' body :
  compile_stmt c (SSpawn c' body) =
  (let '(bops, bout) := compile c' body in
   ([(c, OSpawn c')] ++ probe c' ++ bops ++ probe c', None)).
Proof. reflexivity. Qed.

(* handles started by an op list *)
Definition starts_of (ops : list (nat * op)) : list nat :=
  flat_map (fun co => match snd co with
                      | OStart h _ _ _ _ => [h]
                      | OContinue h _ _ => [h]
                      | _ => []
                      end) ops.

Lemma starts_of_app a b : starts_of (a ++ b) = starts_of a ++ starts_of b.
Proof. apply flat_map_app. Qed.

Lemma starts_of_spec ops h :
  ~ In h (starts_of ops) -> forallb (fun co => negb (starts (snd co) h)) ops = true.
Proof.
  induction ops as [|[c o] r IH]; intros N; cbn; [reflexivity|].
  unfold starts_of in N. cbn [flat_map snd] in N. fold (starts_of r) in N.
  rewrite IH by (intros J; apply N; apply in_or_app; now right).
  rewrite andb_true_r. apply negb_true_iff.
  destruct o; cbn; try reflexivity; apply Nat.eqb_neq; intros ->; apply N; now left.
Qed.

Lemma compile_starts :
  (forall st c, incl (starts_of (fst (compile_stmt c st))) (declared_stmt st)) /\
  (forall p c, incl (starts_of (fst (compile c p))) (declared p)).
Proof.
  assert (X : forall st, (fun st => forall c, incl (starts_of (fst (compile_stmt c st))) (declared_stmt st)) st).
  { apply (stmt_ind2 (fun st => forall c, incl (starts_of (fst (compile_stmt c st))) (declared_stmt st))
                     (fun p => forall c, incl (starts_of (fst (compile c p))) (declared p)));
      try (intros; cbn; apply incl_refl).
    - intros st r IHs IHr c. rewrite compile_cons. specialize (IHs c). specialize (IHr c).
      destruct (compile_stmt c st) as [ops out]. cbn [fst] in IHs.
      unfold declared in *. cbn [flat_map].
      destruct out as [e|].
      + cbn [fst]. rewrite starts_of_app. cbn. rewrite app_nil_r. now apply incl_appl.
      + destruct (compile c r) as [rops rout]. cbn [fst] in *.
        rewrite !starts_of_app. cbn [probe starts_of flat_map snd app].
        apply incl_app; [now apply incl_appl | now apply incl_appr].
    - (* SAct *)
      intros h style task ty fs sers succ body IH c. rewrite compile_SAct. specialize (IH c).
      destruct (compile c body) as [bops bout]. cbn [fst] in IH. cbn [declared_stmt].
      assert (Sx : starts_of (match bout with None => [(c, OAddSuccess h succ)] | Some _ => [] end) = [])
        by (destruct bout; reflexivity).
      destruct style; cbn [fst]; rewrite !starts_of_app, Sx; cbn [probe starts_of flat_map snd app];
        rewrite ?app_nil_r; (apply incl_cons; [now left | now apply incl_tl]).
    - (* STry *) intros body IH c. rewrite compile_STry. cbn [fst declared_stmt]. apply IH.
    - (* SHandoff *)
      intros h slot h' c' body IH c. rewrite compile_SHandoff. specialize (IH c').
      destruct (compile c' body) as [bops bout]. cbn [fst] in *. cbn [declared_stmt].
      rewrite !starts_of_app. cbn [probe starts_of flat_map snd app]. rewrite ?app_nil_r.
      apply incl_cons; [now left | now apply incl_tl].
    - (* SReenter *)
      intros h body IH c. rewrite compile_SReenter. specialize (IH c).
      destruct (compile c body) as [bops bout]. cbn [fst] in *. cbn [declared_stmt].
      rewrite !starts_of_app. cbn [probe starts_of flat_map snd app]. now rewrite ?app_nil_r.
    - (* SSpawn *)
      intros c' body IH c. rewrite compile_SSpawn. specialize (IH c').
      destruct (compile c' body) as [bops bout]. cbn [fst] in *. cbn [declared_stmt].
      rewrite !starts_of_app. cbn [probe starts_of flat_map snd app]. now rewrite ?app_nil_r. }
  split; [exact X|].
  induction p as [|st r IH]; intros c; [cbn; apply incl_refl|].
  rewrite compile_cons. pose proof (X st c) as IHs. specialize (IH c).
  destruct (compile_stmt c st) as [ops out]. cbn [fst] in IHs.
  unfold declared in *. cbn [flat_map].
  destruct out as [e|].
  - cbn [fst]. rewrite starts_of_app. cbn. rewrite app_nil_r. now apply incl_appl.
  - destruct (compile c r) as [rops rout]. cbn [fst] in *.
    rewrite !starts_of_app. cbn [probe starts_of flat_map snd app].
    apply incl_app; [now apply incl_appl | now apply incl_appr].
Qed.

(* --- the main induction ---------------------------------------------------------------- *)
Record Pre (scope decl : list nat) (s : state) : Prop := {
  pre_inv : Inv i s;
  pre_live : forall h, In h scope -> live (heap s) h;
  pre_none : forall h, In h decl -> hnone s h
}.

Lemma Pre_api scope decl c s o :
  Pre scope decl s -> op_ok i s o = true -> (forall h, In h decl -> starts o h = false) ->
  Pre scope decl (api cfg c s o).
Proof.
  intros [I L N] O S. pose proof (api_step i cfg c s o I O) as St.
  constructor; [apply St | intros; eapply live_step; eauto | intros; apply api_none; auto].
Qed.

Lemma Pre_run scope decl ops s :
  Pre scope decl s -> disciplined i cfg ops s = true ->
  (forall h, In h decl -> ~ In h (starts_of ops)) -> Pre scope decl (run cfg ops s).
Proof.
  intros [I L N] D S. pose proof (run_step ops s I D) as St.
  constructor; [apply St | intros; eapply live_step; eauto
               | intros; apply run_none; auto using starts_of_spec].
Qed.

Lemma Pre_scope scope decl s h : Pre scope decl s -> live (heap s) h -> Pre (h :: scope) decl s.
Proof. intros [I L N] Lh. constructor; auto. intros h0 [<-|J]; auto. Qed.

Lemma Pre_sub scope decl decl' s : Pre scope decl s -> incl decl' decl -> Pre scope decl' s.
Proof. intros [I L N] Sub. constructor; auto. Qed.

Lemma disc_step c o r s :
  op_ok i s o = true -> disciplined i cfg r (api cfg c s o) = true ->
  disciplined i cfg ((c, o) :: r) s = true.
Proof. intros A B. cbn [disciplined]. now rewrite A, B. Qed.

(* operations that are always allowed *)
Definition triv (o : op) : bool :=
  match o with
  | OEnter _ | OExit _ _ | OCtxExit | OFinish _ _ | OAddSuccess _ _ | OActionLog _ _ _
  | OTraceback _ | OSerializeId _ _ | OSpawn _ | OAddDests _ | OProbe => true
  | _ => false
  end.

Lemma disciplined_triv ops :
  forallb (fun co => triv (snd co)) ops = true -> forall s, disciplined i cfg ops s = true.
Proof.
  induction ops as [|[c o] r IH]; intros T s; cbn [forallb snd disciplined] in *; [reflexivity|].
  apply andb_true_iff in T as [T1 T2]. rewrite IH by exact T2.
  destruct o; try discriminate; reflexivity.
Qed.

Lemma NoDup_app_inv {A} (a b : list A) :
  NoDup (a ++ b) -> NoDup a /\ NoDup b /\ forall x, In x a -> ~ In x b.
Proof.
  induction a as [|x r IH]; cbn; intros N.
  - split; [constructor | split; [exact N | intros x []]].
  - inversion N as [|? ? Nx Nr]; subst. destruct (IH Nr) as (A1 & A2 & A3).
    split; [|split; [exact A2|]].
    + constructor; [|exact A1]. intros J. apply Nx. apply in_or_app. now left.
    + intros y [<-|J]; [|auto]. intros Jb. apply Nx. apply in_or_app. now right.
Qed.

Lemma live_not_fresh s h : live (heap s) h -> negb (fresh_handle s h) = true.
Proof. unfold live, fresh_handle. destruct (alookup h (heap s)); [reflexivity | congruence]. Qed.

Lemma in_scope h scope : existsb (Nat.eqb h) scope = true -> In h scope.
Proof. intros H. apply existsb_exists in H as (x & J & E). apply Nat.eqb_eq in E. now subst. Qed.

Lemma serialize_id_eq c s h slot a :
  alookup h (heap s) = Some a ->
  api cfg c s (OSerializeId h slot) =
  set_ids (set_heap s h (bump a)) (aset slot (a_uuid a, nextpos a) (ids s)).
Proof. intros L. cbn [api]. rewrite L, (take_level_eq _ _ _ L). reflexivity. Qed.

Lemma compile_disciplined_gen :
  forall p c scope s,
    wf_prog scope p = true -> NoDup (declared p) -> Pre scope (declared p) s ->
    disciplined i cfg (fst (compile c p)) s = true.
Proof.
  apply (prog_ind2
    (fun st => forall c scope s, wf_stmt scope st = true -> NoDup (declared_stmt st) ->
               Pre scope (declared_stmt st) s -> disciplined i cfg (fst (compile_stmt c st)) s = true)
    (fun p => forall c scope s, wf_prog scope p = true -> NoDup (declared p) ->
              Pre scope (declared p) s -> disciplined i cfg (fst (compile c p)) s = true)).
  - (* nil *) intros; reflexivity.
  - (* cons *)
    intros st r IHs IHr c scope s W ND Pr.
    cbn [wf_prog forallb] in W. apply andb_true_iff in W as [W1 W2].
    unfold declared in ND, Pr. cbn [flat_map] in ND, Pr. fold (declared r) in ND, Pr.
    destruct (NoDup_app_inv _ _ ND) as (ND1 & ND2 & Dj).
    rewrite compile_cons.
    pose proof (IHs c scope s W1 ND1 (Pre_sub _ _ _ _ Pr (incl_appl _ (incl_refl _)))) as D1.
    pose proof (proj1 compile_starts st c) as St.
    destruct (compile_stmt c st) as [ops out]. cbn [fst] in D1, St.
    destruct out as [e|].
    + cbn [fst]. rewrite disciplined_app, D1. reflexivity.
    + specialize (IHr c scope (api cfg c (run cfg ops s) OProbe)).
      destruct (compile c r) as [rops rout]. cbn [fst] in *.
      rewrite disciplined_app, D1. cbn [andb].
      change (probe c ++ rops) with ((c, OProbe) :: rops). apply disc_step; [reflexivity|].
      apply IHr; auto. apply Pre_api; [|reflexivity | intros; reflexivity].
      apply Pre_run; [apply (Pre_sub _ _ _ _ Pr), incl_appr, incl_refl | exact D1|].
      intros h J K. apply (Dj h); auto.
  - (* SMsg *) intros mt fs ser c scope s W _ _. cbn [compile_stmt fst disciplined op_ok wf_stmt] in *.
    now rewrite W.
  - (* SActLog *) intros; reflexivity.
  - (* SAct *)
    intros h style task ty fs sers succ body IH c scope s W ND Pr.
    cbn [wf_stmt] in W. apply andb_true_iff in W as [W1 W2].
    cbn [declared_stmt] in ND, Pr. fold (declared body) in ND, Pr.
    inversion ND as [|? ? Nh ND']; subst.
    rewrite compile_SAct. specialize (IH c (h :: scope)).
    destruct (compile c body) as [bops bout]. cbn [fst] in IH.
    set (o1 := OStart h task ty fs sers).
    assert (O1 : op_ok i s o1 = true).
    { cbn. rewrite W1, andb_true_r. unfold fresh_handle.
      now rewrite (pre_none _ _ _ Pr h (or_introl eq_refl)). }
    pose proof (start_live c s h task ty fs sers (pre_inv _ _ _ Pr) O1) as Lh.
    assert (P1 : Pre (h :: scope) (declared body) (api cfg c s o1)).
    { apply Pre_scope; [|exact Lh]. apply Pre_api; auto.
      - apply (Pre_sub _ _ _ _ Pr), incl_tl, incl_refl.
      - intros h0 J. cbn. apply Nat.eqb_neq. intros ->. contradiction. }
    destruct style; cbn [fst app probe].
    + apply disc_step; [exact O1|]. apply disc_step; [reflexivity|]. apply disc_step; [reflexivity|].
      rewrite disciplined_app, IH; auto.
      * cbn [andb]. apply disciplined_triv. destruct bout; reflexivity.
      * apply Pre_api; [|reflexivity | intros; reflexivity].
        apply Pre_api; [exact P1 | reflexivity | intros; reflexivity].
    + apply disc_step; [exact O1|].
      apply disc_step; [cbn [op_ok]; apply live_not_fresh, (pre_live _ _ _ P1); now left|].
      apply disc_step; [reflexivity|].
      rewrite disciplined_app, IH; auto.
      * cbn [andb]. apply disciplined_triv. destruct bout; reflexivity.
      * apply Pre_api; [|reflexivity | intros; reflexivity].
        apply Pre_api; [exact P1 | | intros; reflexivity].
        cbn [op_ok]; apply live_not_fresh, (pre_live _ _ _ P1); now left.
    + apply disc_step; [exact O1|].
      apply disc_step; [cbn [op_ok]; apply live_not_fresh, (pre_live _ _ _ P1); now left|].
      apply disc_step; [reflexivity|].
      rewrite disciplined_app, IH; auto.
      * cbn [andb]. apply disciplined_triv. destruct bout; reflexivity.
      * apply Pre_api; [|reflexivity | intros; reflexivity].
        apply Pre_api; [exact P1 | | intros; reflexivity].
        cbn [op_ok]; apply live_not_fresh, (pre_live _ _ _ P1); now left.
  - (* SRaise *) intros; reflexivity.
  - (* STry *)
    intros body IH c scope s W ND Pr. rewrite compile_STry. cbn [fst]. apply (IH c scope s); auto.
  - (* STraceback *) intros; reflexivity.
  - (* SHandoff *)
    intros h slot h' c' body IH c scope s W ND Pr.
    cbn [wf_stmt] in W. apply andb_true_iff in W as [W1 W2]. apply in_scope in W1.
    cbn [declared_stmt] in ND, Pr. fold (declared body) in ND, Pr.
    inversion ND as [|? ? Nh ND']; subst.
    rewrite compile_SHandoff. specialize (IH c' (h' :: scope)).
    destruct (compile c' body) as [bops bout]. cbn [fst] in IH. cbn [fst app probe].
    destruct (live_lookup _ _ (pre_live _ _ _ Pr h W1)) as (a & La).
    apply disc_step; [reflexivity|]. apply disc_step; [reflexivity|].
    assert (P2 : Pre scope (h' :: declared body)
                     (api cfg c' (api cfg c s (OSerializeId h slot)) OProbe)).
    { apply Pre_api; [|reflexivity | intros; reflexivity].
      apply Pre_api; [exact Pr | reflexivity | intros; reflexivity]. }
    set (s2 := api cfg c' (api cfg c s (OSerializeId h slot)) OProbe) in *.
    assert (Es : ids s2 = aset slot (a_uuid a, nextpos a) (ids s) /\
                 heap s2 = aset h (bump a) (heap s)).
    { unfold s2. rewrite (serialize_id_eq _ _ _ _ _ La). split; reflexivity. }
    destruct Es as (Ei & Eh).
    assert (O3 : op_ok i s2 (OContinue h' slot []) = true).
    { cbn [op_ok]. rewrite Ei, alookup_aset_same. apply andb_true_iff. split.
      - unfold fresh_handle. now rewrite (pre_none _ _ _ P2 h' (or_introl eq_refl)).
      - apply node_free_complete. rewrite Eh.
        destruct (take_step i _ _ _ (pre_inv _ _ _ Pr) La) as (_ & _ & _ & F1 & _). exact F1. }
    apply disc_step; [exact O3|].
    assert (Lh : live (heap (api cfg c' s2 (OContinue h' slot []))) h').
    { eapply continue_live; [apply P2 | exact O3 |]. rewrite Ei. apply alookup_aset_same. }
    assert (P3 : Pre (h' :: scope) (declared body) (api cfg c' s2 (OContinue h' slot []))).
    { apply Pre_scope; [|exact Lh]. apply Pre_api; auto.
      - apply (Pre_sub _ _ _ _ P2), incl_tl, incl_refl.
      - intros h0 J. cbn. apply Nat.eqb_neq. intros ->. contradiction. }
    apply disc_step; [reflexivity|]. apply disc_step; [reflexivity|].
    rewrite disciplined_app, IH; auto; try (cbn [andb]; apply disciplined_triv; reflexivity).
    apply Pre_api; [|reflexivity | intros; reflexivity].
    apply Pre_api; [exact P3 | reflexivity | intros; reflexivity].
  - (* SReenter *)
    intros h body IH c scope s W ND Pr.
    cbn [wf_stmt] in W. apply andb_true_iff in W as [W1 W2]. apply in_scope in W1.
    rewrite compile_SReenter. specialize (IH c scope).
    destruct (compile c body) as [bops bout]. cbn [fst] in IH. cbn [fst app probe].
    assert (O1 : op_ok i s (OCtxEnter h) = true) by (cbn [op_ok]; apply live_not_fresh, Pr, W1).
    apply disc_step; [exact O1|]. apply disc_step; [reflexivity|].
    rewrite disciplined_app, IH; auto; try (cbn [andb]; apply disciplined_triv; reflexivity).
    apply Pre_api; [|reflexivity | intros; reflexivity].
    apply Pre_api; [exact Pr | exact O1 | intros; reflexivity].
  - (* SFinishAgain *) intros; reflexivity.
  - (* SRawWrite *) intros m ser c scope s W. discriminate.
  - (* SSpawn *)
    intros c' body IH c scope s W ND Pr.
    rewrite compile_SSpawn. specialize (IH c' scope).
    destruct (compile c' body) as [bops bout]. cbn [fst] in IH. cbn [fst app probe].
    apply disc_step; [reflexivity|]. apply disc_step; [reflexivity|].
    rewrite disciplined_app, IH; auto; try (cbn [andb]; apply disciplined_triv; reflexivity).
    apply Pre_api; [|reflexivity | intros; reflexivity].
    apply Pre_api; [exact Pr | reflexivity | intros; reflexivity].
Qed.

End Programs.

(* a whole program, run after add_destinations(ds) as the first operation *)
Theorem C02_compile_disciplined cfg i ds c p :
  observed i ds -> wf_prog [] p = true -> NoDup (declared p) ->
  disciplined i cfg (fst (compile c p)) (registered ds) = true.
Proof.
  intros O W ND. apply compile_disciplined_gen with (scope := []); auto.
  constructor; [now apply Inv_start | intros h [] | intros h _; reflexivity].
Qed.

(* hence theorems 1 and 3 for every well-formed program, whatever the destinations do *)
Corollary C02_unique_program cfg i ds c0 c p :
  observed i ds -> wf_prog [] p = true -> NoDup (declared p) ->
  NoDup (map (fun m => (fget K_uuid m, fget K_level m))
             (trace_of (final cfg c0 ds (fst (compile c p))) i)).
Proof. intros O W ND. apply C02_unique; auto using C02_compile_disciplined. Qed.

Example ex_wf : wf_prog [] Ex.prog0 = true /\ NoDup (declared Ex.prog0).
Proof. split; [reflexivity|]. repeat constructor; cbn; intuition discriminate. Qed.

(* The finish discipline of theorem 2 cannot be dropped (DESIGN F6, a known finding about
   the library, faithfully reproduced by the model): a well-formed program -- so theorems 1
   and 3 apply -- that calls finish() while the action is still the current one, run with a
   second destination failing on end messages, leaves the action finished with its end
   message NOT at the last position (the failure report follows it inside the action). *)
Module Refute.
Import Ex Ex2.
Definition prog_f6 : list stmt :=
  [ SAct 1 CtxFinish false (A 21) [] None [] [ SFinishAgain 1 None ] ].

Definition ops_f6p : list (nat * op) := fst (compile 0 prog_f6).
Definition s_f6 : state := final cfg0 0 dests_f6 ops_f6p.

(* the relevant data of the final state, computed once by the VM *)
Lemma f6_action :
  alookup 1 (heap s_f6) = Some (mkAction 0 [] 3 true [] (A 21) None None).
Proof. vm_compute. reflexivity. Qed.

Lemma f6_trace :
  map (fun m => (fget K_uuid m, fget K_level m, fget K_status m)) (trace_of s_f6 0) =
  [ (Some (VUuid 0), Some (VLevel [1%positive]), Some (VStatus Started));
    (Some (VUuid 0), Some (VLevel [2%positive]), Some (VStatus Succeeded));
    (Some (VUuid 0), Some (VLevel [3%positive]), None) ].
Proof. vm_compute. reflexivity. Qed.

Lemma f6_disciplined :
  disciplined 0 cfg0 ops_f6p (registered dests_f6) = true /\
  disciplined2 0 cfg0 ops_f6p (registered dests_f6) = false.
Proof. split; vm_compute; reflexivity. Qed.

Theorem C02_unscoped_refuted :
  wf_prog [] prog_f6 = true /\ NoDup (declared prog_f6) /\
  disciplined 0 cfg0 ops_f6p (registered dests_f6) = true /\
  disciplined2 0 cfg0 ops_f6p (registered dests_f6) = false /\
  exists a, alookup 1 (heap s_f6) = Some a /\ a_finished a = true /\
    ~ exists m, In m (trace_of s_f6 0) /\
        (fget K_uuid m, fget K_level m) =
          (Some (VUuid (a_uuid a)), Some (VLevel (a_level a ++ [Pos.of_nat (a_last a)]))) /\
        (fget K_status m = Some (VStatus Succeeded) \/ fget K_status m = Some (VStatus Failed)).
Proof.
  split; [reflexivity|]. split; [repeat constructor; intros []|].
  split; [apply f6_disciplined|]. split; [apply f6_disciplined|].
  eexists. split; [exact f6_action|]. split; [reflexivity|].
  intros (m & I & P & E).
  apply (in_map (fun m => (fget K_uuid m, fget K_level m, fget K_status m))) in I.
  rewrite f6_trace in I. cbn [a_uuid a_level a_last app Pos.of_nat Pos.succ] in P.
  destruct I as [I|[I|[I|[]]]]; injection I as I1 I2 I3.
  - rewrite <- I2 in P. discriminate.
  - rewrite <- I2 in P. discriminate.
  - rewrite <- I3 in E. destruct E; discriminate.
Qed.
End Refute.

(* Why the theorems take add_destinations as the FIRST operation: messages logged before it
   are buffered and replayed by Destinations.add; a destination failing during the replay gets
   its failure report logged (at the then-next position) and delivered BEFORE the remaining
   buffered messages.  Uniqueness survives, but emission order <> level order at the accepting
   destination.  Replayed on /repo (start_action; 2 x log_message; add_destinations(bad, good))
   the accepting destination sees levels [1] [4] [2] [5] [3] [6] -- same as the model. *)
Module Buffered.
Import Ex.
Definition ops_b : list (nat * op) :=
  [ (0, OStart 1 false (A 21) [] None); (0, OEnter 1);
    (0, OLog (A 22) [] None); (0, OLog (A 23) [] None);
    (0, OAddDests [mk_dest 1 BNotReports e1; mk_dest 0 BNever e1]) ].

Definition s_b : state := run cfg0 ops_b init_state.

Lemma buffered_replay_places :
  map place (trace_of s_b 0) =
  [ mkplace 0 [1%positive]; mkplace 0 [4%positive]; mkplace 0 [2%positive];
    mkplace 0 [5%positive]; mkplace 0 [3%positive]; mkplace 0 [6%positive] ].
Proof. vm_compute. reflexivity. Qed.

Theorem C02_buffered_replay_refuted : ~ emission_ordered (trace_of s_b 0).
Proof.
  intros H. pose proof buffered_replay_places as D.
  set (t := trace_of s_b 0) in *. clearbody t.
  destruct t as [|m0 [|m1 [|m2 rest]]]; cbn [map] in D; try discriminate D.
  injection D as A0 B0 A1 B1 A2 B2 R.
  assert (P1 : place m1 = mkplace 0 ([] ++ [4%positive]))
    by (unfold place, mkplace; cbn [app]; now rewrite A1, B1).
  assert (P2 : place m2 = mkplace 0 ([] ++ [2%positive]))
    by (unfold place, mkplace; cbn [app]; now rewrite A2, B2).
  specialize (H [m0] m1 [] m2 rest 0 [] 4%positive 2%positive eq_refl P1 P2). discriminate H.
Qed.
End Buffered.
