(* C07: what the application can see of the logging state -- the current action of
   every execution context, the saved context tokens, the observations of
   current_action(), which handles exist with which saved token and finished flag,
   which task-id slots exist -- evolves by a function [vapi] of the operation alone.
   Destinations (their number, their failures), global fields, serializers, exception
   extractors, field values and the configuration do not occur in it: no fault pattern
   changes anything the application observes. *)
From Coq Require Import List PArith NArith ZArith Bool Arith Lia.
Require Import Eliot.Base.Level Eliot.Model.Core Eliot.Model.Prog Eliot.Proofs.CoreBasics
               Eliot.Proofs.OutputProofs.
Import ListNotations.

(* ---- views of association lists ----------------------------------------------------- *)
Definition amap {A B} (g : A -> B) (l : list (nat * A)) : list (nat * B) :=
  map (fun kv => (fst kv, g (snd kv))) l.

Lemma alookup_amap {A B} (g : A -> B) k l : alookup k (amap g l) = option_map g (alookup k l).
Proof.
  induction l as [|[k' v] r IH]; [reflexivity|]. cbn [amap map alookup fst snd].
  destruct (Nat.eqb k k'); [reflexivity | exact IH].
Qed.

Lemma amap_aset {A B} (g : A -> B) k v l : amap g (aset k v l) = aset k (g v) (amap g l).
Proof.
  induction l as [|[k' v'] r IH]; [reflexivity|]. cbn [amap map aset fst snd].
  destruct (Nat.eqb k k'); [reflexivity|]. cbn [map fst snd]. f_equal. exact IH.
Qed.

Lemma aset_same_noop {B} k (b : B) l : alookup k l = Some b -> aset k b l = l.
Proof.
  induction l as [|[k' v'] r IH]; [discriminate|]. cbn [alookup aset].
  destruct (Nat.eqb_spec k k') as [->|Hne].
  - now intros [= ->].
  - intros H. now rewrite IH.
Qed.

(* ---- the application's view ------------------------------------------------------------ *)
Record view := mkView {
  v_ctx : list (nat * option nat);
  v_tokens : list (nat * list (option nat));
  v_probes : list (nat * option nat);
  v_heap : list (nat * (option (option nat) * bool));   (* handle -> (saved token, finished) *)
  v_ids : list (nat * unit)                             (* slots holding a serialized task id *)
}.

Definition aview (a : action) : option (option nat) * bool := (a_token a, a_finished a).

Definition view_of (s : state) : view :=
  mkView (ctx s) (tokens s) (probes s) (amap aview (heap s)) (amap (fun _ => tt) (ids s)).

Definition vcur (v : view) (c : nat) : option nat :=
  match alookup c (v_ctx v) with Some x => x | None => None end.

Definition vset_heap (v : view) (h : nat) (x : option (option nat) * bool) : view :=
  mkView (v_ctx v) (v_tokens v) (v_probes v) (aset h x (v_heap v)) (v_ids v).

Definition vset_ctx (v : view) (c : nat) (x : option nat) : view :=
  mkView (aset c x (v_ctx v)) (v_tokens v) (v_probes v) (v_heap v) (v_ids v).

Definition vset_tokens (v : view) (c : nat) (t : list (option nat)) : view :=
  mkView (v_ctx v) (aset c t (v_tokens v)) (v_probes v) (v_heap v) (v_ids v).

Definition vfinish (v : view) (h : nat) : view :=
  match alookup h (v_heap v) with
  | None => v
  | Some (tok, fin) => if fin then v else vset_heap v h (tok, true)
  end.

(* the whole effect of an operation on what the application sees *)
Definition vapi (c : nat) (v : view) (o : op) : view :=
  match o with
  | OStart h task _ _ _ =>
      match (if task then None else vcur v c) with
      | None => vset_heap v h (None, false)
      | Some p => match alookup p (v_heap v) with
                  | None => v
                  | Some _ => vset_heap v h (None, false)
                  end
      end
  | OEnter h =>
      match alookup h (v_heap v) with
      | None => v
      | Some (_, fin) => vset_ctx (vset_heap v h (Some (vcur v c), fin)) c (Some h)
      end
  | OExit h _ =>
      match alookup h (v_heap v) with
      | None => v
      | Some (tok, fin) =>
          vfinish (vset_heap (vset_ctx v c (match tok with Some t => t | None => None end)) h (None, fin)) h
      end
  | OCtxEnter h =>
      let st := match alookup c (v_tokens v) with Some t => t | None => [] end in
      vset_ctx (vset_tokens v c (vcur v c :: st)) c (Some h)
  | OCtxExit =>
      match alookup c (v_tokens v) with
      | Some (t :: st) => vset_ctx (vset_tokens v c st) c t
      | _ => v
      end
  | OFinish h _ => vfinish v h
  | OSerializeId h slot =>
      match alookup h (v_heap v) with
      | None => v
      | Some _ => mkView (v_ctx v) (v_tokens v) (v_probes v) (v_heap v) (aset slot tt (v_ids v))
      end
  | OContinue h slot _ =>
      match alookup slot (v_ids v) with
      | None => v
      | Some _ => vset_heap v h (None, false)
      end
  | OSpawn c' => vset_ctx v c' (vcur v c)
  | OProbe => mkView (v_ctx v) (v_tokens v) (v_probes v ++ [(c, vcur v c)]) (v_heap v) (v_ids v)
  | OAddSuccess _ _ | OLog _ _ _ | OActionLog _ _ _ | OTraceback _ | OAddDests _
  | ORemoveDest _ | OAddGlobals _ | ORawWrite _ _ => v
  end.

Definition vrun (ops : list (nat * op)) (v : view) : view :=
  fold_left (fun st co => vapi (fst co) st (snd co)) ops v.

(* ---- the output stage does not touch the view ------------------------------------------ *)
Lemma view_of_eq s s' :
  heap s' = heap s -> ctx s' = ctx s -> tokens s' = tokens s -> probes s' = probes s -> ids s' = ids s ->
  view_of s' = view_of s.
Proof. unfold view_of. now intros -> -> -> -> ->. Qed.

Lemma view_set_heap s h a : view_of (set_heap s h a) = vset_heap (view_of s) h (aview a).
Proof. unfold view_of, vset_heap, set_heap. cbn -[amap]. now rewrite amap_aset. Qed.

Lemma view_set_heap_same s h a a' :
  alookup h (heap s) = Some a -> aview a' = aview a -> view_of (set_heap s h a') = view_of s.
Proof.
  intros H E. rewrite view_set_heap, E. unfold vset_heap, view_of. cbn -[amap]. f_equal.
  apply aset_same_noop. now rewrite alookup_amap, H.
Qed.

Lemma view_set_ctx s c x : view_of (set_ctx s c x) = vset_ctx (view_of s) c x.
Proof. reflexivity. Qed.

Lemma view_set_tokens s c x : view_of (set_tokens s c x) = vset_tokens (view_of s) c x.
Proof. reflexivity. Qed.

Lemma vcur_view s c : vcur (view_of s) c = cur s c.
Proof. reflexivity. Qed.

Lemma vheap_lookup s h : alookup h (v_heap (view_of s)) = option_map aview (alookup h (heap s)).
Proof. apply alookup_amap. Qed.

Lemma take_level_view s h : view_of (fst (take_level s h)) = view_of s.
Proof.
  unfold take_level. destruct (alookup h (heap s)) as [a|] eqn:E; [|reflexivity].
  cbn. now apply view_set_heap_same with a.
Qed.

Lemma msg_position_view s c : view_of (fst (fst (msg_position s c))) = view_of s.
Proof.
  unfold msg_position. destruct (cur s c) as [h|].
  - pose proof (take_level_view s h) as H. destruct (take_level s h) as [s1 l]. exact H.
  - reflexivity.
Qed.

Lemma stamp_here_view s c mt fs : view_of (fst (stamp_here s c mt fs)) = view_of s.
Proof.
  unfold stamp_here. pose proof (msg_position_view s c) as H.
  destruct (msg_position s c) as [[s1 u] l]. exact H.
Qed.

Lemma deliver_view s m : view_of (fst (deliver s m)) = view_of s.
Proof.
  unfold deliver. destruct (any_added s); [|reflexivity].
  destruct (fanout m (dests s)) as [ds errs]. reflexivity.
Qed.

Lemma log_report_view c about s e : view_of (log_report c about s e) = view_of s.
Proof.
  unfold log_report. cbv zeta.
  match goal with |- context [stamp_here s c ?mt ?fs] =>
    pose proof (stamp_here_view s c mt fs) as H; destruct (stamp_here s c mt fs) as [s2 m] end.
  unfold send_report. now rewrite deliver_view.
Qed.

Lemma reports_view c about errs : forall s, view_of (fold_left (log_report c about) errs s) = view_of s.
Proof.
  induction errs as [|e r IH]; intros s; cbn [fold_left]; [reflexivity|].
  now rewrite IH, log_report_view.
Qed.

Lemma send_view c s m : view_of (send c s m) = view_of s.
Proof.
  unfold send. cbv zeta. pose proof (deliver_view s (fupdate m (globals s))) as H.
  destruct (deliver s (fupdate m (globals s))) as [s1 errs]. cbn [fst] in H.
  destruct (is_report _); [exact H | now rewrite reports_view].
Qed.

Lemma resend_view c ms : forall s, view_of (resend c s ms) = view_of s.
Proof.
  induction ms as [|m r IH]; intros s; cbn [resend]; [reflexivity|]. now rewrite IH, send_view.
Qed.

Section Cfg.
Variable cfg : config.

Lemma log_traceback_plain_view c s e extra : view_of (log_traceback_plain c s e extra) = view_of s.
Proof.
  unfold log_traceback_plain.
  match goal with |- context [stamp_here s c ?mt ?fs] =>
    pose proof (stamp_here_view s c mt fs) as H; destruct (stamp_here s c mt fs) as [s2 m] end.
  now rewrite send_view.
Qed.

Lemma fields_for_exception_view c s e : view_of (fst (fields_for_exception cfg c s e)) = view_of s.
Proof.
  unfold fields_for_exception. destruct (first_registered _ _) as [[fs|e']|]; cbn [fst]; try reflexivity.
  apply log_traceback_plain_view.
Qed.

Lemma write_traceback_view c s e : view_of (write_traceback cfg c s e) = view_of s.
Proof.
  unfold write_traceback. pose proof (fields_for_exception_view c s e) as H.
  destruct (fields_for_exception cfg c s e) as [s1 extra]. now rewrite log_traceback_plain_view.
Qed.

Lemma logger_write_view c s m ser : view_of (logger_write cfg c s m ser) = view_of s.
Proof.
  unfold logger_write. destruct ser as [sr|]; [|apply send_view].
  destruct (serialize sr m) as [m'|e]; [apply send_view|].
  match goal with |- context [stamp_here ?s1 c ?mt ?fs] =>
    pose proof (stamp_here_view s1 c mt fs) as H; destruct (stamp_here s1 c mt fs) as [s3 fm] end.
  cbn [fst] in H. now rewrite send_view, H, write_traceback_view.
Qed.

Lemma start_message_view c s h fs : view_of (start_message cfg c s h fs) = view_of s.
Proof.
  unfold start_message. destruct (alookup h (heap s)) as [a|]; [|reflexivity].
  pose proof (take_level_view s h) as H. destruct (take_level s h) as [s1 l]. cbn [fst] in H.
  now rewrite logger_write_view.
Qed.

Lemma finish_view c s h exc : view_of (finish cfg c s h exc) = vfinish (view_of s) h.
Proof.
  unfold finish, vfinish. rewrite vheap_lookup.
  destruct (alookup h (heap s)) as [a|] eqn:E; [|reflexivity]. cbn [option_map aview].
  destruct (a_finished a) eqn:F; [reflexivity|].
  match goal with |- context [set_heap s h ?a'] =>
    pose proof (view_set_heap s h a') as H0; set (s0 := set_heap s h a') in * end.
  unfold aview in H0. cbn [a_token a_finished] in H0. rewrite <- H0.
  destruct exc as [e|].
  - pose proof (fields_for_exception_view c s0 e) as H1.
    destruct (fields_for_exception cfg c s0 e) as [s' xf]. cbn [fst] in H1.
    pose proof (take_level_view s' h) as H2. destruct (take_level s' h) as [s2 l]. cbn [fst] in H2.
    now rewrite logger_write_view, H2.
  - pose proof (take_level_view s0 h) as H2. destruct (take_level s0 h) as [s2 l]. cbn [fst] in H2.
    now rewrite logger_write_view.
Qed.

(* C07.8b *)
Theorem api_view c s o : view_of (api cfg c s o) = vapi c (view_of s) o.
Proof.
  destruct o; cbn [api vapi].
  - (* OStart *)
    unfold start_action. rewrite vcur_view.
    destruct (if task then None else cur s c) as [p|].
    + rewrite vheap_lookup. destruct (alookup p (heap s)) as [pa|]; [|reflexivity].
      pose proof (take_level_view s p) as H. destruct (take_level s p) as [s1 l]. cbn [fst option_map] in *.
      now rewrite start_message_view, view_set_heap, H.
    + cbn [fresh_uuid]. rewrite start_message_view, view_set_heap. reflexivity.
  - (* OEnter *)
    rewrite vheap_lookup. destruct (alookup h (heap s)) as [a|]; [|reflexivity].
    cbn [option_map aview]. now rewrite view_set_ctx, view_set_heap.
  - (* OExit *)
    rewrite vheap_lookup. destruct (alookup h (heap s)) as [a|]; [|reflexivity].
    cbn [option_map aview]. now rewrite finish_view, view_set_heap, view_set_ctx.
  - (* OCtxEnter *) reflexivity.
  - (* OCtxExit *)
    change (v_tokens (view_of s)) with (tokens s).
    destruct (alookup c (tokens s)) as [[|t st]|]; reflexivity.
  - (* OFinish *) apply finish_view.
  - (* OAddSuccess *)
    destruct (alookup h (heap s)) as [a|] eqn:E; [|reflexivity].
    now apply view_set_heap_same with a.
  - (* OLog *)
    pose proof (stamp_here_view s c mt (mkfields fs)) as H.
    destruct (stamp_here s c mt (mkfields fs)) as [s2 m]. cbn [fst] in H. now rewrite logger_write_view.
  - (* OActionLog *)
    destruct (alookup h (heap s)) as [a|]; [|reflexivity].
    pose proof (take_level_view s h) as H. destruct (take_level s h) as [s2 l]. cbn [fst] in H.
    now rewrite logger_write_view.
  - (* OTraceback *) apply write_traceback_view.
  - (* OSerializeId *)
    rewrite vheap_lookup. destruct (alookup h (heap s)) as [a|]; [|reflexivity].
    pose proof (take_level_view s h) as H. destruct (take_level s h) as [s1 l]. cbn [fst option_map] in *.
    rewrite <- H. unfold view_of, set_ids. cbn -[amap]. now rewrite amap_aset.
  - (* OContinue *)
    change (v_ids (view_of s)) with (amap (fun _ : nat * level => tt) (ids s)). rewrite alookup_amap.
    destruct (alookup slot (ids s)) as [[u l]|]; [|reflexivity]. cbn [option_map].
    now rewrite start_message_view, view_set_heap.
  - (* OSpawn *) reflexivity.
  - (* OAddDests *)
    destruct (any_added s); [reflexivity|]. now rewrite resend_view.
  - (* ORemoveDest *)
    destruct (remove_dest id (dests s)) as [ds [d|]]; reflexivity.
  - (* OAddGlobals *) reflexivity.
  - (* OProbe *) reflexivity.
  - (* ORawWrite *) apply logger_write_view.
Qed.

Theorem run_view ops : forall s, view_of (run cfg ops s) = vrun ops (view_of s).
Proof.
  unfold run, vrun. induction ops as [|[c o] r IH]; intros s; cbn [fold_left fst snd]; [reflexivity|].
  now rewrite IH, api_view.
Qed.

(* C07.8a: finishing an unfinished action marks it finished and writes exactly one
   message, the end message with the right status and serializer; finishing again does nothing *)
Theorem finish_marks_and_writes_once c s h a exc :
  alookup h (heap s) = Some a -> a_finished a = false ->
  (exists s2 m,
     finish cfg c s h exc =
       logger_write cfg c s2 m
         (opt_ser (a_sers a) (match exc with None => s_success | Some _ => s_failure end)) /\
     fget K_status m = Some (VStatus (match exc with None => Succeeded | Some _ => Failed end)) /\
     fget K_atype m = Some (a_type a) /\ fget K_uuid m = Some (VUuid (a_uuid a))) /\
  (exists a', alookup h (heap (finish cfg c s h exc)) = Some a' /\ a_finished a' = true /\
              a_token a' = a_token a) /\
  (forall c' exc', finish cfg c' (finish cfg c s h exc) h exc' = finish cfg c s h exc).
Proof.
  intros E F.
  assert (P2 : exists a', alookup h (heap (finish cfg c s h exc)) = Some a' /\ a_finished a' = true /\
                          a_token a' = a_token a).
  { pose proof (f_equal (fun v => alookup h (v_heap v)) (finish_view c s h exc)) as V. cbv beta in V.
    unfold vfinish in V. rewrite !vheap_lookup, E in V. cbn [option_map aview] in V. rewrite F in V.
    cbn [vset_heap v_heap] in V. rewrite alookup_aset_same in V.
    destruct (alookup h (heap (finish cfg c s h exc))) as [a'|]; [|discriminate].
    cbn [option_map aview] in V. exists a'. split; [reflexivity|]. injection V as -> ->. auto. }
  split; [|split; [exact P2|]].
  - unfold finish. rewrite E, F.
    match goal with |- context [set_heap s h ?a'] => set (s0 := set_heap s h a') end.
    destruct exc as [e|].
    + destruct (fields_for_exception cfg c s0 e) as [s' xf].
      destruct (take_level s' h) as [s2 l]. eexists; eexists. split; [reflexivity|].
      repeat split.
      * rewrite !fget_fset_other by discriminate. apply fget_fset_same.
      * rewrite fget_fset_other by discriminate. apply fget_fset_same.
      * rewrite !fget_fset_other by discriminate. apply fget_fset_same.
    + destruct (take_level s0 h) as [s2 l]. eexists; eexists. split; [reflexivity|].
      repeat split.
      * rewrite !fget_fset_other by discriminate. apply fget_fset_same.
      * rewrite fget_fset_other by discriminate. apply fget_fset_same.
      * rewrite !fget_fset_other by discriminate. apply fget_fset_same.
  - intros c' exc'. destruct P2 as (a' & L & Fin & _). now apply finish_idempotent with a'.
Qed.

End Cfg.

(* C07.8b, as asked: two states with the same application view -- e.g. equal except
   for the behaviours (or the number) of their destinations -- run through the same
   operations under any two configurations, agree on everything the application sees *)
Theorem C07_app_state_fault_independent cfg1 cfg2 ops s1 s2 :
  view_of s1 = view_of s2 ->
  ctx (run cfg1 ops s1) = ctx (run cfg2 ops s2) /\
  tokens (run cfg1 ops s1) = tokens (run cfg2 ops s2) /\
  probes (run cfg1 ops s1) = probes (run cfg2 ops s2) /\
  view_of (run cfg1 ops s1) = view_of (run cfg2 ops s2).
Proof.
  intros V. assert (X : view_of (run cfg1 ops s1) = view_of (run cfg2 ops s2))
    by now rewrite !run_view, V.
  split; [exact (f_equal v_ctx X)|]. split; [exact (f_equal v_tokens X)|].
  split; [exact (f_equal v_probes X) | exact X].
Qed.

(* replacing the destinations' behaviours (and anything else in the output stage) *)
Definition with_out (s : state) (aa : bool) (b : list msg) (ds gn : list dest) (g : fields) : state :=
  set_globals (set_out s aa b ds gn) g.

Corollary C07_destinations_irrelevant cfg1 cfg2 ops s aa b ds gn g :
  ctx (run cfg1 ops s) = ctx (run cfg2 ops (with_out s aa b ds gn g)) /\
  tokens (run cfg1 ops s) = tokens (run cfg2 ops (with_out s aa b ds gn g)) /\
  probes (run cfg1 ops s) = probes (run cfg2 ops (with_out s aa b ds gn g)).
Proof.
  destruct (C07_app_state_fault_independent cfg1 cfg2 ops s (with_out s aa b ds gn g) eq_refl)
    as (A & B & C & _). auto.
Qed.

(* the exception leaving a program (or its normal completion) is fixed by the program
   text: no state, configuration or destination enters its computation *)
Theorem C07_outcome_static cfg pre p : snd (run_prog cfg pre p) = snd (compile 0 p).
Proof. unfold run_prog. now destruct (compile 0 p). Qed.

(* ---- examples ------------------------------------------------------------------------------ *)
(* an action entered, a message, the action left with an exception, with probes; all
   destinations healthy vs. all permanently broken and a raising extractor registered *)
Definition ex_vops : list (nat * op) :=
  [(0, OStart 1 false (VAtom 30%positive) [] None); (0, OEnter 1); (0, OProbe);
   (0, OLog (VAtom 20%positive) [(11%positive, VInt 5)] None); (0, OProbe);
   (0, OExit 1 (Some ex_exA)); (0, OProbe)].
Definition ex_good : state :=
  api ex_cfg 0 init_state (OAddDests [mk_dest 0 BNever ex_exA; mk_dest 1 BNever ex_exA]).
Definition ex_broken : state :=
  api ex_cfg 0 init_state (OAddDests [mk_dest 0 BAlways ex_exA; mk_dest 1 BAlways ex_exB; mk_dest 2 BOnEnd ex_exA]).
Definition ex_cfg_bad : config := mk_config [] [(C_Exception, XRaise ex_exB)].

Example C07_app_state_fault_independent_ex :
  view_of ex_good = view_of ex_broken /\
  probes (run ex_cfg ex_vops ex_good) = [(0, Some 1); (0, Some 1); (0, None)] /\
  probes (run ex_cfg_bad ex_vops ex_broken) = [(0, Some 1); (0, Some 1); (0, None)] /\
  (* ... while the logging state proper does differ: reports consumed positions and uuids *)
  next_uuid (run ex_cfg ex_vops ex_good) <> next_uuid (run ex_cfg_bad ex_vops ex_broken) /\
  map (@length msg) (map d_log (dests (run ex_cfg ex_vops ex_good))) = [3; 3] /\
  map (@length msg) (map d_log (dests (run ex_cfg_bad ex_vops ex_broken))) = [13; 13; 13].
Proof. vm_compute. repeat split. discriminate. Qed.

Example finish_marks_and_writes_once_ex :
  let s := run ex_cfg [(0, OStart 1 false (VAtom 30%positive) [] None)] ex_broken in
  (exists a, alookup 1 (heap s) = Some a /\ a_finished a = false) /\
  let s' := finish ex_cfg_bad 0 s 1 (Some ex_exA) in
  (exists a', alookup 1 (heap s') = Some a' /\ a_finished a' = true) /\
  map (@length msg) (map d_log (dests s')) <> map (@length msg) (map d_log (dests s)) /\
  map d_log (dests (finish ex_cfg_bad 0 s' 1 None)) = map d_log (dests s').
Proof.
  cbv zeta. split; [eexists; split; [vm_compute; reflexivity | reflexivity]|].
  split; [eexists; split; [vm_compute; reflexivity | reflexivity]|].
  split; [vm_compute; discriminate | vm_compute; reflexivity].
Qed.

Example C07_outcome_static_ex :
  let p := [SAct 1 WithBlock false (VAtom 30%positive) [] None []
              [SMsg (VAtom 20%positive) [] None; SRaise ex_exA]] in
  snd (run_prog ex_cfg [(0, OAddDests ex_ds3)] p) = Some ex_exA /\
  snd (run_prog ex_cfg_bad [] p) = Some ex_exA.
Proof. split; reflexivity. Qed.
