From Coq Require Import List Arith Bool Lia.
Require Import Eliot.Model.SingleUse.
Import ListNotations.

Lemma invoke_locked_never_runs sched seen : ran (invoke sched true seen) = [].
Proof.
  revert seen. induction sched as [|t r IH]; intros seen; cbn [invoke]; [reflexivity|].
  destruct (existsb (Nat.eqb t) seen); [apply IH|].
  unfold ran in *. cbn [filter snd map]. apply IH.
Qed.

(* for every schedule and any number of threads: at most one invocation runs f ... *)
Theorem single_use_at_most_once sched seen flag : length (ran (invoke sched flag seen)) <= 1.
Proof.
  revert seen flag. induction sched as [|t r IH]; intros seen flag; cbn [invoke]; [cbn; lia|].
  destruct (existsb (Nat.eqb t) seen); [apply IH|].
  destruct flag.
  - unfold ran. cbn [filter snd map]. apply IH.
  - unfold ran. cbn [filter snd map fst length].
    fold (ran (invoke r true (t :: seen))). rewrite invoke_locked_never_runs. cbn. lia.
Qed.

(* ... exactly the first one to reach the guard, and every other one raises TooManyCalls *)
Theorem single_use_first_wins t r :
  invoke (t :: r) false [] = (t, Ran) :: invoke r true [t] /\ ran (invoke r true [t]) = [].
Proof. split; [reflexivity | apply invoke_locked_never_runs]. Qed.

Lemma invoke_results_complete sched flag seen t :
  In t sched -> ~ In t seen -> exists res, In (t, res) (invoke sched flag seen).
Proof.
  revert flag seen. induction sched as [|x r IH]; intros flag seen Hin Hns; [contradiction|].
  cbn [invoke]. destruct (existsb (Nat.eqb x) seen) eqn:E.
  - destruct Hin as [->|Hin].
    + apply existsb_exists in E as (y & Hy & Hxy). apply Nat.eqb_eq in Hxy. subst. contradiction.
    + now apply IH.
  - destruct Hin as [->|Hin].
    + eexists. left. reflexivity.
    + destruct (Nat.eq_dec x t) as [->|Hne].
      * eexists. left. reflexivity.
      * destruct (IH true (x :: seen) Hin) as [res Hres].
        { intros [H|H]; [congruence | contradiction]. }
        exists res. right. exact Hres.
Qed.

(* replacing the lock by a check-then-set flag lets two invocations run *)
Theorem check_then_set_refuted :
  exists sched, length (ran (invoke_check_then_set sched false [] [])) = 2.
Proof. exists [0; 1; 0; 1]. reflexivity. Qed.

Example single_use_example :
  invoke [2; 0; 2; 1; 0; 1] false [] = [(2, Ran); (0, TooManyCalls); (1, TooManyCalls)].
Proof. reflexivity. Qed.
