(* C16: mutual exclusion makes every interleaving equivalent to a serial order (generic),
   and what that means for MemoryLogger and FileDestination. *)
From Coq Require Import List Arith Bool NArith Lia Permutation.
Require Import Eliot.Base.Interleave Eliot.Model.Crash Eliot.Proofs.CrashProofs Eliot.Model.MemLogger.
Import ListNotations.

(* ------------------------------------------------------------------ lists *)
Lemma nth_error_upd_same {A} (l : list A) n x : n < length l -> nth_error (upd n x l) n = Some x.
Proof. revert n. induction l as [|y l IH]; intros [|n] H; cbn in *; try lia; auto. apply IH. lia. Qed.

Lemma nth_error_upd_other {A} (l : list A) n k x : n <> k -> nth_error (upd n x l) k = nth_error l k.
Proof. revert n k. induction l as [|y l IH]; intros [|n] [|k] H; cbn; auto; try congruence. Qed.

Lemma length_upd {A} (l : list A) n x : length (upd n x l) = length l.
Proof. revert n. induction l as [|y l IH]; intros [|n]; cbn; auto. Qed.

Lemma upd_split {A} (l : list A) n x y : nth_error l n = Some y ->
  exists a b, l = a ++ y :: b /\ upd n x l = a ++ x :: b.
Proof.
  revert n. induction l as [|z l IH]; intros [|n] H; cbn in *; try discriminate.
  - injection H as ->. exists [], l. auto.
  - destruct (IH n H) as (a & b & E1 & E2). exists (z :: a), b. cbn. now rewrite <- E1, E2.
Qed.

Lemma nth_error_upd {A} (l : list A) n k x y : nth_error (upd n x l) k = Some y ->
  (k = n /\ y = x /\ n < length l) \/ (k <> n /\ nth_error l k = Some y).
Proof.
  intros H. destruct (Nat.eq_dec k n) as [->|Hne].
  - left. assert (Hl : n < length l).
    { apply nth_error_Some. intros E. assert (nth_error (upd n x l) n <> None) by congruence.
      apply nth_error_Some in H0. rewrite length_upd in H0. apply nth_error_None in E. lia. }
    rewrite nth_error_upd_same in H by exact Hl. injection H as <-. auto.
  - right. rewrite nth_error_upd_other in H by congruence. auto.
Qed.

Lemma of_thread_app {A} t (l1 l2 : list (nat * A)) : of_thread t (l1 ++ l2) = of_thread t l1 ++ of_thread t l2.
Proof. unfold of_thread. now rewrite filter_app, map_app. Qed.

Lemma of_thread_one {A} t u (x : A) : of_thread t [(u, x)] = if Nat.eqb u t then [x] else [].
Proof. unfold of_thread. cbn. destruct (Nat.eqb u t); reflexivity. Qed.

(* ------------------------------------------------------------------ generic *)
Section Generic.
  Variables (St L C : Type).
  Variable locked : C -> bool.
  Variable init : C -> L.
  Variable body : C -> list (step St L).

  Notation tstate := (tstate St L C).
  Notation config := (config St L C).
  Notation step_thread := (step_thread locked init body).
  Notation run_sched := (run_sched locked init body).
  Notation run_call := (run_call init body).
  Notation serial := (serial init body).

  Lemma run_steps_app (b1 b2 : list (step St L)) l s :
    run_steps (b1 ++ b2) l s = let '(l', s') := run_steps b1 l s in run_steps b2 l' s'.
  Proof.
    revert l s. induction b1 as [|st b1 IH]; intros l s; cbn; auto.
    destruct (st l s) as [l' s']. apply IH.
  Qed.

  Lemma serial_snoc lg t c s :
    serial (lg ++ [(t, c)]) s =
      let '(s1, rs) := serial lg s in let '(l, s2) := run_call c s1 in (s2, rs ++ [(t, (c, l))]).
  Proof.
    revert s. induction lg as [|[u d] lg IH]; intros s; cbn.
    - destruct (run_call c s) as [l s2]. reflexivity.
    - destruct (run_call d s) as [l s']. rewrite IH. destruct (serial lg s') as [s1 rs].
      destruct (run_call c s1) as [l2 s2]. reflexivity.
  Qed.

  (* every reachable configuration satisfies an invariant that holds initially and is preserved by every step *)
  Lemma run_sched_ind (P : config -> Prop) :
    (forall t cfg, P cfg -> P (step_thread t cfg)) ->
    forall sched cfg, P cfg -> P (run_sched sched cfg).
  Proof.
    intros Hstep sched. unfold Interleave.run_sched.
    induction sched as [|t sched IH]; intros cfg H; cbn [fold_left]; auto.
  Qed.

  Lemma run_sched_app s1 s2 cfg : run_sched (s1 ++ s2) cfg = run_sched s2 (run_sched s1 cfg).
  Proof. unfold Interleave.run_sched. apply fold_left_app. Qed.

  (* ---- the serial view of a configuration in which every call takes the lock *)
  (* [progs]: the thread programs; [s0]: the initial shared state.
     1. the linearisation log contains, per thread, exactly the calls of its program made so far, in
        program order; the rest is still to do: nothing is run twice or skipped;
     2. if no thread holds the lock: the shared state is the state after running the logged calls
        atomically one after the other, no call is in progress, and every thread's return values are
        those of its calls in that serial run;
     3. if thread h holds the lock for call c (the last log entry): the shared state and c's locals are
        those after running the earlier logged calls atomically and then the executed prefix [done] of
        c's body; no other call is in progress; return values as in 2 for the earlier calls. *)
  Definition serial_view (progs : list (list C)) (s0 : St) (cfg : config) : Prop :=
    length (thr cfg) = length progs /\
    (forall t p ts, nth_error progs t = Some p -> nth_error (thr cfg) t = Some ts ->
                    p = of_thread t (acq cfg) ++ todo ts) /\
    match holder cfg with
    | None =>
        shared cfg = fst (serial (acq cfg) s0) /\
        forall t ts, nth_error (thr cfg) t = Some ts ->
          cur ts = None /\ rets ts = of_thread t (snd (serial (acq cfg) s0))
    | Some h =>
        exists lg c l done rest,
          acq cfg = lg ++ [(h, c)] /\ body c = done ++ rest /\
          run_steps done (init c) (fst (serial lg s0)) = (l, shared cfg) /\
          forall t ts, nth_error (thr cfg) t = Some ts ->
            cur ts = (if Nat.eqb t h then Some (c, l, rest) else None) /\
            rets ts = of_thread t (snd (serial lg s0))
    end.

  Lemma serial_view_init progs s0 : serial_view progs s0 (init_config progs s0).
  Proof.
    unfold serial_view, init_config. cbn. rewrite map_length. split; [reflexivity|]. split.
    - intros t p ts Hp Hts. rewrite nth_error_map, Hp in Hts. cbn in Hts. injection Hts as <-. reflexivity.
    - split; [reflexivity|]. intros t ts Hts. rewrite nth_error_map in Hts.
      destruct (nth_error progs t); cbn in Hts; [|discriminate]. injection Hts as <-. auto.
  Qed.

  Lemma serial_view_step progs s0 :
    Forall (Forall (fun c => locked c = true)) progs ->
    forall t cfg, serial_view progs s0 cfg -> serial_view progs s0 (step_thread t cfg).
  Proof.
    intros Hlk t cfg (Hlen & Hprog & Hview). unfold Interleave.step_thread.
    destruct (nth_error (thr cfg) t) as [ts|] eqn:Hts; [|repeat split; auto].
    assert (Ht : t < length (thr cfg)) by (apply nth_error_Some; congruence).
    destruct (cur ts) as [[[c l] [|st more]]|] eqn:Hcur.
    - (* Release *)
      destruct (holder cfg) as [h|] eqn:Hh.
      2:{ destruct Hview as (_ & Hall). destruct (Hall t ts Hts) as [E _]. congruence. }
      destruct Hview as (lg & c' & l' & done & rest & Hacq & Hbody & Hrun & Hall).
      destruct (Hall t ts Hts) as [Ecur Erets]. rewrite Hcur in Ecur.
      destruct (Nat.eqb t h) eqn:Eth; [|discriminate]. apply Nat.eqb_eq in Eth. subst h.
      injection Ecur as <- <- <-. rewrite app_nil_r in Hbody.
      assert (Hc : locked c = true).
      { destruct (nth_error progs t) as [p|] eqn:Hp.
        - pose proof (Hprog t p ts Hp Hts) as Ep. rewrite Hacq, of_thread_app, of_thread_one, Nat.eqb_refl in Ep.
          eapply Forall_forall in Hlk; [|eapply nth_error_In; exact Hp].
          eapply Forall_forall in Hlk; [exact Hlk|]. rewrite Ep. apply in_or_app. left. apply in_or_app. right. now left.
        - apply nth_error_None in Hp. lia. }
      rewrite Hc. unfold serial_view. cbn [thr acq holder shared]. rewrite length_upd. split; [exact Hlen|]. split.
      + intros u p us Hp Hus. apply nth_error_upd in Hus as [(-> & -> & _)|(Hne & Hus)]; cbn [todo]; eauto.
      + assert (Eser : serial (acq cfg) s0 = (shared cfg, snd (serial lg s0) ++ [(t, (c, l))])).
        { rewrite Hacq, serial_snoc. destruct (serial lg s0) as [s1 rs]. cbn [fst snd] in *.
          unfold Interleave.run_call. rewrite <- Hbody in Hrun. rewrite Hrun. reflexivity. }
        rewrite Eser. cbn [fst snd]. split; [reflexivity|].
        intros u us Hus. apply nth_error_upd in Hus as [(-> & -> & _)|(Hne & Hus)]; cbn [cur rets].
        * split; [reflexivity|]. rewrite of_thread_app, of_thread_one, Nat.eqb_refl, Erets. reflexivity.
        * destruct (Hall u us Hus) as [Ec Er]. apply Nat.eqb_neq in Hne. rewrite Hne in Ec.
          split; [exact Ec|]. rewrite of_thread_app, of_thread_one.
          rewrite Nat.eqb_sym, Hne, app_nil_r. exact Er.
    - (* a body step *)
      destruct (holder cfg) as [h|] eqn:Hh.
      2:{ destruct Hview as (_ & Hall). destruct (Hall t ts Hts) as [E _]. congruence. }
      destruct Hview as (lg & c' & l' & done & rest & Hacq & Hbody & Hrun & Hall).
      destruct (Hall t ts Hts) as [Ecur Erets]. rewrite Hcur in Ecur.
      destruct (Nat.eqb t h) eqn:Eth; [|discriminate]. apply Nat.eqb_eq in Eth. subst h.
      injection Ecur as <- <- <-.
      destruct (st l (shared cfg)) as [l2 s2] eqn:Est.
      unfold serial_view. cbn [thr acq holder shared]. rewrite length_upd. split; [exact Hlen|]. split.
      + intros u p us Hp Hus. apply nth_error_upd in Hus as [(-> & -> & _)|(Hne & Hus)]; cbn [todo]; eauto.
      + exists lg, c, l2, (done ++ [st]), more. split; [exact Hacq|]. split; [now rewrite <- app_assoc|]. split.
        * rewrite run_steps_app, Hrun. cbn. now rewrite Est.
        * intros u us Hus. apply nth_error_upd in Hus as [(-> & -> & _)|(Hne & Hus)]; cbn [cur rets].
          -- rewrite Nat.eqb_refl. auto.
          -- destruct (Hall u us Hus) as [Ec Er]. apply Nat.eqb_neq in Hne. rewrite Hne in *. auto.
    - (* no call in progress *)
      destruct (todo ts) as [|c rest] eqn:Htodo; [repeat split; auto|].
      assert (Hc : locked c = true).
      { destruct (nth_error progs t) as [p|] eqn:Hp.
        - pose proof (Hprog t p ts Hp Hts) as Ep.
          eapply Forall_forall in Hlk; [|eapply nth_error_In; exact Hp].
          eapply Forall_forall in Hlk; [exact Hlk|]. rewrite Ep, Htodo. apply in_or_app. right. now left.
        - apply nth_error_None in Hp. lia. }
      rewrite Hc. destruct (holder cfg) as [h|] eqn:Hh.
      + (* disabled *) unfold serial_view. rewrite Hh. auto.
      + (* Acquire *)
        destruct Hview as (Hsh & Hall).
        unfold serial_view. cbn [thr acq holder shared]. rewrite length_upd. split; [exact Hlen|]. split.
        * intros u p us Hp Hus. rewrite of_thread_app, of_thread_one.
          apply nth_error_upd in Hus as [(-> & -> & _)|(Hne & Hus)]; cbn [todo].
          -- rewrite Nat.eqb_refl, (Hprog t p ts Hp Hts), Htodo, <- app_assoc. reflexivity.
          -- apply Nat.eqb_neq in Hne. rewrite Nat.eqb_sym, Hne, app_nil_r. eauto.
        * exists (acq cfg), c, (init c), [], (body c). split; [reflexivity|]. split; [reflexivity|]. split.
          -- cbn. now rewrite Hsh.
          -- intros u us Hus. apply nth_error_upd in Hus as [(-> & -> & _)|(Hne & Hus)]; cbn [cur rets].
             ++ rewrite Nat.eqb_refl. split; [reflexivity|]. apply (Hall t ts Hts).
             ++ apply Nat.eqb_neq in Hne. rewrite Hne. apply (Hall u us Hus).
  Qed.

  (* for ALL thread programs whose calls all take the lock and ALL schedules *)
  Theorem serializable (progs : list (list C)) (s0 : St) (sched : list nat) :
    Forall (Forall (fun c => locked c = true)) progs ->
    serial_view progs s0 (run_sched sched (init_config progs s0)).
  Proof.
    intros Hlk. apply run_sched_ind.
    - intros t cfg. apply serial_view_step. exact Hlk.
    - apply serial_view_init.
  Qed.
End Generic.

Arguments serial_view {St L C}.

(* ------------------------------------------------------------------ order-preserving sub-lists *)
Inductive sublist {A : Type} : list A -> list A -> Prop :=
| sl_nil : sublist [] []
| sl_keep x a b : sublist a b -> sublist (x :: a) (x :: b)
| sl_skip x a b : sublist a b -> sublist a (x :: b).

Lemma sublist_refl {A} (l : list A) : sublist l l.
Proof. induction l; constructor; auto. Qed.

Lemma sublist_app {A} (a b c d : list A) : sublist a b -> sublist c d -> sublist (a ++ c) (b ++ d).
Proof. intros Hab Hcd. induction Hab; cbn; auto; constructor; auto. Qed.

Lemma sublist_filter {A} (f : A -> bool) (l : list A) : sublist (filter f l) l.
Proof. induction l as [|x l IH]; cbn; [constructor|]. destruct (f x); constructor; auto. Qed.

Lemma sublist_trans {A} (a b c : list A) : sublist a b -> sublist b c -> sublist a c.
Proof.
  intros Hab Hbc. revert a Hab. induction Hbc as [|x b c Hbc IH|x b c Hbc IH]; intros a Hab.
  - exact Hab.
  - inversion Hab; subst; constructor; auto.
  - constructor. auto.
Qed.

Lemma filter_partition_perm {A} (f : A -> bool) (l : list A) :
  Permutation (filter (fun x => negb (f x)) l ++ filter f l) l.
Proof.
  induction l as [|x l IH]; cbn; [constructor|]. destruct (f x); cbn.
  - apply Permutation_sym. apply Permutation_cons_app. apply Permutation_sym. exact IH.
  - constructor. exact IH.
Qed.

(* ------------------------------------------------------------------ MemoryLogger, sequentially *)
Definition mem_after (c : mcall) (s : mstate) : locals * mstate := run_call mem_init mem_body c s.

Lemma mem_after_write m z s :
  let s2 := snd (mem_after (MWrite m z) s) in
  messages s2 = messages s ++ [m] /\ serializers s2 = serializers s ++ [z] /\
  tracebacks s2 = (if is_tb z then tracebacks s ++ [m] else tracebacks s).
Proof.
  unfold mem_after, run_call. cbn. unfold w_validate, w_messages, w_serializers, w_tracebacks.
  destruct (vok (m_verdict m)), (is_tb z); cbn; auto.
Qed.

Lemma mem_after_validate s :
  let s2 := snd (mem_after MValidate s) in
  messages s2 = messages s /\ serializers s2 = serializers s /\ tracebacks s2 = tracebacks s.
Proof.
  unfold mem_after, run_call. cbn. unfold v_loop. cbn.
  destruct (validate_loop _ _). cbn. auto.
Qed.

Lemma mem_after_serialize s : snd (mem_after MSerialize s) = s.
Proof. unfold mem_after, run_call. cbn. unfold s_loop. cbn. destruct (serialize_loop _ _ _). reflexivity. Qed.

Lemma mem_after_flush cls s :
  let '(l, s2) := mem_after (MFlush cls) s in
  messages s2 = messages s /\ serializers s2 = serializers s /\
  tracebacks s2 = filter (fun m => negb (flushes (cooked s) cls m)) (tracebacks s) /\
  l_result l = filter (flushes (cooked s) cls) (tracebacks s).
Proof. unfold mem_after, run_call. cbn. auto. Qed.

Lemma mem_after_reset s :
  let s2 := snd (mem_after MReset s) in messages s2 = [] /\ serializers s2 = [] /\ tracebacks s2 = [].
Proof. unfold mem_after, run_call. cbn. auto. Qed.

Definition tb_writes (cs : list mcall) : list msg :=
  map fst (filter (fun p => is_tb (snd p)) (live_writes cs)).

(* what holds of the attributes after the calls [cs], run one after the other, returned [rs] *)
Definition mem_consistent (cs : list mcall) (rs : list (mcall * locals)) (s : mstate) : Prop :=
  messages s = map fst (live_writes cs) /\ serializers s = map snd (live_writes cs) /\
  sublist (tracebacks s) (tb_writes cs) /\
  Permutation (tracebacks s ++ flushed_since_reset rs) (tb_writes cs).

Lemma live_writes_snoc cs c : live_writes (cs ++ [c]) = lw_step (live_writes cs) c.
Proof. unfold live_writes. now rewrite fold_left_app. Qed.

Lemma flushed_snoc rs x : flushed_since_reset (rs ++ [x]) = fl_step (flushed_since_reset rs) x.
Proof. unfold flushed_since_reset. now rewrite fold_left_app. Qed.

Lemma mem_serial_consistent lg :
  let '(s, rs) := mem_serial lg in mem_consistent (map snd lg) (map snd rs) s.
Proof.
  induction lg as [|[t c] lg IH] using rev_ind.
  - cbn. repeat split; cbn; constructor.
  - unfold mem_serial in *. rewrite serial_snoc. destruct (serial mem_init mem_body lg mem_empty) as [s1 rs].
    destruct (run_call mem_init mem_body c s1) as [l s2] eqn:Erun.
    destruct IH as (Hm & Hs & Hsub & Hperm).
    rewrite !map_app. cbn [map snd]. unfold mem_consistent, tb_writes.
    rewrite live_writes_snoc, flushed_snoc. unfold fl_step. cbn [fst snd].
    fold (mem_after c s1) in Erun. destruct c as [m z| | |cls|]; cbn [lw_step].
    + pose proof (mem_after_write m z s1) as H. rewrite Erun in H. cbn in H. destruct H as (E1 & E2 & E3).
      rewrite E1, E2, E3, Hm, Hs, !map_app, filter_app, map_app. cbn [map fst snd filter].
      split; [reflexivity|]. split; [reflexivity|]. unfold tb_writes in *.
      destruct (is_tb z); cbn [map fst].
      * split; [apply sublist_app; [exact Hsub|apply sublist_refl]|].
        rewrite <- app_assoc. eapply Permutation_trans; [apply Permutation_app_head, Permutation_app_comm|].
        rewrite app_assoc. apply Permutation_app_tail. exact Hperm.
      * rewrite !app_nil_r. auto.
    + pose proof (mem_after_validate s1) as H. rewrite Erun in H. cbn in H. destruct H as (E1 & E2 & E3).
      rewrite E1, E2, E3. auto.
    + pose proof (mem_after_serialize s1) as H. rewrite Erun in H. cbn in H. subst s2. auto.
    + pose proof (mem_after_flush cls s1) as H. rewrite Erun in H. destruct H as (E1 & E2 & E3 & E4).
      rewrite E1, E2, E3, E4. split; [exact Hm|]. split; [exact Hs|]. unfold tb_writes in *. split.
      * eapply sublist_trans; [apply sublist_filter|exact Hsub].
      * eapply Permutation_trans; [|exact Hperm].
        eapply Permutation_trans; [apply Permutation_app_head, Permutation_app_comm|].
        rewrite app_assoc. apply Permutation_app_tail. apply filter_partition_perm.
    + pose proof (mem_after_reset s1) as H. rewrite Erun in H. cbn in H. destruct H as (E1 & E2 & E3).
      rewrite E1, E2, E3. cbn. repeat split; constructor.
Qed.

(* ------------------------------------------------------------------ MemoryLogger, concurrently *)
Lemma mem_locked_all progs : Forall (Forall (fun c => mem_locked c = true)) progs.
Proof. apply Forall_forall. intros p _. apply Forall_forall. reflexivity. Qed.

(* every method takes the lock, so the generic theorem applies to every program and schedule *)
Theorem mem_serializable progs sched :
  serial_view mem_init mem_body progs mem_empty (mem_run progs sched).
Proof. apply serializable. apply mem_locked_all. Qed.

(* the calls whose critical section is over, in lock-acquisition order *)
Definition completed (cfg : mem_config) : list (nat * mcall) :=
  match holder cfg with None => acq cfg | Some _ => removelast (acq cfg) end.

Definition observer (c : mcall) : Prop := c = MValidate \/ c = MSerialize.

(* no call is inside its critical section, or the call inside is a validate() / serialize() *)
Definition observing (cfg : mem_config) : Prop :=
  holder cfg = None \/
  exists h ts c l rest, holder cfg = Some h /\ nth_error (thr cfg) h = Some ts /\
                        cur ts = Some (c, l, rest) /\ observer c.

Definition same_lists (s s' : mstate) : Prop :=
  messages s' = messages s /\ serializers s' = serializers s /\ tracebacks s' = tracebacks s.

Lemma run_steps_same_lists (b : list (step mstate locals)) :
  Forall (fun st => forall l s, same_lists s (snd (st l s))) b ->
  forall l s, same_lists s (snd (run_steps b l s)).
Proof.
  induction 1 as [|st b Hst Hb IH]; intros l s; cbn.
  - repeat split.
  - specialize (Hst l s). destruct (st l s) as [l' s']. cbn in Hst.
    specialize (IH l' s'). destruct Hst as (A1 & A2 & A3), IH as (B1 & B2 & B3).
    repeat split; congruence.
Qed.

Lemma observer_body c : observer c ->
  Forall (fun st => forall l s, same_lists s (snd (st l s))) (mem_body c).
Proof.
  intros [->| ->]; cbn; repeat constructor; cbn.
  - unfold v_loop. destruct (validate_loop _ _). reflexivity.
  - unfold v_loop. destruct (validate_loop _ _). reflexivity.
  - unfold v_loop. destruct (validate_loop _ _). reflexivity.
  - unfold s_loop. destruct (serialize_loop _ _ _). reflexivity.
  - unfold s_loop. destruct (serialize_loop _ _ _). reflexivity.
  - unfold s_loop. destruct (serialize_loop _ _ _). reflexivity.
Qed.

(* at an observation point the three lists are those of the serial run of the completed calls *)
Lemma mem_observed progs sched :
  let cfg := mem_run progs sched in
  observing cfg -> same_lists (fst (mem_serial (completed cfg))) (shared cfg).
Proof.
  intros cfg Hobs. pose proof (mem_serializable progs sched) as (Hlen & Hprog & Hview).
  fold cfg in Hlen, Hprog, Hview. unfold completed.
  destruct (holder cfg) as [h|] eqn:Hh.
  - destruct Hobs as [Hobs|(h' & ts & c & l & rest & Eh & Hts & Hcur & Hc)]; [congruence|].
    rewrite Hh in Eh. injection Eh as <-.
    destruct Hview as (lg & c' & l' & done & rest' & Hacq & Hbody & Hrun & Hall).
    destruct (Hall h ts Hts) as [Ecur _]. rewrite Nat.eqb_refl, Hcur in Ecur. injection Ecur as <- <- <-.
    rewrite Hacq, removelast_last.
    pose proof (observer_body c Hc) as HF. rewrite Hbody in HF. apply Forall_app in HF as [HF _].
    pose proof (run_steps_same_lists done HF (mem_init c) (fst (serial mem_init mem_body lg mem_empty))) as H.
    rewrite Hrun in H. exact H.
  - destruct Hview as (Hsh & _). rewrite Hsh. repeat split.
Qed.

Lemma combine_fst_snd {A B} (w : list (A * B)) : combine (map fst w) (map snd w) = w.
Proof. induction w as [|[a b] w IH]; cbn; congruence. Qed.

Lemma mem_observed_consistent progs sched :
  let cfg := mem_run progs sched in
  observing cfg ->
  let s := shared cfg in
  let cs := map snd (completed cfg) in
  messages s = map fst (live_writes cs) /\ serializers s = map snd (live_writes cs) /\
  sublist (tracebacks s) (tb_writes cs) /\
  Permutation (tracebacks s ++ flushed_since_reset (map snd (snd (mem_serial (completed cfg))))) (tb_writes cs).
Proof.
  intros cfg Hobs s cs. destruct (mem_observed progs sched Hobs) as (E1 & E2 & E3). fold cfg in E1, E2, E3.
  pose proof (mem_serial_consistent (completed cfg)) as H.
  destruct (mem_serial (completed cfg)) as [s1 rs]. cbn [fst snd] in *.
  destruct H as (H1 & H2 & H3 & H4). subst s cs. rewrite E1, E2, E3. auto.
Qed.

(* each message stays paired with its own serializer, in particular whenever validate()/serialize() look *)
Theorem paired progs sched :
  let cfg := mem_run progs sched in
  observing cfg ->
  length (messages (shared cfg)) = length (serializers (shared cfg)) /\
  combine (messages (shared cfg)) (serializers (shared cfg)) = live_writes (map snd (completed cfg)).
Proof.
  intros cfg Hobs. destruct (mem_observed_consistent progs sched Hobs) as (H1 & H2 & _). fold cfg in H1, H2.
  rewrite H1, H2, !map_length, combine_fst_snd. auto.
Qed.

(* tracebackMessages: in write order, a sub-list of the live traceback writes; together with what the
   flushTracebacks calls since the last reset returned, exactly those writes (each exactly once) *)
Theorem tracebacks_consistent progs sched :
  let cfg := mem_run progs sched in
  observing cfg ->
  let cs := map snd (completed cfg) in
  let returned := map snd (snd (mem_serial (completed cfg))) in
  sublist (tracebacks (shared cfg)) (tb_writes cs) /\
  Permutation (tracebacks (shared cfg) ++ flushed_since_reset returned) (tb_writes cs).
Proof.
  intros cfg Hobs. destruct (mem_observed_consistent progs sched Hobs) as (_ & _ & H3 & H4). auto.
Qed.

Lemma lw_fold post : forall w,
  fold_left lw_step post w =
    if existsb is_reset post then fold_left lw_step post [] else w ++ writes_of post.
Proof.
  induction post as [|c post IH]; intros w; cbn [fold_left existsb writes_of flat_map].
  - now rewrite app_nil_r.
  - destruct c as [m z| | |cls|]; cbn [lw_step is_reset orb app].
    + rewrite IH, (IH [(m, z)]). destruct (existsb is_reset post); [reflexivity|].
      now rewrite <- app_assoc.
    + apply IH.
    + apply IH.
    + apply IH.
    + reflexivity.
Qed.

(* every write is recorded exactly once, at its place in the acquisition order, unless a reset is serialised after it *)
Theorem once progs sched :
  let cfg := mem_run progs sched in
  observing cfg ->
  forall pre t m z post, completed cfg = pre ++ (t, MWrite m z) :: post ->
  combine (messages (shared cfg)) (serializers (shared cfg)) =
    if existsb is_reset (map snd post) then live_writes (map snd post)
    else live_writes (map snd pre) ++ (m, z) :: writes_of (map snd post).
Proof.
  intros cfg Hobs pre t m z post Hc. destruct (paired progs sched Hobs) as [_ H]. fold cfg in H.
  rewrite H, Hc, map_app. cbn [map snd]. unfold live_writes. rewrite fold_left_app. cbn [fold_left lw_step].
  rewrite lw_fold. destruct (existsb is_reset (map snd post)); [reflexivity|]. now rewrite <- app_assoc.
Qed.

(* non-vacuity: three threads; thread 1 is refused the lock twice while thread 0 is between
   messages.append and serializers.append; the schedule stops while thread 2's serialize() is inside its
   critical section, after thread 0's first write and thread 1's traceback write and flush *)
Definition ex_m1 := mkMsg 1 0 VOk.
Definition ex_m2 := mkMsg 2 2 VOk.
Definition ex_m3 := mkMsg 3 0 VValidation.
Definition ex_progs : list (list mcall) :=
  [ [MWrite ex_m1 (SType 0); MWrite ex_m3 (SType 1); MValidate];
    [MWrite ex_m2 STraceback; MFlush 1; MReset];
    [MSerialize; MWrite ex_m2 STraceback] ].
Definition ex_sched : list nat := segments [(0, 3); (1, 2); (0, 3); (1, 10); (2, 2)].

Example ex_observing :
  observing (mem_run ex_progs ex_sched) /\
  holder (mem_run ex_progs ex_sched) = Some 2 /\
  map fst (acq (mem_run ex_progs ex_sched)) = [0; 1; 1; 2] /\
  observe_state (shared (mem_run ex_progs ex_sched)) = ([1; 2], [2; 1], [], []).
Proof.
  split; [|vm_compute; auto].
  right. exists 2. vm_compute. do 4 eexists. split; [reflexivity|]. split; [reflexivity|].
  split; [reflexivity|]. right. reflexivity.
Qed.

Example ex_finished :
  let cfg := mem_run ex_progs (ex_sched ++ segments [(2, 2); (1, 6); (2, 6); (0, 10)]) in
  finished cfg /\
  map fst (acq cfg) = [0; 1; 1; 2; 1; 2; 0; 0] /\
  observe_config cfg =
    (([2; 3], [1; 3], [2], [3]),
     [[RUnit; RUnit; RErr EValidation]; [RUnit; RIds [2]; RUnit]; [RIds [1; 2]; RUnit]],
     [0; 1; 1; 2; 1; 2; 0; 0], true) /\
  observe_serial (acq cfg) =
    (([2; 3], [1; 3], [2], [3]),
     [(0, RUnit); (1, RUnit); (1, RIds [2]); (2, RIds [1; 2]); (1, RUnit); (2, RUnit); (0, RUnit); (0, RErr EValidation)]).
Proof. vm_compute. repeat split; repeat constructor. Qed.

(* ------------------------------------------------------------------ without the lock *)
(* the same method bodies without @exclusively: A = write(m1, None), B = write(m2, traceback serializer);
   grants: A enters, validates, appends its message; B enters, validates, appends its message and its
   serializer; A appends its serializer ...: message 1 is stored next to B's serializer, message 2 next to None,
   pairs that no write call ever passed *)
Theorem unlocked_refuted :
  exists (progs : list (list mcall)) (sched : list nat),
    let cfg := mem_run_unlocked progs sched in
    finished cfg /\
    exists i m z, nth_error (combine (messages (shared cfg)) (serializers (shared cfg))) i = Some (m, z) /\
                  ~ In (MWrite m z) (concat progs).
Proof.
  exists [[MWrite ex_m1 SNone]; [MWrite ex_m2 STraceback]], (segments [(0, 3); (1, 4); (0, 3); (1, 2)]).
  split; [vm_compute; repeat constructor|].
  exists 0, ex_m1, STraceback. split; [vm_compute; reflexivity|].
  cbn. intros [H|[H|[]]]; discriminate.
Qed.

(* ------------------------------------------------------------------ FileDestination *)
Lemma split_nl_app a b : forall cur,
  split_nl (a ++ b) cur =
    let '(la, fa) := split_nl a cur in let '(lb, fb) := split_nl b fa in (la ++ lb, fb).
Proof.
  induction a as [|x a IH]; intros cur; cbn [app split_nl].
  - destruct (split_nl b cur). reflexivity.
  - destruct (N.eqb x nl).
    + rewrite IH. destruct (split_nl a []) as [la fa]. destruct (split_nl b fa). reflexivity.
    + apply IH.
Qed.

Lemma complete_lines_snoc d c :
  fragment d = [] -> no_nl c ->
  complete_lines (d ++ c ++ [nl]) = complete_lines d ++ [c] /\ fragment (d ++ c ++ [nl]) = [].
Proof.
  unfold complete_lines, fragment. intros Hd Hc. rewrite split_nl_app.
  destruct (split_nl d []) as [la fa]. cbn [snd] in Hd. subst fa.
  change (c ++ [nl]) with (c ++ nl :: []). rewrite split_nl_line by exact Hc. cbn. auto.
Qed.

Lemma disk_of_snoc evs e : disk_of (evs ++ [e]) = disk_of evs ++ written e.
Proof. unfold disk_of. rewrite flat_map_app. cbn. now rewrite app_nil_r. Qed.

Notation ftstate := (tstate (list ev) unit (list byte)).

Definition file_thread_ok (ts : ftstate) : Prop :=
  Forall no_nl (todo ts) /\
  match cur ts with
  | Some (c, _, rest) => no_nl c /\ exists k, rest = skipn k (file_body c)
  | None => True
  end.

Definition file_inv (progs : list (list (list byte))) (cfg : file_config) : Prop :=
  fragment (disk_of (shared cfg)) = [] /\
  Permutation (complete_lines (disk_of (shared cfg)) ++ file_pending cfg) (concat progs) /\
  Forall file_thread_ok (thr cfg).

Lemma file_inv_init progs : Forall (Forall no_nl) progs -> file_inv progs (init_config progs []).
Proof.
  intros H. unfold file_inv, init_config, file_pending. cbn [shared thr]. split; [reflexivity|]. split.
  - cbn. rewrite flat_map_concat_map, map_map. unfold file_pending_thread. cbn.
    rewrite map_id. apply Permutation_refl.
  - apply Forall_forall. intros ts Hin. apply in_map_iff in Hin as (p & <- & Hp).
    split; cbn; auto. eapply Forall_forall in H; eauto.
Qed.

Lemma file_pending_split s h a ts b q :
  file_pending (mkC s h (a ++ ts :: b) q) =
    flat_map file_pending_thread a ++ file_pending_thread ts ++ flat_map file_pending_thread b.
Proof. unfold file_pending. cbn [thr]. rewrite flat_map_app. reflexivity. Qed.

Lemma file_inv_step progs t cfg :
  file_inv progs cfg -> file_inv progs (step_thread (fun _ => false) (fun _ => tt) file_body t cfg).
Proof.
  intros (Hfrag & Hperm & Hok). unfold step_thread.
  destruct (nth_error (thr cfg) t) as [ts|] eqn:Hts; [|repeat split; auto].
  destruct cfg as [evs h ths q]. cbn [shared holder thr acq] in *.
  assert (Hsplit : forall ts', exists a b, ths = a ++ ts :: b /\ upd t ts' ths = a ++ ts' :: b)
    by (intros ts'; eapply upd_split; eauto).
  assert (Hts_ok : file_thread_ok ts) by (eapply Forall_forall; [exact Hok|eapply nth_error_In; eauto]).
  destruct Hts_ok as [Htodo Hcur].
  destruct (cur ts) as [[[c l] [|st more]]|] eqn:Ecur.
  - (* Return *)
    destruct (Hsplit (mkT None (todo ts) (rets ts ++ [(c, l)]))) as (a & b & E1 & E2).
    rewrite E2. subst ths. unfold file_inv. cbn [shared]. split; [exact Hfrag|]. split.
    + rewrite file_pending_split in Hperm |- *.
      assert (P1 : file_pending_thread ts = todo ts) by (unfold file_pending_thread; rewrite Ecur; reflexivity).
      rewrite P1 in Hperm. exact Hperm.
    + apply Forall_app in Hok as [Ha Hb]. inversion Hb; subst. apply Forall_app. split; [exact Ha|].
      constructor; [|assumption]. split; cbn; auto.
  - (* Write or Flush *)
    destruct Hcur as [Hc [k Hk]].
    destruct (st l evs) as [l2 s2] eqn:Est.
    destruct (Hsplit (mkT (Some (c, l2, more)) (todo ts) (rets ts))) as (a & b & E1 & E2).
    rewrite E2. subst ths. unfold file_inv. cbn [shared].
    apply Forall_app in Hok as [Ha Hb]. inversion Hb as [|? ? _ Hb']; subst.
    destruct k as [|[|k]]; cbn in Hk.
    + (* the write *)
      injection Hk as -> ->. cbn in Est. injection Est as <- <-.
      rewrite disk_of_snoc. cbn [written].
      destruct (complete_lines_snoc (disk_of evs) c Hfrag Hc) as [Ecl Efr].
      split; [exact Efr|]. split.
      * rewrite Ecl. rewrite file_pending_split in Hperm |- *.
        assert (P1 : file_pending_thread ts = c :: todo ts) by (unfold file_pending_thread; rewrite Ecur; reflexivity).
        rewrite P1 in Hperm. change (file_pending_thread _) with (todo ts).
        eapply Permutation_trans; [|exact Hperm].
        rewrite <- app_assoc. apply Permutation_app_head. cbn [app]. apply Permutation_middle.
      * apply Forall_app. split; [exact Ha|].
        constructor; [|assumption]. split; cbn; auto. split; [exact Hc|]. exists 1. reflexivity.
    + (* the flush *)
      injection Hk as -> ->. cbn in Est. injection Est as <- <-.
      rewrite disk_of_snoc. cbn [written]. rewrite app_nil_r.
      split; [exact Hfrag|]. split.
      * rewrite file_pending_split in Hperm |- *.
        assert (P1 : file_pending_thread ts = todo ts) by (unfold file_pending_thread; rewrite Ecur; reflexivity).
        rewrite P1 in Hperm. exact Hperm.
      * apply Forall_app. split; [exact Ha|].
        constructor; [|assumption]. split; cbn; auto. split; [exact Hc|]. exists 2. reflexivity.
    + destruct k; discriminate.
  - destruct (todo ts) as [|c rest] eqn:Etodo; [repeat split; auto|].
    (* Enter *)
    destruct (Hsplit (mkT (Some (c, tt, file_body c)) rest (rets ts))) as (a & b & E1 & E2).
    rewrite E2. subst ths. unfold file_inv. cbn [shared]. split; [exact Hfrag|]. split.
    + rewrite file_pending_split in Hperm |- *.
      assert (P1 : file_pending_thread ts = c :: rest) by (unfold file_pending_thread; rewrite Ecur, Etodo; reflexivity).
      rewrite P1 in Hperm. exact Hperm.
    + apply Forall_app in Hok as [Ha Hb]. inversion Hb; subst. apply Forall_app. split; [exact Ha|].
      inversion Htodo; subst.
      constructor; [|assumption]. split; cbn; auto. split; [assumption|]. exists 0. reflexivity.
Qed.

Lemma file_pending_finished (cfg : file_config) : finished cfg -> file_pending cfg = [].
Proof.
  unfold finished, file_pending. induction 1 as [|ts l [Hc Ht] Hl IH]; cbn [flat_map]; auto.
  rewrite IH. unfold file_pending_thread. rewrite Hc, Ht. reflexivity.
Qed.

(* concurrent FileDestination calls, each Write carrying one whole newline-terminated, newline-free line:
   for ALL schedules, at every moment, the file ends at a line boundary and its lines together with the
   lines not yet written are a permutation of the lines of the programs: none torn, merged, duplicated
   or dropped; when all threads are done the file's lines are a permutation of all the lines *)
Theorem file_lines (progs : list (list (list byte))) (sched : list nat) :
  Forall (Forall no_nl) progs ->
  let cfg := file_run progs sched in
  let disk := disk_of (shared cfg) in
  fragment disk = [] /\
  Permutation (complete_lines disk ++ file_pending cfg) (concat progs) /\
  (finished cfg -> Permutation (complete_lines disk) (concat progs)).
Proof.
  intros Hp cfg disk.
  assert (H : file_inv progs cfg).
  { unfold cfg, file_run. apply run_sched_ind; [intros; now apply file_inv_step|]. now apply file_inv_init. }
  destruct H as (H1 & H2 & _). split; [exact H1|]. split; [exact H2|].
  intros Hfin. fold disk in H2. rewrite (file_pending_finished cfg Hfin), app_nil_r in H2. exact H2.
Qed.

Example file_nonvacuous :
  let progs := [[[104; 105]; [106]]; [[107; 108; 109]]; [[110]; []]]%N in
  let cfg := file_run progs (segments [(0, 2); (1, 3); (2, 1); (0, 5); (2, 20); (1, 9); (0, 9)]) in
  Forall (Forall no_nl) progs /\ finished cfg /\
  complete_lines (disk_of (shared cfg)) = [[104; 105]; [107; 108; 109]; [106]; [110]; []]%N.
Proof. vm_compute. repeat split; repeat constructor. Qed.

(* payload and line break written by two calls (not the code): lines merge *)
Theorem file_split_refuted :
  exists progs sched,
    Forall (Forall no_nl) progs /\
    let cfg := file_run_split progs sched in
    finished cfg /\ ~ Permutation (complete_lines (disk_of (shared cfg))) (concat progs).
Proof.
  exists [[[104]]; [[105]]]%N, (segments [(0, 2); (1, 5); (0, 3)]).
  split; [repeat constructor|]. split; [vm_compute; repeat constructor|].
  intros H. apply Permutation_sym in H. apply (Permutation_in [104%N]) in H; [|left; reflexivity].
  vm_compute in H. destruct H as [H|[H|[]]]; discriminate.
Qed.
