(* C16: mutual exclusion makes every interleaving equivalent to a serial order (generic),
   and what that means for MemoryLogger and FileDestination. *)
From Coq Require Import List Arith Bool NArith Lia Permutation.
Require Import Eliot.Base.Interleave Eliot.Model.Crash Eliot.Proofs.CrashProofs Eliot.Model.MemLogger.
Import ListNotations.

(* ------------------------------------------------------------------ lists *)
Lemma nth_error_upd_same {A} (l : list A) n x : n < length l -> nth_error (upd n x l) n = Some x.
Proof. revert n. induction l as [|y l IH]; intros [|n] H; cbn in *; try lia; auto. apply IH. lia. Qed.

Lemma nth_error_upd_other {A} (l : list A) n k x : n <> k -> nth_error (upd n x l) k = nth_error l k.
Proof. revert n k. induction l as [|y l IH]; intros [|n] [|k] H; cbn; auto; try congruence. Qed.

Lemma length_upd {A} (l : list A) n x : length (upd n x l) = length l.
Proof. revert n. induction l as [|y l IH]; intros [|n]; cbn; auto. Qed.

Lemma upd_split {A} (l : list A) n x y : nth_error l n = Some y ->
  exists a b, l = a ++ y :: b /\ upd n x l = a ++ x :: b.
Proof.
  revert n. induction l as [|z l IH]; intros [|n] H; cbn in *; try discriminate.
  - injection H as ->. exists [], l. auto.
  - destruct (IH n H) as (a & b & E1 & E2). exists (z :: a), b. cbn. now rewrite <- E1, E2.
Qed.

Lemma nth_error_upd {A} (l : list A) n k x y : nth_error (upd n x l) k = Some y ->
  (k = n /\ y = x /\ n < length l) \/ (k <> n /\ nth_error l k = Some y).
Proof.
  intros H. destruct (Nat.eq_dec k n) as [->|Hne].
  - left. assert (Hl : n < length l).
    { apply nth_error_Some. intros E. assert (nth_error (upd n x l) n <> None) by congruence.
      apply nth_error_Some in H0. rewrite length_upd in H0. apply nth_error_None in E. lia. }
    rewrite nth_error_upd_same in H by exact Hl. injection H as <-. auto.
  - right. rewrite nth_error_upd_other in H by congruence. auto.
Qed.

Lemma of_thread_app {A} t (l1 l2 : list (nat * A)) : of_thread t (l1 ++ l2) = of_thread t l1 ++ of_thread t l2.
Proof. unfold of_thread. now rewrite filter_app, map_app. Qed.

Lemma of_thread_one {A} t u (x : A) : of_thread t [(u, x)] = if Nat.eqb u t then [x] else [].
Proof. unfold of_thread. cbn. destruct (Nat.eqb u t); reflexivity. Qed.

(* ------------------------------------------------------------------ generic *)
Section Generic.
  Variables (St L C : Type).
  Variable locked : C -> bool.
  Variable init : C -> L.
  Variable body : C -> list (step St L).

  Notation tstate := (tstate St L C).
  Notation config := (config St L C).
  Notation step_thread := (step_thread locked init body).
  Notation run_sched := (run_sched locked init body).
  Notation run_call := (run_call init body).
  Notation serial := (serial init body).

  Lemma run_steps_app (b1 b2 : list (step St L)) l s :
    run_steps (b1 ++ b2) l s = let '(l', s') := run_steps b1 l s in run_steps b2 l' s'.
  Proof.
    revert l s. induction b1 as [|st b1 IH]; intros l s; cbn; auto.
    destruct (st l s) as [l' s']. apply IH.
  Qed.

  Lemma serial_snoc lg t c s :
    serial (lg ++ [(t, c)]) s =
      let '(s1, rs) := serial lg s in let '(l, s2) := run_call c s1 in (s2, rs ++ [(t, (c, l))]).
  Proof.
    revert s. induction lg as [|[u d] lg IH]; intros s; cbn.
    - destruct (run_call c s) as [l s2]. reflexivity.
    - destruct (run_call d s) as [l s']. rewrite IH. destruct (serial lg s') as [s1 rs].
      destruct (run_call c s1) as [l2 s2]. reflexivity.
  Qed.

  (* every reachable configuration satisfies an invariant that holds initially and is preserved by every step *)
  Lemma run_sched_ind (P : config -> Prop) :
    (forall t cfg, P cfg -> P (step_thread t cfg)) ->
    forall sched cfg, P cfg -> P (run_sched sched cfg).
  Proof.
    intros Hstep sched. unfold Interleave.run_sched.
    induction sched as [|t sched IH]; intros cfg H; cbn [fold_left]; auto.
  Qed.

  Lemma run_sched_app s1 s2 cfg : run_sched (s1 ++ s2) cfg = run_sched s2 (run_sched s1 cfg).
  Proof. unfold Interleave.run_sched. apply fold_left_app. Qed.

  (* ---- the serial view of a configuration in which every call takes the lock *)
  (* [progs]: the thread programs; [s0]: the initial shared state.
     1. the linearisation log contains, per thread, exactly the calls of its program made so far, in
        program order; the rest is still to do: nothing is run twice or skipped;
     2. if no thread holds the lock: the shared state is the state after running the logged calls
        atomically one after the other, no call is in progress, and every thread's return values are
        those of its calls in that serial run;
     3. if thread h holds the lock for call c (the last log entry): the shared state and c's locals are
        those after running the earlier logged calls atomically and then the executed prefix [done] of
        c's body; no other call is in progress; return values as in 2 for the earlier calls. *)
  Definition serial_view (progs : list (list C)) (s0 : St) (cfg : config) : Prop :=
    length (thr cfg) = length progs /\
    (forall t p ts, nth_error progs t = Some p -> nth_error (thr cfg) t = Some ts ->
                    p = of_thread t (acq cfg) ++ todo ts) /\
    match holder cfg with
    | None =>
        shared cfg = fst (serial (acq cfg) s0) /\
        forall t ts, nth_error (thr cfg) t = Some ts ->
          cur ts = None /\ rets ts = of_thread t (snd (serial (acq cfg) s0))
    | Some h =>
        exists lg c l done rest,
          acq cfg = lg ++ [(h, c)] /\ body c = done ++ rest /\
          run_steps done (init c) (fst (serial lg s0)) = (l, shared cfg) /\
          forall t ts, nth_error (thr cfg) t = Some ts ->
            cur ts = (if Nat.eqb t h then Some (c, l, rest) else None) /\
            rets ts = of_thread t (snd (serial lg s0))
    end.

  Lemma serial_view_init progs s0 : serial_view progs s0 (init_config progs s0).
  Proof.
    unfold serial_view, init_config. cbn. rewrite map_length. split; [reflexivity|]. split.
    - intros t p ts Hp Hts. rewrite nth_error_map, Hp in Hts. cbn in Hts. injection Hts as <-. reflexivity.
    - split; [reflexivity|]. intros t ts Hts. rewrite nth_error_map in Hts.
      destruct (nth_error progs t); cbn in Hts; [|discriminate]. injection Hts as <-. auto.
  Qed.

  Lemma serial_view_step progs s0 :
    Forall (Forall (fun c => locked c = true)) progs ->
    forall t cfg, serial_view progs s0 cfg -> serial_view progs s0 (step_thread t cfg).
  Proof.
    intros Hlk t cfg (Hlen & Hprog & Hview). unfold Interleave.step_thread.
    destruct (nth_error (thr cfg) t) as [ts|] eqn:Hts; [|repeat split; auto].
    assert (Ht : t < length (thr cfg)) by (apply nth_error_Some; congruence).
    destruct (cur ts) as [[[c l] [|st more]]|] eqn:Hcur.
    - (* Release *)
      destruct (holder cfg) as [h|] eqn:Hh.
      2:{ destruct Hview as (_ & Hall). destruct (Hall t ts Hts) as [E _]. congruence. }
      destruct Hview as (lg & c' & l' & done & rest & Hacq & Hbody & Hrun & Hall).
      destruct (Hall t ts Hts) as [Ecur Erets]. rewrite Hcur in Ecur.
      destruct (Nat.eqb t h) eqn:Eth; [|discriminate]. apply Nat.eqb_eq in Eth. subst h.
      injection Ecur as <- <- <-. rewrite app_nil_r in Hbody.
      assert (Hc : locked c = true).
      { destruct (nth_error progs t) as [p|] eqn:Hp.
        - pose proof (Hprog t p ts Hp Hts) as Ep. rewrite Hacq, of_thread_app, of_thread_one, Nat.eqb_refl in Ep.
          eapply Forall_forall in Hlk; [|eapply nth_error_In; exact Hp].
          eapply Forall_forall in Hlk; [exact Hlk|]. rewrite Ep. apply in_or_app. left. apply in_or_app. right. now left.
        - apply nth_error_None in Hp. lia. }
      rewrite Hc. unfold serial_view. cbn [thr acq holder shared]. rewrite length_upd. split; [exact Hlen|]. split.
      + intros u p us Hp Hus. apply nth_error_upd in Hus as [(-> & -> & _)|(Hne & Hus)]; cbn [todo]; eauto.
      + assert (Eser : serial (acq cfg) s0 = (shared cfg, snd (serial lg s0) ++ [(t, (c, l))])).
        { rewrite Hacq, serial_snoc. destruct (serial lg s0) as [s1 rs]. cbn [fst snd] in *.
          unfold Interleave.run_call. rewrite <- Hbody in Hrun. rewrite Hrun. reflexivity. }
        rewrite Eser. cbn [fst snd]. split; [reflexivity|].
        intros u us Hus. apply nth_error_upd in Hus as [(-> & -> & _)|(Hne & Hus)]; cbn [cur rets].
        * split; [reflexivity|]. rewrite of_thread_app, of_thread_one, Nat.eqb_refl, Erets. reflexivity.
        * destruct (Hall u us Hus) as [Ec Er]. apply Nat.eqb_neq in Hne. rewrite Hne in Ec.
          split; [exact Ec|]. rewrite of_thread_app, of_thread_one.
          rewrite Nat.eqb_sym, Hne, app_nil_r. exact Er.
    - (* a body step *)
      destruct (holder cfg) as [h|] eqn:Hh.
      2:{ destruct Hview as (_ & Hall). destruct (Hall t ts Hts) as [E _]. congruence. }
      destruct Hview as (lg & c' & l' & done & rest & Hacq & Hbody & Hrun & Hall).
      destruct (Hall t ts Hts) as [Ecur Erets]. rewrite Hcur in Ecur.
      destruct (Nat.eqb t h) eqn:Eth; [|discriminate]. apply Nat.eqb_eq in Eth. subst h.
      injection Ecur as <- <- <-.
      destruct (st l (shared cfg)) as [l2 s2] eqn:Est.
      unfold serial_view. cbn [thr acq holder shared]. rewrite length_upd. split; [exact Hlen|]. split.
      + intros u p us Hp Hus. apply nth_error_upd in Hus as [(-> & -> & _)|(Hne & Hus)]; cbn [todo]; eauto.
      + exists lg, c, l2, (done ++ [st]), more. split; [exact Hacq|]. split; [now rewrite <- app_assoc|]. split.
        * rewrite run_steps_app, Hrun. cbn. now rewrite Est.
        * intros u us Hus. apply nth_error_upd in Hus as [(-> & -> & _)|(Hne & Hus)]; cbn [cur rets].
          -- rewrite Nat.eqb_refl. auto.
          -- destruct (Hall u us Hus) as [Ec Er]. apply Nat.eqb_neq in Hne. rewrite Hne in *. auto.
    - (* no call in progress *)
      destruct (todo ts) as [|c rest] eqn:Htodo; [repeat split; auto|].
      assert (Hc : locked c = true).
      { destruct (nth_error progs t) as [p|] eqn:Hp.
        - pose proof (Hprog t p ts Hp Hts) as Ep.
          eapply Forall_forall in Hlk; [|eapply nth_error_In; exact Hp].
          eapply Forall_forall in Hlk; [exact Hlk|]. rewrite Ep, Htodo. apply in_or_app. right. now left.
        - apply nth_error_None in Hp. lia. }
      rewrite Hc. destruct (holder cfg) as [h|] eqn:Hh.
      + (* disabled *) unfold serial_view. rewrite Hh. auto.
      + (* Acquire *)
        destruct Hview as (Hsh & Hall).
        unfold serial_view. cbn [thr acq holder shared]. rewrite length_upd. split; [exact Hlen|]. split.
        * intros u p us Hp Hus. rewrite of_thread_app, of_thread_one.
          apply nth_error_upd in Hus as [(-> & -> & _)|(Hne & Hus)]; cbn [todo].
          -- rewrite Nat.eqb_refl, (Hprog t p ts Hp Hts), Htodo, <- app_assoc. reflexivity.
          -- apply Nat.eqb_neq in Hne. rewrite Nat.eqb_sym, Hne, app_nil_r. eauto.
        * exists (acq cfg), c, (init c), [], (body c). split; [reflexivity|]. split; [reflexivity|]. split.
          -- cbn. now rewrite Hsh.
          -- intros u us Hus. apply nth_error_upd in Hus as [(-> & -> & _)|(Hne & Hus)]; cbn [cur rets].
             ++ rewrite Nat.eqb_refl. split; [reflexivity|]. apply (Hall t ts Hts).
             ++ apply Nat.eqb_neq in Hne. rewrite Hne. apply (Hall u us Hus).
  Qed.

  (* for ALL thread programs whose calls all take the lock and ALL schedules *)
  Theorem serializable (progs : list (list C)) (s0 : St) (sched : list nat) :
    Forall (Forall (fun c => locked c = true)) progs ->
    serial_view progs s0 (run_sched sched (init_config progs s0)).
  Proof.
    intros Hlk. apply run_sched_ind.
    - intros t cfg. apply serial_view_step. exact Hlk.
    - apply serial_view_init.
  Qed.
End Generic.

Arguments serial_view {St L C}.

(* ------------------------------------------------------------------ order-preserving sub-lists *)
Inductive sublist {A : Type} : list A -> list A -> Prop :=
| sl_nil : sublist [] []
| sl_keep x a b : sublist a b -> sublist (x :: a) (x :: b)
| sl_skip x a b : sublist a b -> sublist a (x :: b).

Lemma sublist_refl {A} (l : list A) : sublist l l.
Proof. induction l; constructor; auto. Qed.

Lemma sublist_app {A} (a b c d : list A) : sublist a b -> sublist c d -> sublist (a ++ c) (b ++ d).
Proof. intros Hab Hcd. induction Hab; cbn; auto; constructor; auto. Qed.

Lemma sublist_filter {A} (f : A -> bool) (l : list A) : sublist (filter f l) l.
Proof. induction l as [|x l IH]; cbn; [constructor|]. destruct (f x); constructor; auto. Qed.

Lemma sublist_trans {A} (a b c : list A) : sublist a b -> sublist b c -> sublist a c.
Proof.
  intros Hab Hbc. revert a Hab. induction Hbc as [|x b c Hbc IH|x b c Hbc IH]; intros a Hab.
  - exact Hab.
  - inversion Hab; subst; constructor; auto.
  - constructor. auto.
Qed.

Lemma filter_partition_perm {A} (f : A -> bool) (l : list A) :
  Permutation (filter (fun x => negb (f x)) l ++ filter f l) l.
Proof.
  induction l as [|x l IH]; cbn; [constructor|]. destruct (f x); cbn.
  - apply Permutation_sym. apply Permutation_cons_app. apply Permutation_sym. exact IH.
  - constructor. exact IH.
Qed.

(* ------------------------------------------------------------------ MemoryLogger, sequentially *)
Definition mem_after (c : mcall) (s : mstate) : locals * mstate := run_call mem_init mem_body c s.

Lemma mem_after_write m z s :
  let s2 := snd (mem_after (MWrite m z) s) in
  messages s2 = messages s ++ [m] /\ serializers s2 = serializers s ++ [z] /\
  tracebacks s2 = (if is_tb z then tracebacks s ++ [m] else tracebacks s).
Proof.
  unfold mem_after, run_call. cbn. unfold w_validate, w_messages, w_serializers, w_tracebacks.
  destruct (vok (m_verdict m)), (is_tb z); cbn; auto.
Qed.

Lemma mem_after_validate s :
  let s2 := snd (mem_after MValidate s) in
  messages s2 = messages s /\ serializers s2 = serializers s /\ tracebacks s2 = tracebacks s.
Proof.
  unfold mem_after, run_call. cbn. unfold v_loop. cbn.
  destruct (validate_loop _ _). cbn. auto.
Qed.

Lemma mem_after_serialize s : snd (mem_after MSerialize s) = s.
Proof. unfold mem_after, run_call. cbn. unfold s_loop. cbn. destruct (serialize_loop _ _ _). reflexivity. Qed.

Lemma mem_after_flush cls s :
  let '(l, s2) := mem_after (MFlush cls) s in
  messages s2 = messages s /\ serializers s2 = serializers s /\
  tracebacks s2 = filter (fun m => negb (flushes (cooked s) cls m)) (tracebacks s) /\
  l_result l = filter (flushes (cooked s) cls) (tracebacks s).
Proof. unfold mem_after, run_call. cbn. auto. Qed.

Lemma mem_after_reset s :
  let s2 := snd (mem_after MReset s) in messages s2 = [] /\ serializers s2 = [] /\ tracebacks s2 = [].
Proof. unfold mem_after, run_call. cbn. auto. Qed.

Definition tb_writes (cs : list mcall) : list msg :=
  map fst (filter (fun p => is_tb (snd p)) (live_writes cs)).

(* what holds of the attributes after the calls [cs], run one after the other, returned [rs] *)
Definition mem_consistent (cs : list mcall) (rs : list (mcall * locals)) (s : mstate) : Prop :=
  messages s = map fst (live_writes cs) /\ serializers s = map snd (live_writes cs) /\
  sublist (tracebacks s) (tb_writes cs) /\
  Permutation (tracebacks s ++ flushed_since_reset rs) (tb_writes cs).

Lemma live_writes_snoc cs c : live_writes (cs ++ [c]) = lw_step (live_writes cs) c.
Proof. unfold live_writes. now rewrite fold_left_app. Qed.

Lemma flushed_snoc rs x : flushed_since_reset (rs ++ [x]) = fl_step (flushed_since_reset rs) x.
Proof. unfold flushed_since_reset. now rewrite fold_left_app. Qed.

Lemma mem_serial_consistent lg :
  let '(s, rs) := mem_serial lg in mem_consistent (map snd lg) (map snd rs) s.
Proof.
  induction lg as [|[t c] lg IH] using rev_ind.
  - cbn. repeat split; cbn; constructor.
  - unfold mem_serial in *. rewrite serial_snoc. destruct (serial mem_init mem_body lg mem_empty) as [s1 rs].
    destruct (run_call mem_init mem_body c s1) as [l s2] eqn:Erun.
    destruct IH as (Hm & Hs & Hsub & Hperm).
    rewrite !map_app. cbn [map snd]. unfold mem_consistent, tb_writes.
    rewrite live_writes_snoc, flushed_snoc. unfold fl_step. cbn [fst snd].
    fold (mem_after c s1) in Erun. destruct c as [m z| | |cls|]; cbn [lw_step].
    + pose proof (mem_after_write m z s1) as H. rewrite Erun in H. cbn in H. destruct H as (E1 & E2 & E3).
      rewrite E1, E2, E3, Hm, Hs, !map_app, filter_app, map_app. cbn [map fst snd filter].
      split; [reflexivity|]. split; [reflexivity|]. unfold tb_writes in *.
      destruct (is_tb z); cbn [map fst].
      * split; [apply sublist_app; [exact Hsub|apply sublist_refl]|].
        rewrite <- app_assoc. eapply Permutation_trans; [apply Permutation_app_head, Permutation_app_comm|].
        rewrite app_assoc. apply Permutation_app_tail. exact Hperm.
      * rewrite !app_nil_r. auto.
    + pose proof (mem_after_validate s1) as H. rewrite Erun in H. cbn in H. destruct H as (E1 & E2 & E3).
      rewrite E1, E2, E3. auto.
    + pose proof (mem_after_serialize s1) as H. rewrite Erun in H. cbn in H. subst s2. auto.
    + pose proof (mem_after_flush cls s1) as H. rewrite Erun in H. destruct H as (E1 & E2 & E3 & E4).
      rewrite E1, E2, E3, E4. split; [exact Hm|]. split; [exact Hs|]. unfold tb_writes in *. split.
      * eapply sublist_trans; [apply sublist_filter|exact Hsub].
      * eapply Permutation_trans; [|exact Hperm].
        eapply Permutation_trans; [apply Permutation_app_head, Permutation_app_comm|].
        rewrite app_assoc. apply Permutation_app_tail. apply filter_partition_perm.
    + pose proof (mem_after_reset s1) as H. rewrite Erun in H. cbn in H. destruct H as (E1 & E2 & E3).
      rewrite E1, E2, E3. cbn. repeat split; constructor.
Qed.
