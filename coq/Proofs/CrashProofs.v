(* C11: complete lines on disk after a crash at any point. *)
From Coq Require Import List Arith Bool NArith Lia.
Require Import Eliot.Model.Crash.
Import ListNotations.

Lemma split_nl_nonl l cur rest :
  no_nl l -> split_nl (l ++ rest) cur = split_nl rest (cur ++ l).
Proof.
  revert cur. induction l as [|x l IH]; intros cur H; cbn [app split_nl].
  - now rewrite app_nil_r.
  - unfold no_nl in H. cbn [forallb] in H. apply andb_true_iff in H as [Hx Hl].
    destruct (N.eqb x nl); [discriminate|]. rewrite IH by exact Hl. now rewrite <- app_assoc.
Qed.

Lemma split_nl_line l s :
  no_nl l -> split_nl (l ++ nl :: s) [] = (l :: fst (split_nl s []), snd (split_nl s [])).
Proof.
  intros H. rewrite split_nl_nonl by exact H. cbn [app split_nl]. rewrite N.eqb_refl.
  destruct (split_nl s []); reflexivity.
Qed.

Lemma split_nl_fragment l : no_nl l -> split_nl l [] = ([], l).
Proof. intros H. rewrite <- (app_nil_r l) at 1. rewrite split_nl_nonl by exact H. reflexivity. Qed.

Lemma firstn_nonl c l : no_nl l -> no_nl (firstn c l).
Proof.
  unfold no_nl. revert c. induction l as [|x l IH]; intros [|c] H; cbn [firstn forallb] in *; auto.
  apply andb_true_iff in H as [Hx Hl]. rewrite Hx. cbn. now apply IH.
Qed.

(* unfolding the crash point over the first message *)
Lemma crash_disk_cons l rest k c :
  crash_disk (l :: rest) k c =
    match k with
    | 0 => firstn c (l ++ [nl])
    | 1 | 2 => l ++ [nl]
    | S (S (S k')) => (l ++ [nl]) ++ crash_disk rest k' c
    end.
Proof.
  unfold crash_disk, all_events. cbn [flat_map msg_events app].
  destruct k as [|[|[|k']]]; cbn [firstn nth_error disk_of flat_map written app]; rewrite ?app_nil_r; try reflexivity.
  - now rewrite <- app_assoc.
Qed.

Lemma acked_cons l rest k :
  acked (l :: rest) k = match k with 0 | 1 | 2 => 0 | S (S (S k')) => S (acked rest k') end.
Proof.
  unfold acked, all_events. cbn [flat_map msg_events app].
  destruct k as [|[|[|k']]]; cbn [firstn filter length]; reflexivity.
Qed.

Definition is_prefix_of (a b : list byte) : Prop := exists t, b = a ++ t.

(* every crash point: the complete lines are the first j lines, j covers every acknowledged
   message, and the trailing fragment is a prefix of the next line *)
Theorem crash_durable lines : Forall no_nl lines -> forall k c,
  exists j,
    complete_lines (crash_disk lines k c) = firstn j lines /\
    acked lines k <= j /\ j <= length lines /\
    (fragment (crash_disk lines k c) = [] \/
     exists line, nth_error lines j = Some line /\ is_prefix_of (fragment (crash_disk lines k c)) line).
Proof.
  induction 1 as [|l rest Hl Hrest IH]; intros k c.
  - exists 0. unfold crash_disk, all_events, complete_lines, fragment, acked. cbn.
    destruct k; cbn; repeat split; auto.
  - rewrite crash_disk_cons, acked_cons. unfold complete_lines, fragment in *.
    destruct k as [|[|[|k']]].
    + (* crash inside the first write *)
      destruct (le_lt_dec (S (length l)) c) as [Hc|Hc].
      * exists 1. rewrite firstn_all2 by (rewrite app_length; cbn; lia).
        rewrite split_nl_line by exact Hl. cbn. repeat split; auto; lia.
      * exists 0. assert (E : firstn c (l ++ [nl]) = firstn c l).
        { rewrite firstn_app. replace (c - length l) with 0 by lia. cbn. now rewrite app_nil_r. }
        rewrite E, split_nl_fragment by (apply firstn_nonl; exact Hl). cbn.
        repeat split; auto; try lia. right. exists l. split; [reflexivity|].
        exists (skipn c l). now rewrite firstn_skipn.
    + exists 1. rewrite split_nl_line by exact Hl. cbn. repeat split; auto; lia.
    + exists 1. rewrite split_nl_line by exact Hl. cbn. repeat split; auto; lia.
    + destruct (IH k' c) as (j & E & Ha & Hj & Hf).
      exists (S j). rewrite <- app_assoc. cbn [app]. rewrite split_nl_line by exact Hl.
      cbn [fst snd firstn length nth_error]. rewrite E. repeat split; auto; lia.
Qed.

Example crash_nonvacuous :
  complete_lines (crash_disk [[1;2]%N; [3]%N; [4;5;6]%N] 6 2) = [[1;2]%N; [3]%N]
  /\ fragment (crash_disk [[1;2]%N; [3]%N; [4;5;6]%N] 6 2) = [4;5]%N
  /\ acked [[1;2]%N; [3]%N; [4;5;6]%N] 6 = 2.
Proof. vm_compute. auto. Qed.
