(* Basic facts about the sorted maps of Model/Parser.v. *)
From Coq Require Import List PArith Bool Arith Lia.
Require Import Eliot.Base.Level Eliot.Model.Parser.
Import ListNotations.

Lemma level_eqb_refl l : level_eqb l l = true.
Proof. induction l as [|x l IH]; cbn; [reflexivity|]. now rewrite Pos.eqb_refl, IH. Qed.

Lemma level_eqb_eq a b : level_eqb a b = true <-> a = b.
Proof.
  revert b; induction a as [|x a IH]; intros [|y b]; cbn; split; intros H; try discriminate; try reflexivity.
  - apply andb_true_iff in H as [H1 H2]. apply Pos.eqb_eq in H1. apply IH in H2. congruence.
  - injection H as -> ->. now rewrite Pos.eqb_refl, level_eqb_refl.
Qed.

Lemma llookup_linsert_same {A} k (v : A) l : llookup k (linsert k v l) = Some v.
Proof.
  induction l as [|[k' v'] r IH]; cbn [linsert llookup].
  - now rewrite level_eqb_refl.
  - destruct (level_eqb k k') eqn:E; cbn [llookup].
    + now rewrite level_eqb_refl.
    + destruct (level_ltb k k'); cbn [llookup].
      * now rewrite level_eqb_refl.
      * now rewrite E.
Qed.

Lemma contextless_message_task u st i :
  parser_add [] (mkPmsg u [1%positive] None st i)
  = POk ([mkTask [([], NMsg (mkPmsg u [1%positive] None st i))] [[]]], []).
Proof. reflexivity. Qed.
