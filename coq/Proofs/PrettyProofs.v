(* Proofs about Model/Pretty.v: the bundled readers (prettyprint, filter). *)
From Coq Require Import Ascii String NArith Bool List Lia Sorting.Sorted Sorting.Permutation Relations.
Require Import Eliot.Model.Pretty.
Import ListNotations.

(* ------------------------------------------------------------------------ *)
(* Python's string order *)

Lemma ustr_compare_refl a : ustr_compare a a = Eq.
Proof. induction a as [|x a IH]; cbn; [reflexivity|]. now rewrite N.compare_refl. Qed.

Lemma ustr_compare_eq a b : ustr_compare a b = Eq -> a = b.
Proof.
  revert b. induction a as [|x a IH]; intros [|y b]; cbn; try congruence.
  destruct (N.compare_spec x y) as [Hxy|Hxy|Hxy]; try congruence. intros H'. subst. f_equal. auto.
Qed.

Lemma ustr_compare_antisym a b : ustr_compare b a = CompOpp (ustr_compare a b).
Proof.
  revert b. induction a as [|x a IH]; intros [|y b]; cbn; try reflexivity.
  rewrite (N.compare_antisym x y). destruct (N.compare x y); cbn; auto.
Qed.

Lemma ustr_lt_trans a b c :
  ustr_compare a b = Lt -> ustr_compare b c = Lt -> ustr_compare a c = Lt.
Proof.
  revert b c. induction a as [|x a IH]; intros [|y b] [|z c]; cbn; try congruence.
  destruct (N.compare_spec x y), (N.compare_spec y z), (N.compare_spec x z);
    subst; try congruence; try lia; eauto.
Qed.

Lemma ustr_eqb_eq a b : ustr_eqb a b = true <-> a = b.
Proof.
  unfold ustr_eqb. split.
  - destruct (ustr_compare a b) eqn:E; try discriminate. intros _. now apply ustr_compare_eq.
  - intros ->. now rewrite ustr_compare_refl.
Qed.

Lemma ustr_eqb_refl a : ustr_eqb a a = true.
Proof. now apply ustr_eqb_eq. Qed.

Lemma ustr_eqb_neq a b : ustr_eqb a b = false <-> a <> b.
Proof.
  split.
  - intros H E. apply ustr_eqb_eq in E. congruence.
  - intros H. destruct (ustr_eqb a b) eqn:E; [|reflexivity]. apply ustr_eqb_eq in E. contradiction.
Qed.

Lemma ustr_leb_total a b : ustr_leb a b = false -> ustr_leb b a = true.
Proof.
  unfold ustr_leb. rewrite (ustr_compare_antisym a b). destruct (ustr_compare a b); cbn; congruence.
Qed.

Lemma ustr_leb_trans a b c : ustr_leb a b = true -> ustr_leb b c = true -> ustr_leb a c = true.
Proof.
  unfold ustr_leb.
  destruct (ustr_compare a b) eqn:E1; try discriminate; intros _;
  destruct (ustr_compare b c) eqn:E2; try discriminate; intros _.
  - apply ustr_compare_eq in E1. subst. now rewrite E2.
  - apply ustr_compare_eq in E1. subst. now rewrite E2.
  - apply ustr_compare_eq in E2. subst. now rewrite E1.
  - now rewrite (ustr_lt_trans _ _ _ E1 E2).
Qed.

Lemma ustr_leb_neq_lt a b : ustr_leb a b = true -> a <> b -> ustr_compare a b = Lt.
Proof.
  unfold ustr_leb. destruct (ustr_compare a b) eqn:E; try discriminate; auto.
  intros _ H. apply ustr_compare_eq in E. contradiction.
Qed.

Lemma mem_In k l : mem k l = true <-> In k l.
Proof.
  unfold mem. rewrite existsb_exists. split.
  - intros [x [H E]]. apply ustr_eqb_eq in E. now subst.
  - intros H. exists k. split; [assumption | apply ustr_eqb_refl].
Qed.

(* ------------------------------------------------------------------------ *)
(* small list facts *)

Lemma NoDup_app_intro {A} (l1 l2 : list A) :
  NoDup l1 -> NoDup l2 -> (forall x, In x l1 -> ~ In x l2) -> NoDup (l1 ++ l2).
Proof.
  induction l1 as [|a l1 IH]; cbn; intros H1 H2 H; [assumption|].
  inversion H1; subst. constructor.
  - rewrite in_app_iff. intros [Hin|Hin]; [contradiction | exact (H a (or_introl eq_refl) Hin)].
  - apply IH; auto.
Qed.

Lemma NoDup_filter_map {A B} (f : A -> B) (p : A -> bool) (l : list A) :
  NoDup (map f l) -> NoDup (map f (filter p l)).
Proof.
  induction l as [|a l IH]; cbn; intros H; [constructor|].
  inversion H; subst. destruct (p a); cbn; auto.
  constructor; auto. intros Hin. apply H2.
  apply in_map_iff in Hin as [x [E Hx]]. apply filter_In in Hx as [Hx _].
  apply in_map_iff. eauto.
Qed.

Lemma StronglySorted_filter {A} (R : A -> A -> Prop) (p : A -> bool) (l : list A) :
  StronglySorted R l -> StronglySorted R (filter p l).
Proof.
  induction 1 as [|a l Hs IH Hf]; cbn; [constructor|].
  destruct (p a); auto. constructor; auto.
  rewrite Forall_forall in *. intros x Hx. apply filter_In in Hx as [Hx _]. auto.
Qed.

Lemma in_join x sep l :
  In x (join sep l) -> In x sep \/ exists p, In p l /\ In x p.
Proof.
  induction l as [|a l IH]; cbn; [tauto|].
  destruct l as [|b l].
  - intros H. right. exists a. auto.
  - rewrite !in_app_iff. intros [H|[H|H]].
    + right. exists a. auto.
    + now left.
    + destruct (IH H) as [H'|[p [Hp Hx]]]; [now left|]. right. exists p. split; [now right | assumption].
Qed.

Lemma in_concat_map {A} x (f : A -> ustr) l :
  In x (concat (map f l)) -> exists a, In a l /\ In x (f a).
Proof.
  rewrite in_concat. intros [s [Hs Hx]]. apply in_map_iff in Hs as [a [E Ha]]. subst. eauto.
Qed.

Section FieldOrder.
  Variable V : Type.
  Notation message := (message V).

  (* ---------------------------------------------------------------------- *)
  (* lookup *)

  Lemma lookup_In k v (m : message) : lookup V k m = Some v -> In (k, v) m.
  Proof.
    induction m as [|[k' v'] m IH]; cbn; [discriminate|].
    destruct (ustr_eqb k k') eqn:E.
    - apply ustr_eqb_eq in E. subst. intros H. inversion H. now left.
    - intros H. right. auto.
  Qed.

  Lemma In_lookup k v (m : message) : NoDup (map fst m) -> In (k, v) m -> lookup V k m = Some v.
  Proof.
    induction m as [|[k' v'] m IH]; cbn; [tauto|].
    intros Hnd. inversion Hnd; subst. intros [H|H].
    - inversion H; subst. now rewrite ustr_eqb_refl.
    - destruct (ustr_eqb k k') eqn:E.
      + apply ustr_eqb_eq in E. subst. exfalso. apply H1. apply in_map_iff. exists (k', v). auto.
      + auto.
  Qed.

  Lemma lookup_None k (m : message) : lookup V k m = None -> ~ In k (map fst m).
  Proof.
    induction m as [|[k' v'] m IH]; cbn; [tauto|].
    destruct (ustr_eqb k k') eqn:E; [discriminate|].
    apply ustr_eqb_neq in E. intros H [H'|H']; [congruence | exact (IH H H')].
  Qed.

  (* ---------------------------------------------------------------------- *)
  (* sorted(message.items()) *)

  Definition item_le (a b : ustr * V) : Prop := ustr_leb (fst a) (fst b) = true.
  Definition item_lt (a b : ustr * V) : Prop := ustr_compare (fst a) (fst b) = Lt.

  Lemma insert_item_perm kv (l : message) : Permutation (insert_item V kv l) (kv :: l).
  Proof.
    induction l as [|h t IH]; cbn; [reflexivity|].
    destruct (ustr_leb (fst kv) (fst h)); [reflexivity|].
    rewrite IH. apply perm_swap.
  Qed.

  Lemma sort_items_perm (m : message) : Permutation (sort_items V m) m.
  Proof.
    induction m as [|kv m IH]; cbn; [reflexivity|].
    fold (sort_items V m). rewrite insert_item_perm. now constructor.
  Qed.

  Lemma insert_item_sorted kv (l : message) :
    Sorted item_le l -> Sorted item_le (insert_item V kv l).
  Proof.
    induction l as [|h t IH]; cbn; intros Hs.
    - repeat constructor.
    - destruct (ustr_leb (fst kv) (fst h)) eqn:E.
      + constructor; [assumption|]. constructor. exact E.
      + inversion Hs; subst. constructor; [auto|].
        destruct t as [|h' t']; cbn.
        * constructor. apply ustr_leb_total. exact E.
        * destruct (ustr_leb (fst kv) (fst h')); constructor.
          -- apply ustr_leb_total. exact E.
          -- inversion H2; subst. assumption.
  Qed.

  Lemma sort_items_sorted (m : message) : StronglySorted item_le (sort_items V m).
  Proof.
    apply Sorted_StronglySorted.
    - intros a b c. unfold item_le. apply ustr_leb_trans.
    - induction m as [|kv m IH]; cbn; [constructor|]. apply insert_item_sorted. exact IH.
  Qed.

  Lemma sort_items_nodup (m : message) : NoDup (map fst m) -> NoDup (map fst (sort_items V m)).
  Proof.
    intros H. eapply Permutation_NoDup; [|exact H].
    apply Permutation_map. symmetry. apply sort_items_perm.
  Qed.

  Lemma sorted_strict (l : message) :
    StronglySorted item_le l -> NoDup (map fst l) -> StronglySorted item_lt l.
  Proof.
    induction 1 as [|a l Hs IH Hf]; cbn; intros Hnd; [constructor|].
    inversion Hnd; subst. constructor; [auto|].
    rewrite Forall_forall in *. intros x Hx. apply ustr_leb_neq_lt; [exact (Hf x Hx)|].
    intros E. apply H1. rewrite E. apply in_map. exact Hx.
  Qed.

  (* ---------------------------------------------------------------------- *)
  (* the special names *)

  Lemma skipped_split k : is_skipped k = is_required k || mem k first_fields.
  Proof.
    unfold is_skipped, is_required, mem, skip_fields, required_fields, first_fields. cbn [existsb].
    destruct (ustr_eqb k K_timestamp), (ustr_eqb k K_task_uuid), (ustr_eqb k K_task_level),
      (ustr_eqb k K_message_type), (ustr_eqb k K_action_type), (ustr_eqb k K_action_status); reflexivity.
  Qed.

  Lemma first_not_required k : In k first_fields -> is_required k = false.
  Proof. cbn. intros [<-|[<-|[<-|[]]]]; reflexivity. Qed.

  Lemma first_skipped k : In k first_fields -> is_skipped k = true.
  Proof. cbn. intros [<-|[<-|[<-|[]]]]; reflexivity. Qed.

  Lemma first_items_eq (m : message) :
    first_items V m = present V K_action_type m ++ present V K_message_type m ++ present V K_action_status m.
  Proof. unfold first_items, first_fields. cbn [flat_map]. now rewrite app_nil_r. Qed.

  Lemma in_present k' k v (m : message) : In (k, v) (present V k' m) <-> k = k' /\ lookup V k m = Some v.
  Proof.
    unfold present. destruct (lookup V k' m) eqn:E; cbn.
    - split.
      + intros [H|[]]. inversion H; subst. auto.
      + intros [-> H]. left. congruence.
    - split; [tauto|]. intros [-> H]. congruence.
  Qed.

  Lemma in_first_items k v (m : message) :
    In (k, v) (first_items V m) <-> In k first_fields /\ lookup V k m = Some v.
  Proof.
    rewrite first_items_eq, !in_app_iff, !in_present. cbn [In first_fields]. intuition (subst; auto).
  Qed.

  Lemma first_items_keys_nodup (m : message) : NoDup (map fst (first_items V m)).
  Proof.
    rewrite first_items_eq. unfold present.
    destruct (lookup V K_action_type m), (lookup V K_message_type m), (lookup V K_action_status m);
      cbn [app map fst]; repeat constructor; cbn [In]; intros H;
      repeat (destruct H as [H|H]; [vm_compute in H; discriminate|]); exact H.
  Qed.

  Lemma in_rest_items k v (m : message) :
    In (k, v) (rest_items V m) <-> In (k, v) m /\ is_skipped k = false.
  Proof.
    unfold rest_items. rewrite filter_In. cbn [fst]. rewrite negb_true_iff.
    split; intros [H1 H2]; split; auto.
    - eapply Permutation_in; [apply sort_items_perm | exact H1].
    - eapply Permutation_in; [symmetry; apply sort_items_perm | exact H1].
  Qed.

  (* every shown field is a field of the message (no hypothesis on m) *)
  Lemma ordered_fields_sound k v (m : message) : In (k, v) (ordered_fields V m) -> In (k, v) m /\ is_required k = false.
  Proof.
    unfold ordered_fields. rewrite in_app_iff, in_first_items, in_rest_items.
    intros [[H1 H2]|[H1 H2]].
    - split; [now apply lookup_In | now apply first_not_required].
    - split; [assumption|]. rewrite skipped_split in H2. now apply orb_false_iff in H2.
  Qed.

  Lemma in_ordered_fields k v (m : message) :
    NoDup (map fst m) ->
    (In (k, v) (ordered_fields V m) <-> In (k, v) m /\ is_required k = false).
  Proof.
    intros Hnd. split; [apply ordered_fields_sound|].
    intros [Hin Hreq]. unfold ordered_fields. rewrite in_app_iff, in_first_items, in_rest_items.
    destruct (mem k first_fields) eqn:E.
    - left. split; [now apply mem_In | now apply In_lookup].
    - right. split; [assumption|]. rewrite skipped_split, Hreq, E. reflexivity.
  Qed.

  Lemma ordered_fields_keys_nodup (m : message) :
    NoDup (map fst m) -> NoDup (map fst (ordered_fields V m)).
  Proof.
    intros Hnd. unfold ordered_fields. rewrite map_app. apply NoDup_app_intro.
    - apply first_items_keys_nodup.
    - unfold rest_items. apply NoDup_filter_map. now apply sort_items_nodup.
    - intros k H1 H2.
      apply in_map_iff in H1 as [[k1 v1] [E1 H1]]. apply in_map_iff in H2 as [[k2 v2] [E2 H2]].
      cbn in E1, E2. subst k1 k2.
      apply in_first_items in H1 as [H1 _]. apply in_rest_items in H2 as [_ H2].
      apply first_skipped in H1. congruence.
  Qed.

  (* (k, v) occurs in l, and k names no other entry of l *)
  Definition shown_once (k : ustr) (v : V) (l : message) : Prop :=
    exists l1 l2, l = l1 ++ (k, v) :: l2 /\ ~ In k (map fst (l1 ++ l2)).

  Lemma shown_once_intro k v (l : message) : NoDup (map fst l) -> In (k, v) l -> shown_once k v l.
  Proof.
    intros Hnd Hin. apply in_split in Hin as [l1 [l2 ->]]. exists l1, l2. split; [reflexivity|].
    rewrite map_app in Hnd. cbn in Hnd. apply NoDup_remove_2 in Hnd. now rewrite map_app.
  Qed.

  (* ---------------------------------------------------------------------- *)
  (* C20_complete *)

  Theorem fields_complete (m : message) :
    NoDup (map fst m) ->
    (* every field other than the three of the header is shown exactly once, with its value *)
    (forall k v, In (k, v) m -> is_required k = false -> shown_once k v (ordered_fields V m))
    (* and nothing else is shown *)
    /\ Permutation (ordered_fields V m) (filter (fun kv => negb (is_required (fst kv))) m)
    (* type and status first, in this order, then the other fields sorted by name *)
    /\ exists rest,
         ordered_fields V m =
           present V K_action_type m ++ present V K_message_type m ++ present V K_action_status m ++ rest
         /\ StronglySorted item_lt rest
         /\ Forall (fun kv => is_skipped (fst kv) = false) rest.
  Proof.
    intros Hnd. split; [|split].
    - intros k v Hin Hreq. apply shown_once_intro.
      + now apply ordered_fields_keys_nodup.
      + apply in_ordered_fields; auto.
    - apply NoDup_Permutation.
      + eapply NoDup_map_inv. apply ordered_fields_keys_nodup. exact Hnd.
      + apply NoDup_filter. eapply NoDup_map_inv. exact Hnd.
      + intros [k v]. rewrite in_ordered_fields by exact Hnd. rewrite filter_In. cbn [fst].
        now rewrite negb_true_iff.
    - exists (rest_items V m). split; [|split].
      + unfold ordered_fields. rewrite first_items_eq, <- !app_assoc. reflexivity.
      + unfold rest_items. apply StronglySorted_filter. apply sorted_strict.
        * apply sort_items_sorted.
        * now apply sort_items_nodup.
      + unfold rest_items. apply Forall_forall. intros kv H. apply filter_In in H as [_ H].
        now apply negb_true_iff in H.
  Qed.

End FieldOrder.

Section FormatProofs.
  Variable V : Type.
  Variable pformat : V -> ustr.
  Variable dumps : V -> ustr.
  Variable to_str : V -> ustr.
  Variable level_strs : V -> option (list ustr).
  Variable render_ts : V -> option ustr.

  Notation message := (message V).
  Notation pretty_format := (pretty_format V pformat to_str level_strs render_ts).
  Notation compact_format := (compact_format V dumps to_str level_strs render_ts).
  Notation header_parts := (header_parts V to_str level_strs render_ts).
  Notation main := (main V pformat dumps to_str level_strs render_ts).
  Notation formatter := (formatter V pformat dumps to_str level_strs render_ts).

  (* ---------------------------------------------------------------------- *)
  (* C20_header *)

  Theorem format_header (m : message) uu l t ls ts :
    lookup V K_task_uuid m = Some uu -> lookup V K_task_level m = Some l -> lookup V K_timestamp m = Some t ->
    level_strs l = Some ls -> render_ts t = Some ts ->
    pretty_format m =
      Some (to_str uu ++ u " -> " ++ (slash :: join [slash] ls) ++ [nl] ++ ts ++ [nl]
            ++ concat (map (fun kv => add_field V pformat (fst kv) (snd kv)) (ordered_fields V m)))
    /\ compact_format m =
      Some (to_str uu ++ (slash :: join [slash] ls) ++ [space] ++ ts ++ [space]
            ++ join [space] (map (fun kv => fst kv ++ u "=" ++ dumps (snd kv)) (ordered_fields V m))).
  Proof.
    intros H1 H2 H3 H4 H5.
    unfold Pretty.pretty_format, Pretty.compact_format, Pretty.header_parts.
    rewrite H1, H2, H3, H4, H5. split; reflexivity.
  Qed.

  (* a field block of the pretty form: "  name: value" and a final newline *)
  Lemma add_field_shape key v :
    add_field V pformat key v = u "  " ++ key ++ u ": " ++ reindent key (post_pformat (pformat v)) ++ [nl].
  Proof. reflexivity. Qed.

  (* the formatters raise exactly when a header field is missing or ill-typed *)
  Lemma format_defined (m : message) :
    (pretty_format m = None <-> header_parts m = None) /\ (compact_format m = None <-> header_parts m = None).
  Proof.
    unfold Pretty.pretty_format, Pretty.compact_format.
    destruct (header_parts m) as [[[a b] c]|]; split; split; congruence.
  Qed.

  Definition well_typed (m : message) : Prop :=
    forall l t, lookup V K_task_level m = Some l -> lookup V K_timestamp m = Some t ->
                level_strs l <> None /\ render_ts t <> None.

  Lemma has_required_lookups (m : message) :
    has_required V m = true ->
    exists uu l t, lookup V K_task_uuid m = Some uu /\ lookup V K_task_level m = Some l /\ lookup V K_timestamp m = Some t.
  Proof.
    unfold has_required, required_fields. cbn [forallb].
    destruct (lookup V K_task_level m) as [l|]; [|cbn; discriminate].
    destruct (lookup V K_task_uuid m) as [uu|]; [|cbn; discriminate].
    destruct (lookup V K_timestamp m) as [t|]; [|cbn; discriminate].
    intros _. exists uu, l, t. auto.
  Qed.

  Lemma accepted_formats (m : message) compact :
    has_required V m = true -> well_typed m -> exists s, formatter compact m = Some s.
  Proof.
    intros Hr Hw. destruct (has_required_lookups m Hr) as [uu [l [t [H1 [H2 H3]]]]].
    destruct (Hw l t H2 H3) as [Hl Ht].
    destruct (level_strs l) as [ls|] eqn:El; [|congruence].
    destruct (render_ts t) as [ts|] eqn:Et; [|congruence].
    destruct (format_header m uu l t ls ts H1 H2 H3 El Et) as [Hp Hc].
    destruct compact; cbn; eauto.
  Qed.

  (* ---------------------------------------------------------------------- *)
  (* C20_compact_one_line *)

  Definition no_nl (s : ustr) : Prop := ~ In nl s.

  Theorem compact_one_line (m : message) uu l t ls ts :
    lookup V K_task_uuid m = Some uu -> lookup V K_task_level m = Some l -> lookup V K_timestamp m = Some t ->
    level_strs l = Some ls -> render_ts t = Some ts ->
    no_nl (to_str uu) -> Forall no_nl ls -> no_nl ts ->
    (forall k v, In (k, v) m -> is_required k = false -> no_nl k /\ no_nl (dumps v)) ->
    exists s, compact_format m = Some s /\ no_nl s
      /\ s = to_str uu ++ (slash :: join [slash] ls) ++ [space] ++ ts ++ [space]
             ++ join [space] (map (fun kv => fst kv ++ u "=" ++ dumps (snd kv)) (ordered_fields V m)).
  Proof using dumps to_str level_strs render_ts.
    clear pformat. intros H1 H2 H3 H4 H5 Nu Nl Nt Nf.
    exists (to_str uu ++ (slash :: join [slash] ls) ++ [space] ++ ts ++ [space]
             ++ join [space] (map (fun kv => fst kv ++ u "=" ++ dumps (snd kv)) (ordered_fields V m))).
    split.
    { unfold Pretty.compact_format, Pretty.header_parts. rewrite H1, H2, H3, H4, H5. reflexivity. }
    split; [|reflexivity].
    unfold no_nl in *. rewrite !in_app_iff. cbn [In].
    intros [H|[[H|H]|[[H|[]]|[H|[[H|[]]|H]]]]]; try (vm_compute in H; discriminate); try tauto.
    - apply in_join in H as [[H|[]]|[p [Hp Hx]]]; [vm_compute in H; discriminate|].
      rewrite Forall_forall in Nl. exact (Nl p Hp Hx).
    - apply in_join in H as [[H|[]]|[p [Hp Hx]]]; [vm_compute in H; discriminate|].
      apply in_map_iff in Hp as [[k v] [E Hkv]]. subst p. cbn [fst snd] in Hx.
      apply (ordered_fields_sound V) in Hkv as [Hin Hreq]. destruct (Nf k v Hin Hreq) as [Nk Nv].
      rewrite !in_app_iff in Hx. destruct Hx as [Hx|[Hx|Hx]]; try tauto.
      vm_compute in Hx. destruct Hx as [Hx|[]]. discriminate.
  Qed.

  (* ---------------------------------------------------------------------- *)
  (* C20_cli_total *)

  (* the stated guard: an object that has the three required fields has them well-typed *)
  Definition line_guard (l : line V) : Prop :=
    match l_dec l with
    | Json (JObj m) => has_required V m = true -> well_typed m
    | _ => True
    end.

  (* what the command writes for one input line *)
  Inductive piece_of (compact : bool) (l : line V) (p : ustr) : Prop :=
  | piece_not_json :
      l_dec l = NotJson -> p = u "Not JSON: " ++ l_repr l ++ [nl; nl] -> piece_of compact l p
  | piece_not_object :
      l_dec l = Json JOther -> p = u "Not an Eliot message: " ++ l_repr l ++ [nl; nl] -> piece_of compact l p
  | piece_incomplete m :
      l_dec l = Json (JObj m) -> has_required V m = false ->
      p = u "Not an Eliot message: " ++ l_repr l ++ [nl; nl] -> piece_of compact l p
  | piece_message m s :
      l_dec l = Json (JObj m) -> has_required V m = true ->
      (if compact then compact_format m else pretty_format m) = Some s ->
      p = s ++ [nl] -> piece_of compact l p.

  Theorem cli_total compact (ls : list (line V)) :
    Forall line_guard ls ->
    exists pieces, main compact ls = (pieces, true) /\ Forall2 (piece_of compact) ls pieces.
  Proof.
    unfold Pretty.main. induction 1 as [|l ls Hg _ IH]; cbn [main_loop].
    - exists []. split; [reflexivity | constructor].
    - destruct IH as [ps [Hps Hf]].
      assert (exists p, line_piece V (formatter compact) l = Some p /\ piece_of compact l p) as [p [Hp Hpo]].
      { unfold line_piece, line_guard in *. destruct (l_dec l) as [|[m|]] eqn:E.
        - eexists. split; [reflexivity|]. now apply piece_not_json.
        - destruct (has_required V m) eqn:Hr.
          + destruct (accepted_formats m compact Hr (Hg eq_refl)) as [s Hs]. rewrite Hs.
            eexists. split; [reflexivity|]. eapply piece_message; eauto. destruct compact; exact Hs.
          + eexists. split; [reflexivity|]. eapply piece_incomplete; eauto.
        - eexists. split; [reflexivity|]. now apply piece_not_object. }
      rewrite Hp, Hps. exists (p :: ps). split; [reflexivity | now constructor].
  Qed.

  (* the loop as it was before the repair stops at a JSON line that is not an object *)
  Lemma cli_total_legacy_refuted compact :
    exists ls : list (line V),
      Forall line_guard ls /\ snd (main_loop_legacy V (formatter compact) ls) = false.
  Proof.
    exists [mkLine (u "b'5'") (Json JOther)]. split; [|reflexivity].
    constructor; [exact I | constructor].
  Qed.
End FormatProofs.

(* -------------------------------------------------------------------------- *)
(* eliot.filter *)

Section FilterProofs.
  Variable J R : Type.
  Variable expr : J -> fres R.
  Variable encode : R -> ustr.

  (* C20_filter_skip: one output line per input line whose value is not SKIP, in input order,
     each the encoding of the expression's value *)
  Theorem filter_skip (js : list J) :
    Forall (fun j => expr j <> FRaise) js ->
    filter_run J R expr encode (map Some js) =
      (flat_map (fun j => match expr j with FValue r => [encode r ++ [nl]] | _ => [] end) js, true).
  Proof.
    induction 1 as [|j js Hj _ IH]; cbn [map filter_run flat_map]; [reflexivity|].
    rewrite IH. destruct (expr j); [reflexivity | reflexivity | congruence].
  Qed.

  Theorem filter_skip_count (js : list J) :
    Forall (fun j => expr j <> FRaise) js ->
    length (fst (filter_run J R expr encode (map Some js))) =
      length (filter (fun j => match expr j with FSkip => false | _ => true end) js).
  Proof.
    intros H. rewrite (filter_skip js H). cbn [fst].
    induction H as [|j js Hj _ IH]; cbn [flat_map filter]; [reflexivity|].
    destruct (expr j); cbn [app length]; rewrite ?IH; try reflexivity. congruence.
  Qed.
End FilterProofs.

Section FilterIdentity.
  Variable J : Type.
  Variable encode : J -> ustr.

  (* C20_filter_identity: the expression J writes the encoding of every message, and decoding
     the written lines gives the messages back *)
  Theorem filter_identity (js : list J) :
    filter_run J J (fun j => FValue j) encode (map Some js) = (map (fun j => encode j ++ [nl]) js, true)
    /\ forall decode : ustr -> option J,
         (forall j, decode (encode j) = Some j) ->
         map (fun o => decode (removelast o)) (fst (filter_run J J (fun j => FValue j) encode (map Some js)))
         = map Some js.
  Proof.
    assert (E : filter_run J J (fun j => FValue j) encode (map Some js) = (map (fun j => encode j ++ [nl]) js, true)).
    { induction js as [|j js' IH]; cbn [map filter_run]; [reflexivity|]. rewrite IH. reflexivity. }
    split; [exact E|]. intros decode Hd. rewrite E. cbn [fst]. rewrite map_map.
    apply map_ext. intros j. now rewrite removelast_last.
  Qed.
End FilterIdentity.

(* -------------------------------------------------------------------------- *)
(* Examples: the hypotheses are satisfiable and the definitions compute what the
   library prints.  Values are their own text here. *)

Definition ex_pformat (v : ustr) : ustr := u "'" ++ v ++ u "'".
Definition ex_dumps (v : ustr) : ustr := [34%N] ++ v ++ [34%N].
Definition ex_level (v : ustr) : option (list ustr) := Some (map (fun c => [c]) v).
Definition ex_ts (v : ustr) : option ustr := if ustr_eqb v (u "0") then Some (u "1970-01-01T00:00:00Z") else None.

Definition ex_msg : message ustr :=
  [ (u "zeta", u "z\nq"); (K_timestamp, u "0"); (K_action_status, u "started"); (u "Alpha", u "a");
    (K_task_uuid, u "uuid"); (K_action_type, u "app:act"); (K_task_level, u "12"); (u "message", u "m") ].

Example ex_msg_nodup : NoDup (map fst ex_msg).
Proof.
  repeat constructor; cbn [In map fst ex_msg]; intros H;
    repeat (destruct H as [H|H]; [vm_compute in H; discriminate|]); exact H.
Qed.

Example ex_ordered :
  map fst (ordered_fields ustr ex_msg) = [K_action_type; K_action_status; u "Alpha"; u "message"; u "zeta"].
Proof. vm_compute. reflexivity. Qed.

Example ex_pretty :
  option_map E (pretty_format ustr ex_pformat (fun v => v) ex_level ex_ts ex_msg)
  = Some ("uuid -> /1/2~00000a1970-01-01T00:00:00Z~00000a  action_type: 'app:act'~00000a  action_status: 'started'~00000a" ++
          "  Alpha: 'a'~00000a  message: 'm'~00000a  zeta: 'z~00000a      |  q'~00000a")%string.
Proof. vm_compute. reflexivity. Qed.

Example ex_compact :
  option_map E (compact_format ustr ex_dumps (fun v => v) ex_level ex_ts ex_msg)
  = Some ("uuid/1/2 1970-01-01T00:00:00Z action_type=~000022app:act~000022 action_status=~000022started~000022 " ++
          "Alpha=~000022a~000022 message=~000022m~000022 zeta=~000022z\nq~000022")%string.
Proof. vm_compute. reflexivity. Qed.

(* a stream with every kind of line satisfies the guard of cli_total and runs to the end *)
Definition ex_stream : list (line ustr) :=
  [ mkLine (u "b'\xff'") NotJson; mkLine (u "b'5'") (Json JOther);
    mkLine (u "b'{}'") (Json (JObj [])); mkLine (u "b'...'") (Json (JObj ex_msg)); mkLine (u "b''") NotJson ].

Example ex_stream_guard : Forall (line_guard ustr ex_level ex_ts) ex_stream.
Proof.
  unfold ex_stream. repeat apply Forall_cons; try apply Forall_nil; unfold line_guard; cbn [l_dec]; try exact I.
  - intros Hreq. vm_compute in Hreq. discriminate.
  - intros _ lv tv Hl Ht. vm_compute in Hl, Ht. inversion Hl; inversion Ht; subst. split; vm_compute; discriminate.
Qed.

Example ex_stream_runs :
  let '(ps, ok) := main ustr ex_pformat ex_dumps (fun v => v) ex_level ex_ts true ex_stream in
  (map E ps, ok) =
  (["Not JSON: b'\xff'~00000a~00000a"; "Not an Eliot message: b'5'~00000a~00000a";
    "Not an Eliot message: b'{}'~00000a~00000a";
    "uuid/1/2 1970-01-01T00:00:00Z action_type=~000022app:act~000022 action_status=~000022started~000022 Alpha=~000022a~000022 message=~000022m~000022 zeta=~000022z\nq~000022~00000a";
    "Not JSON: b''~00000a~00000a"]%string, true).
Proof. vm_compute. reflexivity. Qed.

(* filter: SKIP drops exactly the selected lines *)
Example ex_filter :
  filter_run N N (fun n => if N.even n then FValue (n * 10)%N else FSkip) (fun n => [n]) (map Some [1; 2; 3; 4]%N)
  = ([[20; 10]; [40; 10]]%N, true).
Proof. vm_compute. reflexivity. Qed.
