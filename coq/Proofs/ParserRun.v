(* C09, the parser level: the parser map after receiving a set of messages of a
   forest is determined by that set ([PInv]); one [parser_add] of a new message
   moves to the state for the larger set ([parser_add_step]); running a stream
   ([run]) never fails and returns a task exactly when its last message arrives. *)
From Coq Require Import List PArith Bool Arith Lia Sorted Permutation.
Require Import Eliot.Base.Level Eliot.Model.Parser Eliot.Model.Forest.
Require Import Eliot.Proofs.ParserBasics Eliot.Proofs.ParserOrder Eliot.Proofs.ParserTree Eliot.Proofs.ParserStep.
Import ListNotations.

(* ---- the messages of a forest ------------------------------------------------ *)

Lemma lin_from_In idf f : forall u0 m,
  In m (lin_from idf u0 f) <->
  exists k T, nth_error f k = Some T /\ In m (lin_task (idf (u0 + k)) (u0 + k) T).
Proof.
  induction f as [|T0 r IH]; intros u0 m; cbn [lin_from].
  - split; [intros []|]. intros (k & T & H & _). destruct k; discriminate.
  - rewrite in_app_iff, IH. split.
    + intros [H|(k & T & H1 & H2)].
      * exists 0, T0. rewrite Nat.add_0_r. auto.
      * exists (S k), T. rewrite Nat.add_succ_r. auto.
    + intros (k & T & H1 & H2). destruct k as [|k].
      * cbn in H1. injection H1 as ->. rewrite Nat.add_0_r in H2. now left.
      * right. exists k, T. rewrite Nat.add_succ_r in H2. auto.
Qed.

Lemma lin_task_shape idf u T m :
  In m (lin_task idf u T) -> pm_uuid m = u /\ pm_id m = idf (pm_level m).
Proof. destruct T; cbn [lin_task]; intros H; now apply lin_tree_shape in H. Qed.

Lemma lin_task_level_inj idf u T m m' :
  In m (lin_task idf u T) -> In m' (lin_task idf u T) -> pm_level m = pm_level m' -> m = m'.
Proof. destruct T; cbn [lin_task]; apply lin_tree_level_inj. Qed.

Lemma lin_task_nonempty idf u T : lin_task idf u T <> [].
Proof. destruct T; cbn [lin_task]; apply lin_tree_nonempty. Qed.

Definition tmsgs (f : forest) (u : nat) (T : tree) : list pmsg := lin_task (lin_id f u) u T.

Lemma lin_In f m :
  In m (lin f) <-> exists T, nth_error f (pm_uuid m) = Some T /\ In m (tmsgs f (pm_uuid m) T).
Proof.
  unfold lin, tmsgs. rewrite lin_from_In. cbn [Nat.add]. split.
  - intros (k & T & H1 & H2). pose proof (lin_task_shape _ _ _ _ H2) as [E _]. rewrite E. eauto.
  - intros (T & H1 & H2). eauto.
Qed.

Lemma lin_In_task f u T m : nth_error f u = Some T -> In m (tmsgs f u T) -> In m (lin f) /\ pm_uuid m = u.
Proof.
  intros H1 H2. pose proof (lin_task_shape _ _ _ _ H2) as [E _]. split; [|exact E].
  apply lin_In. rewrite E. eauto.
Qed.

Lemma lin_key_inj f m m' :
  In m (lin f) -> In m' (lin f) -> pm_uuid m = pm_uuid m' -> pm_level m = pm_level m' -> m = m'.
Proof.
  rewrite !lin_In. intros (T & H1 & H2) (T' & H1' & H2') EU EL.
  rewrite <- EU in *. rewrite H1 in H1'. injection H1' as <-.
  eapply lin_task_level_inj; eassumption.
Qed.

Lemma lin_from_nodup idf f : forall u0, NoDup (lin_from idf u0 f).
Proof.
  induction f as [|T r IH]; intros u0; cbn [lin_from]; [constructor|].
  apply NoDup_app_intro.
  - apply (NoDup_map_inv pm_level). destruct T; cbn [lin_task]; apply lin_tree_nodup.
  - apply IH.
  - intros m H1 H2. apply lin_task_shape in H1 as [E1 _].
    apply lin_from_In in H2 as (k & T' & _ & H2). apply lin_task_shape in H2 as [E2 _]. lia.
Qed.

Lemma lin_nodup f : NoDup (lin f).
Proof. apply lin_from_nodup. Qed.

(* ---- the set of received messages, as a predicate on (uuid, level) ------------- *)

Definition recv (ms : list pmsg) (u : nat) (l : level) : bool :=
  existsb (fun m => Nat.eqb (pm_uuid m) u && level_eqb (pm_level m) l) ms.

Lemma recv_true ms u l : recv ms u l = true <-> exists m, In m ms /\ pm_uuid m = u /\ pm_level m = l.
Proof.
  unfold recv. rewrite existsb_exists. split; intros (m & H1 & H2); exists m; (split; [exact H1|]).
  - apply andb_true_iff in H2 as [H2 H3]. apply Nat.eqb_eq in H2. now apply level_eqb_eq in H3.
  - destruct H2 as [-> ->]. now rewrite Nat.eqb_refl, level_eqb_refl.
Qed.

Lemma recv_cons m ms u l :
  recv (m :: ms) u l = (Nat.eqb (pm_uuid m) u && level_eqb (pm_level m) l) || recv ms u l.
Proof. reflexivity. Qed.

Lemma recv_cons_other m ms u l : pm_uuid m <> u -> recv (m :: ms) u l = recv ms u l.
Proof. intros N. rewrite recv_cons. apply Nat.eqb_neq in N. now rewrite N. Qed.

Lemma recv_cons_addl m ms l : recv (m :: ms) (pm_uuid m) l = addl (pm_level m) (recv ms (pm_uuid m)) l.
Proof. rewrite recv_cons, Nat.eqb_refl. unfold addl. cbn [andb]. now rewrite level_eqb_sym. Qed.

Lemma recv_same_set ms ms' u l : (forall m, In m ms <-> In m ms') -> recv ms u l = recv ms' u l.
Proof.
  intros H. destruct (recv ms u l) eqn:E.
  - symmetry. apply recv_true. apply recv_true in E as (m & H1 & H2). exists m. split; [now apply H|exact H2].
  - destruct (recv ms' u l) eqn:E'; [|reflexivity].
    apply recv_true in E' as (m & H1 & H2).
    assert (recv ms u l = true) by (apply recv_true; exists m; split; [now apply H|exact H2]). congruence.
Qed.

Lemma recv_mono ms x u l : recv ms u l = true -> recv (x ++ ms) u l = true.
Proof.
  rewrite !recv_true. intros (m & H1 & H2). exists m. split; [|exact H2]. apply in_app_iff. now right.
Qed.

(* task-level presence *)
Definition tfull (f : forest) (pre : list pmsg) (u : nat) (T : tree) : bool :=
  forallb (fun m => recv pre u (pm_level m)) (tmsgs f u T).
Definition tpresent (f : forest) (pre : list pmsg) (u : nat) (T : tree) : bool :=
  existsb (fun m => recv pre u (pm_level m)) (tmsgs f u T).

Lemma tfull_act f pre u T : is_act T = true -> tfull f pre u T = full (lin_id f u) u (recv pre u) [] T.
Proof. destruct T; [discriminate|reflexivity]. Qed.
Lemma tpresent_act f pre u T : is_act T = true -> tpresent f pre u T = present (lin_id f u) u (recv pre u) [] T.
Proof. destruct T; [discriminate|reflexivity]. Qed.

Lemma tfull_ext f pre pre' u T :
  (forall l, recv pre u l = recv pre' u l) -> tfull f pre u T = tfull f pre' u T.
Proof. intros H. unfold tfull. apply forallb_ext_in. intros; apply H. Qed.
Lemma tpresent_ext f pre pre' u T :
  (forall l, recv pre u l = recv pre' u l) -> tpresent f pre u T = tpresent f pre' u T.
Proof. intros H. unfold tpresent. apply existsb_ext_in. intros; apply H. Qed.

(* the value of a task all of whose messages have arrived *)
Definition final_task (f : forest) (u : nat) (t : task) : Prop :=
  exists T, nth_error f u = Some T /\
    match T with
    | TMsg _ => t = mkTask [([], NMsg (mk_msg (lin_id f u) u [1%positive] None None))] [[]]
    | TAct _ _ _ => Inv (lin_id f u) u T (fun _ => true) t
    end.

Lemma final_task_unique f u t t' : final_task f u t -> final_task f u t' -> t = t'.
Proof.
  intros (T & H1 & H2) (T' & H1' & H2'). rewrite H1 in H1'. injection H1' as <-.
  destruct T; [congruence|]. eapply Inv_unique; eassumption.
Qed.

(* ---- the parser invariant ------------------------------------------------------ *)

Definition PC (f : forest) (pre : list pmsg) (p : parser) (u : nat) : Prop :=
  match ulookup u p with
  | Some t => exists T, nth_error f u = Some T /\ is_act T = true /\
                        Inv (lin_id f u) u T (recv pre u) t /\
                        tpresent f pre u T = true /\ tfull f pre u T = false
  | None => forall T, nth_error f u = Some T -> tpresent f pre u T = false \/ tfull f pre u T = true
  end.

Definition PInv (f : forest) (pre : list pmsg) (p : parser) : Prop :=
  usorted p /\ forall u, PC f pre p u.

Lemma PInv_nil f : PInv f [] [].
Proof.
  split; [apply usorted_nil|]. intros u. unfold PC. cbn. intros T _. left.
  unfold tpresent. induction (tmsgs f u T); cbn; auto.
Qed.

Lemma PC_other f pre p p' m u :
  pm_uuid m <> u -> ulookup u p' = ulookup u p -> PC f pre p u -> PC f (m :: pre) p' u.
Proof.
  intros N E. unfold PC. rewrite E.
  assert (R : forall l, recv pre u l = recv (m :: pre) u l) by (intros; symmetry; now apply recv_cons_other).
  destruct (ulookup u p) as [t|].
  - intros (T & H1 & H2 & H3 & H4 & H5). exists T.
    split; [exact H1|]. split; [exact H2|]. split; [|split].
    + eapply Inv_ext; [|exact H3]. exact R.
    + now rewrite <- (tpresent_ext f pre (m :: pre)).
    + now rewrite <- (tfull_ext f pre (m :: pre)).
  - intros H T HT. rewrite <- (tpresent_ext f pre (m :: pre)), <- (tfull_ext f pre (m :: pre)) by exact R. auto.
Qed.

(* what parser_add returns for message m when [pre] was received before *)
Definition returned (f : forest) (pre : list pmsg) (m : pmsg) (c : list task) : Prop :=
  forall T, nth_error f (pm_uuid m) = Some T ->
  if tfull f (m :: pre) (pm_uuid m) T then exists t, c = [t] /\ final_task f (pm_uuid m) t
  else c = [].

Theorem parser_add_step f pre p m :
  PInv f pre p -> In m (lin f) -> recv pre (pm_uuid m) (pm_level m) = false ->
  exists c p', parser_add p m = POk (c, p') /\ PInv f (m :: pre) p' /\ returned f pre m c.
Proof.
  intros [S HP] Hin HR. set (v := pm_uuid m) in *.
  apply lin_In in Hin as (T & HT & Hm). fold v in HT, Hm.
  unfold parser_add. fold v.
  assert (Hothers : forall p', usorted p' -> (forall u, u <> v -> ulookup u p' = ulookup u p) ->
                               PC f (m :: pre) p' v -> PInv f (m :: pre) p').
  { intros p' S' E Hv. split; [exact S'|]. intros u. destruct (Nat.eq_dec u v) as [->|N]; [exact Hv|].
    apply (PC_other f pre p p' m u); [unfold v in N; congruence|now apply E|apply HP]. }
  assert (Hrm : forall u, u <> v -> ulookup u (uremove v p) = ulookup u p).
  { intros u N. rewrite ulookup_uremove by exact S. apply Nat.eqb_neq in N. now rewrite N. }
  assert (Hins : forall t' u, u <> v -> ulookup u (uinsert v t' p) = ulookup u p).
  { intros t' u N. rewrite ulookup_uinsert. apply Nat.eqb_neq in N. now rewrite N. }
  assert (Hrecv_m : recv (m :: pre) v (pm_level m) = true).
  { rewrite recv_cons. fold v. now rewrite Nat.eqb_refl, level_eqb_refl. }
  destruct T as [ty|ty st ch].
  - (* a context-less message task *)
    unfold tmsgs in Hm. cbn in Hm. destruct Hm as [Hm|[]].
    pose proof (HP v) as Hv. unfold PC in Hv.
    destruct (ulookup v p) as [t|] eqn:EL.
    { destruct Hv as (T' & H1 & H2 & _). rewrite HT in H1. injection H1 as <-. discriminate. }
    assert (ET : task_add empty_task m = POk (mkTask [([], NMsg m)] [[]])) by now rewrite <- Hm.
    assert (EL1 : pm_level m = [1%positive]) by now rewrite <- Hm.
    assert (EFm : tfull f (m :: pre) v (TMsg ty) = true).
    { unfold tfull, tmsgs. cbn [lin_task lin_tree forallb]. rewrite andb_true_r.
      cbn [pm_level mk_msg]. rewrite <- EL1. exact Hrecv_m. }
    rewrite ET. cbn [task_complete t_completed set_mem existsb level_eqb orb].
    exists [mkTask [([], NMsg m)] [[]]], (uremove v p). split; [reflexivity|]. split.
    + apply Hothers; [now apply uremove_sorted|exact Hrm|].
      unfold PC. rewrite ulookup_uremove by exact S. rewrite Nat.eqb_refl.
      intros T' HT'. rewrite HT in HT'. injection HT' as <-. now right.
    + intros T' HT'. fold v in HT'. fold v. rewrite HT in HT'. injection HT' as <-.
      rewrite EFm.
      eexists. split; [reflexivity|]. exists (TMsg ty). split; [exact HT|]. now rewrite Hm.
  - (* an action task *)
    set (T := TAct ty st ch) in *.
    assert (HI0 : Inv (lin_id f v) v T (recv pre v)
                      (match ulookup v p with Some t => t | None => empty_task end)).
    { pose proof (HP v) as Hv. unfold PC in Hv. destruct (ulookup v p) as [t|].
      - destruct Hv as (T' & H1 & _ & H3 & _). rewrite HT in H1. injection H1 as <-. exact H3.
      - apply Inv_empty_msgs. destruct (Hv T HT) as [H|H].
        + now rewrite tpresent_act in H.
        + exfalso. unfold tfull in H. rewrite forallb_forall in H. rewrite (H m Hm) in HR. discriminate. }
    destruct (task_add_step (lin_id f v) v T eq_refl _ _ m HI0 Hm HR) as (t' & Ht' & HI').
    rewrite Ht'.
    assert (HI1 : Inv (lin_id f v) v T (recv (m :: pre) v) t').
    { eapply Inv_ext; [|exact HI']. intros x. symmetry. apply recv_cons_addl. }
    rewrite (Inv_complete (lin_id f v) v T eq_refl _ _ HI1).
    rewrite <- (tfull_act f (m :: pre) v T eq_refl).
    destruct (tfull f (m :: pre) v T) eqn:EF.
    + exists [t'], (uremove v p). split; [reflexivity|]. split.
      * apply Hothers; [now apply uremove_sorted|exact Hrm|].
        unfold PC. rewrite ulookup_uremove by exact S. rewrite Nat.eqb_refl.
        intros T' HT'. rewrite HT in HT'. injection HT' as <-. now right.
      * intros T' HT'. fold v in HT'. fold v. rewrite HT in HT'. injection HT' as <-. rewrite EF.
        exists t'. split; [reflexivity|]. exists T. split; [exact HT|].
        eapply Inv_ext_msgs; [|exact HI1]. intros m' Hm'.
        unfold tfull in EF. rewrite forallb_forall in EF. now apply EF.
    + exists [], (uinsert v t' p). split; [reflexivity|]. split.
      * apply Hothers; [now apply uinsert_sorted|apply Hins|].
        unfold PC. rewrite ulookup_uinsert, Nat.eqb_refl.
        exists T. split; [exact HT|]. split; [reflexivity|]. split; [exact HI1|]. split; [|exact EF].
        unfold tpresent. apply existsb_exists. exists m. split; [exact Hm|exact Hrecv_m].
      * intros T' HT'. fold v in HT'. fold v. rewrite HT in HT'. injection HT' as <-. now rewrite EF.
Qed.

(* ---- running a stream --------------------------------------------------------- *)

(* every message is new when it arrives *)
Fixpoint keys_fresh (pre ms : list pmsg) : Prop :=
  match ms with
  | [] => True
  | m :: r => recv pre (pm_uuid m) (pm_level m) = false /\ keys_fresh (m :: pre) r
  end.

Lemma keys_fresh_intro f ms : forall pre,
  (forall m, In m (pre ++ ms) -> In m (lin f)) -> NoDup (rev pre ++ ms) -> keys_fresh pre ms.
Proof.
  induction ms as [|m r IH]; intros pre Hin ND; cbn [keys_fresh]; [exact I|]. split.
  - destruct (recv pre (pm_uuid m) (pm_level m)) eqn:E; [|reflexivity]. exfalso.
    apply recv_true in E as (m' & H1 & H2 & H3).
    assert (m' = m).
    { apply (lin_key_inj f); try assumption; apply Hin; apply in_app_iff; [now left|right; now left]. }
    subst m'. apply NoDup_remove_2 in ND. apply ND. apply in_app_iff. left. now apply -> in_rev.
  - apply IH.
    + intros x Hx. apply Hin. cbn in Hx. destruct Hx as [<-|Hx]; [apply in_app_iff; right; now left|].
      apply in_app_iff in Hx as [Hx|Hx]; apply in_app_iff; [now left|right; now right].
    + cbn [rev]. now rewrite <- app_assoc.
Qed.

(* what the trace of returned lists looks like *)
Fixpoint trace_ok (f : forest) (pre ms : list pmsg) (cs : list (list task)) : Prop :=
  match ms, cs with
  | [], [] => True
  | m :: r, c :: cr => returned f pre m c /\ trace_ok f (m :: pre) r cr
  | _, _ => False
  end.

Theorem run f ms : forall pre p,
  PInv f pre p -> (forall m, In m ms -> In m (lin f)) -> keys_fresh pre ms ->
  exists cs p', parse_trace p ms = POk (cs, p') /\ PInv f (rev ms ++ pre) p' /\ trace_ok f pre ms cs.
Proof.
  induction ms as [|m r IH]; intros pre p HP Hin HF; cbn [parse_trace].
  - exists [], p. cbn. auto.
  - destruct HF as [HR HF].
    destruct (parser_add_step f pre p m HP (Hin m (or_introl eq_refl)) HR) as (c & p1 & E1 & HP1 & HC).
    rewrite E1.
    destruct (IH (m :: pre) p1 HP1 (fun x Hx => Hin x (or_intror Hx)) HF) as (cs & p2 & E2 & HP2 & HT).
    rewrite E2. exists (c :: cs), p2. split; [reflexivity|]. split.
    + cbn [rev]. now rewrite <- app_assoc.
    + cbn [trace_ok]. auto.
Qed.

Corollary run_top f ms :
  NoDup ms -> incl ms (lin f) ->
  exists cs p, parse_trace [] ms = POk (cs, p) /\ PInv f (rev ms) p /\ trace_ok f [] ms cs.
Proof.
  intros ND Hin.
  destruct (run f ms [] [] (PInv_nil f) Hin) as (cs & p & H1 & H2 & H3).
  - apply (keys_fresh_intro f); [exact Hin|exact ND].
  - rewrite app_nil_r in H2. eauto.
Qed.
