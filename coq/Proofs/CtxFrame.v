(* Frame lemmas for the context map (C05 core; used by CtxRestore.v for C03/C04).

   1. Every output-side function (take_level ... finish, resend) leaves [ctx], [tokens] and
      [probes] untouched, keeps every action in the heap and changes at most its [a_last]
      ([out_rel]); [start_action]/[finish] additionally touch only their own handle.
   2. [api cfg c s o] changes the context map / token stacks only at key [c] (and at [c'] for
      [OSpawn c']): [api_frame].  Lifted to runs: [run_frame].
   3. An action's saved token is only written by OStart/OEnter/OExit/OContinue on that very
      handle: [api_tokof_frame], [run_tokof_frame].
   4. Probes are append-only and record [cur s c]: [api_probes], [run_probes_prefix].
   5. C05_noninterference: the probes of a context are those of its own calls run alone. *)
From Coq Require Import List PArith NArith ZArith Bool Arith Lia.
Require Import Eliot.Base.Level Eliot.Model.Core Eliot.Model.Prog Eliot.Proofs.CoreBasics.
Import ListNotations.

(* ---- relations between a state and a later one --------------------------------------- *)
Definition same_but_last (a a' : action) : Prop :=
  a_uuid a' = a_uuid a /\ a_level a' = a_level a /\ a_finished a' = a_finished a /\
  a_succ a' = a_succ a /\ a_type a' = a_type a /\ a_sers a' = a_sers a /\ a_token a' = a_token a.

(* handle h: present before iff present after, and then equal up to [a_last] *)
Definition hrel1 (s s' : state) (h : nat) : Prop :=
  match alookup h (heap s) with
  | Some a => exists a', alookup h (heap s') = Some a' /\ same_but_last a a'
  | None => alookup h (heap s') = None
  end.

Definition base_rel (s s' : state) : Prop :=
  ctx s' = ctx s /\ tokens s' = tokens s /\ probes s' = probes s.

Definition out_rel (s s' : state) : Prop := base_rel s s' /\ forall h, hrel1 s s' h.

(* the saved token of handle h (None: no such action) *)
Definition tokof (s : state) (h : nat) : option (option (option nat)) :=
  option_map a_token (alookup h (heap s)).

(* the stack of saved values of context()/run() blocks of context c *)
Definition tstack (s : state) (c : nat) : list (option nat) :=
  match alookup c (tokens s) with Some t => t | None => [] end.

Lemma same_but_last_refl a : same_but_last a a.
Proof. unfold same_but_last; intuition. Qed.

Lemma same_but_last_trans a b c : same_but_last a b -> same_but_last b c -> same_but_last a c.
Proof. unfold same_but_last; intuition congruence. Qed.

Lemma hrel1_refl s h : hrel1 s s h.
Proof. unfold hrel1. destruct (alookup h (heap s)); eauto using same_but_last_refl. Qed.

Lemma hrel1_trans s1 s2 s3 h : hrel1 s1 s2 h -> hrel1 s2 s3 h -> hrel1 s1 s3 h.
Proof.
  unfold hrel1. destruct (alookup h (heap s1)) as [a|].
  - intros (a2 & E2 & R2). rewrite E2. intros (a3 & E3 & R3).
    eauto using same_but_last_trans.
  - intros E2. now rewrite E2.
Qed.

Lemma base_rel_refl s : base_rel s s.
Proof. unfold base_rel; auto. Qed.

Lemma base_rel_trans s1 s2 s3 : base_rel s1 s2 -> base_rel s2 s3 -> base_rel s1 s3.
Proof. unfold base_rel; intuition congruence. Qed.

Lemma out_rel_refl s : out_rel s s.
Proof. split; [apply base_rel_refl | intro; apply hrel1_refl]. Qed.

Lemma out_rel_trans s1 s2 s3 : out_rel s1 s2 -> out_rel s2 s3 -> out_rel s1 s3.
Proof.
  intros [B1 H1] [B2 H2]. split; [eauto using base_rel_trans | intro h; eauto using hrel1_trans].
Qed.

Lemma hrel1_tokof s s' h : hrel1 s s' h -> tokof s' h = tokof s h.
Proof.
  unfold hrel1, tokof. destruct (alookup h (heap s)) as [a|].
  - intros (a' & E & R). rewrite E. cbn. f_equal. apply R.
  - intros E. now rewrite E.
Qed.

Lemma hrel1_finished s s' h a :
  hrel1 s s' h -> alookup h (heap s) = Some a ->
  exists a', alookup h (heap s') = Some a' /\ same_but_last a a'.
Proof. unfold hrel1. intros H E. now rewrite E in H. Qed.

Lemma out_rel_cur s s' c : base_rel s s' -> cur s' c = cur s c.
Proof. intros (E & _). unfold cur. now rewrite E. Qed.

Lemma out_rel_tstack s s' c : base_rel s s' -> tstack s' c = tstack s c.
Proof. intros (_ & E & _). unfold tstack. now rewrite E. Qed.

(* ---- the state setters ----------------------------------------------------------------- *)
Lemma set_heap_base s h a : base_rel s (set_heap s h a).
Proof. unfold base_rel; cbn; auto. Qed.

Lemma set_heap_hrel_other s h a h0 : h0 <> h -> hrel1 s (set_heap s h a) h0.
Proof.
  intros Hne. unfold hrel1. cbn [heap set_heap].
  rewrite alookup_aset_other by congruence.
  destruct (alookup h0 (heap s)); eauto using same_but_last_refl.
Qed.

Lemma set_heap_out s h a a' :
  alookup h (heap s) = Some a -> same_but_last a a' -> out_rel s (set_heap s h a').
Proof.
  intros E R. split; [apply set_heap_base|]. intros h0.
  destruct (Nat.eq_dec h0 h) as [->|Hne]; [|now apply set_heap_hrel_other].
  unfold hrel1. rewrite E. cbn [heap set_heap]. rewrite alookup_aset_same. eauto.
Qed.

Lemma set_out_out s aa b ds gn : out_rel s (set_out s aa b ds gn).
Proof.
  split; [unfold base_rel; cbn; auto|]. intros h. unfold hrel1. cbn [heap set_out].
  destruct (alookup h (heap s)); eauto using same_but_last_refl.
Qed.

Lemma same_heap_out s s' :
  heap s' = heap s -> ctx s' = ctx s -> tokens s' = tokens s -> probes s' = probes s -> out_rel s s'.
Proof.
  intros Hh Hc Ht Hp. split; [unfold base_rel; auto|]. intros h. unfold hrel1. rewrite Hh.
  destruct (alookup h (heap s)); eauto using same_but_last_refl.
Qed.

(* ---- output-side functions -------------------------------------------------------------- *)
Lemma take_level_out s h : out_rel s (fst (take_level s h)).
Proof.
  unfold take_level. destruct (alookup h (heap s)) as [a|] eqn:E; cbn.
  - apply set_heap_out with a; [exact E|]. unfold same_but_last; cbn; intuition.
  - apply out_rel_refl.
Qed.

Lemma take_level_eq s h s1 l : take_level s h = (s1, l) -> out_rel s s1.
Proof. intros E. pose proof (take_level_out s h) as H. now rewrite E in H. Qed.

Lemma deliver_out s m : out_rel s (fst (deliver s m)).
Proof.
  unfold deliver. destruct (any_added s).
  - destruct (fanout m (dests s)) as [ds errs]. cbn. apply set_out_out.
  - cbn. apply set_out_out.
Qed.

Lemma deliver_eq s m s1 errs : deliver s m = (s1, errs) -> out_rel s s1.
Proof. intros E. pose proof (deliver_out s m) as H. now rewrite E in H. Qed.

Lemma fresh_uuid_out s : out_rel s (fst (fresh_uuid s)).
Proof. unfold fresh_uuid. cbn. now apply same_heap_out. Qed.

Lemma msg_position_out s c : out_rel s (fst (fst (msg_position s c))).
Proof.
  unfold msg_position. destruct (cur s c) as [h|].
  - destruct (take_level s h) as [s1 l] eqn:E. cbn. eapply take_level_eq; eauto.
  - cbn. now apply same_heap_out.
Qed.

Lemma stamp_here_out s c mt fs : out_rel s (fst (stamp_here s c mt fs)).
Proof.
  unfold stamp_here. pose proof (msg_position_out s c) as H.
  destruct (msg_position s c) as [[s1 u] l]. exact H.
Qed.

Lemma stamp_here_eq s c mt fs s1 m : stamp_here s c mt fs = (s1, m) -> out_rel s s1.
Proof. intros E. pose proof (stamp_here_out s c mt fs) as H. now rewrite E in H. Qed.

Lemma send_report_out s m : out_rel s (send_report s m).
Proof. unfold send_report. apply deliver_out. Qed.

Lemma log_report_out c about s e : out_rel s (log_report c about s e).
Proof.
  unfold log_report.
  destruct (stamp_here s c (VTypeName T_destination_failure) _) as [s2 m] eqn:E.
  eapply out_rel_trans; [eapply stamp_here_eq; eauto | apply send_report_out].
Qed.

Lemma fold_log_report_out c about errs s : out_rel s (fold_left (log_report c about) errs s).
Proof.
  revert s. induction errs as [|e r IH]; intros s; cbn [fold_left]; [apply out_rel_refl|].
  eapply out_rel_trans; [apply log_report_out | apply IH].
Qed.

Lemma send_out c s m : out_rel s (send c s m).
Proof.
  unfold send. destruct (deliver s (fupdate m (globals s))) as [s1 errs] eqn:E.
  apply deliver_eq in E. destruct (is_report _); [exact E|].
  eapply out_rel_trans; [exact E | apply fold_log_report_out].
Qed.

Lemma resend_out c ms s : out_rel s (resend c s ms).
Proof.
  revert s. induction ms as [|m r IH]; intros s; cbn [resend]; [apply out_rel_refl|].
  eapply out_rel_trans; [apply send_out | apply IH].
Qed.

Section Cfg.
Variable cfg : config.

Lemma log_traceback_plain_out c s e extra : out_rel s (log_traceback_plain c s e extra).
Proof.
  unfold log_traceback_plain.
  destruct (stamp_here s c (VTypeName T_traceback) _) as [s2 m] eqn:E.
  eapply out_rel_trans; [eapply stamp_here_eq; eauto | apply send_out].
Qed.

Lemma fields_for_exception_out c s e : out_rel s (fst (fields_for_exception cfg c s e)).
Proof.
  unfold fields_for_exception.
  destruct (first_registered _ _) as [[fs|e']|]; cbn;
    [apply out_rel_refl | apply log_traceback_plain_out | apply out_rel_refl].
Qed.

Lemma fields_for_exception_eq c s e s1 xf :
  fields_for_exception cfg c s e = (s1, xf) -> out_rel s s1.
Proof. intros E. pose proof (fields_for_exception_out c s e) as H. now rewrite E in H. Qed.

Lemma write_traceback_out c s e : out_rel s (write_traceback cfg c s e).
Proof.
  unfold write_traceback. destruct (fields_for_exception cfg c s e) as [s1 extra] eqn:E.
  eapply out_rel_trans; [eapply fields_for_exception_eq; eauto | apply log_traceback_plain_out].
Qed.

Lemma logger_write_out c s m ser : out_rel s (logger_write cfg c s m ser).
Proof.
  unfold logger_write. destruct ser as [sr|]; [|apply send_out].
  destruct (serialize sr m) as [m'|e]; [apply send_out|].
  destruct (stamp_here _ c (VTypeName T_serialization_failure) _) as [s3 fm] eqn:E.
  eapply out_rel_trans; [apply write_traceback_out|].
  eapply out_rel_trans; [eapply stamp_here_eq; eauto | apply send_out].
Qed.

Lemma start_message_out c s h fs : out_rel s (start_message cfg c s h fs).
Proof.
  unfold start_message. destruct (alookup h (heap s)) as [a|]; [|apply out_rel_refl].
  destruct (take_level s h) as [s1 l] eqn:E.
  eapply out_rel_trans; [eapply take_level_eq; eauto | apply logger_write_out].
Qed.

(* start_action: creates/overwrites handle h, everything else as for output functions *)
Lemma start_action_rel c s h task ty fs sers :
  base_rel s (start_action cfg c s h task ty fs sers) /\
  forall h0, h0 <> h -> hrel1 s (start_action cfg c s h task ty fs sers) h0.
Proof.
  unfold start_action. destruct (if task then None else cur s c) as [p|].
  - destruct (alookup p (heap s)) as [pa|]; [|split; [apply base_rel_refl | intros; apply hrel1_refl]].
    destruct (take_level s p) as [s1 l] eqn:E. apply take_level_eq in E. destruct E as [B1 H1].
    match goal with |- context [start_message cfg c ?s2 h fs] =>
      destruct (start_message_out c s2 h fs) as [B3 H3] end.
    split.
    + eapply base_rel_trans; [exact B1|]. eapply base_rel_trans; [apply set_heap_base | exact B3].
    + intros h0 Hne. eapply hrel1_trans; [apply H1|].
      eapply hrel1_trans; [apply set_heap_hrel_other; exact Hne | apply H3].
  - cbn [fresh_uuid].
    match goal with |- context [start_message cfg c ?s2 h fs] =>
      destruct (start_message_out c s2 h fs) as [B3 H3] end.
    split.
    + eapply base_rel_trans; [|exact B3]. unfold base_rel; cbn; auto.
    + intros h0 Hne. eapply hrel1_trans; [|apply H3].
      unfold hrel1. cbn [heap set_heap]. rewrite alookup_aset_other by congruence.
      destruct (alookup h0 (heap s)); eauto using same_but_last_refl.
Qed.

(* after start_action the handle exists, provided the parent lookup cannot fail *)
Definition parent_live (s : state) (c : nat) : Prop :=
  match cur s c with Some p => alookup p (heap s) <> None | None => True end.

Lemma start_action_creates c s h task ty fs sers :
  task = true \/ parent_live s c ->
  exists a, alookup h (heap (start_action cfg c s h task ty fs sers)) = Some a /\
            a_token a = None /\ a_finished a = false.
Proof.
  intros Hlive. unfold start_action.
  assert (Hnew : forall s2 u l,
            alookup h (heap s2) = Some (mkAction u l 0 false [] ty sers None) ->
            exists a, alookup h (heap (start_message cfg c s2 h fs)) = Some a /\
                      a_token a = None /\ a_finished a = false).
  { intros s2 u l E. destruct (start_message_out c s2 h fs) as [_ H3].
    destruct (hrel1_finished _ _ _ _ (H3 h) E) as (a' & E' & R).
    exists a'. split; [exact E'|]. destruct R as (_ & _ & Rf & _ & _ & _ & Rt). cbn in *. auto. }
  destruct (if task then None else cur s c) as [p|] eqn:Ep.
  - destruct task; [discriminate|]. destruct Hlive as [Hl|Hl]; [discriminate|].
    unfold parent_live in Hl. rewrite Ep in Hl.
    destruct (alookup p (heap s)) as [pa|]; [|congruence].
    destruct (take_level s p) as [s1 l] eqn:E.
    eapply Hnew. cbn [heap set_heap]. apply alookup_aset_same.
  - cbn [fresh_uuid]. eapply Hnew. cbn [heap set_heap]. apply alookup_aset_same.
Qed.

(* finish: marks handle h finished, keeps its token; everything else as for output functions *)
Definition fin_rel (a a' : action) : Prop :=
  a_uuid a' = a_uuid a /\ a_level a' = a_level a /\ a_finished a' = true /\
  a_succ a' = a_succ a /\ a_type a' = a_type a /\ a_sers a' = a_sers a /\ a_token a' = a_token a.

Lemma finish_rel c s h exc :
  base_rel s (finish cfg c s h exc) /\
  (forall h0, h0 <> h -> hrel1 s (finish cfg c s h exc) h0) /\
  (forall a, alookup h (heap s) = Some a ->
     exists a', alookup h (heap (finish cfg c s h exc)) = Some a' /\ fin_rel a a') /\
  (alookup h (heap s) = None -> finish cfg c s h exc = s).
Proof.
  unfold finish. destruct (alookup h (heap s)) as [a|] eqn:Ea.
  2:{ repeat split; try apply base_rel_refl; intros; try apply hrel1_refl; congruence. }
  destruct (a_finished a) eqn:Ef.
  { repeat split; try apply base_rel_refl; intros; try apply hrel1_refl; try congruence.
    exists a. split; [congruence|]. assert (a0 = a) by congruence. subst a0.
    unfold fin_rel; intuition. }
  set (a0 := mkAction (a_uuid a) (a_level a) (a_last a) true (a_succ a) (a_type a) (a_sers a) (a_token a)).
  set (s0 := set_heap s h a0).
  assert (E0 : alookup h (heap s0) = Some a0) by (cbn; apply alookup_aset_same).
  assert (Hgen : forall s1 fs ser, out_rel s0 s1 ->
     let s' := (let '(s2, l) := take_level s1 h in
                logger_write cfg c s2
                  (fset K_level (VLevel l) (fset K_atype (a_type a) (fset K_uuid (VUuid (a_uuid a))
                     (fset K_ts VTime fs)))) ser) in
     base_rel s s' /\ (forall h0, h0 <> h -> hrel1 s s' h0) /\
     (forall a1, Some a = Some a1 -> exists a', alookup h (heap s') = Some a' /\ fin_rel a1 a') /\
     (Some a = None -> s' = s)).
  { intros s1 fs ser R1. destruct (take_level s1 h) as [s2 l] eqn:E2. apply take_level_eq in E2.
    cbn zeta.
    pose proof (out_rel_trans _ _ _ (out_rel_trans _ _ _ R1 E2) (logger_write_out c s2
       (fset K_level (VLevel l) (fset K_atype (a_type a) (fset K_uuid (VUuid (a_uuid a))
                     (fset K_ts VTime fs)))) ser)) as [B H].
    split; [|split; [|split]].
    - eapply base_rel_trans; [apply (set_heap_base s h a0) | exact B].
    - intros h0 Hne. eapply hrel1_trans; [apply set_heap_hrel_other; exact Hne | apply H].
    - intros a1 Ha1. assert (a1 = a) by congruence. subst a1.
      destruct (hrel1_finished _ _ _ _ (H h) E0) as (a' & E' & R). exists a'. split; [exact E'|].
      unfold same_but_last in R. unfold fin_rel. subst a0. cbn in R. intuition.
    - discriminate. }
  destruct exc as [e|].
  - destruct (fields_for_exception cfg c s0 e) as [s' xf] eqn:Ex.
    apply fields_for_exception_eq in Ex. apply (Hgen s' _ _ Ex).
  - apply (Hgen s0 _ _ (out_rel_refl s0)).
Qed.

Lemma finish_base c s h exc : base_rel s (finish cfg c s h exc).
Proof. apply finish_rel. Qed.

Lemma finish_tokof c s h exc h0 : tokof (finish cfg c s h exc) h0 = tokof s h0.
Proof.
  destruct (finish_rel c s h exc) as (_ & Ho & Hh & Hn).
  destruct (Nat.eq_dec h0 h) as [->|Hne]; [|apply hrel1_tokof, Ho, Hne].
  unfold tokof at 2. destruct (alookup h (heap s)) as [a|] eqn:E.
  - destruct (Hh a eq_refl) as (a' & E' & R). unfold tokof. rewrite E'. cbn. f_equal. apply R.
  - now rewrite (Hn eq_refl), <- E.
Qed.

(* ---- api: which operations can touch the context map at all ---------------------------- *)
Definition spawn_target (o : op) : option nat :=
  match o with OSpawn c' => Some c' | _ => None end.

Definition scoping (o : op) : bool :=
  match o with
  | OEnter _ | OExit _ _ | OCtxEnter _ | OCtxExit | OSpawn _ => true
  | _ => false
  end.

Definition is_probe (o : op) : bool := match o with OProbe => true | _ => false end.

(* every non-scoping call leaves the whole context map and all token stacks alone *)
Lemma api_keeps c s o :
  scoping o = false -> ctx (api cfg c s o) = ctx s /\ tokens (api cfg c s o) = tokens s.
Proof.
  assert (K : forall s', base_rel s s' -> ctx s' = ctx s /\ tokens s' = tokens s)
    by (intros s' (A & B & _); auto).
  destruct o; cbn [scoping api]; try discriminate; intros _.
  - apply K, start_action_rel.
  - apply K, finish_base.
  - destruct (alookup h (heap s)); auto.
  - destruct (stamp_here s c mt (mkfields fs)) as [s2 m] eqn:E. apply stamp_here_eq in E.
    apply K. eapply base_rel_trans; [apply E | apply logger_write_out].
  - destruct (alookup h (heap s)); auto.
    destruct (take_level s h) as [s2 l] eqn:E. apply take_level_eq in E.
    apply K. eapply base_rel_trans; [apply E | apply logger_write_out].
  - apply K, write_traceback_out.
  - destruct (alookup h (heap s)); auto.
    destruct (take_level s h) as [s2 l] eqn:E. apply take_level_eq in E.
    cbn. apply K, E.
  - destruct (alookup slot (ids s)) as [[u l]|]; auto.
    apply K. eapply base_rel_trans; [apply set_heap_base | apply start_message_out].
  - destruct (any_added s); auto.
    apply K. eapply base_rel_trans; [apply (set_out_out s true [] ds (gone s)) | apply resend_out].
  - destruct (remove_dest id (dests s)) as [ds [d|]]; auto.
  - auto.
  - auto.
  - apply K, logger_write_out.
Qed.

(* C05 core: a call in context c changes the current action / token stack of no other
   context c' -- except that creating an asyncio task c' initialises c' *)
Lemma api_frame_strong c c' s o :
  c' <> c -> spawn_target o <> Some c' ->
  alookup c' (ctx (api cfg c s o)) = alookup c' (ctx s) /\
  alookup c' (tokens (api cfg c s o)) = alookup c' (tokens s).
Proof.
  intros Hc Hs. destruct (scoping o) eqn:Sc.
  2:{ destruct (api_keeps c s o Sc) as [-> ->]. auto. }
  destruct o; cbn [scoping] in Sc; try discriminate; cbn [api].
  - destruct (alookup h (heap s)); auto. cbn. now rewrite alookup_aset_other by congruence.
  - destruct (alookup h (heap s)) as [a|]; auto.
    match goal with |- context [finish cfg c ?s2 h exc] =>
      destruct (finish_base c s2 h exc) as (-> & -> & _) end.
    cbn. now rewrite alookup_aset_other by congruence.
  - cbn. now rewrite !alookup_aset_other by congruence.
  - destruct (alookup c (tokens s)) as [[|t st]|]; auto.
    cbn. now rewrite !alookup_aset_other by congruence.
  - cbn. cbn in Hs. rewrite alookup_aset_other by congruence. auto.
Qed.

Theorem api_frame c c' s o :
  c' <> c -> spawn_target o <> Some c' -> cur (api cfg c s o) c' = cur s c'.
Proof.
  intros Hc Hs. unfold cur. now destruct (api_frame_strong c c' s o Hc Hs) as [-> _].
Qed.

Theorem api_frame_tstack c c' s o :
  c' <> c -> spawn_target o <> Some c' -> tstack (api cfg c s o) c' = tstack s c'.
Proof.
  intros Hc Hs. unfold tstack. now destruct (api_frame_strong c c' s o Hc Hs) as [_ ->].
Qed.

(* the task's own formulation of the side condition *)
Corollary api_frame' c c' s o :
  c' <> c -> (forall c2, o <> OSpawn c2 \/ c2 <> c') -> cur (api cfg c s o) c' = cur s c'.
Proof.
  intros Hc Hs. apply api_frame; [exact Hc|]. destruct o; cbn; try discriminate.
  intros E. injection E as ->. destruct (Hs c'); congruence.
Qed.

(* in its own context a non-scoping call changes nothing either *)
Lemma api_keeps_cur c c' s o : scoping o = false -> cur (api cfg c s o) c' = cur s c'.
Proof. intros Sc. unfold cur. now destruct (api_keeps c s o Sc) as [-> _]. Qed.

Lemma api_keeps_tstack c c' s o : scoping o = false -> tstack (api cfg c s o) c' = tstack s c'.
Proof. intros Sc. unfold tstack. now destruct (api_keeps c s o Sc) as [_ ->]. Qed.

(* ---- api: who writes an action's saved token ------------------------------------------- *)
Definition writes_tok (o : op) : option nat :=
  match o with
  | OStart h _ _ _ _ | OEnter h | OExit h _ | OContinue h _ _ => Some h
  | _ => None
  end.

Lemma api_tokof_frame c s o h0 :
  writes_tok o <> Some h0 -> tokof (api cfg c s o) h0 = tokof s h0.
Proof.
  assert (K : forall s', out_rel s s' -> tokof s' h0 = tokof s h0)
    by (intros s' (_ & H); apply hrel1_tokof, H).
  assert (SH : forall s1 h a, h0 <> h -> tokof (set_heap s1 h a) h0 = tokof s1 h0).
  { intros s1 h a Hne. unfold tokof. cbn. now rewrite alookup_aset_other by congruence. }
  intros Hw. destruct o; cbn [writes_tok] in Hw; cbn [api].
  - apply hrel1_tokof. apply start_action_rel. congruence.
  - destruct (alookup h (heap s)); auto. unfold tokof. cbn.
    now rewrite alookup_aset_other by congruence.
  - destruct (alookup h (heap s)); auto. rewrite finish_tokof, SH by congruence. reflexivity.
  - reflexivity.
  - destruct (alookup c (tokens s)) as [[|t st]|]; reflexivity.
  - apply finish_tokof.
  - destruct (alookup h (heap s)) as [a|] eqn:E; auto.
    destruct (Nat.eq_dec h0 h) as [->|Hne]; [|now apply SH].
    unfold tokof. cbn [heap set_heap]. now rewrite alookup_aset_same, E.
  - destruct (stamp_here s c mt (mkfields fs)) as [s2 m] eqn:E. apply stamp_here_eq in E.
    apply K. eapply out_rel_trans; [apply E | apply logger_write_out].
  - destruct (alookup h (heap s)); auto.
    destruct (take_level s h) as [s2 l] eqn:E. apply take_level_eq in E.
    apply K. eapply out_rel_trans; [apply E | apply logger_write_out].
  - apply K, write_traceback_out.
  - destruct (alookup h (heap s)); auto.
    destruct (take_level s h) as [s2 l] eqn:E. apply take_level_eq in E.
    transitivity (tokof s2 h0); [reflexivity | apply K, E].
  - destruct (alookup slot (ids s)) as [[u l]|]; auto.
    transitivity (tokof (set_heap s h (mkAction u l 0 false [] (VTypeName T_remote_task) None None)) h0).
    + apply hrel1_tokof. apply start_message_out.
    + apply SH. congruence.
  - reflexivity.
  - destruct (any_added s); [reflexivity|].
    apply K. eapply out_rel_trans; [apply (set_out_out s true [] ds (gone s)) | apply resend_out].
  - destruct (remove_dest id (dests s)) as [ds [d|]]; reflexivity.
  - reflexivity.
  - reflexivity.
  - apply K, logger_write_out.
Qed.

(* ---- api: probes are append-only and record the caller's current action ---------------- *)
Lemma api_probes c s o :
  probes (api cfg c s o) = probes s ++ (if is_probe o then [(c, cur s c)] else []).
Proof.
  assert (K : forall s', base_rel s s' -> probes s' = probes s ++ [])
    by (intros s' (_ & _ & ->); now rewrite app_nil_r).
  destruct o; cbn [is_probe api].
  - apply K, start_action_rel.
  - destruct (alookup h (heap s)); cbn; now rewrite app_nil_r.
  - destruct (alookup h (heap s)); [|now rewrite app_nil_r].
    match goal with |- context [finish cfg c ?s2 h exc] =>
      destruct (finish_base c s2 h exc) as (_ & _ & ->) end. cbn. now rewrite app_nil_r.
  - cbn. now rewrite app_nil_r.
  - destruct (alookup c (tokens s)) as [[|t st]|]; cbn; now rewrite app_nil_r.
  - apply K, finish_base.
  - destruct (alookup h (heap s)); cbn; now rewrite app_nil_r.
  - destruct (stamp_here s c mt (mkfields fs)) as [s2 m] eqn:E. apply stamp_here_eq in E.
    apply K. eapply base_rel_trans; [apply E | apply logger_write_out].
  - destruct (alookup h (heap s)); [|now rewrite app_nil_r].
    destruct (take_level s h) as [s2 l] eqn:E. apply take_level_eq in E.
    apply K. eapply base_rel_trans; [apply E | apply logger_write_out].
  - apply K, write_traceback_out.
  - destruct (alookup h (heap s)); [|now rewrite app_nil_r].
    destruct (take_level s h) as [s2 l] eqn:E. apply take_level_eq in E.
    cbn. apply K, E.
  - destruct (alookup slot (ids s)) as [[u l]|]; [|now rewrite app_nil_r].
    apply K. eapply base_rel_trans; [apply set_heap_base | apply start_message_out].
  - cbn. now rewrite app_nil_r.
  - destruct (any_added s); [cbn; now rewrite app_nil_r|].
    apply K. eapply base_rel_trans; [apply (set_out_out s true [] ds (gone s)) | apply resend_out].
  - destruct (remove_dest id (dests s)) as [ds [d|]]; cbn; now rewrite app_nil_r.
  - cbn. now rewrite app_nil_r.
  - reflexivity.
  - apply K, logger_write_out.
Qed.

(* ---- runs -------------------------------------------------------------------------------- *)
Lemma run_nil s : run cfg [] s = s.
Proof. reflexivity. Qed.

Lemma run_cons co ops s : run cfg (co :: ops) s = run cfg ops (api cfg (fst co) s (snd co)).
Proof. reflexivity. Qed.

Lemma run_app a b s : run cfg (a ++ b) s = run cfg b (run cfg a s).
Proof. unfold run. apply fold_left_app. Qed.

(* a call that can neither run in c' nor spawn c' *)
Definition foreign (c' : nat) (co : nat * op) : Prop :=
  fst co <> c' /\ spawn_target (snd co) <> Some c'.

(* lifting api_frame: the current action (and token stack) of c' after a run depends only on
   the calls issued in c' and the spawns targeting c' -- if there are none, it is unchanged *)
Theorem run_frame c' ops s :
  Forall (foreign c') ops ->
  cur (run cfg ops s) c' = cur s c' /\ tstack (run cfg ops s) c' = tstack s c'.
Proof.
  intros F. revert s. induction F as [|[c o] r [Hc Hs] _ IH]; intros s; [auto|].
  rewrite run_cons. cbn [fst snd] in *. destruct (IH (api cfg c s o)) as [-> ->].
  split; [apply api_frame | apply api_frame_tstack]; auto.
Qed.

(* ... and more generally all foreign calls can be dropped from the point of view of c':
   what c' sees between its own calls never changes under it *)
Theorem run_frame_segments c' pre mid post s :
  Forall (foreign c') mid ->
  cur (run cfg (pre ++ mid) s) c' = cur (run cfg pre s) c' /\
  tstack (run cfg (pre ++ mid) s) c' = tstack (run cfg pre s) c' /\
  run cfg (pre ++ mid ++ post) s = run cfg post (run cfg mid (run cfg pre s)).
Proof.
  intros F. rewrite !run_app. destruct (run_frame c' mid (run cfg pre s) F) as [-> ->]. auto.
Qed.

Definition tok_foreign (h0 : nat) (co : nat * op) : Prop := writes_tok (snd co) <> Some h0.

Theorem run_tokof_frame h0 ops s :
  Forall (tok_foreign h0) ops -> tokof (run cfg ops s) h0 = tokof s h0.
Proof.
  intros F. revert s. induction F as [|[c o] r Hw _ IH]; intros s; [auto|].
  rewrite run_cons, IH. apply api_tokof_frame. exact Hw.
Qed.

Theorem run_probes_prefix ops s : exists l, probes (run cfg ops s) = probes s ++ l.
Proof.
  revert s. induction ops as [|[c o] r IH]; intros s.
  - exists []. now rewrite app_nil_r.
  - rewrite run_cons. cbn [fst snd]. destruct (IH (api cfg c s o)) as (l & ->).
    rewrite api_probes, <- app_assoc. eauto.
Qed.

(* ---- the four scoping calls, on the state ------------------------------------------------ *)
Lemma enter_spec c s h a :
  alookup h (heap s) = Some a ->
  cur (api cfg c s (OEnter h)) c = Some h /\
  tokof (api cfg c s (OEnter h)) h = Some (Some (cur s c)) /\
  tstack (api cfg c s (OEnter h)) c = tstack s c.
Proof.
  intros E. cbn [api]. rewrite E. split; [apply cur_set_ctx_same|]. split.
  - unfold tokof. cbn. now rewrite alookup_aset_same.
  - reflexivity.
Qed.

Lemma enter_noop c s h : alookup h (heap s) = None -> api cfg c s (OEnter h) = s.
Proof. intros E. cbn [api]. now rewrite E. Qed.

Lemma exit_spec c s h exc tk :
  tokof s h = Some tk ->
  cur (api cfg c s (OExit h exc)) c = match tk with Some t => t | None => None end /\
  tstack (api cfg c s (OExit h exc)) c = tstack s c /\
  tokof (api cfg c s (OExit h exc)) h = Some None.
Proof.
  unfold tokof at 1. intros E. cbn [api]. destruct (alookup h (heap s)) as [a|]; [|discriminate].
  cbn in E. injection E as E. rewrite E.
  match goal with |- context [finish cfg c ?s2 h exc] => pose proof (finish_base c s2 h exc) as B end.
  rewrite (out_rel_cur _ _ c B), (out_rel_tstack _ _ c B), finish_tokof. split; [|split].
  - unfold cur. cbn. now rewrite alookup_aset_same.
  - reflexivity.
  - unfold tokof. cbn. now rewrite alookup_aset_same.
Qed.

Lemma exit_noop c s h exc : tokof s h = None -> api cfg c s (OExit h exc) = s.
Proof.
  unfold tokof. intros E. cbn [api]. destruct (alookup h (heap s)); [discriminate | reflexivity].
Qed.

Lemma ctxenter_spec c s h :
  cur (api cfg c s (OCtxEnter h)) c = Some h /\
  tstack (api cfg c s (OCtxEnter h)) c = cur s c :: tstack s c.
Proof.
  cbn [api]. split; [apply cur_set_ctx_same|].
  unfold tstack. cbn. now rewrite alookup_aset_same.
Qed.

Lemma ctxexit_spec c s t st :
  tstack s c = t :: st ->
  cur (api cfg c s OCtxExit) c = t /\ tstack (api cfg c s OCtxExit) c = st.
Proof.
  unfold tstack. intros E. cbn [api]. destruct (alookup c (tokens s)) as [[|t' st']|]; try discriminate.
  injection E as -> ->. split; [apply cur_set_ctx_same|]. cbn. now rewrite alookup_aset_same.
Qed.

Lemma ctxexit_noop c s : tstack s c = [] -> api cfg c s OCtxExit = s.
Proof.
  unfold tstack. intros E. cbn [api]. destruct (alookup c (tokens s)) as [[|t' st']|]; try discriminate; reflexivity.
Qed.

(* ---- C05: non-interference ----------------------------------------------------------------- *)
(* What a context can observe of itself: its current action, its token stack, and the saved
   tokens of the actions it enters itself.  [view_eq H c s t]: s and t agree on that. *)
Definition view_eq (H : list nat) (c : nat) (s t : state) : Prop :=
  cur s c = cur t c /\ tstack s c = tstack t c /\ forall h, In h H -> tokof s h = tokof t h.

(* "no harness error" for the two calls whose effect on the caller's view depends on a lookup
   outside that view: start_action finds the action object that is current, continue_task finds
   the serialized id.  (Always true of real executions: the current action is a live object and
   an id must have been produced before it can be continued.) *)
Definition ok_op (s : state) (c : nat) (o : op) : bool :=
  match o with
  | OStart _ task _ _ _ =>
      task || match cur s c with
              | Some p => match alookup p (heap s) with Some _ => true | None => false end
              | None => true
              end
  | OContinue _ slot _ => match alookup slot (ids s) with Some _ => true | None => false end
  | _ => true
  end.

Fixpoint run_ok (c : nat) (ops : list (nat * op)) (s : state) : Prop :=
  match ops with
  | [] => True
  | co :: r => (fst co = c -> ok_op s c (snd co) = true) /\ run_ok c r (api cfg (fst co) s (snd co))
  end.

Lemma start_tokof c s h task ty fs sers :
  ok_op s c (OStart h task ty fs sers) = true ->
  tokof (api cfg c s (OStart h task ty fs sers)) h = Some None.
Proof.
  intros Ok. cbn [api]. destruct (start_action_creates c s h task ty fs sers) as (a & E & T & _).
  - cbn [ok_op] in Ok. apply orb_true_iff in Ok. destruct Ok as [Ok|Ok]; [auto|]. right.
    unfold parent_live. destruct (cur s c) as [p|]; [|exact I].
    destruct (alookup p (heap s)); [discriminate | discriminate].
  - unfold tokof. rewrite E. cbn. now rewrite T.
Qed.

Lemma continue_tokof c s h slot fs :
  ok_op s c (OContinue h slot fs) = true ->
  tokof (api cfg c s (OContinue h slot fs)) h = Some None.
Proof.
  cbn [ok_op api]. destruct (alookup slot (ids s)) as [[u l]|]; [intros _ | discriminate].
  rewrite (hrel1_tokof _ _ h (proj2 (start_message_out c _ h fs) h)).
  unfold tokof. cbn. now rewrite alookup_aset_same.
Qed.

(* one call of c itself acts on c's view as a function of that view *)
Lemma api_local H c s t o :
  view_eq H c s t ->
  (forall h, writes_tok o = Some h -> In h H) ->
  ok_op s c o = true -> ok_op t c o = true ->
  view_eq H c (api cfg c s o) (api cfg c t o).
Proof.
  intros (Vc & Vt & Vh) Hin Oks Okt.
  (* handles not written by o *)
  assert (Oth : forall h, In h H -> writes_tok o <> Some h ->
                          tokof (api cfg c s o) h = tokof (api cfg c t o) h).
  { intros h Hh Hw. rewrite !api_tokof_frame by exact Hw. auto. }
  destruct (scoping o) eqn:Sc.
  - destruct o; cbn [scoping] in Sc; try discriminate.
    + (* OEnter *)
      specialize (Vh h (Hin h eq_refl)) as Th.
      unfold tokof in Th.
      destruct (alookup h (heap s)) as [a|] eqn:Es; destruct (alookup h (heap t)) as [b|] eqn:Et;
        try discriminate.
      * destruct (enter_spec c s h a Es) as (C1 & T1 & S1).
        destruct (enter_spec c t h b Et) as (C2 & T2 & S2).
        split; [congruence|]. split; [congruence|]. intros h0 Hh0.
        destruct (Nat.eq_dec h0 h) as [->|Hne]; [congruence|]. apply Oth; cbn; congruence.
      * rewrite (enter_noop c s h Es), (enter_noop c t h Et). repeat split; auto.
    + (* OExit *)
      specialize (Vh h (Hin h eq_refl)) as Th.
      destruct (tokof s h) as [tk|] eqn:Es.
      * symmetry in Th.
        destruct (exit_spec c s h exc tk Es) as (C1 & S1 & T1).
        destruct (exit_spec c t h exc tk Th) as (C2 & S2 & T2).
        split; [congruence|]. split; [congruence|]. intros h0 Hh0.
        destruct (Nat.eq_dec h0 h) as [->|Hne]; [congruence|]. apply Oth; cbn; congruence.
      * symmetry in Th. rewrite (exit_noop c s h exc Es), (exit_noop c t h exc Th).
        split; [auto|]. split; [auto|]. intros h0 Hh0.
        destruct (Nat.eq_dec h0 h) as [->|Hne]; [congruence | auto].
    + (* OCtxEnter *)
      destruct (ctxenter_spec c s h) as (C1 & S1). destruct (ctxenter_spec c t h) as (C2 & S2).
      split; [congruence|]. split; [congruence|]. intros h0 Hh0. apply Oth; cbn; congruence.
    + (* OCtxExit *)
      destruct (tstack s c) as [|v st] eqn:Es.
      * symmetry in Vt. rewrite (ctxexit_noop c s Es), (ctxexit_noop c t Vt).
        split; [auto|]. split; [congruence | auto].
      * symmetry in Vt.
        destruct (ctxexit_spec c s v st Es) as (C1 & S1). destruct (ctxexit_spec c t v st Vt) as (C2 & S2).
        split; [congruence|]. split; [congruence|]. intros h0 Hh0. apply Oth; cbn; congruence.
    + (* OSpawn *)
      cbn [api]. split; [|split].
      * destruct (Nat.eq_dec c' c) as [->|Hne].
        -- now rewrite !cur_set_ctx_same.
        -- now rewrite !cur_set_ctx_other by exact Hne.
      * exact Vt.
      * intros h0 Hh0. apply (Vh h0 Hh0).
  - split; [|split].
    + now rewrite !api_keeps_cur by exact Sc.
    + now rewrite !api_keeps_tstack by exact Sc.
    + intros h0 Hh0. destruct o; try (apply Oth; [exact Hh0 | cbn; congruence]);
        cbn [scoping] in Sc; try discriminate.
      * destruct (Nat.eq_dec h0 h) as [->|Hne]; [|apply Oth; cbn; congruence].
        now rewrite !start_tokof.
      * destruct (Nat.eq_dec h0 h) as [->|Hne]; [|apply Oth; cbn; congruence].
        now rewrite !continue_tokof.
Qed.

(* a call of another context that neither spawns c nor writes the token of one of c's actions
   leaves c's view alone (api_frame + api_tokof_frame) *)
Definition apart (H : list nat) (c : nat) (co : nat * op) : Prop :=
  fst co <> c -> spawn_target (snd co) <> Some c /\ forall h, writes_tok (snd co) = Some h -> ~ In h H.

Definition own_in (H : list nat) (c : nat) (co : nat * op) : Prop :=
  fst co = c -> forall h, writes_tok (snd co) = Some h -> In h H.

Lemma api_apart H c c1 s t o :
  c1 <> c -> spawn_target o <> Some c -> (forall h, writes_tok o = Some h -> ~ In h H) ->
  view_eq H c s t -> view_eq H c (api cfg c1 s o) t.
Proof.
  intros Hc Hs Hw (Vc & Vt & Vh). split; [|split].
  - rewrite api_frame by auto. exact Vc.
  - rewrite api_frame_tstack by auto. exact Vt.
  - intros h Hh. rewrite api_tokof_frame; [auto|]. intros E. exact (Hw h E Hh).
Qed.

Definition proj (c : nat) (ops : list (nat * op)) : list (nat * op) :=
  filter (fun co => Nat.eqb (fst co) c) ops.

(* the values current_action() returned in context c during a run *)
Fixpoint obs (c : nat) (ops : list (nat * op)) (s : state) : list (option nat) :=
  match ops with
  | [] => []
  | co :: r => (if Nat.eqb (fst co) c && is_probe (snd co) then [cur s c] else [])
                 ++ obs c r (api cfg (fst co) s (snd co))
  end.

Definition probes_of (c : nat) (s : state) : list (option nat) :=
  map snd (filter (fun p => Nat.eqb (fst p) c) (probes s)).

Lemma probes_of_run c ops s : probes_of c (run cfg ops s) = probes_of c s ++ obs c ops s.
Proof.
  revert s. induction ops as [|[c1 o] r IH]; intros s; [cbn; now rewrite app_nil_r|].
  rewrite run_cons, IH. cbn [fst snd obs]. rewrite app_assoc. f_equal.
  unfold probes_of. rewrite api_probes, filter_app, map_app. f_equal.
  destruct (is_probe o); [|now rewrite andb_false_r].
  cbn [filter fst]. destruct (Nat.eqb_spec c1 c) as [->|Hne]; reflexivity.
Qed.

Lemma sim_run H c ops : forall s t,
  view_eq H c s t ->
  Forall (apart H c) ops -> Forall (own_in H c) ops ->
  run_ok c ops s -> run_ok c (proj c ops) t ->
  view_eq H c (run cfg ops s) (run cfg (proj c ops) t) /\ obs c ops s = obs c (proj c ops) t.
Proof.
  induction ops as [|[c1 o] r IH]; intros s t V Fa Fo Oks Okt; [cbn; auto|].
  inversion Fa as [|? ? A1 A2]; subst. inversion Fo as [|? ? O1 O2]; subst.
  cbn [run_ok fst snd] in Oks. destruct Oks as [Ok1 Oks].
  unfold proj in *. cbn [filter fst] in *. fold (proj c r) in *. rewrite run_cons. cbn [fst snd obs].
  destruct (Nat.eqb_spec c1 c) as [->|Hne].
  - cbn [run_ok fst snd] in Okt. destruct Okt as [Ok2 Okt].
    rewrite run_cons. cbn [fst snd obs]. rewrite Nat.eqb_refl.
    destruct (IH _ _ (api_local H c s t o V (O1 eq_refl) (Ok1 eq_refl) (Ok2 eq_refl)) A2 O2 Oks Okt)
      as [V' E']. split; [exact V'|]. rewrite E'. destruct V as (-> & _). reflexivity.
  - destruct (A1 Hne) as [Hs Hw]. cbn [fst snd] in *.
    apply (IH _ _ (api_apart H c c1 s t o Hne Hs Hw V) A2 O2 Oks Okt).
Qed.

(* the handles of the actions context c starts / enters / leaves / continues in ops *)
Definition own_handles (c : nat) (ops : list (nat * op)) : list nat :=
  flat_map (fun co => if Nat.eqb (fst co) c
                      then match writes_tok (snd co) with Some h => [h] | None => [] end
                      else []) ops.

Lemma own_in_own_handles c ops : Forall (own_in (own_handles c ops) c) ops.
Proof.
  apply Forall_forall. intros [c1 o] Hin Hc h Hw. cbn [fst snd] in *. subst c1.
  unfold own_handles. apply in_flat_map. exists (c, o). split; [exact Hin|].
  cbn [fst snd]. rewrite Nat.eqb_refl, Hw. now left.
Qed.

(* other contexts never create an asyncio task named c and never start/enter/leave the actions
   c itself starts/enters/leaves ("actions should only be used from a single thread") *)
Definition isolated (c : nat) (ops : list (nat * op)) : Prop :=
  Forall (apart (own_handles c ops) c) ops.

(* a decision procedure for [isolated] *)
Definition apartb (H : list nat) (c : nat) (co : nat * op) : bool :=
  Nat.eqb (fst co) c ||
  (negb (match spawn_target (snd co) with Some c' => Nat.eqb c' c | None => false end) &&
   negb (match writes_tok (snd co) with Some h => existsb (Nat.eqb h) H | None => false end)).

Definition isolatedb (c : nat) (ops : list (nat * op)) : bool :=
  forallb (apartb (own_handles c ops) c) ops.

Lemma apartb_sound H c co : apartb H c co = true -> apart H c co.
Proof.
  unfold apartb, apart. intros B Hne. apply orb_true_iff in B. destruct B as [B|B].
  - apply Nat.eqb_eq in B. contradiction.
  - apply andb_true_iff in B. destruct B as [B1 B2]. apply negb_true_iff in B1, B2. split.
    + destruct (spawn_target (snd co)) as [c'|]; [|discriminate].
      intros E. injection E as ->. now rewrite Nat.eqb_refl in B1.
    + intros h E Hin. rewrite E in B2.
      assert (existsb (Nat.eqb h) H = true); [|congruence].
      apply existsb_exists. exists h. split; [exact Hin | apply Nat.eqb_refl].
Qed.

Lemma isolatedb_sound c ops : isolatedb c ops = true -> isolated c ops.
Proof.
  unfold isolatedb, isolated. intros B. apply Forall_forall. intros co Hin.
  apply apartb_sound. rewrite forallb_forall in B. now apply B.
Qed.

(* C05: under ANY interleaving ops, the sequence of current_action() values context c observes
   is the one it would observe if only its own calls were run -- from the same state, or from
   any state t that agrees with s on c's view *)
Theorem C05_noninterference_gen c ops s t :
  view_eq (own_handles c ops) c s t ->
  isolated c ops -> run_ok c ops s -> run_ok c (proj c ops) t ->
  obs c ops s = obs c (proj c ops) t /\
  cur (run cfg ops s) c = cur (run cfg (proj c ops) t) c.
Proof.
  intros V I Oks Okt.
  destruct (sim_run _ c ops s t V I (own_in_own_handles c ops) Oks Okt) as [(Vc & _) E]. auto.
Qed.

Theorem C05_noninterference c ops s :
  isolated c ops -> run_ok c ops s -> run_ok c (proj c ops) s ->
  probes_of c (run cfg ops s) = probes_of c (run cfg (proj c ops) s).
Proof.
  intros I Oks Okt. rewrite !probes_of_run. f_equal.
  apply C05_noninterference_gen; auto. repeat split; auto.
Qed.

(* two schedules of the same per-context programs: same observations in c *)
Corollary C05_schedule_independent_probes c ops ops' s :
  proj c ops = proj c ops' ->
  isolated c ops -> isolated c ops' ->
  run_ok c ops s -> run_ok c ops' s -> run_ok c (proj c ops) s ->
  probes_of c (run cfg ops s) = probes_of c (run cfg ops' s).
Proof.
  intros P I I' O O' Op. rewrite (C05_noninterference c ops s I O Op).
  rewrite P in *. symmetry. now apply C05_noninterference.
Qed.

(* the two ways a context comes into being: an asyncio task inherits the current action of the
   context that creates it; a context nobody has written to (a new thread) has none *)
Lemma spawn_inherits c c' s : cur (api cfg c s (OSpawn c')) c' = cur s c.
Proof. cbn [api]. apply cur_set_ctx_same. Qed.

Lemma new_context_none (s : state) c : alookup c (ctx s) = None -> cur s c = None.
Proof. unfold cur. now intros ->. Qed.

End Cfg.

(* ====================================================================================== *)
(* Examples: the hypotheses are satisfiable on non-trivial states and the conclusions say  *)
(* something there                                                                         *)
(* ====================================================================================== *)
Module CtxFrameExamples.
(* ValueError < Exception < BaseException; an extractor registered for Exception that raises *)
Definition ex_cfg : config :=
  mk_config [(8%positive, [8%positive; 2%positive; 1%positive])]
            [(2%positive, XRaise (mkExn 9 9%positive 31%positive false))].
Definition ex_e : exn := mkExn 1 8%positive 30%positive false.
Definition ex_ty : val := VTypeName 10%positive.
(* one destination that always raises, one that never does *)
Definition ex_dests : list dest := [mk_dest 0 BAlways ex_e; mk_dest 1 BNever ex_e].

(* context 0 inside `with action 1`, context 1 inside `action2.context()`, asyncio task 2
   created by 0 *)
Definition ex_s : state :=
  run ex_cfg [(0, OAddDests ex_dests); (0, OStart 1 false ex_ty [] None); (0, OEnter 1);
              (1, OStart 2 false ex_ty [] None); (1, OCtxEnter 2); (0, OSpawn 2)] init_state.

Example ex_s_shape :
  ctx ex_s = [(0, Some 1); (1, Some 2); (2, Some 1)] /\ tokens ex_s = [(1, [None])] /\
  tokof ex_s 1 = Some (Some None) /\ tokof ex_s 2 = Some None.
Proof. vm_compute. auto. Qed.

(* output functions: a traceback written in context 1 while a destination fails and the
   extractor raises: positions of action 2 are consumed, nothing else of the scoping state moves *)
Example out_rel_example :
  out_rel ex_s (write_traceback ex_cfg 1 ex_s ex_e) /\
  option_map a_last (alookup 2 (heap ex_s)) = Some 1 /\
  option_map a_last (alookup 2 (heap (write_traceback ex_cfg 1 ex_s ex_e))) = Some 5.
Proof. split; [apply write_traceback_out | vm_compute; auto]. Qed.

(* api_frame: context 0 leaves its with-block with an exception (end message, failing
   destination, raising extractor): its own current action changes, those of 1 and 2 do not *)
Example api_frame_example :
  1 <> 0 /\ spawn_target (OExit 1 (Some ex_e)) <> Some 1 /\
  cur ex_s 0 = Some 1 /\ cur (api ex_cfg 0 ex_s (OExit 1 (Some ex_e))) 0 = None /\
  cur (api ex_cfg 0 ex_s (OExit 1 (Some ex_e))) 1 = Some 2 /\
  cur (api ex_cfg 0 ex_s (OExit 1 (Some ex_e))) 2 = Some 1.
Proof. repeat split; try discriminate; vm_compute; reflexivity. Qed.

(* the OSpawn side condition is needed: creating task 2 from context 1 does change cur _ 2 *)
Example api_frame_spawn_refuted :
  exists cfg c c' s o, c' <> c /\ cur (api cfg c s o) c' <> cur s c'.
Proof. exists ex_cfg, 1, 2, ex_s, (OSpawn 2). split; [discriminate | vm_compute; discriminate]. Qed.

Example spawn_inherits_example :
  cur ex_s 0 = Some 1 /\ cur (api ex_cfg 0 ex_s (OSpawn 7)) 7 = Some 1 /\
  alookup 7 (ctx ex_s) = None /\ cur ex_s 7 = None.
Proof. vm_compute. auto. Qed.

(* an interleaving of the three contexts *)
Definition ex_sched : list (nat * op) :=
  [(0, OProbe); (1, OProbe); (1, OStart 3 false ex_ty [] None); (0, OLog ex_ty [] None);
   (1, OEnter 3); (2, OProbe); (1, OProbe); (0, OExit 1 (Some ex_e)); (2, OCtxEnter 1);
   (0, OProbe); (1, OExit 3 None); (2, OProbe); (1, OProbe); (2, OCtxExit); (1, OCtxExit);
   (2, OProbe); (1, OFinish 2 None); (1, OProbe)].

(* run_frame: the calls of contexts 0 and 2 never move context 1 *)
Example run_frame_example :
  Forall (foreign 1) (filter (fun co => negb (Nat.eqb (fst co) 1)) ex_sched) /\
  cur (run ex_cfg (filter (fun co => negb (Nat.eqb (fst co) 1)) ex_sched) ex_s) 1 = Some 2 /\
  cur (run ex_cfg (filter (fun co => negb (Nat.eqb (fst co) 1)) ex_sched) ex_s) 0 = None.
Proof.
  split; [|vm_compute; auto].
  cbn. repeat constructor; cbn; try discriminate.
Qed.

(* run_tokof_frame: nobody but context 0 touches action 1's saved token *)
Example run_tokof_frame_example :
  Forall (tok_foreign 1) (proj 1 ex_sched ++ proj 2 ex_sched) /\
  tokof (run ex_cfg (proj 1 ex_sched ++ proj 2 ex_sched) ex_s) 1 = Some (Some None).
Proof.
  split; [|vm_compute; auto].
  cbn. repeat constructor; unfold tok_foreign; cbn; discriminate.
Qed.

(* C05_noninterference on that schedule, for context 1 *)
Example noninterference_hyps :
  isolated 1 ex_sched /\ run_ok ex_cfg 1 ex_sched ex_s /\ run_ok ex_cfg 1 (proj 1 ex_sched) ex_s /\
  own_handles 1 ex_sched = [3; 3; 3] /\
  probes_of 1 (run ex_cfg ex_sched ex_s) = [Some 2; Some 3; Some 2; None].
Proof.
  split; [|split; [|split; [|split]]].
  - apply isolatedb_sound. vm_compute. reflexivity.
  - vm_compute. intuition.
  - vm_compute. intuition.
  - reflexivity.
  - vm_compute. reflexivity.
Qed.

Example noninterference_example :
  probes_of 1 (run ex_cfg ex_sched ex_s) = probes_of 1 (run ex_cfg (proj 1 ex_sched) ex_s).
Proof. apply C05_noninterference; apply noninterference_hyps. Qed.

(* [isolated] is needed: an action shared between threads leaks.  Context 0 enters action 2
   (`with`) while context 1 is inside it: its _parent_token is overwritten and on exit context 1
   finds itself in context 0's action 1. *)
Example C05_shared_action_refuted :
  exists cfg c ops s,
    run_ok cfg c ops s /\ run_ok cfg c (proj c ops) s /\
    probes_of c (run cfg ops s) <> probes_of c (run cfg (proj c ops) s).
Proof.
  exists ex_cfg, 1,
    [(1, OStart 3 true ex_ty [] None); (1, OEnter 3); (0, OEnter 3); (1, OExit 3 None); (1, OProbe)], ex_s.
  split; [vm_compute; intuition|]. split; [vm_compute; intuition|]. vm_compute. discriminate.
Qed.

(* [run_ok] is needed (model artefact: a call naming an object that does not exist is a no-op):
   alone, context 1 would start a child of an action nobody has created *)
Example C05_missing_parent_refuted :
  exists cfg c ops s,
    isolated c ops /\
    probes_of c (run cfg ops s) <> probes_of c (run cfg (proj c ops) s).
Proof.
  exists ex_cfg, 1,
    [(0, OStart 5 true ex_ty [] None); (1, OCtxEnter 5); (1, OStart 6 false ex_ty [] None);
     (1, OEnter 6); (1, OProbe)], init_state.
  split; [|vm_compute; discriminate].
  apply isolatedb_sound. vm_compute. reflexivity.
Qed.
End CtxFrameExamples.

Print Assumptions api_frame.
Print Assumptions run_frame.
Print Assumptions run_tokof_frame.
Print Assumptions C05_noninterference.
Print Assumptions C05_schedule_independent_probes.
Print Assumptions CtxFrameExamples.noninterference_example.
