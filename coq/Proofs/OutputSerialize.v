(* C13: _MessageSerializer.serialize and Logger.write.
   Field serializers are arbitrary functions val -> result val (so non-idempotent ones
   are covered); a serializer's declared keys are distinct (_MessageSerializer.__init__
   raises ValueError("Duplicate field name") otherwise). *)
From Coq Require Import List PArith NArith ZArith Bool Arith Lia.
Require Import Eliot.Base.Level Eliot.Model.Core Eliot.Model.Prog Eliot.Proofs.CoreBasics
               Eliot.Proofs.OutputProofs.
Import ListNotations.

(* ---- serialize ------------------------------------------------------------------ *)
(* every declared field is present and its serializer accepts the LOGGED value *)
Definition all_fields_ok (sr : mser) (m : msg) : Prop :=
  forall k f, In (k, f) sr -> exists v v', fget k m = Some v /\ f v = Ok v'.

(* m' maps each declared key to its serializer applied once to the logged value, and
   agrees with m everywhere else *)
Definition serialized_once (sr : mser) (m m' : msg) : Prop :=
  (forall k f, In (k, f) sr -> exists v v', fget k m = Some v /\ f v = Ok v' /\ fget k m' = Some v') /\
  (forall k, ~ In k (map fst sr) -> fget k m' = fget k m).

Lemma serialize_ok sr : forall m m',
  NoDup (map fst sr) -> serialize sr m = Ok m' -> serialized_once sr m m'.
Proof.
  induction sr as [|[k f] r IH]; intros m m' ND H.
  - cbn in H. injection H as <-. split; [intros k f []|reflexivity].
  - cbn [map fst] in ND. inversion ND as [|? ? Hk ND']; subst. cbn [serialize] in H.
    destruct (fget k m) as [v|] eqn:Ev; [|discriminate].
    destruct (f v) as [v'|e] eqn:Ef; [|discriminate].
    destruct (IH _ _ ND' H) as [I1 I2]. split.
    + intros k0 f0 [E|I].
      * injection E as <- <-. exists v, v'. repeat split; auto.
        rewrite (I2 k Hk). apply fget_fset_same.
      * destruct (I1 _ _ I) as (v0 & v0' & A & B & C). exists v0, v0'. repeat split; auto.
        rewrite <- A. symmetry. apply fget_fset_other.
        intros ->. apply Hk. change k0 with (fst (k0, f0)). now apply in_map.
    + intros k0 N. cbn [map fst] in N. rewrite I2 by (intros X; apply N; now right).
      apply fget_fset_other. intros ->. apply N. now left.
Qed.

Lemma serialize_succeeds sr : forall m,
  NoDup (map fst sr) -> all_fields_ok sr m -> exists m', serialize sr m = Ok m'.
Proof.
  induction sr as [|[k f] r IH]; intros m ND H; [now exists m|].
  cbn [map fst] in ND. inversion ND as [|? ? Hk ND']; subst. cbn [serialize].
  destruct (H k f (or_introl eq_refl)) as (v & v' & -> & ->).
  apply IH; [exact ND'|]. intros k0 f0 I.
  destruct (H k0 f0 (or_intror I)) as (v0 & v0' & A & B). exists v0, v0'. split; [|exact B].
  rewrite <- A. apply fget_fset_other.
  intros ->. apply Hk. change k0 with (fst (k0, f0)). now apply in_map.
Qed.

(* C13.4 *)
Theorem serialize_spec sr m :
  NoDup (map fst sr) ->
  ((exists m', serialize sr m = Ok m') <-> all_fields_ok sr m) /\
  (forall m', serialize sr m = Ok m' -> serialized_once sr m m').
Proof.
  intros ND. split; [split|].
  - intros (m' & H) k f I. destruct (serialize_ok sr m m' ND H) as [I1 _].
    destruct (I1 k f I) as (v & v' & A & B & _). eauto.
  - now apply serialize_succeeds.
  - intros m' H. now apply serialize_ok.
Qed.

(* failure: the first declared field (in declaration order) that is missing or whose
   serializer raises determines the exception; everything before it was fine *)
Theorem serialize_err_spec sr : forall m e,
  NoDup (map fst sr) -> serialize sr m = Err e ->
  exists pre k f suf,
    sr = pre ++ (k, f) :: suf /\ all_fields_ok pre m /\
    ((fget k m = None /\ e = key_error k) \/ (exists v, fget k m = Some v /\ f v = Err e)).
Proof.
  induction sr as [|[k f] r IH]; intros m e ND H; [discriminate|].
  cbn [map fst] in ND. inversion ND as [|? ? Hk ND']; subst. cbn [serialize] in H.
  destruct (fget k m) as [v|] eqn:Ev.
  2:{ injection H as <-. exists [], k, f, r. split; [reflexivity|]. split; [intros ? ? []|]. now left. }
  destruct (f v) as [v'|e'] eqn:Ef.
  2:{ injection H as <-. exists [], k, f, r. split; [reflexivity|]. split; [intros ? ? []|].
      right. eauto. }
  destruct (IH _ _ ND' H) as (pre & k1 & f1 & suf & -> & P & Q).
  assert (Hne : forall k0 f0, In (k0, f0) (pre ++ (k1, f1) :: suf) -> k <> k0).
  { intros k0 f0 I ->. apply Hk. change k0 with (fst (k0, f0)). now apply in_map. }
  exists ((k, f) :: pre), k1, f1, suf. split; [reflexivity|]. split.
  - intros k0 f0 [E|I].
    + injection E as <- <-. eauto.
    + destruct (P _ _ I) as (v0 & v0' & A & B). exists v0, v0'. split; [|exact B].
      rewrite <- A. symmetry. apply fget_fset_other. apply (Hne k0 f0). apply in_or_app. now left.
  - assert (N1 : k <> k1) by (apply (Hne k1 f1); apply in_or_app; right; now left).
    rewrite (fget_fset_other _ _ _ _ N1) in Q. exact Q.
Qed.

(* a non-idempotent serializer: the delivered value is f(v), not f(f(v)) *)
Definition ex_sr : mser := mk_ser [(11%positive, FSucc ex_exA); (12%positive, FDouble ex_exA)].
Definition ex_typed : msg :=
  mkfields [(K_mtype, VAtom 20%positive); (11%positive, VInt 5); (12%positive, VInt 7); (13%positive, VInt 9)].

Example serialize_spec_ex :
  NoDup (map fst ex_sr) /\
  exists m', serialize ex_sr ex_typed = Ok m' /\
    fget 11%positive m' = Some (VInt 6) /\ fget 12%positive m' = Some (VInt 14) /\
    fget 13%positive m' = Some (VInt 9) /\ fget K_mtype m' = Some (VAtom 20%positive).
Proof.
  split.
  - repeat constructor; cbn; intuition discriminate.
  - eexists. split; [vm_compute; reflexivity|]. repeat split.
Qed.

(* with a key declared twice the serializer would be applied twice: the distinctness
   of the declared keys (enforced by _MessageSerializer.__init__) is needed *)
Example serialize_spec_duplicate_key_refuted :
  let sr := mk_ser [(11%positive, FSucc ex_exA); (11%positive, FSucc ex_exA)] in
  exists m', serialize sr ex_typed = Ok m' /\ fget 11%positive m' = Some (VInt 7) /\
             ~ serialized_once sr ex_typed m'.
Proof.
  eexists. split; [vm_compute; reflexivity|]. split; [reflexivity|].
  intros [I1 _]. destruct (I1 11%positive (ser_fn (FSucc ex_exA)) (or_introl eq_refl)) as (v & v' & A & B & C).
  vm_compute in A. injection A as <-. vm_compute in B. injection B as <-. vm_compute in C. discriminate C.
Qed.

Example serialize_err_spec_ex :
  (* field 12 holds a non-integer: FDouble raises; field 11 before it was fine *)
  let m := mkfields [(11%positive, VInt 5); (12%positive, VAtom 3%positive)] in
  serialize ex_sr m = Err ex_exA /\
  (* field 11 missing: KeyError(11) although field 12 would fail too *)
  serialize ex_sr (mkfields [(12%positive, VAtom 3%positive)]) = Err (key_error 11%positive).
Proof. split; reflexivity. Qed.

(* ---- Logger.write ------------------------------------------------------------------ *)
Section Cfg.
Variable cfg : config.

(* success: what is handed on is the serialized copy (plus global fields); with the
   destinations registered every one of them is offered it, followed by the reports of
   the destinations that failed on it *)
Theorem C13_delivered_once c s m sr m1 :
  NoDup (map fst sr) -> serialize sr m = Ok m1 -> any_added s = true ->
  logger_write cfg c s m (Some sr) = send c s m1 /\
  serialized_once sr m m1 /\
  exists reports,
    ext (fupdate m1 (globals s) :: reports) s (logger_write cfg c s m (Some sr)) /\
    (forall k, fget k (globals s) = None -> fget k (fupdate m1 (globals s)) = fget k m1).
Proof.
  intros ND H A. unfold logger_write. rewrite H. split; [reflexivity|].
  split; [now apply serialize_ok|].
  destruct (send_emits c s m1) as (rs & E & _). exists rs. split; [apply (emits_ext _ _ _ A E)|].
  intros k G. now apply fget_fupdate_none.
Qed.

(* C13.5: failure, as an equation ... *)
Theorem logger_write_failure_contained c s m sr e :
  serialize sr m = Err e ->
  logger_write cfg c s m (Some sr) =
    (let s1 := write_traceback cfg c s e in
     let '(s3, fm) := stamp_here s1 c (VTypeName T_serialization_failure)
                        (fset K_message (render_of m) []) in
     send c s3 fm).
Proof. intros H. unfold logger_write. now rewrite H. Qed.

(* ... and as what the destinations see: the traceback of the serializer's exception
   (preceded by the traceback of a failing exception extractor, if the one registered
   for that exception's class raises), then eliot:serialization_failure, each followed
   by the reports of the destinations failing on it -- and nothing else, in particular
   not the message itself *)
Theorem C13_failure_contained c s m sr e :
  serialize sr m = Err e -> any_added s = true -> fget K_mtype (globals s) = None ->
  exists l,
    ext l s (logger_write cfg c s m (Some sr)) /\
    shape (extractor_tb cfg e ++ [Some (VTypeName T_traceback); Some (VTypeName T_serialization_failure)]) l.
Proof.
  intros H A G. destruct (logger_write_shape cfg c s m (Some sr) G) as (l & E & S).
  unfold written_types in S. rewrite H in S. exists l. split; [apply (emits_ext _ _ _ A E) | exact S].
Qed.

(* the serialization_failure message itself: stamped at some position of the current
   context, carrying the rendering of the message that could not be serialized *)
Theorem C13_failure_message c s m sr e :
  serialize sr m = Err e -> any_added s = true -> fget K_mtype (globals s) = None ->
  exists l1 u lv rs,
    ext (l1 ++ fupdate (stamp u lv (VTypeName T_serialization_failure)
                          (fset K_message (render_of m) [])) (globals s) :: rs)
        s (logger_write cfg c s m (Some sr)) /\
    shape (extractor_tb cfg e ++ [Some (VTypeName T_traceback)]) l1 /\ Forall rep_msg rs.
Proof.
  intros H A G. rewrite (logger_write_failure_contained c s m sr e H). cbv zeta.
  destruct (write_traceback_shape cfg c s e G) as (l1 & H1 & S1).
  set (s1 := write_traceback cfg c s e) in *.
  match goal with |- context [stamp_here s1 c ?mt ?fs] =>
    pose proof (stamp_here_emits s1 c mt fs) as (H2 & u & lv & Hm);
    destruct (stamp_here s1 c mt fs) as [s3 fm] end.
  cbn [fst snd] in *. subst fm.
  match goal with |- context [send c s3 ?fm] =>
    destruct (send_emits c s3 fm) as (rs & H3 & _ & _ & P) end.
  assert (G3 : globals s3 = globals s)
    by now rewrite (emits_globals _ _ _ H2), (emits_globals _ _ _ H1).
  rewrite G3 in H3, P. exists l1, u, lv, rs. split; [|split; [exact S1 | exact (P G)]].
  apply (emits_ext _ _ _ A). eapply emits_trans; [exact H1|].
  change (?x :: rs) with ([] ++ x :: rs). eapply emits_trans; eassumption.
Qed.

Lemma extractor_tb_cases e :
  extractor_tb cfg e = [] \/ extractor_tb cfg e = [Some (VTypeName T_traceback)].
Proof. unfold extractor_tb. destruct (first_registered _ _) as [[|]|]; auto. Qed.

Corollary C13_failure_contained_types c s m sr e :
  serialize sr m = Err e -> any_added s = true -> fget K_mtype (globals s) = None ->
  exists l,
    ext l s (logger_write cfg c s m (Some sr)) /\
    Forall (fun x => fget K_mtype x = Some (VTypeName T_traceback) \/
                     fget K_mtype x = Some (VTypeName T_serialization_failure) \/
                     fget K_mtype x = Some (VTypeName T_destination_failure)) l /\
    map (fget K_mtype) (nonreports l) =
      extractor_tb cfg e ++ [Some (VTypeName T_traceback); Some (VTypeName T_serialization_failure)].
Proof.
  intros H A G. destruct (C13_failure_contained c s m sr e H A G) as (l & E & S).
  exists l. split; [exact E|]. split.
  - eapply Forall_impl; [|exact (shape_types _ _ S)]. intros x [I|R]; [|now right; right].
    apply in_app_or in I. destruct I as [I|[I|[I|[]]]]; auto.
    destruct (extractor_tb_cases e) as [X|X]; rewrite X in I; [destruct I|].
    destruct I as [I|[]]; auto.
  - apply shape_nonreports; [exact S|]. intros I. apply in_app_or in I.
    destruct I as [I|[I|[I|[]]]]; try discriminate.
    destruct (extractor_tb_cases e) as [X|X]; rewrite X in I; [destruct I|].
    destruct I as [I|[]]; discriminate.
Qed.

(* the usual case -- no raising extractor is registered for the serializer's exception:
   exactly one traceback and one serialization_failure, in that order *)
Corollary C13_failure_contained_exactly c s m sr e :
  serialize sr m = Err e -> any_added s = true -> fget K_mtype (globals s) = None ->
  (forall e', first_registered (registry cfg) (mro_of cfg (e_cls e)) <> Some (XRaise e')) ->
  exists l,
    ext l s (logger_write cfg c s m (Some sr)) /\
    map (fget K_mtype) (nonreports l) =
      [Some (VTypeName T_traceback); Some (VTypeName T_serialization_failure)].
Proof.
  intros H A G X. destruct (C13_failure_contained_types c s m sr e H A G) as (l & E & _ & N).
  exists l. split; [exact E|]. rewrite N. unfold extractor_tb.
  destruct (first_registered _ _) as [[|e']|]; try reflexivity. now destruct (X e').
Qed.

(* C13.6: no serializer, no failing destination: the destinations get the caller's
   dictionary plus the global fields -- a value, the caller's own m is not touched --
   and nothing else observable changes *)
Theorem logger_write_caller_untouched c s m :
  any_added s = true ->
  flat_map (failure_of (fupdate m (globals s))) (dests s) = [] ->
  let s' := logger_write cfg c s m None in
  ext [fupdate m (globals s)] s s' /\
  heap s' = heap s /\ ctx s' = ctx s /\ tokens s' = tokens s /\ next_uuid s' = next_uuid s /\
  buffer s' = buffer s /\ ids s' = ids s /\ probes s' = probes s.
Proof. intros A F. exact (send_no_failure_observable c s m A F). Qed.

End Cfg.

(* the typed message with a failing serializer, three destinations of which two fail *)
Definition ex_bad : msg := mkfields [(K_mtype, VAtom 20%positive); (11%positive, VInt 5); (12%positive, VAtom 3%positive)].

Example C13_delivered_once_ex :
  map d_log (dests (logger_write ex_cfg 0 ex_s3 ex_typed (Some ex_sr))) <> map d_log (dests ex_s3) /\
  exists x r1 r2,
    map d_log (dests (logger_write ex_cfg 0 ex_s3 ex_typed (Some ex_sr))) = [[x; r1; r2]; [x; r1; r2]; [x; r1; r2]] /\
    fget 11%positive x = Some (VInt 6) /\ fget 12%positive x = Some (VInt 14) /\ fget 13%positive x = Some (VInt 9).
Proof.
  split; [discriminate|]. do 3 eexists. split; [vm_compute; reflexivity|]. repeat split.
Qed.

Example C13_failure_contained_ex :
  serialize ex_sr ex_bad = Err ex_exA /\ any_added ex_s3 = true /\ fget K_mtype (globals ex_s3) = None /\
  map (map (fget K_mtype)) (map d_log (dests (logger_write ex_cfg 0 ex_s3 ex_bad (Some ex_sr)))) =
    let l := [Some (VTypeName T_traceback); Some (VTypeName T_destination_failure); Some (VTypeName T_destination_failure);
              Some (VTypeName T_serialization_failure); Some (VTypeName T_destination_failure)] in
    [l; l; l].
Proof. repeat split. Qed.

(* a raising extractor registered for the serializer's exception class: two tracebacks;
   "exactly one traceback" needs the hypothesis of C13_failure_contained_exactly *)
Definition ex_cfg_x : config := mk_config [] [(C_Exception, XRaise ex_exB)].

Example C13_failure_one_traceback_refuted :
  serialize ex_sr ex_bad = Err ex_exA /\
  let s := api ex_cfg_x 0 init_state (OAddDests [mk_dest 0 BNever ex_exA]) in
  map (map (fget K_mtype)) (map d_log (dests (logger_write ex_cfg_x 0 s ex_bad (Some ex_sr)))) =
    [[Some (VTypeName T_traceback); Some (VTypeName T_traceback); Some (VTypeName T_serialization_failure)]].
Proof. split; reflexivity. Qed.

Example logger_write_caller_untouched_ex :
  let s := api ex_cfg 0 init_state (OAddDests [mk_dest 0 BNever ex_exA; mk_dest 1 (BMask [false; true]) ex_exA]) in
  let s1 := api ex_cfg 0 s (OAddGlobals [(14%positive, VInt 1)]) in
  flat_map (failure_of (fupdate ex_typed (globals s1))) (dests s1) = [] /\
  map d_log (dests (logger_write ex_cfg 0 s1 ex_typed None)) =
    [[fset 14%positive (VInt 1) ex_typed]; [fset 14%positive (VInt 1) ex_typed]].
Proof. split; reflexivity. Qed.

Example C13_failure_message_ex :
  exists d tb r1 r2 sf r3,
    nth_error (dests (logger_write ex_cfg 0 ex_s3 ex_bad (Some ex_sr))) 0 = Some d /\
    d_log d = [tb; r1; r2; sf; r3] /\
    fget K_mtype sf = Some (VTypeName T_serialization_failure) /\
    fget K_message sf = Some (render_of ex_bad) /\
    fget K_exception tb = Some (VClassName (e_cls ex_exA)) /\ fget K_reason tb = Some (safe_str ex_exA).
Proof. do 6 eexists. split; [vm_compute; reflexivity|]. split; [reflexivity|]. repeat split. Qed.

(* with a global field named message_type the containment itself is unchanged (the same
   five messages, the message itself not among them, nothing reported about reports), but
   every delivered message carries the overriding type: the statements about delivered
   message_type values need fget K_mtype (globals s) = None *)
Example C13_failure_contained_global_mtype_ex :
  fget K_mtype (globals ex_s3g) = Some (VAtom 21%positive) /\
  map (@length msg) (map d_log (dests (logger_write ex_cfg 0 ex_s3g ex_bad (Some ex_sr)))) = [5; 5; 5] /\
  (exists d, nth_error (dests (logger_write ex_cfg 0 ex_s3g ex_bad (Some ex_sr))) 0 = Some d /\
     map (fget K_mtype) (d_log d) = repeat (Some (VAtom 21%positive)) 5 /\
     map (fget K_traceback) (d_log d) = [Some VTb; None; None; None; None] /\
     map (fget K_message) (d_log d) =
       [None; Some (VRender (Some 0) (Some [1%positive])); Some (VRender (Some 0) (Some [1%positive]));
        Some (render_of ex_bad); Some (VRender (Some 3) (Some [1%positive]))]).
Proof. split; [reflexivity|]. split; [reflexivity|]. eexists. split; [vm_compute; reflexivity|]. repeat split. Qed.
