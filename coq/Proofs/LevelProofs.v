(* Proofs about Base/Level.v: decimal and task-id round trips. *)
From Coq Require Import List PArith NArith Ascii String Bool Lia Decimal DecimalString DecimalPos DecimalFacts.
Require Import Eliot.Base.Level.
Import ListNotations.

Definition is_digit (c : ascii) : bool :=
  existsb (Ascii.eqb c) ["0";"1";"2";"3";"4";"5";"6";"7";"8";"9"]%char.

Lemma string_of_uint_digits d :
  forallb is_digit (list_ascii_of_string (NilEmpty.string_of_uint d)) = true.
Proof. induction d; cbn [NilEmpty.string_of_uint list_ascii_of_string forallb]; auto. Qed.

Lemma dec_digits p : forallb is_digit (dec p) = true.
Proof. apply string_of_uint_digits. Qed.

Lemma to_uint_nonnil p : Pos.to_uint p <> Nil.
Proof. apply Unsigned.to_uint_nonnil. Qed.

Lemma dec_nonempty p : nonempty (dec p) = true.
Proof.
  unfold dec. pose proof (to_uint_nonnil p) as H.
  destruct (Pos.to_uint p); try reflexivity. congruence.
Qed.

Lemma undec_dec p : undec (dec p) = Some p.
Proof.
  unfold undec, dec. rewrite string_of_list_ascii_of_string, NilEmpty.usu.
  rewrite Unsigned.of_to. reflexivity.
Qed.

Definition no_char (c : ascii) (s : str) : Prop := forallb (fun x => negb (Ascii.eqb x c)) s = true.

Lemma digits_no_char c s : is_digit c = false -> forallb is_digit s = true -> no_char c s.
Proof.
  intros Hc. unfold no_char. induction s as [|x s IH]; cbn [forallb]; auto.
  intros H. apply andb_true_iff in H as [Hx Hs]. rewrite IH by exact Hs.
  destruct (Ascii.eqb_spec x c) as [->|]; [congruence | reflexivity].
Qed.

Lemma dec_no_slash p : no_char slash (dec p).
Proof. apply digits_no_char; [reflexivity | apply dec_digits]. Qed.
Lemma dec_no_at p : no_char at_sign (dec p).
Proof. apply digits_no_char; [reflexivity | apply dec_digits]. Qed.

Lemma split_on_nosep sep a cur : no_char sep a -> split_on sep a cur = [cur ++ a].
Proof.
  revert cur. induction a as [|x a IH]; intros cur H; cbn [split_on].
  - now rewrite List.app_nil_r.
  - unfold no_char in H. cbn [forallb] in H. apply andb_true_iff in H as [Hx Ha].
    destruct (Ascii.eqb x sep); [discriminate|].
    rewrite IH by exact Ha. now rewrite <- List.app_assoc.
Qed.

Lemma split_on_app sep a r cur :
  no_char sep a -> split_on sep (a ++ sep :: r) cur = (cur ++ a) :: split_on sep r [].
Proof.
  revert cur. induction a as [|x a IH]; intros cur H; cbn [split_on List.app].
  - rewrite Ascii.eqb_refl, List.app_nil_r. reflexivity.
  - unfold no_char in H. cbn [forallb] in H. apply andb_true_iff in H as [Hx Ha].
    destruct (Ascii.eqb x sep); [discriminate|].
    rewrite IH by exact Ha. now rewrite <- List.app_assoc.
Qed.

(* splitting the joined decimal segments gives the segments back *)
Lemma split_join_dec l p cur :
  split_on slash (join slash (map dec (p :: l))) cur = (cur ++ dec p) :: map dec l.
Proof.
  revert p cur. induction l as [|q l IH]; intros p cur.
  - cbn [map join]. apply split_on_nosep, dec_no_slash.
  - change (join slash (map dec (p :: q :: l)))
      with (dec p ++ slash :: join slash (map dec (q :: l))).
    rewrite split_on_app by apply dec_no_slash.
    rewrite IH. reflexivity.
Qed.

Lemma filter_nonempty_dec l : filter nonempty (map dec l) = map dec l.
Proof.
  induction l as [|p l IH]; cbn [map filter]; auto.
  now rewrite dec_nonempty, IH.
Qed.

Lemma all_some_undec_dec l : all_some (map undec (map dec l)) = Some l.
Proof.
  induction l as [|p l IH]; cbn [map all_some]; auto.
  now rewrite undec_dec, IH.
Qed.

Theorem level_string_roundtrip l : from_string (to_string l) = Some l.
Proof.
  unfold from_string, to_string, split. cbn [split_on].
  change (Ascii.eqb slash slash) with true. cbn iota.
  destruct l as [|p l]; [reflexivity|].
  rewrite split_join_dec. cbn [List.app filter nonempty].
  rewrite dec_nonempty, filter_nonempty_dec.
  change (dec p :: map dec l) with (map dec (p :: l)).
  apply all_some_undec_dec.
Qed.

Lemma join_dec_no_at l : no_char at_sign (join slash (map dec l)).
Proof.
  induction l as [|p l IH]; [reflexivity|].
  destruct l as [|q l].
  - cbn [map join]. apply dec_no_at.
  - change (join slash (map dec (p :: q :: l)))
      with (dec p ++ slash :: join slash (map dec (q :: l))).
    unfold no_char in *. rewrite forallb_app. cbn [forallb].
    rewrite (dec_no_at p), IH. reflexivity.
Qed.

Lemma to_string_no_at l : no_char at_sign (to_string l).
Proof.
  unfold to_string, no_char. cbn [forallb].
  pose proof (join_dec_no_at l) as H. unfold no_char in H. now rewrite H.
Qed.

(* serialize_task_id / continue_task: the id decodes to the uuid and level it
   was made from, provided the uuid itself contains no "@" (uuid4 text) *)
Theorem task_id_roundtrip u l : no_char at_sign u -> parse_id (make_id u l) = Some (u, l).
Proof.
  intros Hu. unfold parse_id, make_id, split.
  rewrite split_on_app by exact Hu.
  rewrite split_on_nosep by apply to_string_no_at.
  cbn [List.app]. now rewrite level_string_roundtrip.
Qed.

(* distinct levels have distinct ids: ids are injective in (uuid, level) *)
Theorem task_id_injective u l u' l' :
  no_char at_sign u -> no_char at_sign u' -> make_id u l = make_id u' l' -> u = u' /\ l = l'.
Proof.
  intros Hu Hu' E. pose proof (task_id_roundtrip u l Hu) as A.
  rewrite E, (task_id_roundtrip u' l' Hu') in A. now inversion A.
Qed.

Example roundtrip_nonvacuous :
  parse_id (make_id (list_ascii_of_string "6f1e-aa") [2;13;1]%positive)
  = Some (list_ascii_of_string "6f1e-aa", [2;13;1]%positive).
Proof. reflexivity. Qed.
