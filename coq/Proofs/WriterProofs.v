(* C19 — ThreadedWriter: FIFO hand-over to one reader thread per cycle, stop waits, faults are local.
   All statements quantify over every failure mask, every list of producers, any number of
   start/stop cycles and every schedule (list of thread ids). *)
From Coq Require Import List Arith Bool Lia Permutation.
Require Import Eliot.Model.Writer.
Import ListNotations.

(* ------------------------------------------------------------------ lists *)
Lemma puts_app a b : puts (a ++ b) = puts a ++ puts b.
Proof. apply flat_map_app. Qed.
Lemma taken_app a b : taken (a ++ b) = taken a ++ taken b.
Proof. apply flat_map_app. Qed.
Lemma calls_app a b : calls (a ++ b) = calls a ++ calls b.
Proof. apply flat_map_app. Qed.
Lemma put_by_app i a b : put_by i (a ++ b) = put_by i a ++ put_by i b.
Proof. apply flat_map_app. Qed.
Lemma msgs_app a b : msgs (a ++ b) = msgs a ++ msgs b.
Proof. apply flat_map_app. Qed.

Lemma count_stop_app a b : count_stop (a ++ b) = count_stop a + count_stop b.
Proof. induction a as [|[m|] a IH]; cbn; auto. Qed.

Lemma attrib_app a b n : attrib (a ++ b) n = attrib a n ++ attrib b (n + count_stop a).
Proof.
  revert n. induction a as [|[m|] a IH]; intros n; cbn.
  - now rewrite Nat.add_0_r.
  - now rewrite IH.
  - rewrite IH. now rewrite Nat.add_succ_r.
Qed.

Lemma attrib_fst l n : map fst (attrib l n) = msgs l.
Proof. revert n. induction l as [|[m|] l IH]; intros n; cbn; auto. now rewrite IH. Qed.

Lemma attrib_nostop l n : count_stop l = 0 -> attrib l n = map (fun m => (m, n)) (msgs l).
Proof. induction l as [|[m|] l IH]; cbn; intros H; auto; [now rewrite IH | discriminate]. Qed.

Lemma snoc_split {A} (a : list A) e t1 x t2 :
  a ++ [e] = t1 ++ x :: t2 ->
  (t2 = [] /\ a = t1 /\ e = x) \/ (exists t2', t2 = t2' ++ [e] /\ a = t1 ++ x :: t2').
Proof.
  intros H. destruct t2 as [|z t2 _] using rev_ind.
  - left. apply app_inj_tail in H. destruct H; subst; auto.
  - right. exists t2. rewrite app_comm_cons, app_assoc in H. apply app_inj_tail in H as [H1 H2]. subst. auto.
Qed.

(* a STOP inside [a ++ b] lies in [a] when [b] has none *)
Lemma stop_in_prefix l1 l2 a b :
  l1 ++ Stop :: l2 = a ++ b -> count_stop b = 0 -> exists r, a = l1 ++ Stop :: r.
Proof.
  revert a. induction l1 as [|x l1 IH]; intros a H Hb.
  - destruct a as [|y a].
    + cbn in H. subst b. cbn in Hb. discriminate.
    + cbn in H. inversion H; subst. now exists a.
  - destruct a as [|y a].
    + cbn in H. subst b. cbn in Hb. destruct x; [|discriminate].
      rewrite count_stop_app in Hb. cbn in Hb. lia.
    + cbn in H. inversion H; subst. destruct (IH a H2 Hb) as [r ->]. now exists r.
Qed.

Lemma set_nth_length {A} i (x : A) l : length (set_nth i x l) = length l.
Proof. revert i. induction l as [|y l IH]; intros [|i]; cbn; auto. Qed.

Lemma set_nth_eq {A} i (x d : A) l : i < length l -> nth i (set_nth i x l) d = x.
Proof. revert i. induction l as [|y l IH]; intros [|i] H; cbn in *; try lia; auto. apply IH. lia. Qed.

Lemma set_nth_neq {A} i j (x d : A) l : i <> j -> nth i (set_nth j x l) d = nth i l d.
Proof. revert i j. induction l as [|y l IH]; intros [|i] [|j] H; cbn; auto; try congruence. Qed.

Lemma set_nth_split {A} (l1 : list A) a b l2 : set_nth (length l1) b (l1 ++ a :: l2) = l1 ++ b :: l2.
Proof. induction l1; cbn; congruence. Qed.

Lemma set_nth_error {A} i (x : A) l : i < length l -> nth_error (set_nth i x l) i = Some x.
Proof. revert i. induction l as [|y l IH]; intros [|i] H; cbn in *; try lia; auto. apply IH. lia. Qed.

Lemma NoDup_app_l {A} (a b : list A) : NoDup (a ++ b) -> NoDup a.
Proof.
  induction a as [|x a IH]; cbn; intros H; [constructor|]. inversion H; subst. constructor; auto.
  intros Hin. apply H2. apply in_or_app. now left.
Qed.

Lemma NoDup_map_filter {A B} (f : A -> B) p l : NoDup (map f l) -> NoDup (map f (filter p l)).
Proof.
  induction l as [|x l IH]; cbn; intros H; [constructor|].
  inversion H; subst. destruct (p x); cbn; auto. constructor; auto.
  intros Hin. apply H2. apply in_map_iff in Hin as (y & Hy & Hin). apply filter_In in Hin as [Hin _].
  apply in_map_iff. eauto.
Qed.

(* ------------------------------------------------------------------ the invariant *)
Definition okf (fails : nat -> bool) (mc : nat * nat) : bool := negb (fails (fst mc)).
Definition tag (mc : nat * nat) : nat * tid := (fst mc, Reader (snd mc)).

Definition alive (r : rstate) : bool := match r with RIdle | RHold _ => true | _ => false end.

Definition phase_ok (st : state) : Prop :=
  let sp := count_stop (puts (trace st)) in
  let sk := count_stop (taken (trace st)) in
  match phase_ st with
  | PIdle => sp = cycle st /\ sk = cycle st /\ alive (reader st) = false /\ running st = false /\ registered st = false
  | PStarted => sp = cycle st /\ sk = cycle st /\ alive (reader st) = true /\ running st = true /\ registered st = true
  | PStopping => sp = cycle st /\ sk = cycle st /\ alive (reader st) = true /\ running st = false /\ registered st = false
  | PJoining => sp = S (cycle st) /\ running st = false /\ registered st = false /\
                ((sk = cycle st /\ alive (reader st) = true) \/ (sk = S (cycle st) /\ reader st = RDone))
  end.

Record Inv (fails : nat -> bool) (st : state) : Prop := {
  inv_fifo : puts (trace st) = taken (trace st) ++ queue st;
  inv_calls : attrib (taken (trace st)) 0 = calls (trace st) ++ held st;
  inv_log : log st = map tag (filter (okf fails) (calls (trace st)));
  inv_phase : phase_ok st }.

Lemma inv_init fails producers cycles : Inv fails (init producers cycles).
Proof. constructor; cbn; auto; unfold phase_ok; cbn; auto. Qed.

Ltac proj :=
  rewrite ?puts_app, ?taken_app, ?calls_app;
  cbn [puts taken calls flat_map app];
  rewrite ?app_nil_r.

Ltac phase_tac st :=
  unfold phase_ok in *; cbn [phase_ trace cycle reader running registered]; proj;
  rewrite ?count_stop_app; cbn [count_stop]; rewrite ?Nat.add_0_r;
  try match goal with E : reader st = _ |- _ => rewrite E in * end;
  destruct (phase_ st); cbn [alive] in *; intuition (try lia; try congruence; try discriminate).

Lemma alive_sk fails st : Inv fails st -> alive (reader st) = true -> count_stop (taken (trace st)) = cycle st.
Proof.
  intros [_ _ _ Hp] Ha. unfold phase_ok in Hp. destruct (phase_ st).
  - destruct Hp as (_ & _ & H & _). congruence.
  - tauto.
  - tauto.
  - destruct Hp as (_ & _ & _ & [[? _]|[_ H]]); auto. rewrite H in Ha. discriminate.
Qed.

(* a STOP at the head of the queue: only while the controller waits in join *)
Lemma stop_head_joining fails st q :
  Inv fails st -> alive (reader st) = true -> queue st = Stop :: q ->
  phase_ st = PJoining /\ count_stop (puts (trace st)) = S (cycle st) /\ count_stop q = 0.
Proof.
  intros I Ha Hq. pose proof (alive_sk _ _ I Ha) as Hsk. destruct I as [Hf _ _ Hp].
  apply (f_equal count_stop) in Hf. rewrite count_stop_app, Hq in Hf. cbn in Hf.
  unfold phase_ok in Hp. destruct (phase_ st).
  - exfalso. destruct Hp as (? & ? & ?). lia.
  - exfalso. destruct Hp as (? & ? & ?). lia.
  - exfalso. destruct Hp as (? & ? & ?). lia.
  - destruct Hp as (? & ?). repeat split; auto; lia.
Qed.

Lemma step_inv fails st t : Inv fails st -> Inv fails (step fails st t).
Proof.
  intros I. pose proof I as [Hf Hc Hl Hp]. unfold step, step_gen.
  destruct t as [|i|c].
  - (* controller *)
    unfold phase_ok in Hp. destruct (phase_ st) eqn:Eph.
    + destruct (todo st); [exact I|]. destruct Hp as (Hsp & Hsk & Hal & Hr & Hg).
      constructor; cbn [queue trace log]; proj; auto.
      * unfold held in *. cbn [reader cycle]. destruct (reader st); try discriminate; rewrite ?app_nil_r in *; exact Hc.
      * unfold phase_ok. cbn [phase_ trace cycle reader running registered]. proj. cbn. auto.
    + destruct Hp as (Hsp & Hsk & Hal & Hr & Hg).
      constructor; cbn [queue trace log]; proj; auto.
      unfold phase_ok. cbn [phase_ trace cycle reader running registered]. proj. auto.
    + destruct Hp as (Hsp & Hsk & Hal & Hr & Hg).
      constructor; cbn [queue trace log]; proj; auto.
      * rewrite Hf. now rewrite app_assoc.
      * unfold phase_ok. cbn [phase_ trace cycle reader running registered]. proj.
        rewrite count_stop_app. cbn. repeat split; auto; try lia.
    + destruct (reader st) eqn:Er; try exact I.
      destruct Hp as (Hsp & Hr & Hg & [[_ Hal]|[Hsk _]]); [cbn in Hal; discriminate|].
      constructor; cbn [queue trace log]; proj; auto.
      * unfold held in *. cbn [reader cycle]. rewrite Er in Hc. rewrite ?app_nil_r in *. exact Hc.
      * unfold phase_ok. cbn [phase_ trace cycle reader running registered]. proj. cbn. auto.
  - (* producer *)
    destruct (nth_error (prods st) i) as [[|m rest]|]; try exact I.
    constructor; cbn [queue trace log]; proj; auto.
    + rewrite Hf. now rewrite app_assoc.
    + unfold phase_ok in *. cbn [phase_ trace cycle reader running registered]. proj.
      rewrite count_stop_app. cbn. rewrite Nat.add_0_r. exact Hp.
  - (* reader *)
    destruct (Nat.eqb c (cycle st)) eqn:Ec; [|exact I]. apply Nat.eqb_eq in Ec. subst c.
    destruct (reader st) eqn:Er; try exact I.
    + (* get *)
      cbn [andb]. destruct (queue st) as [|[m|] q] eqn:Eq; [exact I| |].
      * assert (Hsk : count_stop (taken (trace st)) = cycle st) by (apply (alive_sk fails); auto; rewrite Er; auto).
        constructor; cbn [queue trace log]; proj; auto.
        -- rewrite Hf. now rewrite <- app_assoc.
        -- rewrite attrib_app. cbn. rewrite Hc. unfold held. rewrite Er. cbn [reader cycle].
           rewrite app_nil_r. now rewrite Hsk.
        -- phase_tac st.
      * destruct (stop_head_joining fails st q I) as (Hph & Hsp & Hq); auto; [rewrite Er; auto|].
        assert (Hsk : count_stop (taken (trace st)) = cycle st) by (apply (alive_sk fails); auto; rewrite Er; auto).
        constructor; cbn [queue trace log]; proj; auto.
        -- rewrite Hf. now rewrite <- app_assoc.
        -- rewrite attrib_app. cbn. rewrite app_nil_r. rewrite Hc. unfold held. rewrite Er. now rewrite app_nil_r.
        -- clear Hph. phase_tac st.
    + (* call the destination *)
      constructor; cbn [queue trace log]; proj; auto.
      * rewrite Hc. unfold held. now rewrite Er.
      * rewrite filter_app, map_app. cbn [filter]. unfold okf at 2. cbn [fst].
        destruct (fails m); cbn [negb map]; rewrite Hl; [now rewrite app_nil_r | reflexivity].
      * phase_tac st.
Qed.

Lemma run_from_inv fails st sched : Inv fails st -> Inv fails (run_from fails st sched).
Proof.
  revert st. induction sched as [|t r IH]; intros st I; cbn; auto. apply IH. now apply step_inv.
Qed.

Lemma run_inv fails producers cycles sched : Inv fails (run fails producers cycles sched).
Proof. apply run_from_inv, inv_init. Qed.

Lemma run_snoc fails producers cycles sched t :
  run fails producers cycles (sched ++ [t]) = step fails (run fails producers cycles sched) t.
Proof. unfold run, run_from. now rewrite fold_left_app. Qed.

(* ------------------------------------------------------------------ producers *)
Definition PInv (producers : list (list nat)) (st : state) : Prop :=
  length (prods st) = length producers /\
  (forall i, put_by i (trace st) ++ nth i (prods st) [] = nth i producers []) /\
  Permutation (msgs (puts (trace st)) ++ concat (prods st)) (concat producers).

Lemma pinv_same producers st st' e :
  PInv producers st -> prods st' = prods st -> trace st' = trace st ++ [e] ->
  (forall i, put_by i [e] = []) -> msgs (puts [e]) = [] -> PInv producers st'.
Proof.
  intros (Hlen & Hby & Hperm) Hp Ht Hb Hm. unfold PInv. rewrite Hp, Ht. repeat split; auto.
  - intros i. rewrite put_by_app, Hb, app_nil_r. apply Hby.
  - rewrite puts_app, msgs_app, Hm, app_nil_r. exact Hperm.
Qed.

Ltac same_prods := eapply pinv_same; [eassumption | reflexivity | reflexivity | intros; reflexivity | reflexivity].

Lemma step_pinv fails producers st t : PInv producers st -> PInv producers (step fails st t).
Proof.
  intros P. pose proof P as (Hlen & Hby & Hperm). unfold step, step_gen.
  destruct t as [|i|c].
  - destruct (phase_ st).
    + destruct (todo st); [exact P|]. same_prods.
    + same_prods.
    + same_prods.
    + destruct (reader st); try exact P. same_prods.
  - destruct (nth_error (prods st) i) as [[|m rest]|] eqn:En; try exact P.
    assert (Hi : i < length (prods st)) by (apply nth_error_Some; congruence).
    repeat split; cbn [prods trace].
    + now rewrite set_nth_length.
    + intros j. rewrite put_by_app. cbn [put_by flat_map app]. rewrite app_nil_r.
      destruct (Nat.eqb j i) eqn:Eji.
      * apply Nat.eqb_eq in Eji. subst j. rewrite set_nth_eq by assumption.
        rewrite <- Hby. rewrite (nth_error_nth _ _ [] En). now rewrite <- app_assoc.
      * apply Nat.eqb_neq in Eji. rewrite set_nth_neq by assumption. rewrite app_nil_r. apply Hby.
    + rewrite puts_app, msgs_app. cbn [puts msgs flat_map app].
      destruct (nth_error_split _ _ En) as (A & B & EAB & HlA). rewrite EAB in *. subst i.
      rewrite set_nth_split. rewrite concat_app in *. cbn [concat] in *.
      eapply Permutation_trans; [|exact Hperm].
      rewrite <- !app_assoc. apply Permutation_app_head. cbn [app].
      apply Permutation_middle.
  - destruct (Nat.eqb c (cycle st)); [|exact P].
    destruct (reader st); try exact P.
    + cbn [andb]. destruct (queue st) as [|[m|] q]; [exact P| |]; same_prods.
    + same_prods.
Qed.

Lemma pinv_init producers cycles : PInv producers (init producers cycles).
Proof. repeat split; cbn; auto. Qed.

Lemma run_from_pinv fails producers st sched : PInv producers st -> PInv producers (run_from fails st sched).
Proof.
  revert st. induction sched as [|t r IH]; intros st I; cbn; auto. apply IH. now apply step_pinv.
Qed.

Lemma run_pinv fails producers cycles sched : PInv producers (run fails producers cycles sched).
Proof. apply run_from_pinv, pinv_init. Qed.

(* ------------------------------------------------------------------ cycles accounting *)
Definition CInv (cycles : nat) (st : state) : Prop :=
  cycle st + todo st + (match phase_ st with PIdle => 0 | _ => 1 end) = cycles.

Lemma step_cinv fails cycles st t : CInv cycles st -> CInv cycles (step fails st t).
Proof.
  unfold CInv, step, step_gen. destruct t as [|i|c].
  - destruct (phase_ st) eqn:E.
    + destruct (todo st) eqn:Et; cbn [phase_ cycle todo]; rewrite ?E, ?Et; lia.
    + cbn [phase_ cycle todo]. lia.
    + cbn [phase_ cycle todo]. lia.
    + destruct (reader st); cbn [phase_ cycle todo]; try rewrite E; lia.
  - destruct (nth_error (prods st) i) as [[|m rest]|]; cbn [phase_ cycle todo]; auto.
  - destruct (Nat.eqb c (cycle st)); auto.
    destruct (reader st); auto.
    cbn [andb]. destruct (queue st) as [|[m|] q]; auto.
Qed.

Lemma run_from_cinv fails cycles st sched : CInv cycles st -> CInv cycles (run_from fails st sched).
Proof.
  revert st. induction sched as [|t r IH]; intros st I; cbn; auto. apply IH. now apply step_cinv.
Qed.

Lemma run_cinv fails producers cycles sched : CInv cycles (run fails producers cycles sched).
Proof. apply run_from_cinv. unfold CInv. cbn. lia. Qed.

(* ------------------------------------------------------------------ C19_fifo *)
Lemma fst_tag l : map fst (map tag l) = map fst l.
Proof. rewrite map_map. apply map_ext. now intros []. Qed.

Lemma held_nil st : alive (reader st) = false -> held st = [].
Proof. unfold held. destruct (reader st); cbn; auto; discriminate. Qed.

(* The destination's log is the sequence of messages in the order their puts took effect, minus exactly
   the messages on which the destination raised, minus what is still pending (held by the reader, or
   queued); nothing is invented, duplicated or reordered; every write happens on a reader thread. *)
Theorem writer_fifo : forall fails producers cycles sched,
  let st := run fails producers cycles sched in
  let tr := trace st in
  msgs (puts tr) = map fst (calls tr) ++ map fst (held st) ++ msgs (queue st)
  /\ log st = map tag (filter (okf fails) (calls tr))
  /\ (forall m t, In (m, t) (log st) -> (exists c, t = Reader c) /\ t <> Ctl /\ forall i, t <> Prod i)
  /\ (forall i, put_by i tr ++ nth i (prods st) [] = nth i producers [])
  /\ (NoDup (concat producers) -> NoDup (map fst (calls tr)) /\ NoDup (map fst (log st))).
Proof.
  intros fails producers cycles sched st tr.
  pose proof (run_inv fails producers cycles sched) as [Hf Hc Hl Hp].
  pose proof (run_pinv fails producers cycles sched) as (Hlen & Hby & Hperm).
  fold st in Hf, Hc, Hl, Hp, Hlen, Hby, Hperm. fold tr in Hf, Hc, Hl, Hby, Hperm.
  assert (H1 : msgs (puts tr) = map fst (calls tr) ++ map fst (held st) ++ msgs (queue st)).
  { rewrite Hf, msgs_app. rewrite <- (attrib_fst (taken tr) 0), Hc, map_app. now rewrite app_assoc. }
  split; [exact H1|]. split; [exact Hl|]. split; [|split; [exact Hby|]].
  - intros m t Hin. rewrite Hl in Hin. apply in_map_iff in Hin as ([m' c] & E & _).
    unfold tag in E. cbn in E. inversion E; subst. split; [now exists c|]. split; [discriminate|]. intros i; discriminate.
  - intros Hnd.
    assert (Hc' : NoDup (map fst (calls tr))).
    { apply (Permutation_NoDup (Permutation_sym Hperm)) in Hnd.
      apply NoDup_app_l in Hnd. rewrite H1 in Hnd. now apply NoDup_app_l in Hnd. }
    split; [exact Hc'|]. rewrite Hl, fst_tag. now apply NoDup_map_filter.
Qed.

(* ------------------------------------------------------------------ C19_cycles *)
(* [attrib l 0] pairs every message of a put sequence with the number of _STOPs put before it, i.e. with
   the cycle whose reader must receive it.  At every moment the calls made so far (each by the reader of
   its cycle), the message in the reader's hands and the queued messages are exactly that attribution:
   a message put after the _STOP of cycle c by a racing producer stays queued behind that _STOP and is
   the first thing the reader of cycle c+1 is handed.  Between cycles nothing is held, the queue holds
   no sentinel, and the writer is neither running nor registered. *)
Theorem writer_cycles : forall fails producers cycles sched,
  let st := run fails producers cycles sched in
  let tr := trace st in
  attrib (puts tr) 0 = calls tr ++ held st ++ attrib (queue st) (count_stop (taken tr))
  /\ (phase_ st = PIdle ->
        count_stop (puts tr) = cycle st /\ count_stop (taken tr) = cycle st /\ count_stop (queue st) = 0 /\
        held st = [] /\ attrib (puts tr) 0 = calls tr ++ map (fun m => (m, cycle st)) (msgs (queue st)))
  /\ running st = (match phase_ st with PStarted => true | _ => false end)
  /\ registered st = (match phase_ st with PStarted => true | _ => false end)
  /\ cycle st + todo st + (match phase_ st with PIdle => 0 | _ => 1 end) = cycles.
Proof.
  intros fails producers cycles sched st tr.
  pose proof (run_inv fails producers cycles sched) as [Hf Hc Hl Hp].
  pose proof (run_cinv fails producers cycles sched) as Hcy.
  fold st in Hf, Hc, Hl, Hp, Hcy. fold tr in Hf, Hc, Hl.
  assert (H1 : attrib (puts tr) 0 = calls tr ++ held st ++ attrib (queue st) (count_stop (taken tr))).
  { rewrite Hf, attrib_app, Hc. cbn. now rewrite app_assoc. }
  split; [exact H1|]. unfold phase_ok in Hp. fold tr in Hp. split; [|split; [|split]].
  - intros E. rewrite E in Hp. destruct Hp as (Hsp & Hsk & Hal & _).
    assert (Hq : count_stop (queue st) = 0).
    { apply (f_equal count_stop) in Hf. rewrite count_stop_app in Hf. lia. }
    repeat split; auto.
    + now apply held_nil.
    + rewrite H1, (held_nil _ Hal), Hsk. cbn. now rewrite attrib_nostop.
  - destruct (phase_ st); tauto.
  - destruct (phase_ st); tauto.
  - exact Hcy.
Qed.

(* ------------------------------------------------------------------ C19_stop_waits *)
Lemma step_trace fails st t :
  trace (step fails st t) = trace st \/
  exists e, trace (step fails st t) = trace st ++ [e] /\
            (forall c, e = EJoin c -> phase_ st = PJoining /\ reader st = RDone /\ cycle st = c).
Proof.
  unfold step, step_gen. destruct t as [|i|c].
  - destruct (phase_ st) eqn:E.
    + destruct (todo st); [now left|]. right. eexists. split; [reflexivity|]. discriminate.
    + right. eexists. split; [reflexivity|]. discriminate.
    + right. eexists. split; [reflexivity|]. discriminate.
    + destruct (reader st); try (now left). right. eexists. split; [reflexivity|].
      intros c H. inversion H. auto.
  - destruct (nth_error (prods st) i) as [[|m rest]|]; try (now left).
    right. eexists. split; [reflexivity|]. discriminate.
  - destruct (Nat.eqb c (cycle st)); [|now left].
    destruct (reader st); try (now left).
    + cbn [andb]. destruct (queue st) as [|[m|] q]; [now left| |]; right; eexists; (split; [reflexivity|]); discriminate.
    + right. eexists. split; [reflexivity|]. discriminate.
Qed.

Lemma in_puts t x p : In (EPut t x) p -> In x (puts p).
Proof. intros H. unfold puts. apply in_flat_map. exists (EPut t x). split; auto. now left. Qed.

Lemma in_msgs m l : In (Msg m) l -> In m (msgs l).
Proof. intros H. unfold msgs. apply in_flat_map. exists (Msg m). split; auto. now left. Qed.

(* If the controller's join of cycle c completed (event [EJoin c]) then, before that moment, c+1 sentinels
   had been put and all of them had been consumed by the readers (so the reader of cycle c has returned),
   and every message put before a sentinel put before the join — in particular before the _STOP of this
   very stopService — had already been passed to the destination. *)
Theorem writer_stop_waits : forall fails producers cycles sched t1 t2 c,
  trace (run fails producers cycles sched) = t1 ++ EJoin c :: t2 ->
  count_stop (puts t1) = S c /\ count_stop (taken t1) = S c
  /\ (forall p q t, t1 = p ++ EPut t Stop :: q ->
        forall t' m, In (EPut t' (Msg m)) p -> In m (map fst (calls t1))).
Proof.
  intros fails producers cycles sched. induction sched as [|x sched IH] using rev_ind; intros t1 t2 c H.
  - cbn in H. destruct t1; discriminate.
  - rewrite run_snoc in H. set (st := run fails producers cycles sched) in *.
    destruct (step_trace fails st x) as [E|(e & E & Hj)]; rewrite E in H; [now apply (IH t1 t2 c)|].
    apply snoc_split in H as [(-> & Ht & ->)|(t2' & -> & Ht)]; [|now apply (IH t1 t2' c)].
    destruct (Hj c eq_refl) as (Hph & Hr & Hcy).
    pose proof (run_inv fails producers cycles sched) as [Hf Hc _ Hp]. fold st in Hf, Hc, Hp.
    unfold phase_ok in Hp. rewrite Hph, Hr, Ht, Hcy in Hp. rewrite Ht in Hf, Hc.
    destruct Hp as (Hsp & _ & _ & [[_ Hal]|[Hsk _]]); [cbn in Hal; discriminate|].
    split; [exact Hsp|]. split; [exact Hsk|].
    intros p q t Et1 t' m Hin.
    assert (Hq : count_stop (queue st) = 0).
    { apply (f_equal count_stop) in Hf. rewrite count_stop_app in Hf. lia. }
    pose proof Hf as Hf'. rewrite Et1 in Hf' at 1. rewrite puts_app in Hf'. cbn [puts flat_map app] in Hf'.
    fold (puts q) in Hf'.
    destruct (stop_in_prefix _ _ _ _ Hf' Hq) as [r Hr'].
    rewrite <- (app_nil_r (calls t1)). replace (@nil (nat * nat)) with (held st) by (unfold held; now rewrite Hr).
    rewrite <- Hc, attrib_fst, Hr', msgs_app. apply in_or_app. left.
    apply in_msgs. eapply in_puts. exact Hin.
Qed.

(* ------------------------------------------------------------------ C19_fault_local *)
Definition erase (e : event) : event := match e with ECall c m _ => ECall c m true | _ => e end.

Definition same_but_log (fails : nat -> bool) (st st0 : state) : Prop :=
  queue st = queue st0 /\ running st = running st0 /\ registered st = registered st0 /\ reader st = reader st0 /\
  phase_ st = phase_ st0 /\ cycle st = cycle st0 /\ todo st = todo st0 /\ prods st = prods st0 /\
  map erase (trace st) = map erase (trace st0) /\
  log st = filter (fun x => negb (fails (fst x))) (log st0).

Lemma step_same fails st st0 t :
  same_but_log fails st st0 -> same_but_log fails (step fails st t) (step (fun _ => false) st0 t).
Proof.
  destruct st as [q rn rg rd ph cy td pr lg tr], st0 as [q0 rn0 rg0 rd0 ph0 cy0 td0 pr0 lg0 tr0].
  unfold same_but_log. cbn. intros (-> & -> & -> & -> & -> & -> & -> & -> & Ht & ->).
  unfold step, step_gen; cbn.
  destruct t as [|i|c].
  - destruct ph0.
    + destruct td0; cbn; rewrite ?map_app, ?Ht; auto 12.
    + cbn; rewrite ?map_app, ?Ht; auto 12.
    + cbn; rewrite ?map_app, ?Ht; auto 12.
    + destruct rd0; cbn; rewrite ?map_app, ?Ht; auto 12.
  - destruct (nth_error pr0 i) as [[|m rest]|]; cbn; rewrite ?map_app, ?Ht; auto 12.
  - destruct (Nat.eqb c cy0); cbn; auto 12.
    destruct rd0; cbn; auto 12.
    + destruct q0 as [|[m|] q0]; cbn; rewrite ?map_app, ?Ht; auto 12.
    + rewrite ?map_app, ?Ht. cbn. repeat split; auto.
      rewrite filter_app. cbn. destruct (fails m); cbn; [now rewrite app_nil_r | reflexivity].
Qed.

Lemma calls_erase tr : calls (map erase tr) = calls tr.
Proof.
  induction tr as [|e tr IH]; [reflexivity|]. cbn [map].
  change (erase e :: map erase tr) with ([erase e] ++ map erase tr). change (e :: tr) with ([e] ++ tr).
  rewrite !calls_app, IH. now destruct e.
Qed.
Lemma puts_erase tr : puts (map erase tr) = puts tr.
Proof.
  induction tr as [|e tr IH]; [reflexivity|]. cbn [map].
  change (erase e :: map erase tr) with ([erase e] ++ map erase tr). change (e :: tr) with ([e] ++ tr).
  rewrite !puts_app, IH. now destruct e.
Qed.
Lemma taken_erase tr : taken (map erase tr) = taken tr.
Proof.
  induction tr as [|e tr IH]; [reflexivity|]. cbn [map].
  change (erase e :: map erase tr) with ([erase e] ++ map erase tr). change (e :: tr) with ([e] ++ tr).
  rewrite !taken_app, IH. now destruct e.
Qed.

Lemma filter_all {A} (l : list A) : filter (fun _ => true) l = l.
Proof. induction l; cbn; congruence. Qed.

Lemma run_from_same fails st st0 sched :
  same_but_log fails st st0 -> same_but_log fails (run_from fails st sched) (run_from (fun _ => false) st0 sched).
Proof.
  revert st st0. induction sched as [|t r IH]; intros st st0 H; cbn; auto. apply IH. now apply step_same.
Qed.

(* Same producers, cycles and schedule, with and without destination failures: the two runs are in the
   same state at every moment (queue, reader state — the reader goes on exactly as if nothing had
   happened —, controller, the destination is called with the same messages in the same order) and the
   log of the failing run is the log of the failure-free run minus exactly the messages that failed. *)
Theorem writer_fault_local : forall fails producers cycles sched,
  let st := run fails producers cycles sched in
  let st0 := run (fun _ => false) producers cycles sched in
  queue st = queue st0 /\ reader st = reader st0 /\ phase_ st = phase_ st0 /\ cycle st = cycle st0 /\
  todo st = todo st0 /\ prods st = prods st0
  /\ calls (trace st) = calls (trace st0) /\ puts (trace st) = puts (trace st0) /\ taken (trace st) = taken (trace st0)
  /\ log st0 = map tag (calls (trace st0))
  /\ log st = filter (fun x => negb (fails (fst x))) (log st0).
Proof.
  intros fails producers cycles sched st st0.
  assert (H : same_but_log fails st st0).
  { unfold st, st0, run. apply run_from_same. unfold same_but_log. cbn. repeat split; auto. }
  destruct H as (Hq & _ & _ & Hr & Hph & Hcy & Htd & Hpr & Htr & Hlg).
  repeat split; auto.
  - now rewrite <- (calls_erase (trace st)), Htr, calls_erase.
  - now rewrite <- (puts_erase (trace st)), Htr, puts_erase.
  - now rewrite <- (taken_erase (trace st)), Htr, taken_erase.
  - pose proof (run_inv (fun _ => false) producers cycles sched) as [_ _ Hl _]. fold st0 in Hl.
    rewrite Hl. f_equal. apply filter_all.
Qed.

(* ------------------------------------------------------------------ C19_nonblocking *)
Lemma step_disabled fails st t : enabled st t = false -> step fails st t = st.
Proof.
  unfold enabled, step, step_gen. destruct t as [|i|c].
  - destruct (phase_ st); try discriminate.
    + destruct (todo st); [reflexivity|discriminate].
    + destruct (reader st); try reflexivity; discriminate.
  - destruct (nth_error (prods st) i) as [[|m rest]|]; try reflexivity; discriminate.
  - destruct (Nat.eqb c (cycle st)); [|reflexivity]. cbn [andb].
    destruct (reader st); try reflexivity; try discriminate.
    destruct (queue st) as [|[m|] q]; try reflexivity; discriminate.
Qed.

Lemma step_enabled fails st t : enabled st t = true -> exists e, trace (step fails st t) = trace st ++ [e].
Proof.
  unfold enabled, step, step_gen. destruct t as [|i|c].
  - destruct (phase_ st); try (eexists; reflexivity).
    + destruct (todo st); [discriminate|]. eexists; reflexivity.
    + destruct (reader st); try discriminate. eexists; reflexivity.
  - destruct (nth_error (prods st) i) as [[|m rest]|]; try discriminate. eexists; reflexivity.
  - destruct (Nat.eqb c (cycle st)); [|discriminate]. cbn [andb].
    destruct (reader st); try discriminate.
    + destruct (queue st) as [|[m|] q]; try discriminate; eexists; reflexivity.
    + eexists; reflexivity.
Qed.

(* A producer that has a message to offer is enabled in EVERY state — whatever the reader is doing, in
   particular while it is inside the (slow) destination ([RHold]), and whether or not the service is
   running — and its step only appends to the queue: it never touches the destination or its log. *)
Theorem writer_nonblocking : forall fails st i m rest,
  nth_error (prods st) i = Some (m :: rest) ->
  enabled st (Prod i) = true /\
  let st' := step fails st (Prod i) in
  queue st' = queue st ++ [Msg m] /\ nth_error (prods st') i = Some rest /\
  reader st' = reader st /\ log st' = log st /\ phase_ st' = phase_ st /\
  trace st' = trace st ++ [EPut (Prod i) (Msg m)].
Proof.
  intros fails st i m rest H. unfold enabled, step, step_gen. rewrite H. cbn.
  repeat split; auto. apply set_nth_error. apply nth_error_Some. congruence.
Qed.

(* ------------------------------------------------------------------ stopService completes *)
Definition twice (c : nat) (_ : item) : list tid := [Reader c; Reader c].

Lemma done_stable fails st c q :
  reader st = RDone ->
  reader (run_from fails st (flat_map (twice c) q)) = RDone /\
  phase_ (run_from fails st (flat_map (twice c) q)) = phase_ st.
Proof.
  intros H. assert (E : step fails st (Reader c) = st).
  { unfold step, step_gen. rewrite H. now destruct (Nat.eqb c (cycle st)). }
  induction q as [|x q IH]; [cbn; auto|]. unfold run_from in *. cbn [flat_map twice app fold_left]. now rewrite !E.
Qed.

Lemma step_idle_msg fails m q rn rg ph cy td pr lg tr :
  step fails (mkState (Msg m :: q) rn rg RIdle ph cy td pr lg tr) (Reader cy)
  = mkState q rn rg (RHold m) ph cy td pr lg (tr ++ [EGet cy (Msg m)]).
Proof. unfold step, step_gen. cbn. now rewrite Nat.eqb_refl. Qed.

Lemma step_idle_stop fails q rn rg ph cy td pr lg tr :
  step fails (mkState (Stop :: q) rn rg RIdle ph cy td pr lg tr) (Reader cy)
  = mkState q rn rg RDone ph cy td pr lg (tr ++ [EGet cy Stop]).
Proof. unfold step, step_gen. cbn. now rewrite Nat.eqb_refl. Qed.

Lemma step_hold fails m q rn rg ph cy td pr lg tr :
  step fails (mkState q rn rg (RHold m) ph cy td pr lg tr) (Reader cy)
  = mkState q rn rg RIdle ph cy td pr (if fails m then lg else lg ++ [(m, Reader cy)])
            (tr ++ [ECall cy m (negb (fails m))]).
Proof. unfold step, step_gen. cbn. now rewrite Nat.eqb_refl. Qed.

Lemma step_done fails q rn rg ph cy td pr lg tr c :
  step fails (mkState q rn rg RDone ph cy td pr lg tr) (Reader c) = mkState q rn rg RDone ph cy td pr lg tr.
Proof. unfold step, step_gen. cbn. now destruct (Nat.eqb c cy). Qed.

Lemma drain fails q : forall st,
  queue st = q -> In Stop q -> alive (reader st) = true ->
  let st' := run_from fails st (flat_map (twice (cycle st)) q) in
  reader st' = RDone /\ phase_ st' = phase_ st.
Proof.
  induction q as [|x q IH]; intros st Hq Hin Hal; [contradiction|].
  destruct st as [q0 rn rg rd ph cy td pr lg tr]. cbn [queue reader cycle phase_] in *. subst q0.
  cbn zeta. unfold run_from. cbn [flat_map twice app fold_left].
  destruct rd as [| |m0|]; try discriminate.
  - destruct x as [m|].
    + rewrite step_idle_msg, step_hold.
      destruct Hin as [Hin|Hin]; [discriminate|].
      apply (IH (mkState q rn rg RIdle ph cy td pr _ _)); auto.
    + rewrite step_idle_stop, step_done.
      apply (done_stable fails (mkState q rn rg RDone ph cy td pr _ _) cy q). reflexivity.
  - rewrite step_hold. destruct x as [m|].
    + rewrite step_idle_msg.
      destruct Hin as [Hin|Hin]; [discriminate|].
      apply (IH (mkState q rn rg (RHold m) ph cy td pr _ _)); auto.
    + rewrite step_idle_stop.
      apply (done_stable fails (mkState q rn rg RDone ph cy td pr _ _) cy q). reflexivity.
Qed.

Lemma count_stop_in q : count_stop q <> 0 -> In Stop q.
Proof. induction q as [|[m|] q IH]; cbn; intros H; [congruence | right; auto | now left]. Qed.

(* Once _STOP has been put, letting the reader run (two steps per queued entry suffice) makes it return,
   whatever the destination's failures, and then the join is enabled: stopService's result fires. *)
Theorem writer_stop_completes : forall fails producers cycles sched,
  let st := run fails producers cycles sched in
  phase_ st = PJoining ->
  let st' := run_from fails st (flat_map (twice (cycle st)) (queue st)) in
  reader st' = RDone /\ enabled st' Ctl = true.
Proof.
  intros fails producers cycles sched st Hph st'.
  pose proof (run_inv fails producers cycles sched) as [Hf _ _ Hp]. fold st in Hf, Hp.
  unfold phase_ok in Hp. rewrite Hph in Hp. destruct Hp as (Hsp & _ & _ & Hd).
  assert (H : reader st' = RDone /\ phase_ st' = phase_ st).
  { destruct Hd as [[Hsk Hal]|[_ Hr]].
    - apply drain; auto. apply count_stop_in.
      apply (f_equal count_stop) in Hf. rewrite count_stop_app in Hf. lia.
    - now apply done_stable. }
  destruct H as [Hr Hp']. split; [exact Hr|]. unfold enabled. now rewrite Hp', Hph, Hr.
Qed.

(* ------------------------------------------------------------------ the mutant reader loop *)
(* `while self.running:` instead of `while True:` — one producer, one cycle: the message is queued, the
   service is marked stopped while the reader has not yet taken it; the reader leaves; _STOP is put and
   the join completes with the message (put before _STOP) never passed to the destination. *)
Definition mut_sched : list tid := [Ctl; Prod 0; Ctl; Reader 0; Ctl; Ctl].

Theorem writer_exit_on_stopped_refuted :
  exists producers cycles sched t1 t2 c p q m,
    let st := run_mut (fun _ => false) producers cycles sched in
    trace st = t1 ++ EJoin c :: t2 /\ t1 = p ++ EPut Ctl Stop :: q /\ In (EPut (Prod 0) (Msg m)) p /\
    ~ In m (map fst (calls (trace st))) /\ log st = [] /\ finished st = true.
Proof.
  exists [[7]], 1, mut_sched,
    [EStart 0; EPut (Prod 0) (Msg 7); EUnreg 0; EExit 0; EPut Ctl Stop], [], 0,
    [EStart 0; EPut (Prod 0) (Msg 7); EUnreg 0; EExit 0], [], 7.
  vm_compute. repeat split; auto.
Qed.

(* the same schedule on eliot's loop: the reader is not enabled to leave, the join is not enabled, nothing is lost *)
Example genuine_on_mut_sched :
  let st := run (fun _ => false) [[7]] 1 mut_sched in
  phase_ st = PJoining /\ enabled st Ctl = false /\ queue st = [Stop] /\ reader st = RHold 7
  /\ log (run (fun _ => false) [[7]] 1 (mut_sched ++ [Reader 0; Reader 0; Ctl])) = [(7, Reader 0)].
Proof. vm_compute. repeat split. Qed.

(* ------------------------------------------------------------------ examples (non-vacuity) *)
(* two producers, two cycles, message 2 fails; producer 1 races with the first stop: its message 3 is put
   after the first _STOP, stays queued while the service is down and is the first message of cycle 1 *)
Definition ex_sched : list tid :=
  [Ctl; Prod 0; Prod 0; Reader 0; Ctl; Ctl; Prod 1; Reader 0; Reader 0; Reader 0; Reader 0; Ctl;
   Prod 1; Ctl; Reader 1; Reader 1; Ctl; Reader 1; Ctl; Reader 1; Reader 1; Reader 1; Ctl].

Example ex_run :
  let st := run (mask [2]) [[1; 2]; [3; 4]] 2 ex_sched in
  log st = [(1, Reader 0); (3, Reader 1); (4, Reader 1)]
  /\ calls (trace st) = [(1, 0); (2, 0); (3, 1); (4, 1)]
  /\ puts (trace st) = [Msg 1; Msg 2; Stop; Msg 3; Msg 4; Stop]
  /\ finished st = true /\ queue st = []
  /\ trace st = [EStart 0; EPut (Prod 0) (Msg 1); EPut (Prod 0) (Msg 2); EGet 0 (Msg 1); EUnreg 0; EPut Ctl Stop;
                 EPut (Prod 1) (Msg 3); ECall 0 1 true; EGet 0 (Msg 2); ECall 0 2 false; EGet 0 Stop; EJoin 0;
                 EPut (Prod 1) (Msg 4); EStart 1; EGet 1 (Msg 3); ECall 1 3 true; EUnreg 1; EGet 1 (Msg 4);
                 EPut Ctl Stop; ECall 1 4 true; EGet 1 Stop; EJoin 1].
Proof. vm_compute. repeat split. Qed.

(* the hypothesis of writer_stop_waits is satisfiable, with messages before the sentinel *)
Example ex_stop_waits :
  exists t1 t2 p q, trace (run (mask [2]) [[1; 2]; [3; 4]] 2 ex_sched) = t1 ++ EJoin 0 :: t2 /\
                    t1 = p ++ EPut Ctl Stop :: q /\ In (EPut (Prod 0) (Msg 2)) p.
Proof.
  exists [EStart 0; EPut (Prod 0) (Msg 1); EPut (Prod 0) (Msg 2); EGet 0 (Msg 1); EUnreg 0; EPut Ctl Stop;
          EPut (Prod 1) (Msg 3); ECall 0 1 true; EGet 0 (Msg 2); ECall 0 2 false; EGet 0 Stop].
  eexists. exists [EStart 0; EPut (Prod 0) (Msg 1); EPut (Prod 0) (Msg 2); EGet 0 (Msg 1); EUnreg 0].
  eexists. vm_compute. repeat split. auto.
Qed.

(* a message put after the last _STOP stays queued for ever (no later cycle) *)
Example ex_leftover :
  let st := run (fun _ => false) [[1]] 1 [Ctl; Ctl; Ctl; Prod 0; Reader 0; Ctl] in
  finished st = true /\ queue st = [Msg 1] /\ log st = [].
Proof. vm_compute. repeat split. Qed.

(* a producer step is enabled while the reader is inside the destination *)
Example ex_nonblocking :
  let st := run (fun _ => false) [[1; 2]] 1 [Ctl; Prod 0; Reader 0] in
  reader st = RHold 1 /\ enabled st (Prod 0) = true /\ queue (step (fun _ => false) st (Prod 0)) = [Msg 2].
Proof. vm_compute. repeat split. Qed.

(* writer_stop_completes has a reachable PJoining state with a non-empty queue *)
Example ex_joining :
  let st := run (mask [1]) [[1; 2]] 1 [Ctl; Prod 0; Prod 0; Ctl; Ctl] in
  phase_ st = PJoining /\ queue st = [Msg 1; Msg 2; Stop] /\ enabled st Ctl = false.
Proof. vm_compute. repeat split. Qed.
