(* C06: a serialized task id continues the same tree in another thread or process.

   Extension of the C01 end-to-end theorems (C01Basics / C01Emission / C01Roundtrip) to
   programs WITH HAND-OFFS, to any hop depth (fragment [simple_h], declarative reading
   [expected_h]: Model/ExpectedHandoff.v).

     1. [api_ids]            only serialize_task_id writes the table of serialized ids.
     2. [oserialize_eq], [ocontinue_view]
                             what serialize_task_id / continue_task do to a state with one
                             never-failing destination.
     3. [eval_spec_h]        the master lemma re-proved for the extended statement language:
                             the invariant of C01Emission ([InSpec] / [TopSpec], reused as
                             they are, with their composition lemmas), now for EVERY
                             execution context, plus [IdsOK], which tracks the table of
                             serialized ids: every executed hand-off leaves in its slot
                             exactly the (task_uuid, task_level) of the action object that
                             continued it, whose start message the destination received.
                             New case SHandoff ([handoff_case]); the block-structure cases
                             are re-proved over [kids_h] (one tail lemma serves start_action
                             and continue_task blocks); the single-call cases are discharged
                             by the lemmas of C01Basics / C01Emission.  The FRESH context of
                             the hand-off is what leaves the originating context's current
                             action and token stack untouched ([compile_foreign] +
                             [run_frame] of CtxFrame / CtxRestore).
     4. [C06_emission]       what the destination received IS [lin (expected_h p)]: the
                             remote sub-tree in place, same task uuid, levels extending the
                             reserved position.
        [C06_roundtrip]      hence parsing in EVERY arrival order of the messages yields
                             exactly the tasks of [expected_h p], complete.
        [C06_ids_unique]     the serialized ids after the run: one per executed hand-off,
                             equal to the (uuid, level) of its continuing action, pairwise
                             distinct, distinct from the (uuid, level) of every emitted
                             message and of every other action object (C02Placement).
        [C06_remote_in_place] the parser's input contains the eliot:remote_task start
                             message at level (serialized level) ++ [1] of the serialized uuid.
     5. Examples: a two-hop hand-off inside a nested action whose remote body fails; a
        hand-off on an OUTER enclosing action is outside the fragment for a reason. *)
From Coq Require Import List PArith NArith ZArith Bool Arith Lia Permutation.
Require Import Eliot.Base.Level Eliot.Model.Core Eliot.Model.Prog Eliot.Model.Parser
  Eliot.Model.Forest Eliot.Model.Roundtrip Eliot.Model.Expected Eliot.Model.ExpectedHandoff.
Require Import Eliot.Proofs.CoreBasics Eliot.Proofs.CtxFrame Eliot.Proofs.CtxRestore.
Require Import Eliot.Proofs.ParserBasics Eliot.Proofs.ParserOrder Eliot.Proofs.ParserTree.
Require Import Eliot.Proofs.C01Basics Eliot.Proofs.C01Emission Eliot.Proofs.C01Roundtrip.
Require Eliot.Proofs.C02Placement.
Import ListNotations.

(* ====================================================================================== *)
(* 1. who writes the table of serialized ids                                              *)
(* ====================================================================================== *)
Lemma take_level_ids s h : ids (fst (take_level s h)) = ids s.
Proof. unfold take_level. destruct (alookup h (heap s)); reflexivity. Qed.

Lemma take_level_ids_eq s h s1 l : take_level s h = (s1, l) -> ids s1 = ids s.
Proof. intros E. pose proof (take_level_ids s h) as H. now rewrite E in H. Qed.

Lemma deliver_ids s m : ids (fst (deliver s m)) = ids s.
Proof. unfold deliver. destruct (any_added s); [destruct (fanout m (dests s))|]; reflexivity. Qed.

Lemma deliver_ids_eq s m s1 errs : deliver s m = (s1, errs) -> ids s1 = ids s.
Proof. intros E. pose proof (deliver_ids s m) as H. now rewrite E in H. Qed.

Lemma msg_position_ids s c : ids (fst (fst (msg_position s c))) = ids s.
Proof.
  unfold msg_position. destruct (cur s c) as [h|]; [|reflexivity].
  pose proof (take_level_ids s h) as H. destruct (take_level s h) as [s1 l]. exact H.
Qed.

Lemma stamp_here_ids s c mt fs : ids (fst (stamp_here s c mt fs)) = ids s.
Proof.
  unfold stamp_here. pose proof (msg_position_ids s c) as H.
  destruct (msg_position s c) as [[s1 u] l]. exact H.
Qed.

Lemma stamp_here_ids_eq s c mt fs s1 m : stamp_here s c mt fs = (s1, m) -> ids s1 = ids s.
Proof. intros E. pose proof (stamp_here_ids s c mt fs) as H. now rewrite E in H. Qed.

Lemma send_report_ids s m : ids (send_report s m) = ids s.
Proof. unfold send_report. apply deliver_ids. Qed.

Lemma log_report_ids c about s e : ids (log_report c about s e) = ids s.
Proof.
  unfold log_report.
  destruct (stamp_here s c (VTypeName T_destination_failure) _) as [s2 m] eqn:E.
  rewrite send_report_ids. eapply stamp_here_ids_eq; eauto.
Qed.

Lemma fold_log_report_ids c about errs : forall s, ids (fold_left (log_report c about) errs s) = ids s.
Proof.
  induction errs as [|x r IH]; intros s; cbn [fold_left]; [reflexivity|].
  now rewrite IH, log_report_ids.
Qed.

Lemma send_ids c s m : ids (send c s m) = ids s.
Proof.
  unfold send. destruct (deliver s (fupdate m (globals s))) as [s1 errs] eqn:E.
  apply deliver_ids_eq in E. destruct (is_report m); [exact E|].
  now rewrite fold_log_report_ids.
Qed.

Lemma resend_ids c ms : forall s, ids (resend c s ms) = ids s.
Proof.
  induction ms as [|m r IH]; intros s; cbn [resend]; [reflexivity|]. now rewrite IH, send_ids.
Qed.

Section IdsCfg.
Variable cfg : config.

Lemma log_traceback_plain_ids c s x extra : ids (log_traceback_plain c s x extra) = ids s.
Proof.
  unfold log_traceback_plain.
  destruct (stamp_here s c (VTypeName T_traceback) _) as [s2 m] eqn:E.
  rewrite send_ids. eapply stamp_here_ids_eq; eauto.
Qed.

Lemma fields_for_exception_ids c s x : ids (fst (fields_for_exception cfg c s x)) = ids s.
Proof.
  unfold fields_for_exception.
  destruct (first_registered _ _) as [[fs|x']|]; cbn [fst]; try reflexivity.
  apply log_traceback_plain_ids.
Qed.

Lemma fields_for_exception_ids_eq c s x s1 xf :
  fields_for_exception cfg c s x = (s1, xf) -> ids s1 = ids s.
Proof. intros E. pose proof (fields_for_exception_ids c s x) as H. now rewrite E in H. Qed.

Lemma write_traceback_ids c s x : ids (write_traceback cfg c s x) = ids s.
Proof.
  unfold write_traceback. destruct (fields_for_exception cfg c s x) as [s1 extra] eqn:E.
  rewrite log_traceback_plain_ids. eapply fields_for_exception_ids_eq; eauto.
Qed.

Lemma logger_write_ids c s m ser : ids (logger_write cfg c s m ser) = ids s.
Proof.
  unfold logger_write. destruct ser as [sr|]; [|apply send_ids].
  destruct (serialize sr m) as [m'|x]; [apply send_ids|].
  destruct (stamp_here _ c (VTypeName T_serialization_failure) _) as [s3 fm] eqn:E.
  rewrite send_ids. apply stamp_here_ids_eq in E. rewrite E. apply write_traceback_ids.
Qed.

Lemma start_message_ids c s h fs : ids (start_message cfg c s h fs) = ids s.
Proof.
  unfold start_message. destruct (alookup h (heap s)) as [a|]; [|reflexivity].
  destruct (take_level s h) as [s1 l] eqn:E. rewrite logger_write_ids.
  eapply take_level_ids_eq; eauto.
Qed.

Lemma start_action_ids c s h task ty fs sers : ids (start_action cfg c s h task ty fs sers) = ids s.
Proof.
  unfold start_action. destruct (if task then None else cur s c) as [p|].
  - destruct (alookup p (heap s)) as [pa|]; [|reflexivity].
    destruct (take_level s p) as [s1 l] eqn:E. rewrite start_message_ids. cbn [ids set_heap].
    eapply take_level_ids_eq; eauto.
  - cbn [fresh_uuid]. rewrite start_message_ids. reflexivity.
Qed.

Lemma finish_ids c s h exc : ids (finish cfg c s h exc) = ids s.
Proof.
  unfold finish. destruct (alookup h (heap s)) as [a|]; [|reflexivity].
  destruct (a_finished a); [reflexivity|].
  destruct exc as [x|].
  - destruct (fields_for_exception cfg c _ x) as [s' xf] eqn:E.
    apply fields_for_exception_ids_eq in E. cbn [ids set_heap] in E.
    destruct (take_level s' h) as [s2 l] eqn:E2. rewrite logger_write_ids.
    apply take_level_ids_eq in E2. congruence.
  - match goal with |- context [take_level ?s0 h] => destruct (take_level s0 h) as [s2 l] eqn:E2 end.
    rewrite logger_write_ids. apply take_level_ids_eq in E2. exact E2.
Qed.

Definition is_ser (o : op) : bool := match o with OSerializeId _ _ => true | _ => false end.

(* every call but serialize_task_id leaves the table of serialized ids alone *)
Lemma api_ids c s o : is_ser o = false -> ids (api cfg c s o) = ids s.
Proof.
  destruct o; cbn [is_ser api]; try discriminate; intros _.
  - apply start_action_ids.
  - destruct (alookup h (heap s)); reflexivity.
  - destruct (alookup h (heap s)); [|reflexivity]. now rewrite finish_ids.
  - reflexivity.
  - destruct (alookup c (tokens s)) as [[|t st]|]; reflexivity.
  - apply finish_ids.
  - destruct (alookup h (heap s)); reflexivity.
  - destruct (stamp_here s c mt (mkfields fs)) as [s2 m] eqn:E. rewrite logger_write_ids.
    eapply stamp_here_ids_eq; eauto.
  - destruct (alookup h (heap s)); [|reflexivity].
    destruct (take_level s h) as [s2 l] eqn:E. rewrite logger_write_ids.
    eapply take_level_ids_eq; eauto.
  - apply write_traceback_ids.
  - destruct (alookup slot (ids s)) as [[u l]|]; [|reflexivity]. now rewrite start_message_ids.
  - reflexivity.
  - destruct (any_added s); [reflexivity|]. now rewrite resend_ids.
  - destruct (remove_dest id (dests s)) as [ds [x|]]; reflexivity.
  - reflexivity.
  - reflexivity.
  - apply logger_write_ids.
Qed.

Definition no_ser (ops : list (nat * op)) : bool := forallb (fun co => negb (is_ser (snd co))) ops.

Lemma run_ids ops : forall s, no_ser ops = true -> ids (run cfg ops s) = ids s.
Proof.
  induction ops as [|[c o] r IH]; intros s H; [reflexivity|].
  unfold no_ser in H. cbn [forallb snd] in H. apply andb_true_iff in H as [H1 H2].
  rewrite run_cons. cbn [fst snd]. rewrite (IH _ H2). apply api_ids. now apply negb_true_iff.
Qed.

End IdsCfg.

(* ====================================================================================== *)
(* 2. unfolding the declarative reading; the syntactic lists                              *)
(* ====================================================================================== *)
Lemma kids_h_cons x r : kids_h (x :: r) = kids_h_stmt x ++ (if raises_stmt x then [] else kids_h r).
Proof. reflexivity. Qed.
Lemma handoffs_cons x r :
  handoffs (x :: r) = handoffs_stmt x ++ (if raises_stmt x then [] else handoffs r).
Proof. reflexivity. Qed.
Lemma handles_h_cons x r : handles_h (x :: r) = handles_h_stmt x ++ handles_h r.
Proof. reflexivity. Qed.
Lemma slots_h_cons x r : slots_h (x :: r) = slots_h_stmt x ++ slots_h r.
Proof. reflexivity. Qed.
Lemma ctxs_h_cons x r : ctxs_h (x :: r) = ctxs_h_stmt x ++ ctxs_h r.
Proof. reflexivity. Qed.
Lemma has_tb_h_cons x r : has_tb_h (x :: r) = has_tb_h_stmt x || has_tb_h r.
Proof. reflexivity. Qed.
Lemma kids_h_stmt_act h style task ty fs sers succ body :
  kids_h_stmt (SAct h style task ty fs sers succ body)
  = [TAct (ty_of ty) (status_of (raises body)) (kids_h body)].
Proof. reflexivity. Qed.
Lemma kids_h_stmt_handoff h slot h' c' body :
  kids_h_stmt (SHandoff h slot h' c' body)
  = [TAct T_remote_task (status_of (raises body)) (kids_h body)].
Proof. reflexivity. Qed.

(* the lists of Model/ExpectedHandoff.v are those of CtxRestore.v / C02Placement.v *)
Lemma flat_map_ext_in {A B} (f g : A -> list B) l :
  Forall (fun x => f x = g x) l -> flat_map f l = flat_map g l.
Proof. induction 1 as [|x r E _ IH]; cbn [flat_map]; [reflexivity|]. now rewrite E, IH. Qed.

Lemma ctxs_h_stmt_eq : forall st, ctxs_h_stmt st = ctxs_of st.
Proof.
  apply (stmt_ind' (fun st => ctxs_h_stmt st = ctxs_of st)
                   (fun p => Forall (fun st => ctxs_h_stmt st = ctxs_of st) p));
    intros; cbn [ctxs_h_stmt ctxs_of]; try reflexivity; try (now apply flat_map_ext_in);
    try (f_equal; now apply flat_map_ext_in); try constructor; auto.
Qed.

Lemma ctxs_h_eq p : ctxs_h p = flat_map ctxs_of p.
Proof. unfold ctxs_h. apply flat_map_ext_in. apply Forall_forall. intros st _. apply ctxs_h_stmt_eq. Qed.

Lemma handles_h_stmt_declared : forall st, handles_h_stmt st = C02Placement.declared_stmt st.
Proof.
  apply (stmt_ind' (fun st => handles_h_stmt st = C02Placement.declared_stmt st)
                   (fun p => Forall (fun st => handles_h_stmt st = C02Placement.declared_stmt st) p));
    intros; cbn [handles_h_stmt C02Placement.declared_stmt]; try reflexivity;
    try (now apply flat_map_ext_in); try (f_equal; now apply flat_map_ext_in); try constructor; auto.
Qed.

Lemma handles_h_declared p : handles_h p = C02Placement.declared p.
Proof.
  unfold handles_h, C02Placement.declared. apply flat_map_ext_in. apply Forall_forall.
  intros st _. apply handles_h_stmt_declared.
Qed.

(* executed hand-offs are hand-offs of the text *)
Lemma handoffs_incl_both :
  forall st slot h', In (slot, h') (handoffs_stmt st) ->
    In slot (slots_h_stmt st) /\ In h' (handles_h_stmt st).
Proof.
  apply (stmt_ind'
    (fun st => forall slot h', In (slot, h') (handoffs_stmt st) ->
                 In slot (slots_h_stmt st) /\ In h' (handles_h_stmt st))
    (fun p => forall slot h', In (slot, h') (handoffs p) ->
                 In slot (slots_h p) /\ In h' (handles_h p)));
    try (intros; cbn in *; tauto).
  - intros h style task ty fs sers succ body IH slot h' I.
    destruct (IH slot h' I) as [A B]. split; [exact A|]. now right.
  - intros body IH slot h' I. exact (IH slot h' I).
  - intros h slot0 h0 c' body IH slot h' I. cbn [handoffs_stmt] in I.
    change (In (slot, h') ((slot0, h0) :: handoffs body)) in I. destruct I as [I|I].
    + injection I as -> ->. split; now left.
    + destruct (IH slot h' I) as [A B]. split; now right.
  - intros h body IH slot h' I. exact (IH slot h' I).
  - intros st rest IHs IHr slot h' I. rewrite handoffs_cons in I.
    rewrite slots_h_cons, handles_h_cons, !in_app_iff. apply in_app_iff in I as [I|I].
    + destruct (IHs slot h' I); auto.
    + destruct (raises_stmt st); [destruct I|]. destruct (IHr slot h' I); auto.
Qed.

Lemma handoffs_incl p slot h' :
  In (slot, h') (handoffs p) -> In slot (slots_h p) /\ In h' (handles_h p).
Proof.
  induction p as [|st rest IH]; [intros I; cbn in I; destruct I|]. rewrite handoffs_cons, slots_h_cons, handles_h_cons, !in_app_iff.
  intros [I|I].
  - destruct (handoffs_incl_both st slot h' I); auto.
  - destruct (raises_stmt st); [destruct I|]. destruct (IH I); auto.
Qed.

Lemma handoffs_slots_incl p slot : In slot (map fst (handoffs p)) -> In slot (slots_h p).
Proof.
  intros I. apply in_map_iff in I as ([sl h'] & <- & I). now destruct (handoffs_incl p sl h' I).
Qed.

Lemma NoDup_app_disjoint {A} (l1 l2 : list A) x : NoDup (l1 ++ l2) -> In x l1 -> ~ In x l2.
Proof.
  induction l1 as [|y r IH]; cbn [app]; intros ND I; [destruct I|].
  inversion ND as [|? ? N ND']; subst. destruct I as [->|I].
  - intros X. apply N. apply in_app_iff. now right.
  - now apply IH.
Qed.

Lemma NoDup_cons_app_parts {A} (c : A) l1 l2 :
  NoDup (c :: l1 ++ l2) -> NoDup (c :: l1) /\ NoDup (c :: l2).
Proof.
  intros ND. inversion ND as [|? ? N ND']; subst. destruct (NoDup_app_parts _ _ ND') as [A1 A2].
  split; constructor; auto; intros X; apply N; apply in_app_iff; auto.
Qed.

(* ====================================================================================== *)
(* 3. serialize_task_id and continue_task on the view                                     *)
(* ====================================================================================== *)
Lemma oserialize_eq cfg c s h a slot :
  alookup h (heap s) = Some a ->
  api cfg c s (OSerializeId h slot)
  = set_ids (set_heap s h (bump a)) (aset slot (a_uuid a, npos a) (ids s)).
Proof. intros E. cbn [api]. rewrite E, (take_level_some _ _ _ E). reflexivity. Qed.

Lemma ocontinue_view cfg d e c s h' slot u l :
  Good d e s -> alookup slot (ids s) = Some (u, l) ->
  View d e c (api cfg c s (OContinue h' slot []))
       (aset h' (bump (new_action u l (VTypeName T_remote_task))) (heap s))
       (cur s c) (tstack s c) (next_uuid s)
       (tr s ++ [start_dict u (l ++ [1%positive]) (VTypeName T_remote_task) []]).
Proof.
  intros G E. cbn [api]. rewrite E.
  match goal with |- View _ _ _ (start_message cfg c ?s2 h' []) _ _ _ _ _ =>
    pose proof (start_message_view cfg d e c s2 h' (new_action u l (VTypeName T_remote_task)) []) as V end.
  cbn in V. rewrite alookup_aset_same, aset_aset in V. apply V; auto.
Qed.

(* ====================================================================================== *)
(* 4. the table of serialized ids along a run                                             *)
(* ====================================================================================== *)
(* what the parser sees of the start message of the action that continues the id (u, l) *)
Definition remote_start (u : nat) (l : level) : pmsg :=
  pm0 u (l ++ [1%positive]) (Some T_remote_task) (Some PStarted).

(* [HS]: the hand-offs executed, as (slot, continuing action).  Every other slot keeps its
   value; the slot of an executed hand-off holds the (task_uuid, task_level) of the action
   object that continued it, and the destination has received that action's start message:
   type eliot:remote_task, the same task uuid, level = the serialized level ++ [1]. *)
Definition IdsOK (HS : list (nat * nat)) (s s' : state) : Prop :=
  (forall slot, ~ In slot (map fst HS) -> alookup slot (ids s') = alookup slot (ids s)) /\
  (forall slot h', In (slot, h') HS ->
     exists a', alookup h' (heap s') = Some a' /\ alookup slot (ids s') = Some (a_uuid a', a_level a') /\
                In (Some (remote_start (a_uuid a') (a_level a'))) (map pv (tr s'))).

Lemma IdsOK_same s s' : ids s' = ids s -> IdsOK [] s s'.
Proof. intros E. split; [intros slot _; now rewrite E|intros ? ? []]. Qed.

Lemma IdsOK_trans HS1 HS2 s s1 s2 :
  IdsOK HS1 s s1 -> IdsOK HS2 s1 s2 ->
  (forall slot h', In (slot, h') HS1 ->
     ~ In slot (map fst HS2) /\ alookup h' (heap s2) = alookup h' (heap s1)) ->
  incl (map pv (tr s1)) (map pv (tr s2)) ->
  IdsOK (HS1 ++ HS2) s s2.
Proof.
  intros [A1 B1] [A2 B2] K T. split.
  - intros slot N. rewrite map_app in N. rewrite A2, A1; auto; intros X; apply N; apply in_app_iff; auto.
  - intros slot h' I. apply in_app_iff in I as [I|I]; [|now apply B2].
    destruct (K _ _ I) as [N Hh]. destruct (B1 _ _ I) as (a' & E1 & E2 & E3).
    exists a'. rewrite Hh, (A2 _ N). auto.
Qed.

(* calls before and after that leave the table, and the continuing actions, alone *)
Lemma IdsOK_wrap HS s s1 s2 s3 :
  ids s1 = ids s -> IdsOK HS s1 s2 -> ids s3 = ids s2 ->
  (forall slot h', In (slot, h') HS -> alookup h' (heap s3) = alookup h' (heap s2)) ->
  incl (map pv (tr s2)) (map pv (tr s3)) ->
  IdsOK HS s s3.
Proof.
  intros E1 [A B] E3 K T. split.
  - intros slot N. now rewrite E3, (A _ N), E1.
  - intros slot h' I. destruct (B _ _ I) as (a' & X1 & X2 & X3). exists a'. rewrite (K _ _ I), E3. auto.
Qed.

(* ====================================================================================== *)
(* 5. the specification of a run with hand-offs                                           *)
(* ====================================================================================== *)
Section EmissionH.
Variable cfg : config.
Variable d : nat.
Variable e : exn.
Hypothesis reg : reg_fields cfg = true.

Notation Good := (Good d e).

(* the invariants of C01Emission, in context [c], plus the table of serialized ids *)
Definition InH (c h : nat) (a : action) (cs : list tree) (H : list nat) (HS : list (nat * nat))
           (s s' : state) : Prop :=
  InSpec d e c h a cs H s s' /\ IdsOK HS s s'.

Definition TopH (c : nat) (f : forest) (H : list nat) (HS : list (nat * nat)) (s s' : state) : Prop :=
  TopSpec d e c f H s s' /\ IdsOK HS s s'.

Lemma InH_probe c h a cs H HS s s1 :
  InH c h a cs H HS s s1 -> InH c h a cs H HS s (api cfg c s1 OProbe).
Proof.
  intros [I K]. pose proof I as (G1 & _). split.
  - eapply InSpec_after; [exact I|]. now apply oprobe_view.
  - eapply IdsOK_wrap with (s1 := s) (s2 := s1); [reflexivity|exact K|reflexivity|reflexivity|apply incl_refl].
Qed.

Lemma TopH_probe c f H HS s s1 :
  TopH c f H HS s s1 -> TopH c f H HS s (api cfg c s1 OProbe).
Proof.
  intros [I K]. pose proof I as (G1 & _). split.
  - eapply TopSpec_after; [exact I|]. now apply oprobe_view.
  - eapply IdsOK_wrap with (s1 := s) (s2 := s1); [reflexivity|exact K|reflexivity|reflexivity|apply incl_refl].
Qed.

Lemma InH_mono c h a cs H H' HS s s' :
  incl H H' -> InH c h a cs H HS s s' -> InH c h a cs H' HS s s'.
Proof. intros I1 [A B]. split; [eapply InSpec_mono; eauto|exact B]. Qed.

Lemma TopH_mono c f H H' HS s s' :
  incl H H' -> TopH c f H HS s s' -> TopH c f H' HS s s'.
Proof. intros I1 [A B]. split; [eapply TopSpec_mono; eauto|exact B]. Qed.

(* a single call that is not serialize_task_id *)
Lemma InH_one c h a cs s o :
  is_ser o = false -> InSpec d e c h a cs [] s (api cfg c s o) -> InH c h a cs [] [] s (api cfg c s o).
Proof. intros N I. split; [exact I|]. apply IdsOK_same. now apply api_ids. Qed.

Lemma TopH_one c f s o :
  is_ser o = false -> TopSpec d e c f [] s (api cfg c s o) -> TopH c f [] [] s (api cfg c s o).
Proof. intros N I. split; [exact I|]. apply IdsOK_same. now apply api_ids. Qed.

(* ---- the induction hypotheses: now for every execution context [c] ------------------------ *)
Definition PstH (st : stmt) : Prop :=
  forall c s, Good s -> NoDup (handles_h_stmt st) -> NoDup (slots_h_stmt st) ->
    NoDup (c :: ctxs_h_stmt st) -> (has_tb_h_stmt st = true -> reg_plain cfg = true) ->
    (forall h a, cur s c = Some h -> alookup h (heap s) = Some a -> ~ In h (handles_h_stmt st) ->
       simple_h_stmt (Some h) st = true ->
       InH c h a (kids_h_stmt st) (handles_h_stmt st) (handoffs_stmt st)
           s (run cfg (fst (compile_stmt c st)) s)) /\
    (cur s c = None -> simple_h_stmt None st = true ->
       TopH c (kids_h_stmt st) (handles_h_stmt st) (handoffs_stmt st)
            s (run cfg (fst (compile_stmt c st)) s)).

Definition QpH (p : list stmt) : Prop :=
  forall c s, Good s -> NoDup (handles_h p) -> NoDup (slots_h p) ->
    NoDup (c :: ctxs_h p) -> (has_tb_h p = true -> reg_plain cfg = true) ->
    (forall h a, cur s c = Some h -> alookup h (heap s) = Some a -> ~ In h (handles_h p) ->
       forallb (simple_h_stmt (Some h)) p = true ->
       InH c h a (kids_h p) (handles_h p) (handoffs p) s (run cfg (fst (compile c p)) s)) /\
    (cur s c = None -> forallb (simple_h_stmt None) p = true ->
       TopH c (kids_h p) (handles_h p) (handoffs p) s (run cfg (fst (compile c p)) s)).

(* ---- the body of an action and its end, from the state just after its start message -------- *)
(* [v]: the current action of context [c] before the block; the action [h] has uuid [u], prefix
   [l], type [t] and has handed out position 1 (its start message).  Used for start_action
   blocks and for continue_task blocks alike. *)
Definition ActPostH (c h u : nat) (l : level) (t : positive) (body : list stmt) (v : option nat)
           (s1 s' : state) : Prop :=
  Good s' /\ cur s' c = v /\ tstack s' c = tstack s1 c /\ next_uuid s' = next_uuid s1 /\
  (exists a', alookup h (heap s') = Some a' /\ a_uuid a' = u /\ a_level a' = l) /\
  (forall h', h' <> h -> ~ In h' (handles_h body) -> alookup h' (heap s') = alookup h' (heap s1)) /\
  map pv (tr s') = map pv (tr s1) ++
     map Some (lay u l 1 (kids_h body)
               ++ [end_msg Z0 u l t (status_of (raises body)) (Pos.of_nat (S (S (length (kids_h body)))))]) /\
  IdsOK (handoffs body) s1 s'.

Section TailH.
Variables (c h u : nat) (l : level) (t : positive) (body : list stmt).
Variables (bops sops : list (nat * op)) (bout : option exn).
Hypothesis CB : compile c body = (bops, bout).
Hypothesis IHb : QpH body.
Hypothesis ND : NoDup (handles_h body).
Hypothesis NDs : NoDup (slots_h body).
Hypothesis NDc : NoDup (c :: ctxs_h body).
Hypothesis NI : ~ In h (handles_h body).
Hypothesis SB : forallb (simple_h_stmt (Some h)) body = true.
Hypothesis TB : has_tb_h body = true -> reg_plain cfg = true.
(* add_success_fields after a body that did not raise (start_action blocks), or nothing *)
Hypothesis SO : sops = [] \/ exists succ, sops = [(c, OAddSuccess h succ)].

Lemma bout_raises_h : status_of (is_some bout) = status_of (raises body).
Proof. rewrite (raises_compile body c), CB. reflexivity. Qed.

Lemma handoff_handle_ne slot h' : In (slot, h') (handoffs body) -> h' <> h.
Proof. intros I ->. apply NI. now destruct (handoffs_incl body slot h I). Qed.

Lemma body_then_succ_h s3 a :
  Good s3 -> cur s3 c = Some h -> alookup h (heap s3) = Some a ->
  let s5 := run cfg sops (run cfg bops s3) in
  Good s5 /\ cur s5 c = Some h /\ tstack s5 c = tstack s3 c /\ next_uuid s5 = next_uuid s3 /\
  (exists a5, alookup h (heap s5) = Some a5 /\ same_core a a5 /\ a_last a5 = a_last a + length (kids_h body)) /\
  (forall h', h' <> h -> ~ In h' (handles_h body) -> alookup h' (heap s5) = alookup h' (heap s3)) /\
  map pv (tr s5) = map pv (tr s3) ++ map Some (lay (a_uuid a) (a_level a) (a_last a) (kids_h body)) /\
  IdsOK (handoffs body) s3 s5.
Proof.
  intros G C E. cbn zeta.
  destruct (IHb c s3 G ND NDs NDc TB) as [IHin _].
  specialize (IHin h a C E NI SB). rewrite CB in IHin. cbn [fst] in IHin.
  set (s4 := run cfg bops s3) in *.
  destruct IHin as [(G4 & C4 & T4 & N4 & (a4 & E4 & S4 & L4) & F4 & P4) K4].
  destruct SO as [->|(succ & ->)].
  - rewrite run_nil. repeat (split; [assumption|]). split; [|split; [|split]]; try assumption.
    exists a4. auto.
  - change (run cfg [(c, OAddSuccess h succ)] s4) with (api cfg c s4 (OAddSuccess h succ)).
    destruct (oaddsuccess_view cfg d e c s4 h a4 succ G4 E4) as (G5 & V2 & V3 & V4 & V5 & V6).
    split; [exact G5|]. split; [congruence|]. split; [congruence|]. split; [congruence|].
    split; [|split; [|split]].
    + exists (with_succ a4 succ). rewrite V2, alookup_aset_same. split; [reflexivity|].
      split; [|exact L4]. unfold same_core in *. cbn. intuition.
    + intros h' N I. rewrite V2, alookup_aset_other by congruence. now apply F4.
    + now rewrite V6.
    + eapply IdsOK_wrap with (s1 := s3) (s2 := s4); [reflexivity|exact K4|now apply api_ids| |].
      * intros slot h' I. rewrite V2. apply alookup_aset_other.
        intros X. apply (handoff_handle_ne slot h' I). congruence.
      * rewrite V6. apply incl_refl.
Qed.

Lemma tail_with_h v s1 :
  Good s1 -> alookup h (heap s1) = Some (bump (new_action u l (VTypeName t))) -> cur s1 c = v ->
  ActPostH c h u l t body v s1
    (run cfg ([(c, OEnter h)] ++ probe c ++ bops ++ sops ++ [(c, OExit h bout)]) s1).
Proof.
  intros G1 E1 C1.
  set (a0 := bump (new_action u l (VTypeName t))) in *.
  rewrite run_app. change (run cfg [(c, OEnter h)] s1) with (api cfg c s1 (OEnter h)).
  destruct (oenter_view cfg d e c s1 h a0 G1 E1) as (G2 & H2 & C2 & T2 & N2 & R2).
  pose proof (api_ids cfg c s1 (OEnter h) eq_refl) as I2.
  set (s2 := api cfg c s1 (OEnter h)) in *.
  rewrite run_app, run_probe.
  destruct (oprobe_view cfg d e c s2 G2) as (G3 & H3 & C3 & T3 & N3 & R3).
  pose proof (api_ids cfg c s2 OProbe eq_refl) as I3.
  set (s3 := api cfg c s2 OProbe) in *.
  rewrite run_app, run_app.
  assert (E3 : alookup h (heap s3) = Some (with_token a0 (Some (cur s1 c)))).
  { rewrite H3, H2. apply alookup_aset_same. }
  destruct (body_then_succ_h s3 _ G3 (eq_trans C3 C2) E3)
    as (G5 & C5 & T5 & N5 & (a5 & E5 & S5 & L5) & F5 & P5 & K5).
  set (s5 := run cfg sops (run cfg bops s3)) in *.
  change (run cfg [(c, OExit h bout)] s5) with (api cfg c s5 (OExit h bout)).
  destruct S5 as (U5 & LV5 & FN5 & TY5 & SE5 & TK5). cbn in U5, LV5, FN5, TY5, SE5, TK5.
  destruct (oexit_view cfg d e c reg s5 h a5 bout t (cur s1 c) G5 E5 FN5 SE5 TY5 TK5)
    as (m & (G6 & H6 & C6 & T6 & N6 & R6) & PM).
  pose proof (api_ids cfg c s5 (OExit h bout) eq_refl) as I6.
  unfold ActPostH. split; [exact G6|]. split; [congruence|]. split; [congruence|]. split; [congruence|].
  split; [|split; [|split]].
  - eexists. rewrite H6, alookup_aset_same. split; [reflexivity|]. cbn. auto.
  - intros h' N I. rewrite H6, alookup_aset_other by congruence. rewrite F5 by assumption.
    rewrite H3, H2. apply alookup_aset_other. congruence.
  - rewrite R6, map_app, P5, R3, R2. cbn [map]. rewrite PM, map_app, <- app_assoc. cbn [map a_uuid a_level a_last with_token a0 bump new_action].
    do 3 f_equal. unfold end_msg, mk_msg, pm0, npos, Z0. rewrite U5, LV5, L5, end_status_of, bout_raises_h.
    cbn. reflexivity.
  - eapply IdsOK_wrap with (s1 := s3) (s2 := s5); [congruence|exact K5|exact I6| |].
    + intros slot h' I. rewrite H6. apply alookup_aset_other.
      intros X. apply (handoff_handle_ne slot h' I). congruence.
    + rewrite R6, map_app. apply incl_appl, incl_refl.
Qed.

Lemma tail_ctx_h v s1 :
  Good s1 -> alookup h (heap s1) = Some (bump (new_action u l (VTypeName t))) -> cur s1 c = v ->
  ActPostH c h u l t body v s1
    (run cfg ([(c, OCtxEnter h)] ++ probe c ++ bops ++ sops ++ [(c, OCtxExit)] ++ probe c
              ++ [(c, OFinish h bout)]) s1).
Proof.
  intros G1 E1 C1.
  set (a0 := bump (new_action u l (VTypeName t))) in *.
  rewrite run_app. change (run cfg [(c, OCtxEnter h)] s1) with (api cfg c s1 (OCtxEnter h)).
  destruct (octxenter_view cfg d e c s1 h G1) as (G2 & H2 & C2 & T2 & N2 & R2).
  pose proof (api_ids cfg c s1 (OCtxEnter h) eq_refl) as I2.
  set (s2 := api cfg c s1 (OCtxEnter h)) in *.
  rewrite run_app, run_probe.
  destruct (oprobe_view cfg d e c s2 G2) as (G3 & H3 & C3 & T3 & N3 & R3).
  pose proof (api_ids cfg c s2 OProbe eq_refl) as I3.
  set (s3 := api cfg c s2 OProbe) in *.
  rewrite run_app, run_app.
  assert (E3 : alookup h (heap s3) = Some a0) by (now rewrite H3, H2).
  destruct (body_then_succ_h s3 _ G3 (eq_trans C3 C2) E3)
    as (G5 & C5 & T5 & N5 & (a5 & E5 & S5 & L5) & F5 & P5 & K5).
  set (s5 := run cfg sops (run cfg bops s3)) in *.
  rewrite run_app. change (run cfg [(c, OCtxExit)] s5) with (api cfg c s5 OCtxExit).
  assert (T5' : tstack s5 c = cur s1 c :: tstack s1 c) by congruence.
  destruct (octxexit_view cfg d e c s5 _ _ G5 T5') as (G6 & H6 & C6 & T6 & N6 & R6).
  pose proof (api_ids cfg c s5 OCtxExit eq_refl) as I6.
  set (s6 := api cfg c s5 OCtxExit) in *.
  rewrite run_app, run_probe.
  destruct (oprobe_view cfg d e c s6 G6) as (G7 & H7 & C7 & T7 & N7 & R7).
  pose proof (api_ids cfg c s6 OProbe eq_refl) as I7.
  set (s7 := api cfg c s6 OProbe) in *.
  change (run cfg [(c, OFinish h bout)] s7) with (api cfg c s7 (OFinish h bout)).
  pose proof (api_ids cfg c s7 (OFinish h bout) eq_refl) as I8.
  change (api cfg c s7 (OFinish h bout)) with (finish cfg c s7 h bout) in *.
  destruct S5 as (U5 & LV5 & FN5 & TY5 & SE5 & TK5). cbn in U5, LV5, FN5, TY5, SE5, TK5.
  assert (E7 : alookup h (heap s7) = Some a5) by (now rewrite H7, H6).
  destruct (finish_view cfg d e c reg s7 h a5 bout t G7 E7 FN5 SE5 TY5)
    as (m & (G8 & H8 & C8 & T8 & N8 & R8) & PM).
  unfold ActPostH. split; [exact G8|]. split; [congruence|]. split; [congruence|]. split; [congruence|].
  split; [|split; [|split]].
  - eexists. rewrite H8, alookup_aset_same. split; [reflexivity|]. cbn. auto.
  - intros h' N I. rewrite H8, alookup_aset_other by congruence. rewrite H7, H6, F5 by assumption.
    now rewrite H3, H2.
  - rewrite R8, map_app, R7, R6, P5, R3, R2. cbn [map]. rewrite PM, map_app, <- app_assoc.
    cbn [map a_uuid a_level a_last a0 bump new_action].
    do 3 f_equal. unfold end_msg, mk_msg, pm0, npos, Z0. rewrite U5, LV5, L5, end_status_of, bout_raises_h.
    cbn. reflexivity.
  - eapply IdsOK_wrap with (s1 := s3) (s2 := s5); [congruence|exact K5|congruence| |].
    + intros slot h' I. rewrite H8, alookup_aset_other, H7, H6; [reflexivity|].
      intros X. apply (handoff_handle_ne slot h' I). congruence.
    + rewrite R8, R7, R6, map_app. apply incl_appl, incl_refl.
Qed.

End TailH.

(* ---- start_action blocks -------------------------------------------------------------------- *)
Lemma act_case_h h style task ty fs sers succ body :
  QpH body -> PstH (SAct h style task ty fs sers succ body).
Proof.
  intros IHb c s G ND NDs NDc TB.
  change (handles_h_stmt (SAct h style task ty fs sers succ body)) with (h :: handles_h body) in *.
  change (slots_h_stmt (SAct h style task ty fs sers succ body)) with (slots_h body) in *.
  change (ctxs_h_stmt (SAct h style task ty fs sers succ body)) with (ctxs_h body) in *.
  change (handoffs_stmt (SAct h style task ty fs sers succ body)) with (handoffs body).
  change (has_tb_h_stmt (SAct h style task ty fs sers succ body)) with (has_tb_h body) in TB.
  inversion ND as [|? ? NI NDb]; subst.
  rewrite compile_stmt_act, kids_h_stmt_act. destruct (compile c body) as [bops bout] eqn:CB.
  set (sops := match bout with None => [(c, OAddSuccess h succ)] | Some _ => [] end).
  assert (SO : sops = [] \/ exists succ0, sops = [(c, OAddSuccess h succ0)])
    by (unfold sops; destruct bout; [now left|right; now exists succ]).
  split.
  - (* inside action p *)
    intros p pa C E NIp S. cbn [simple_h_stmt is_none orb] in S.
    apply andb_true_iff in S as [S SB]. apply andb_true_iff in S as [S SS].
    apply andb_true_iff in S as [ST STY]. apply negb_true_iff in ST. subst task.
    destruct sers; [discriminate|]. destruct ty; try discriminate. rename a into t.
    assert (Nhp : h <> p) by (intros ->; apply NIp; now left).
    destruct (ostart_in cfg d e c s h p pa (VTypeName t) fs G C E) as (G1 & H1 & C1 & T1 & N1 & R1).
    pose proof (api_ids cfg c s (OStart h false (VTypeName t) fs None) eq_refl) as I1.
    set (s1 := api cfg c s (OStart h false (VTypeName t) fs None)) in *.
    assert (E1 : alookup h (heap s1) = Some (bump (new_action (a_uuid pa) (npos pa) (VTypeName t))))
      by (rewrite H1; apply alookup_aset_same).
    match goal with |- InH _ _ _ _ _ _ _ (run cfg ?o s) => set (s' := run cfg o s) end.
    assert (POST : ActPostH c h (a_uuid pa) (npos pa) t body (Some p) s1 s').
    { subst s'. cbn zeta. destruct style; cbn [fst app]; rewrite run_cons; cbn [fst snd]; fold s1.
      - exact (tail_with_h c h (a_uuid pa) (npos pa) t body bops sops bout CB IHb NDb NDs NDc NI SB TB SO (Some p) s1 G1 E1 C1).
      - exact (tail_ctx_h c h (a_uuid pa) (npos pa) t body bops sops bout CB IHb NDb NDs NDc NI SB TB SO (Some p) s1 G1 E1 C1).
      - exact (tail_ctx_h c h (a_uuid pa) (npos pa) t body bops sops bout CB IHb NDb NDs NDc NI SB TB SO (Some p) s1 G1 E1 C1). }
    clearbody s'.
    destruct POST as (G' & C' & T' & N' & _ & F' & P' & K').
    split.
    + unfold InSpec. split; [exact G'|]. split; [exact C'|]. split; [congruence|]. split; [congruence|].
      split; [|split].
      * exists (bump pa). split.
        -- rewrite F'; [|congruence|intros X; apply NIp; now right].
           rewrite H1, alookup_aset_other by congruence. apply alookup_aset_same.
        -- split; [unfold same_core; cbn; intuition|]. cbn. lia.
      * intros h' N X. rewrite F'; [|intros ->; apply X; now left|intros Y; apply X; now right].
        rewrite H1, alookup_aset_other by (intros ->; apply X; now left).
        apply alookup_aset_other. congruence.
      * rewrite P', R1, map_app. cbn [map lay]. rewrite pv_start, app_nil_r, lin_tree_act_lay, <- app_assoc.
        cbn [ty_of map app]. reflexivity.
    + eapply IdsOK_wrap with (s1 := s1) (s2 := s'); [exact I1|exact K'|reflexivity|reflexivity|apply incl_refl].
  - (* top level *)
    intros C S. cbn [simple_h_stmt is_none orb] in S.
    apply andb_true_iff in S as [S SB]. apply andb_true_iff in S as [STY SS].
    destruct sers; [discriminate|]. destruct ty; try discriminate. rename a into t.
    assert (CT : (if task then None else cur s c) = (None : option nat)) by (destruct task; auto).
    destruct (ostart_top cfg d e c s h task (VTypeName t) fs G CT) as (G1 & H1 & C1 & T1 & N1 & R1).
    pose proof (api_ids cfg c s (OStart h task (VTypeName t) fs None) eq_refl) as I1.
    set (s1 := api cfg c s (OStart h task (VTypeName t) fs None)) in *.
    assert (E1 : alookup h (heap s1) = Some (bump (new_action (next_uuid s) [] (VTypeName t))))
      by (rewrite H1; apply alookup_aset_same).
    assert (C1' : cur s1 c = None) by congruence.
    match goal with |- TopH _ _ _ _ _ (run cfg ?o s) => set (s' := run cfg o s) end.
    assert (POST : ActPostH c h (next_uuid s) [] t body None s1 s').
    { subst s'. cbn zeta. destruct style; cbn [fst app]; rewrite run_cons; cbn [fst snd]; fold s1.
      - exact (tail_with_h c h (next_uuid s) [] t body bops sops bout CB IHb NDb NDs NDc NI SB TB SO None s1 G1 E1 C1').
      - exact (tail_ctx_h c h (next_uuid s) [] t body bops sops bout CB IHb NDb NDs NDc NI SB TB SO None s1 G1 E1 C1').
      - exact (tail_ctx_h c h (next_uuid s) [] t body bops sops bout CB IHb NDb NDs NDc NI SB TB SO None s1 G1 E1 C1'). }
    clearbody s'.
    destruct POST as (G' & C' & T' & N' & _ & F' & P' & K').
    split.
    + unfold TopSpec. split; [exact G'|]. split; [exact C'|]. split; [congruence|]. split; [|split].
      * rewrite N', N1. cbn. lia.
      * intros h' X. rewrite F'; [|intros ->; apply X; now left|intros Y; apply X; now right].
        rewrite H1. apply alookup_aset_other. intros ->; apply X; now left.
      * rewrite P', R1, map_app. cbn [map lin_from lin_task]. rewrite pv_start, app_nil_r.
        change (Z00 (next_uuid s)) with Z0. rewrite lin_tree_act_lay, <- app_assoc.
        cbn [ty_of map app]. reflexivity.
    + eapply IdsOK_wrap with (s1 := s1) (s2 := s'); [exact I1|exact K'|reflexivity|reflexivity|apply incl_refl].
Qed.

(* ---- sequencing ------------------------------------------------------------------------------- *)
Lemma cons_case_h st rest : PstH st -> QpH rest -> QpH (st :: rest).
Proof.
  intros IHs IHr c s G ND NDs NDc TB.
  rewrite handles_h_cons in *. rewrite slots_h_cons in *. rewrite ctxs_h_cons in NDc.
  rewrite has_tb_h_cons in TB.
  destruct (NoDup_app_parts _ _ ND) as [ND1 ND2].
  destruct (NoDup_app_parts _ _ NDs) as [NDs1 NDs2].
  destruct (NoDup_cons_app_parts _ _ _ NDc) as [NDc1 NDc2].
  assert (TB1 : has_tb_h_stmt st = true -> reg_plain cfg = true) by (intros X; apply TB; now rewrite X).
  assert (TB2 : has_tb_h rest = true -> reg_plain cfg = true) by (intros X; apply TB; rewrite X; apply orb_true_r).
  destruct (IHs c s G ND1 NDs1 NDc1 TB1) as [IHin IHtop].
  rewrite compile_cons, kids_h_cons, handoffs_cons. pose proof (raises_stmt_compile st c) as RS.
  destruct (compile_stmt c st) as [ops out] eqn:CS. cbn [fst snd] in *.
  assert (KEEP : forall slot h', In (slot, h') (handoffs_stmt st) ->
            ~ In slot (map fst (handoffs rest)) /\ In h' (handles_h_stmt st) /\ ~ In h' (handles_h rest)).
  { intros slot h' I. destruct (handoffs_incl_both st slot h' I) as [X1 X2].
    split; [intros Y; apply handoffs_slots_incl in Y; revert Y; eapply NoDup_app_disjoint; eauto|]. split; [exact X2|eapply NoDup_app_disjoint; eauto]. }
  split.
  - intros h a C E NI S. cbn [forallb] in S. apply andb_true_iff in S as [S1 S2].
    assert (NI1 : ~ In h (handles_h_stmt st)) by (intros X; apply NI; apply in_app_iff; now left).
    assert (NI2 : ~ In h (handles_h rest)) by (intros X; apply NI; apply in_app_iff; now right).
    specialize (IHin h a C E NI1 S1).
    assert (A1 : InH c h a (kids_h_stmt st) (handles_h_stmt st) (handoffs_stmt st)
                     s (run cfg (ops ++ probe c) s)).
    { rewrite run_app, run_probe. now apply InH_probe. }
    rewrite RS. destruct out as [x|]; cbn [is_some fst].
    + rewrite !app_nil_r. eapply InH_mono; [|exact A1]. apply incl_appl, incl_refl.
    + destruct (compile c rest) as [rops rout] eqn:CR. cbn [fst].
      rewrite app_assoc, run_app. destruct A1 as [A1 K1].
      pose proof A1 as (G1 & C1 & _ & _ & (a1 & E1 & _) & _).
      destruct (IHr c _ G1 ND2 NDs2 NDc2 TB2) as [IHrin _]. specialize (IHrin h a1 C1 E1 NI2 S2).
      rewrite CR in IHrin. cbn [fst] in IHrin. destruct IHrin as [A2 K2]. split.
      * eapply InSpec_trans; [exact A1|]. intros a1' E1'. assert (a1' = a1) by congruence. subst a1'. exact A2.
      * eapply IdsOK_trans; [exact K1|exact K2| |].
        -- intros slot h' I. destruct (KEEP slot h' I) as (X1 & X2 & X3). split; [exact X1|].
           destruct A2 as (_ & _ & _ & _ & _ & F2 & _). apply F2; [|exact X3].
           intros ->. now apply NI1.
        -- destruct A2 as (_ & _ & _ & _ & _ & _ & P2). rewrite P2. apply incl_appl, incl_refl.
  - intros C S. cbn [forallb] in S. apply andb_true_iff in S as [S1 S2].
    specialize (IHtop C S1).
    assert (A1 : TopH c (kids_h_stmt st) (handles_h_stmt st) (handoffs_stmt st)
                      s (run cfg (ops ++ probe c) s)).
    { rewrite run_app, run_probe. now apply TopH_probe. }
    rewrite RS. destruct out as [x|]; cbn [is_some fst].
    + rewrite !app_nil_r. eapply TopH_mono; [|exact A1]. apply incl_appl, incl_refl.
    + destruct (compile c rest) as [rops rout] eqn:CR. cbn [fst].
      rewrite app_assoc, run_app. destruct A1 as [A1 K1].
      pose proof A1 as (G1 & C1 & _).
      destruct (IHr c _ G1 ND2 NDs2 NDc2 TB2) as [_ IHrtop]. specialize (IHrtop C1 S2).
      rewrite CR in IHrtop. cbn [fst] in IHrtop. destruct IHrtop as [A2 K2]. split.
      * eapply TopSpec_trans; [exact A1|exact A2].
      * eapply IdsOK_trans; [exact K1|exact K2| |].
        -- intros slot h' I. destruct (KEEP slot h' I) as (X1 & X2 & X3). split; [exact X1|].
           destruct A2 as (_ & _ & _ & _ & F2 & _). apply F2. exact X3.
        -- destruct A2 as (_ & _ & _ & _ & _ & P2). rewrite P2. apply incl_appl, incl_refl.
Qed.

(* ---- with h.context(): ------------------------------------------------------------------------ *)
Lemma reenter_case_h h0 body : QpH body -> PstH (SReenter h0 body).
Proof.
  intros IHb c s G ND NDs NDc TB.
  change (handles_h_stmt (SReenter h0 body)) with (handles_h body) in *.
  change (slots_h_stmt (SReenter h0 body)) with (slots_h body) in *.
  change (ctxs_h_stmt (SReenter h0 body)) with (ctxs_h body) in *.
  change (handoffs_stmt (SReenter h0 body)) with (handoffs body).
  change (kids_h_stmt (SReenter h0 body)) with (kids_h body).
  change (has_tb_h_stmt (SReenter h0 body)) with (has_tb_h body) in TB.
  rewrite compile_stmt_reenter. destruct (compile c body) as [bops bout] eqn:CB.
  cbn [fst]. split; [|intros _ S; discriminate].
  intros h a C E NI S. cbn [simple_h_stmt] in S. apply andb_true_iff in S as [S1 S2].
  apply is_handle_eq in S1. subst h0.
  rewrite run_app. change (run cfg [(c, OCtxEnter h)] s) with (api cfg c s (OCtxEnter h)).
  destruct (octxenter_view cfg d e c s h G) as (G2 & H2 & C2 & T2 & N2 & R2).
  pose proof (api_ids cfg c s (OCtxEnter h) eq_refl) as I2.
  set (s2 := api cfg c s (OCtxEnter h)) in *.
  rewrite run_app, run_probe.
  destruct (oprobe_view cfg d e c s2 G2) as (G3 & H3 & C3 & T3 & N3 & R3).
  pose proof (api_ids cfg c s2 OProbe eq_refl) as I3.
  set (s3 := api cfg c s2 OProbe) in *.
  rewrite run_app.
  assert (E3 : alookup h (heap s3) = Some a) by (now rewrite H3, H2).
  destruct (IHb c s3 G3 ND NDs NDc TB) as [IHin _]. specialize (IHin h a (eq_trans C3 C2) E3 NI S2).
  rewrite CB in IHin. cbn [fst] in IHin.
  set (s4 := run cfg bops s3) in *.
  destruct IHin as [(G4 & C4 & T4 & N4 & A4 & F4 & P4) K4].
  change (run cfg [(c, OCtxExit)] s4) with (api cfg c s4 OCtxExit).
  assert (T4' : tstack s4 c = cur s c :: tstack s c) by congruence.
  destruct (octxexit_view cfg d e c s4 _ _ G4 T4') as (G5 & H5 & C5 & T5 & N5 & R5).
  pose proof (api_ids cfg c s4 OCtxExit eq_refl) as I5.
  split.
  - unfold InSpec. split; [exact G5|]. split; [congruence|]. split; [congruence|]. split; [congruence|].
    split; [|split].
    + rewrite H5. exact A4.
    + intros h' N X. rewrite H5, F4 by assumption. now rewrite H3, H2.
    + now rewrite R5, P4, R3, R2.
  - eapply IdsOK_wrap with (s1 := s3) (s2 := s4); [congruence|exact K4|exact I5| |].
    + intros slot h' _. now rewrite H5.
    + rewrite R5. apply incl_refl.
Qed.

(* ---- the hand-off ------------------------------------------------------------------------------ *)
(* id = h.serialize_task_id() in context c; then, in the fresh context c':
   with Action.continue_task(task_id=id): body *)
Lemma handoff_case h0 slot h' c' body : QpH body -> PstH (SHandoff h0 slot h' c' body).
Proof.
  intros IHb c s G ND NDs NDc TB.
  change (handles_h_stmt (SHandoff h0 slot h' c' body)) with (h' :: handles_h body) in *.
  change (slots_h_stmt (SHandoff h0 slot h' c' body)) with (slot :: slots_h body) in *.
  change (ctxs_h_stmt (SHandoff h0 slot h' c' body)) with (c' :: ctxs_h body) in *.
  change (handoffs_stmt (SHandoff h0 slot h' c' body)) with ((slot, h') :: handoffs body).
  change (has_tb_h_stmt (SHandoff h0 slot h' c' body)) with (has_tb_h body) in TB.
  inversion ND as [|? ? NIb NDb]; subst.
  inversion NDs as [|? ? NSb NDsb]; subst.
  inversion NDc as [|? ? NCc NDcb]; subst.
  rewrite compile_stmt_handoff, kids_h_stmt_handoff. destruct (compile c' body) as [bops bout] eqn:CB.
  cbn [fst]. split; [|intros _ S; discriminate].
  intros h a C E NI S. cbn [simple_h_stmt] in S. apply andb_true_iff in S as [S1 SB].
  apply is_handle_eq in S1. subst h0.
  assert (Ncc : c <> c') by (intros ->; apply NCc; now left).
  assert (Ncb : ~ In c (ctxs_h body)) by (intros X; apply NCc; now right).
  assert (Nhh : h' <> h) by (intros ->; apply NI; now left).
  assert (NIh : ~ In h (handles_h body)) by (intros X; apply NI; now right).
  (* the calls of the other thread: none of them runs in, or spawns, context c *)
  set (rest := [(c', OProbe); (c', OContinue h' slot []); (c', OEnter h')] ++ probe c' ++ bops
               ++ [(c', OExit h' bout)] ++ probe c').
  assert (FR : Forall (foreign c) rest).
  { pose proof (compile_foreign body c' c Ncc) as X. rewrite <- ctxs_h_eq in X. specialize (X Ncb).
    rewrite CB in X. cbn [fst] in X.
    unfold rest. forall_split; try exact X; split; cbn; congruence. }
  match goal with |- InH _ _ _ _ _ _ _ (run cfg ?o s) =>
    change o with ((c, OSerializeId h slot) :: rest) end.
  rewrite run_cons. cbn [fst snd]. rewrite (oserialize_eq cfg c s h a slot E).
  set (u := a_uuid a). set (l := npos a).
  set (s1 := set_ids (set_heap s h (bump a)) (aset slot (u, l) (ids s))).
  assert (G1 : Good s1) by exact G.
  destruct (run_frame cfg c rest s1 FR) as [FC FT].
  set (tailops := [(c', OEnter h')] ++ probe c' ++ bops ++ [] ++ [(c', OExit h' bout)]).
  assert (EQR : run cfg rest s1
                = api cfg c' (run cfg tailops (api cfg c' (api cfg c' s1 OProbe) (OContinue h' slot []))) OProbe).
  { unfold rest, tailops, probe. cbn [app].
    repeat (rewrite ?run_cons, ?run_app; cbn [fst snd]). reflexivity. }
  rewrite EQR in *. clear EQR.
  set (s2 := api cfg c' s1 OProbe) in *.
  assert (G2 : Good s2) by exact G.
  assert (X2 : alookup slot (ids s2) = Some (u, l)) by (apply alookup_aset_same).
  destruct (ocontinue_view cfg d e c' s2 h' slot u l G2 X2) as (G3 & H3 & C3 & T3 & N3 & R3).
  pose proof (api_ids cfg c' s2 (OContinue h' slot []) eq_refl) as I3.
  set (s3 := api cfg c' s2 (OContinue h' slot [])) in *.
  assert (E3 : alookup h' (heap s3) = Some (bump (new_action u l (VTypeName T_remote_task))))
    by (rewrite H3; apply alookup_aset_same).
  pose proof (tail_with_h c' h' u l T_remote_task body bops [] bout CB IHb NDb NDsb NDcb NIb SB TB
                (or_introl eq_refl) (cur s3 c') s3 G3 E3 eq_refl) as POST.
  fold tailops in POST. set (s' := run cfg tailops s3) in *.
  destruct POST as (G' & C' & T' & N' & (ah & Eh & Uh & Lh) & F' & P' & K').
  destruct (oprobe_view cfg d e c' s' G') as (G'' & H'' & C'' & T'' & N'' & R'').
  set (s'' := api cfg c' s' OProbe) in *.
  assert (Hs2 : heap s2 = aset h (bump a) (heap s)) by reflexivity.
  split.
  - unfold InSpec. split; [exact G''|]. split; [rewrite FC; exact C|]. split; [rewrite FT; reflexivity|].
    split; [rewrite N'', N', N3; reflexivity|]. split; [|split].
    + exists (bump a). split.
      * rewrite H'', F'; [|congruence|assumption]. rewrite H3, alookup_aset_other by congruence.
        rewrite Hs2. apply alookup_aset_same.
      * split; [unfold same_core; cbn; intuition|]. cbn. lia.
    + intros h2 N X. rewrite H'', F'; [|intros ->; apply X; now left|intros Y; apply X; now right].
      rewrite H3, alookup_aset_other by (intros ->; apply X; now left).
      rewrite Hs2. apply alookup_aset_other. congruence.
    + rewrite R'', P', R3, map_app. change (tr s2) with (tr s). cbn [map lay].
      rewrite pv_start, app_nil_r, lin_tree_act_lay, <- app_assoc. cbn [map app]. reflexivity.
  - split.
    + intros slot0 N. change (ids s'') with (ids s').
      destruct K' as [KA _]. rewrite KA by (intros X; apply N; now right).
      rewrite I3. change (ids s2) with (aset slot (u, l) (ids s)).
      apply alookup_aset_other. intros ->. apply N. now left.
    + intros slot0 h2 [I|I].
      * injection I as <- <-. exists ah. rewrite H''. split; [exact Eh|]. split.
        -- change (ids s'') with (ids s'). destruct K' as [KA _].
           rewrite KA by (intros Y; apply NSb; now apply handoffs_slots_incl).
           rewrite I3, Uh, Lh. exact X2.
        -- rewrite R'', P', R3, map_app, Uh, Lh. cbn [map]. rewrite pv_start.
           apply in_or_app. left. apply in_or_app. right. now left.
      * destruct K' as [_ KB]. destruct (KB _ _ I) as (a2 & Y1 & Y2 & Y3). exists a2.
        rewrite H'', R''. auto.
Qed.

(* ---- the master lemma, for the statement language with hand-offs ------------------------------- *)
Theorem eval_spec_h : forall p, QpH p.
Proof.
  apply (prog_ind' PstH QpH).
  - (* SMsg *)
    intros mt fs ser c s G _ _ _ _. change (fst (compile_stmt c (SMsg mt fs ser))) with [(c, OLog mt fs ser)].
    change (run cfg [(c, OLog mt fs ser)] s) with (api cfg c s (OLog mt fs ser)). split.
    + intros h a C E _ S. cbn [simple_h_stmt] in S. apply andb_true_iff in S as [S1 S2].
      destruct ser; [discriminate|]. destruct (plain_mkfields fs S2) as [A B].
      apply InH_one; [reflexivity|].
      eapply one_msg_in; [exact E|apply olog_in; assumption|now apply pv_stamp].
    + intros C S. cbn [simple_h_stmt] in S. apply andb_true_iff in S as [S1 S2].
      destruct ser; [discriminate|]. destruct (plain_mkfields fs S2) as [A B].
      apply TopH_one; [reflexivity|].
      eapply one_msg_top; [apply olog_top; assumption|now apply pv_stamp].
  - (* SActLog *)
    intros h0 mt fs c s G _ _ _ _. change (fst (compile_stmt c (SActLog h0 mt fs))) with [(c, OActionLog h0 mt fs)].
    change (run cfg [(c, OActionLog h0 mt fs)] s) with (api cfg c s (OActionLog h0 mt fs)).
    split; [|intros _ S; discriminate].
    intros h a C E _ S. cbn [simple_h_stmt] in S. apply andb_true_iff in S as [S1 S2].
    apply is_handle_eq in S1. subst h0. destruct (plain_mkfields fs S2) as [A B].
    apply InH_one; [reflexivity|].
    eapply one_msg_in; [exact E|rewrite <- C; apply oactlog_in; assumption|now apply pv_stamp].
  - (* SAct *) exact act_case_h.
  - (* SRaise *)
    intros x c s G _ _ _ _. change (fst (compile_stmt c (SRaise x))) with (@nil (nat * op)). rewrite run_nil.
    split.
    + intros h a C E _ _. split; [now apply InSpec_nil|now apply IdsOK_same].
    + intros C _. split; [now apply TopSpec_nil|now apply IdsOK_same].
  - (* STry *)
    intros body IHb c s G ND NDs NDc TB. rewrite compile_stmt_try. cbn [fst].
    destruct (IHb c s G ND NDs NDc TB) as [IHin IHtop]. split.
    + intros h a C E NI S. exact (IHin h a C E NI S).
    + intros C S. exact (IHtop C S).
  - (* STraceback *)
    intros x c s G _ _ _ TB. specialize (TB eq_refl).
    change (fst (compile_stmt c (STraceback x))) with [(c, OTraceback x)].
    change (run cfg [(c, OTraceback x)] s) with (api cfg c s (OTraceback x)). split.
    + intros h a C E _ _.
      destruct (otraceback_in cfg d e c reg TB s h a x G C E) as (m & V & PM).
      apply InH_one; [reflexivity|]. eapply one_msg_in; eassumption.
    + intros C _.
      destruct (otraceback_top cfg d e c reg TB s x G C) as (m & V & PM).
      apply TopH_one; [reflexivity|]. eapply one_msg_top; eassumption.
  - (* SHandoff *) exact handoff_case.
  - (* SReenter *) exact reenter_case_h.
  - (* SFinishAgain *) intros h exc c s G _ _ _ _. split; [intros ? ? _ _ _ S|intros _ S]; discriminate.
  - (* SRawWrite *) intros m ser c s G _ _ _ _. split; [intros ? ? _ _ _ S|intros _ S]; discriminate.
  - (* SSpawn *) intros c' body _ c s G _ _ _ _. split; [intros ? ? _ _ _ S|intros _ S]; discriminate.
  - (* [] *)
    intros c s G _ _ _ _. change (fst (compile c [])) with (@nil (nat * op)). rewrite run_nil. split.
    + intros h a C E _ _. split; [now apply InSpec_nil|now apply IdsOK_same].
    + intros C _. split; [now apply TopSpec_nil|now apply IdsOK_same].
  - exact cons_case_h.
Qed.

End EmissionH.

(* ====================================================================================== *)
(* 6. whole programs                                                                      *)
(* ====================================================================================== *)
Lemma reg_ok_h_fields cfg p : reg_ok_h cfg p = true -> reg_fields cfg = true.
Proof. unfold reg_ok_h. destruct (has_tb_h p); [apply reg_plain_fields|auto]. Qed.

Lemma reg_ok_h_plain cfg p : reg_ok_h cfg p = true -> has_tb_h p = true -> reg_plain cfg = true.
Proof. unfold reg_ok_h. intros H T. now rewrite T in H. Qed.

Lemma simple_h_parts p :
  simple_h p = true ->
  forallb (simple_h_stmt None) p = true /\ NoDup (handles_h p) /\ NoDup (slots_h p) /\
  NoDup (0 :: ctxs_h p).
Proof.
  unfold simple_h. intros S. apply andb_true_iff in S as [S S4]. apply andb_true_iff in S as [S S3].
  apply andb_true_iff in S as [S1 S2]. auto using nodupb_NoDup.
Qed.

(* the master lemma on the whole program, from the state in which it starts *)
Theorem C06_run_spec cfg d e p :
  simple_h p = true -> reg_ok_h cfg p = true ->
  TopH d e 0 (expected_h p) (handles_h p) (handoffs p)
       (start_state d e) (fst (run_prog cfg (one_dest d e) p)).
Proof.
  intros S R. destruct (simple_h_parts p S) as (S1 & S2 & S3 & S4).
  rewrite run_prog_fst, run_one_dest.
  destruct (eval_spec_h cfg d e (reg_ok_h_fields cfg p R) p 0 (start_state d e) (Good_start d e)
              S2 S3 S4 (reg_ok_h_plain cfg p R)) as [_ T].
  exact (T eq_refl S1).
Qed.

Theorem C06_emission_view cfg d e p :
  simple_h p = true -> reg_ok_h cfg p = true ->
  Good d e (fst (run_prog cfg (one_dest d e) p)) /\
  map pv (trace_of (fst (run_prog cfg (one_dest d e) p)) d) = map Some (lin0 (expected_h p)).
Proof.
  intros S R. destruct (C06_run_spec cfg d e p S R) as [(G & _ & _ & _ & _ & P) _].
  split; [exact G|]. rewrite (Good_trace d e _ G), P. reflexivity.
Qed.

(* ---- C06_emission ------------------------------------------------------------------------------ *)
(* What the destination received, numbered in emission order, IS the linearisation of the
   forest the program means: each remote sub-tree is emitted in place (the originating side
   joins the other thread before it goes on), under the SAME task uuid, its levels extending
   the position that serialize_task_id reserved in the originating action. *)
Theorem C06_emission cfg d e p :
  simple_h p = true -> reg_ok_h cfg p = true ->
  number_from 0 (trace_of (fst (run_prog cfg (one_dest d e) p)) d) = lin (expected_h p).
Proof.
  intros S R. destruct (C06_emission_view cfg d e p S R) as [_ V].
  rewrite lin_renumber. now apply number_from_renumber.
Qed.

(* ---- C06_roundtrip ------------------------------------------------------------------------------ *)
(* The two sides' messages merged and delivered in ANY order ([order] lists the emission
   indexes in order of arrival): the parser reports no error, leaves nothing incomplete, and
   completes exactly one task per tree of [expected_h p], whose root node is the whole tree
   -- every remote action the child of its originating action at exactly the reserved
   position. *)
Theorem C06_roundtrip cfg d e p order :
  simple_h p = true -> reg_ok_h cfg p = true ->
  Permutation order (seq 0 (length (lin (expected_h p)))) ->
  exists done us,
    roundtrip cfg (one_dest d e) p d order = POk (done, []) /\
    Permutation us (seq 0 (length (expected_h p))) /\
    Forall2 (parsed_as (expected_h p)) us done.
Proof.
  intros S R P. unfold roundtrip. rewrite (C06_emission cfg d e p S R).
  apply parse_all.
  eapply perm_trans; [apply Permutation_map; exact P|].
  rewrite map_nth_seq. apply Permutation_refl.
Qed.

(* ---- the serialized ids ---------------------------------------------------------------------------- *)
(* [simple_h] programs are well-formed in the sense of C02Placement *)
Lemma simple_h_wf :
  forall st enc scope, (forall h, enc = Some h -> In h scope) ->
    simple_h_stmt enc st = true -> C02Placement.wf_stmt scope st = true.
Proof.
  apply (stmt_ind'
    (fun st => forall enc scope, (forall h, enc = Some h -> In h scope) ->
                 simple_h_stmt enc st = true -> C02Placement.wf_stmt scope st = true)
    (fun p => forall enc scope, (forall h, enc = Some h -> In h scope) ->
                 forallb (simple_h_stmt enc) p = true -> forallb (C02Placement.wf_stmt scope) p = true)).
  - intros mt fs ser enc scope _ S. cbn [simple_h_stmt] in S. destruct ser; [discriminate|reflexivity].
  - reflexivity.
  - intros h style task ty fs sers succ body IH enc scope K S. cbn [simple_h_stmt] in S.
    apply andb_true_iff in S as [S SB]. apply andb_true_iff in S as [S SS].
    destruct sers; [discriminate|]. cbn [C02Placement.wf_stmt C02Placement.asers_ok andb].
    apply (IH (Some h)); [|exact SB]. intros h1 X. injection X as <-. now left.
  - reflexivity.
  - intros body IH enc scope K S. exact (IH enc scope K S).
  - reflexivity.
  - intros h slot h' c' body IH enc scope K S. cbn [simple_h_stmt] in S.
    apply andb_true_iff in S as [S1 SB]. destruct enc as [h0|]; [|discriminate].
    apply is_handle_eq in S1. subst h0. cbn [C02Placement.wf_stmt]. apply andb_true_iff. split.
    + apply existsb_exists. exists h. split; [now apply K|apply Nat.eqb_refl].
    + apply (IH (Some h')); [|exact SB]. intros h1 X. injection X as <-. now left.
  - intros h body IH enc scope K S. cbn [simple_h_stmt] in S.
    apply andb_true_iff in S as [S1 SB]. destruct enc as [h0|]; [|discriminate].
    apply is_handle_eq in S1. subst h0. cbn [C02Placement.wf_stmt]. apply andb_true_iff. split.
    + apply existsb_exists. exists h. split; [now apply K|apply Nat.eqb_refl].
    + exact (IH (Some h) scope K SB).
  - reflexivity.
  - intros m ser enc scope _ S. discriminate.
  - intros c' body _ enc scope _ S. discriminate.
  - reflexivity.
  - intros st rest IHs IHr enc scope K S. cbn [forallb] in *. apply andb_true_iff in S as [S1 S2].
    apply andb_true_iff. split; [exact (IHs enc scope K S1)|exact (IHr enc scope K S2)].
Qed.

Lemma simple_h_wf_prog p : forallb (simple_h_stmt None) p = true -> C02Placement.wf_prog [] p = true.
Proof.
  unfold C02Placement.wf_prog. induction p as [|st rest IH]; [reflexivity|]. cbn [forallb].
  intros S. apply andb_true_iff in S as [S1 S2]. apply andb_true_iff. split; [|now apply IH].
  apply (simple_h_wf st None []); [discriminate|exact S1].
Qed.

Lemma observed_one d e : C02Placement.observed d [mk_dest d BNever e].
Proof. exists (mk_dest d BNever e). cbn. rewrite Nat.eqb_refl. split; reflexivity. Qed.

Lemma run_prog_final cfg d e p :
  fst (run_prog cfg (one_dest d e) p)
  = C02Placement.final cfg 0 [mk_dest d BNever e] (fst (compile 0 p)).
Proof. rewrite run_prog_fst. reflexivity. Qed.

Lemma simple_h_disciplined cfg d e p :
  simple_h p = true ->
  C02Placement.disciplined d cfg (fst (compile 0 p)) (C02Placement.registered [mk_dest d BNever e]) = true.
Proof.
  intros S. destruct (simple_h_parts p S) as (S1 & S2 & _ & _).
  apply C02Placement.C02_compile_disciplined; [apply observed_one|now apply simple_h_wf_prog|].
  now rewrite <- handles_h_declared.
Qed.

(* the continuing actions of the executed hand-offs are pairwise distinct objects *)
Lemma NoDup_app_intro {A} (l1 l2 : list A) :
  NoDup l1 -> NoDup l2 -> (forall x, In x l1 -> ~ In x l2) -> NoDup (l1 ++ l2).
Proof.
  induction l1 as [|x r IH]; cbn [app]; intros N1 N2 D; [exact N2|].
  inversion N1 as [|? ? N ND]; subst. constructor.
  - intros X. apply in_app_iff in X as [X|X]; [now apply N|]. apply (D x); [now left|exact X].
  - apply IH; auto. intros y Y. apply D. now right.
Qed.

Lemma handoffs_stmt_handle st h' : In h' (map snd (handoffs_stmt st)) -> In h' (handles_h_stmt st).
Proof. intros I. apply in_map_iff in I as ([sl h2] & <- & I). now destruct (handoffs_incl_both st sl h2 I). Qed.

Lemma handoffs_handle p h' : In h' (map snd (handoffs p)) -> In h' (handles_h p).
Proof. intros I. apply in_map_iff in I as ([sl h2] & <- & I). now destruct (handoffs_incl p sl h2 I). Qed.

Lemma handoffs_nodup_both :
  forall st, NoDup (handles_h_stmt st) -> NoDup (map snd (handoffs_stmt st)).
Proof.
  apply (stmt_ind'
    (fun st => NoDup (handles_h_stmt st) -> NoDup (map snd (handoffs_stmt st)))
    (fun p => NoDup (handles_h p) -> NoDup (map snd (handoffs p))));
    try solve [intros; cbn; constructor].
  - intros h style task ty fs sers succ body IH ND.
    change (handles_h_stmt (SAct h style task ty fs sers succ body)) with (h :: handles_h body) in ND.
    inversion ND; subst. now apply IH.
  - intros body IH ND. exact (IH ND).
  - intros h slot h' c' body IH ND.
    change (handles_h_stmt (SHandoff h slot h' c' body)) with (h' :: handles_h body) in ND.
    change (map snd (handoffs_stmt (SHandoff h slot h' c' body))) with (h' :: map snd (handoffs body)).
    inversion ND as [|? ? N ND']; subst. constructor; [|now apply IH].
    intros X. apply N. now apply handoffs_handle.
  - intros h body IH ND. exact (IH ND).
  - intros st rest IHs IHr ND. rewrite handles_h_cons in ND. rewrite handoffs_cons, map_app.
    destruct (NoDup_app_parts _ _ ND) as [ND1 ND2].
    destruct (raises_stmt st); [cbn [map]; rewrite app_nil_r; now apply IHs|].
    apply NoDup_app_intro; [now apply IHs|now apply IHr|].
    intros x X1 X2. apply handoffs_stmt_handle in X1. apply handoffs_handle in X2.
    revert X2. eapply NoDup_app_disjoint; eauto.
Qed.

Lemma handoffs_nodup p : NoDup (handles_h p) -> NoDup (map snd (handoffs p)).
Proof.
  induction p as [|st rest IH]; [intros _; constructor|].
  intros ND. rewrite handles_h_cons in ND. rewrite handoffs_cons, map_app.
  destruct (NoDup_app_parts _ _ ND) as [ND1 ND2].
  destruct (raises_stmt st); [cbn [map]; rewrite app_nil_r; now apply handoffs_nodup_both|].
  apply NoDup_app_intro; [now apply handoffs_nodup_both|now apply IH|].
  intros x X1 X2. apply handoffs_stmt_handle in X1. apply handoffs_handle in X2.
  revert X2. eapply NoDup_app_disjoint; eauto.
Qed.

Lemma NoDup_snd_inj {A B} (l : list (A * B)) a1 a2 b :
  NoDup (map snd l) -> In (a1, b) l -> In (a2, b) l -> a1 = a2.
Proof.
  induction l as [|[a b'] r IH]; cbn [map snd In]; intros ND I1 I2; [destruct I1|].
  inversion ND as [|? ? N ND']; subst. destruct I1 as [I1|I1], I2 as [I2|I2].
  - congruence.
  - injection I1 as -> ->. exfalso. apply N. apply in_map_iff. exists (a2, b). auto.
  - injection I2 as -> ->. exfalso. apply N. apply in_map_iff. exists (a1, b). auto.
  - now apply IH.
Qed.

(* a parsed message comes from a dictionary with that task_uuid and task_level *)
Lemma number_from_in ms : forall i pm,
  In pm (number_from i ms) ->
  exists m, In m ms /\ fget K_uuid m = Some (VUuid (pm_uuid pm)) /\ fget K_level m = Some (VLevel (pm_level pm)).
Proof.
  induction ms as [|m r IH]; intros i pm I; cbn [number_from] in I; [destruct I|].
  destruct (to_pmsg i m) as [q|] eqn:Q.
  - destruct I as [<-|I].
    + exists m. split; [now left|]. unfold to_pmsg in Q.
      destruct (fget K_uuid m) as [[]|]; try discriminate.
      destruct (fget K_level m) as [[]|]; try discriminate. injection Q as <-. cbn. auto.
    + destruct (IH _ _ I) as (m' & X & Y). exists m'. split; [now right|exact Y].
  - destruct (IH _ _ I) as (m' & X & Y). exists m'. split; [now right|exact Y].
Qed.

(* ---- C06_ids_unique ------------------------------------------------------------------------------ *)
(* The table of serialized task ids after the run:
   1. every executed hand-off left in its slot the (task_uuid, task_level) of the action object
      that continued it -- the remote side runs under the originating task's uuid;
   2. there are no other entries;
   3. the ids are pairwise distinct: serialize_task_id reserves a fresh position per call;
   4. an id is the (task_uuid, task_level) of NO emitted message, on either side
      (in terms of the dictionaries, and of the messages the parser receives);
   5. and of no action object other than the one that continued it. *)
Theorem C06_ids_unique cfg d e p :
  simple_h p = true -> reg_ok_h cfg p = true ->
  let s := fst (run_prog cfg (one_dest d e) p) in
  (forall slot h', In (slot, h') (handoffs p) ->
     exists a', alookup h' (heap s) = Some a' /\ alookup slot (ids s) = Some (a_uuid a', a_level a')) /\
  (forall slot, ~ In slot (map fst (handoffs p)) -> alookup slot (ids s) = None) /\
  (forall slot1 slot2 id,
     alookup slot1 (ids s) = Some id -> alookup slot2 (ids s) = Some id -> slot1 = slot2) /\
  (forall slot u l, alookup slot (ids s) = Some (u, l) ->
     (forall m, In m (trace_of s d) -> (fget K_uuid m, fget K_level m) <> (Some (VUuid u), Some (VLevel l))) /\
     (forall pm, In pm (lin (expected_h p)) -> (pm_uuid pm, pm_level pm) <> (u, l))) /\
  (forall slot h' u l, In (slot, h') (handoffs p) -> alookup slot (ids s) = Some (u, l) ->
     forall h2 a2, alookup h2 (heap s) = Some a2 -> a_uuid a2 = u -> a_level a2 = l -> h2 = h').
Proof.
  intros S R s.
  destruct (C06_run_spec cfg d e p S R) as [_ [KA KB]]. fold s in KA, KB.
  pose proof (simple_h_disciplined cfg d e p S) as D.
  pose proof (C02Placement.C02_distinct_owners cfg d 0 _ _ (observed_one d e) D) as OWN.
  pose proof (C02Placement.C02_exclusive cfg d 0 _ _ (observed_one d e) D) as [_ EXC].
  rewrite <- (run_prog_final cfg d e p) in OWN, EXC. fold s in OWN, EXC.
  destruct (simple_h_parts p S) as (_ & ND & _ & _).
  assert (P1 : forall slot h', In (slot, h') (handoffs p) ->
     exists a', alookup h' (heap s) = Some a' /\ alookup slot (ids s) = Some (a_uuid a', a_level a')).
  { intros slot h' I. destruct (KB slot h' I) as (a' & X1 & X2 & _). eauto. }
  assert (P2 : forall slot, ~ In slot (map fst (handoffs p)) -> alookup slot (ids s) = None).
  { intros slot N. now rewrite (KA slot N). }
  assert (P2' : forall slot id, alookup slot (ids s) = Some id -> exists h', In (slot, h') (handoffs p)).
  { intros slot id X. destruct (in_dec Nat.eq_dec slot (map fst (handoffs p))) as [I|N].
    - apply in_map_iff in I as ([sl h'] & <- & I). now exists h'.
    - rewrite (P2 slot N) in X. discriminate. }
  split; [exact P1|]. split; [exact P2|]. split; [|split].
  - intros slot1 slot2 id X1 X2.
    destruct (P2' _ _ X1) as (h1 & I1). destruct (P2' _ _ X2) as (h2 & I2).
    destruct (P1 _ _ I1) as (a1 & E1 & Y1). destruct (P1 _ _ I2) as (a2 & E2 & Y2).
    assert (h1 = h2) by (apply (OWN h1 h2 a1 a2 E1 E2); congruence). subst h2.
    exact (NoDup_snd_inj _ _ _ _ (handoffs_nodup p ND) I1 I2).
  - intros slot u l X. split.
    + intros m I. exact (EXC m slot u l I X).
    + intros pm I. rewrite <- (C06_emission cfg d e p S R) in I.
      destruct (number_from_in _ _ _ I) as (m & Im & U & L). fold s in Im.
      intros Y. injection Y as <- <-. apply (EXC m slot _ _ Im X). now rewrite U, L.
  - intros slot h' u l I X h2 a2 E2 U2 L2.
    destruct (P1 _ _ I) as (a' & E' & Y). apply (OWN h2 h' a2 a' E2 E'); congruence.
Qed.

(* ---- the remote action sits at the reserved position ------------------------------------------------ *)
Lemma renumber_in l : forall i m,
  In m l -> exists j, In (mkPmsg (pm_uuid m) (pm_level m) (pm_atype m) (pm_status m) j) (renumber i l).
Proof.
  induction l as [|x r IH]; intros i m I; [destruct I|]. cbn [renumber]. destruct I as [->|I].
  - exists i. now left.
  - destruct (IH (S i) m I) as (j & J). exists j. now right.
Qed.

(* Among the messages handed to the parser (whatever their order) there is, for every executed
   hand-off, the start message of an eliot:remote_task action under the task uuid of the
   serialized id and at level (serialized level) ++ [1]: the remote action's own prefix is
   EXACTLY the position that serialize_task_id reserved. *)
Theorem C06_remote_in_place cfg d e p :
  simple_h p = true -> reg_ok_h cfg p = true ->
  let s := fst (run_prog cfg (one_dest d e) p) in
  forall slot h', In (slot, h') (handoffs p) ->
    exists u l i,
      alookup slot (ids s) = Some (u, l) /\
      In (mkPmsg u (l ++ [1%positive]) (Some T_remote_task) (Some PStarted) i) (lin (expected_h p)).
Proof.
  intros S R s slot h' I.
  destruct (C06_run_spec cfg d e p S R) as [(G & _) [_ KB]]. fold s in G, KB.
  destruct (KB slot h' I) as (a' & _ & X & T).
  destruct (C06_emission_view cfg d e p S R) as [_ V]. fold s in V.
  rewrite <- (Good_trace d e s G), V in T. apply in_map_iff in T as (pm & Epm & T).
  injection Epm as ->. rewrite lin_renumber.
  destruct (renumber_in _ 0 _ T) as (j & J). exists (a_uuid a'), (a_level a'), j. split; [exact X|exact J].
Qed.

(* ====================================================================================== *)
(* Examples                                                                               *)
(* ====================================================================================== *)
Module C06Examples.

Definition ex_e : exn := mkExn 1 8%positive 30%positive false.
(* an extractor for class 8 *)
Definition ex_cfg : config := mk_config [] [(8%positive, XFields [(20%positive, VInt 4)])].
Definition T (n : positive) : val := VTypeName n.

(* Three tasks.  Task 1: action 1 (start_task) > action 2 > hand-off (slot 100) to thread 1,
   continued as action 3, whose body
     - logs, then inside a nested action 4 hands off AGAIN (slot 101, second hop) to thread 2,
       continued as action 5, whose body logs, writes a traceback and FAILS;
     - hands off once more (slot 102) to thread 3 (action 6, which uses action.log);
     - then FAILS itself (the message after the raise is never logged);
   the originating thread goes on logging in action 2; a further hand-off (slot 103, thread 4)
   sits in a try block directly under action 1 and fails at once.
   Task 2: an action that fails BEFORE its hand-off (slot 104), which is never executed. *)
Definition ex_p : list stmt :=
  [ SMsg (T 10) [] None;
    SAct 1 WithBlock true (T 11) [] None []
      [ SMsg (T 12) [] None;
        SAct 2 CtxFinish false (T 13) [] None []
          [ SActLog 2 (T 19) [];
            SHandoff 2 100 3 1
              [ SMsg (T 14) [] None;
                SAct 4 WithBlock false (T 15) [] None []
                  [ SHandoff 4 101 5 2
                      [ SMsg (T 16) [] None; STraceback ex_e; SRaise ex_e; SMsg (T 17) [] None ];
                    SMsg (T 18) [] None ];
                SHandoff 3 102 6 3 [ SActLog 6 (T 20) [] ];
                SRaise ex_e;
                SMsg (T 17) [] None ];
            SMsg (T 21) [] None ];
        STry [ SHandoff 1 103 7 4 [SRaise ex_e] ];
        SMsg (T 12) [] None ];
    SAct 8 RunFinish false (T 11) [] None [] [ SRaise ex_e; SHandoff 8 104 9 5 [] ] ].

Definition ex_s : state := fst (run_prog ex_cfg (one_dest 0 ex_e) ex_p).

(* in the fragment of the C06 theorems, outside that of the C01 theorems *)
Example ex_simple_h : simple_h ex_p = true /\ reg_ok_h ex_cfg ex_p = true /\ simple ex_p = false.
Proof. vm_compute. repeat split; reflexivity. Qed.

Example ex_expected_h :
  expected_h ex_p =
  [ TMsg 10;
    TAct 11 PSucceeded
      [ TMsg 12;
        TAct 13 PSucceeded
          [ TMsg 19;
            TAct T_remote_task PFailed
              [ TMsg 14;
                TAct 15 PSucceeded
                  [ TAct T_remote_task PFailed [TMsg 16; TMsg T_traceback]; TMsg 18 ];
                TAct T_remote_task PSucceeded [TMsg 20] ];
            TMsg 21 ];
        TAct T_remote_task PFailed [];
        TMsg 12 ];
    TAct 11 PFailed [] ].
Proof. vm_compute. reflexivity. Qed.

(* the hand-offs executed; five slots, contexts and continuing actions in the text *)
Example ex_handoffs :
  handoffs ex_p = [(100, 3); (101, 5); (102, 6); (103, 7)] /\
  slots_h ex_p = [100; 101; 102; 103; 104] /\ ctxs_h ex_p = [1; 2; 3; 4; 5].
Proof. vm_compute. repeat split; reflexivity. Qed.

(* the conclusion of [C06_emission], by evaluation: 26 messages *)
Example ex_emission :
  number_from 0 (trace_of ex_s 0) = lin (expected_h ex_p) /\ length (lin (expected_h ex_p)) = 26.
Proof. vm_compute. split; reflexivity. Qed.

(* the remote sides: same task uuid 1, levels extending the reserved positions [3;3],
   [3;3;3;2] (second hop, inside the nested action [3;3;3]), [3;3;4] and [4] *)
Example ex_remote_messages :
  map (fun m => (pm_uuid m, pm_level m, pm_status m))
      (filter (fun m => match pm_atype m with Some t => Pos.eqb t T_remote_task | None => false end)
              (lin (expected_h ex_p)))
  = [ (1, [3;3;1]%positive, Some PStarted);
      (1, [3;3;3;2;1]%positive, Some PStarted); (1, [3;3;3;2;4]%positive, Some PFailed);
      (1, [3;3;4;1]%positive, Some PStarted); (1, [3;3;4;3]%positive, Some PSucceeded);
      (1, [3;3;5]%positive, Some PFailed);
      (1, [4;1]%positive, Some PStarted); (1, [4;2]%positive, Some PFailed) ].
Proof. vm_compute. reflexivity. Qed.

(* the conclusions of [C06_ids_unique], by evaluation: the table of serialized ids after the
   run, and the (uuid, level) of the continuing action objects *)
Example ex_ids :
  ids ex_s = [ (100, (1, [3;3]%positive)); (101, (1, [3;3;3;2]%positive)); (102, (1, [3;3;4]%positive));
               (103, (1, [4]%positive)) ] /\
  map (fun sh => option_map (fun a => (a_uuid a, a_level a)) (alookup (snd sh) (heap ex_s))) (handoffs ex_p)
  = map (fun sh => alookup (fst sh) (ids ex_s)) (handoffs ex_p) /\
  forallb (fun id => negb (existsb (fun m => Nat.eqb (pm_uuid m) (fst id) && level_eqb (pm_level m) (snd id))
                                   (lin (expected_h ex_p))))
          (map snd (ids ex_s)) = true.
Proof. vm_compute. repeat split; reflexivity. Qed.

(* ---- arrival orders -------------------------------------------------------------------------- *)
(* the originating thread's own messages are those with emission indexes 0-4, 18, 19, 22-25;
   the other threads wrote 5-17 (hops one and two, thread 3) and 20, 21 (thread 4) *)
Definition ex_origin : list nat := [0; 1; 2; 3; 4; 18; 19; 22; 23; 24; 25].
Definition ex_remote : list nat := [5; 6; 7; 8; 9; 10; 11; 12; 13; 14; 15; 16; 17; 20; 21].
(* two log files read one after the other, either way round; and both reversed *)
Definition ex_order1 : list nat := ex_origin ++ ex_remote.
Definition ex_order2 : list nat := ex_remote ++ ex_origin.
Definition ex_order3 : list nat := rev ex_origin ++ rev ex_remote.

Lemma perm_by_eval (l l' : list nat) :
  nodupb l = true -> nodupb l' = true ->
  forallb (fun x => existsb (Nat.eqb x) l') l = true ->
  forallb (fun x => existsb (Nat.eqb x) l) l' = true -> Permutation l l'.
Proof.
  intros N1 N2 I1 I2. apply NoDup_Permutation; [now apply nodupb_NoDup|now apply nodupb_NoDup|].
  assert (X : forall a b : list nat, forallb (fun x => existsb (Nat.eqb x) b) a = true -> incl a b).
  { intros a b H x Hx. rewrite forallb_forall in H. specialize (H x Hx).
    apply existsb_exists in H as (y & Hy & E). apply Nat.eqb_eq in E. now subst. }
  intros x. split; [apply (X _ _ I1)|apply (X _ _ I2)].
Qed.

(* the hypotheses of [C06_roundtrip] hold for them ... *)
Example ex_roundtrip_hyps :
  simple_h ex_p = true /\ reg_ok_h ex_cfg ex_p = true /\
  Permutation ex_order1 (seq 0 (length (lin (expected_h ex_p)))) /\
  Permutation ex_order2 (seq 0 (length (lin (expected_h ex_p)))) /\
  Permutation ex_order3 (seq 0 (length (lin (expected_h ex_p)))).
Proof.
  split; [reflexivity|]. split; [reflexivity|].
  change (length (lin (expected_h ex_p))) with 26.
  repeat split; apply perm_by_eval; reflexivity.
Qed.

Definition root_uuid (t : task) : option nat := option_map node_uuid (task_root t).

Definition whole_trees (us : list nat) : list (option node) :=
  map (fun u => match nth_error (expected_h ex_p) u with
                | Some T => Some (node_of (lin_id (expected_h ex_p) u) u (fun _ => true) (root_level T) T)
                | None => None
                end) us.

(* ... and, by evaluation: no error, nothing incomplete, three completed tasks, each root the
   whole expected tree -- with the remote actions (two hops deep) in place *)
Example ex_roundtrip1 :
  match roundtrip ex_cfg (one_dest 0 ex_e) ex_p 0 ex_order1 with
  | POk (done, rest) =>
      rest = [] /\ map root_uuid done = map Some [0; 2; 1] /\
      forallb task_complete done = true /\ map task_root done = whole_trees [0; 2; 1]
  | PErr _ => False
  end.
Proof. vm_compute. repeat split; reflexivity. Qed.

Example ex_roundtrip2 :
  match roundtrip ex_cfg (one_dest 0 ex_e) ex_p 0 ex_order2 with
  | POk (done, rest) =>
      rest = [] /\ map root_uuid done = map Some [0; 1; 2] /\
      forallb task_complete done = true /\ map task_root done = whole_trees [0; 1; 2]
  | PErr _ => False
  end.
Proof. vm_compute. repeat split; reflexivity. Qed.

Example ex_roundtrip3 :
  match roundtrip ex_cfg (one_dest 0 ex_e) ex_p 0 ex_order3 with
  | POk (done, rest) =>
      rest = [] /\ map root_uuid done = map Some [2; 0; 1] /\
      forallb task_complete done = true /\ map task_root done = whole_trees [2; 0; 1]
  | PErr _ => False
  end.
Proof. vm_compute. repeat split; reflexivity. Qed.

(* ---- the master lemma away from the start state ------------------------------------------------- *)
(* Thread 7 has continued a task id of task 0 as action 3 (prefix [2]), which has handed out 2
   positions; 3 messages were logged.  The statements run there are the body of the first hop
   of [ex_p]: a nested action with the second hop, a further hand-off, a raise. *)
Definition ex_pre : list (nat * op) :=
  one_dest 0 ex_e ++
  [(0, OStart 41 true (T 30) [] None); (0, OEnter 41); (0, OSerializeId 41 90);
   (7, OContinue 3 90 []); (7, OEnter 3); (7, OLog (T 32) [] None)].
Definition ex_s0 : state := run ex_cfg ex_pre init_state.
Definition ex_body : list stmt :=
  [ SMsg (T 14) [] None;
    SAct 4 WithBlock false (T 15) [] None []
      [ SHandoff 4 101 5 2
          [ SMsg (T 16) [] None; STraceback ex_e; SRaise ex_e; SMsg (T 17) [] None ];
        SMsg (T 18) [] None ];
    SHandoff 3 102 6 3 [ SActLog 6 (T 20) [] ];
    SRaise ex_e;
    SMsg (T 17) [] None ].

Example ex_master_hyps :
  Good 0 ex_e ex_s0 /\ cur ex_s0 7 = Some 3 /\
  (exists a, alookup 3 (heap ex_s0) = Some a /\ a_last a = 2 /\ a_level a = [2%positive] /\ a_uuid a = 0) /\
  NoDup (handles_h ex_body) /\ NoDup (slots_h ex_body) /\ NoDup (7 :: ctxs_h ex_body) /\
  ~ In 3 (handles_h ex_body) /\
  forallb (simple_h_stmt (Some 3)) ex_body = true /\ length (tr ex_s0) = 3.
Proof.
  split; [|split; [|split; [|split; [|split; [|split; [|split; [|split]]]]]]].
  - unfold Good. vm_compute. repeat split. eexists _, _. reflexivity.
  - reflexivity.
  - eexists. vm_compute. repeat split.
  - apply nodupb_NoDup. reflexivity.
  - apply nodupb_NoDup. reflexivity.
  - apply nodupb_NoDup. reflexivity.
  - vm_compute. intuition discriminate.
  - reflexivity.
  - reflexivity.
Qed.

(* ... and its conclusion there: the 11 new messages are the children laid out from position 3
   of prefix [2] in task 0; thread 7's current action is restored, thread 0's untouched; the
   two ids made hold the (uuid, level) of the actions that continued them *)
Example ex_master_concl :
  let s' := run ex_cfg (fst (compile 7 ex_body)) ex_s0 in
  map pv (tr s') = map pv (tr ex_s0) ++ map Some (lay 0 [2%positive] 2 (kids_h ex_body)) /\
  length (lay 0 [2%positive] 2 (kids_h ex_body)) = 11 /\
  cur s' 7 = Some 3 /\ cur s' 0 = Some 41 /\ option_map a_last (alookup 3 (heap s')) = Some 5 /\
  handoffs ex_body = [(101, 5); (102, 6)] /\
  alookup 101 (ids s') = Some (0, [2; 4; 2]%positive) /\
  option_map (fun a => (a_uuid a, a_level a)) (alookup 5 (heap s')) = Some (0, [2; 4; 2]%positive) /\
  alookup 102 (ids s') = Some (0, [2; 5]%positive) /\
  option_map (fun a => (a_uuid a, a_level a)) (alookup 6 (heap s')) = Some (0, [2; 5]%positive) /\
  alookup 90 (ids s') = alookup 90 (ids ex_s0).
Proof. vm_compute. repeat split; reflexivity. Qed.

(* outside the fragment the emission statement is false as stated: serialize_task_id on an
   OUTER enclosing action (1) from inside a nested action (2) makes the remote action a child
   of action 1 -- at the right position, the parser still rebuilds it -- but its messages are
   emitted in the middle of action 2's, which no depth-first linearisation describes *)
Example handoff_on_outer_action_not_in_emission_order :
  let p := [SAct 1 WithBlock true (T 11) [] None []
              [SAct 2 WithBlock false (T 12) [] None [] [SHandoff 1 100 3 1 [SMsg (T 13) [] None]]]] in
  simple_h p = false /\
  map pm_level (number_from 0 (trace_of (fst (run_prog ex_cfg (one_dest 0 ex_e) p)) 0))
  = [[1]; [2;1]; [3;1]; [3;2]; [3;3]; [2;2]; [4]]%positive.
Proof. vm_compute. split; reflexivity. Qed.

End C06Examples.
