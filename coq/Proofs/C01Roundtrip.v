(* C01, layer 3: the end-to-end theorems.

   [C01_emission]   what the destination received, numbered in emission order, IS the
                    linearisation [lin (expected p)] of the forest the program means
                    (uuids in order of task creation, levels, action types, statuses,
                    identities = emission indexes).
   [C01_roundtrip]  parsing those messages in ANY arrival order yields no error, no
                    incomplete task, and exactly one completed task per tree of
                    [expected p], whose root node is the whole tree.

   Composition of the master lemma [eval_spec] (C01Emission.v) with the C09 parser
   theorems (ParserRun / ParserSpec / ParserIds). *)
From Coq Require Import List PArith NArith ZArith Bool Arith Lia Permutation.
Require Import Eliot.Base.Level Eliot.Model.Core Eliot.Model.Prog Eliot.Model.Parser
  Eliot.Model.Forest Eliot.Model.Roundtrip Eliot.Model.Expected.
Require Import Eliot.Proofs.ParserBasics Eliot.Proofs.ParserOrder Eliot.Proofs.ParserInterleave
  Eliot.Proofs.ParserTree Eliot.Proofs.ParserStep Eliot.Proofs.ParserRun Eliot.Proofs.ParserSpec
  Eliot.Proofs.ParserIds.
Require Import Eliot.Proofs.C01Basics Eliot.Proofs.C01Emission.
Import ListNotations.

(* ====================================================================================== *)
(* 1. identities: [lin f] is [lin0 f] numbered 0, 1, 2, ...                                *)
(* ====================================================================================== *)
Definition strip (m : pmsg) : pmsg := mkPmsg (pm_uuid m) (pm_level m) (pm_atype m) (pm_status m) 0.

Lemma lin_tree_strip idf idf' u t : forall l,
  map strip (lin_tree idf u l t) = map strip (lin_tree idf' u l t).
Proof.
  induction t as [ty|ty st ch IHch] using tree_ind'; intros l; [reflexivity|].
  rewrite !lin_tree_act. cbn [map]. f_equal.
  generalize 2%positive. induction ch as [|c r IHr]; intros pos; cbn [lin_list]; [reflexivity|].
  inversion IHch as [|? ? Hc Hr]; subst. rewrite !map_app, (Hc (l ++ [pos])), (IHr Hr). reflexivity.
Qed.

Lemma lin_from_strip idf idf' f : forall u0,
  map strip (lin_from idf u0 f) = map strip (lin_from idf' u0 f).
Proof.
  induction f as [|T r IH]; intros u0; cbn [lin_from]; [reflexivity|].
  rewrite !map_app, IH. f_equal. destruct T; cbn [lin_task]; apply lin_tree_strip.
Qed.

Lemma strip_renumber l : forall l' i,
  map strip l = map strip l' -> map pm_id l = seq i (length l) -> l = renumber i l'.
Proof.
  induction l as [|m r IH]; intros [|m' r'] i E I; cbn [map] in E; try discriminate; [reflexivity|].
  injection E as Eu El Ea Es E2. cbn [map length seq] in I. injection I as I1 I2.
  cbn [renumber]. f_equal; [|now apply IH].
  destruct m as [u1 l1 a1 s1 i1]. cbn in Eu, El, Ea, Es, I1. now subst.
Qed.

Lemma lin_renumber f : lin f = renumber 0 (lin0 f).
Proof.
  apply strip_renumber; [apply lin_from_strip|apply lin_ids].
Qed.

Lemma renumber_length i l : length (renumber i l) = length l.
Proof. revert i. induction l as [|m r IH]; intros i; cbn; [reflexivity|]. now rewrite IH. Qed.

(* ====================================================================================== *)
(* 2. [number_from]                                                                       *)
(* ====================================================================================== *)
Lemma to_pmsg_id i m :
  to_pmsg i m = match to_pmsg 0 m with
                | Some p => Some (mkPmsg (pm_uuid p) (pm_level p) (pm_atype p) (pm_status p) i)
                | None => None
                end.
Proof.
  unfold to_pmsg. destruct (fget K_uuid m) as [[]|]; try reflexivity.
  destruct (fget K_level m) as [[]|]; reflexivity.
Qed.

Lemma number_from_renumber ms : forall ps i,
  map pv ms = map Some ps -> number_from i ms = renumber i ps.
Proof.
  induction ms as [|m r IH]; intros [|p ps] i E; cbn [map] in E; try discriminate; [reflexivity|].
  injection E as E1 E2. cbn [number_from renumber]. rewrite to_pmsg_id. unfold pv in E1. rewrite E1.
  f_equal. now apply IH.
Qed.

(* ====================================================================================== *)
(* 3. C01_emission                                                                        *)
(* ====================================================================================== *)
Theorem C01_emission cfg d e p :
  simple p = true -> reg_ok cfg p = true ->
  number_from 0 (trace_of (fst (run_prog cfg (one_dest d e) p)) d) = lin (expected p).
Proof.
  intros S R. destruct (C01_emission_view cfg d e p S R) as [_ V].
  rewrite lin_renumber. now apply number_from_renumber.
Qed.

(* the statement with identities forgotten on both sides (weaker; kept for reference) *)
Corollary C01_emission_erased cfg d e p :
  simple p = true -> reg_ok cfg p = true ->
  map strip (number_from 0 (trace_of (fst (run_prog cfg (one_dest d e) p)) d))
  = map strip (lin (expected p)).
Proof. intros S R. now rewrite C01_emission. Qed.

(* ====================================================================================== *)
(* 4. C01_roundtrip                                                                       *)
(* ====================================================================================== *)
Lemma map_nth_seq {A} (l : list A) dflt : map (fun j => nth j l dflt) (seq 0 (length l)) = l.
Proof.
  induction l as [|x r IH]; cbn [length seq map nth]; [reflexivity|]. f_equal.
  rewrite <- seq_shift, map_map. exact IH.
Qed.

(* level of the root of a task: [] for an action, the single message [1] otherwise *)
Definition root_level (T : tree) : level :=
  match T with TMsg _ => [1%positive] | TAct _ _ _ => [] end.

(* task [t] is the complete parse of the u-th tree of [f] *)
Definition parsed_as (f : forest) (u : nat) (t : task) : Prop :=
  final_task f u t /\ task_complete t = true /\
  exists T, nth_error f u = Some T /\
            task_root t = Some (node_of (lin_id f u) u (fun _ => true) (root_level T) T).

Lemma final_task_parsed f u t : final_task f u t -> parsed_as f u t.
Proof.
  intros F. split; [exact F|]. pose proof F as (T & HT & Ht). destruct T as [ty|ty st ch].
  - subst t. split; [reflexivity|]. exists (TMsg ty). split; [exact HT|]. reflexivity.
  - split.
    + rewrite (Inv_complete _ _ (TAct ty st ch) eq_refl _ _ Ht). unfold full. apply forallb_forall. reflexivity.
    + exists (TAct ty st ch). split; [exact HT|]. now apply (final_task_root f u t (TAct ty st ch)).
Qed.

Lemma Forall2_impl {A B} (R R' : A -> B -> Prop) l l' :
  (forall a b, R a b -> R' a b) -> Forall2 R l l' -> Forall2 R' l l'.
Proof. intros H F. induction F; constructor; auto. Qed.

(* every message of the forest, in any order: everything completes, nothing remains *)
Theorem parse_all f ms :
  Permutation ms (lin f) ->
  exists done us,
    parse_stream ms = POk (done, []) /\
    Permutation us (seq 0 (length f)) /\
    Forall2 (parsed_as f) us done.
Proof.
  intros P.
  assert (ND : NoDup ms) by (eapply Permutation_NoDup; [symmetry; exact P|apply lin_nodup]).
  assert (Hin : incl ms (lin f)) by (intros m Hm; eapply Permutation_in; eassumption).
  assert (Hall : forall u, all_received f u (rev ms)).
  { intros u m Hm _. apply in_rev. rewrite rev_involutive. eapply Permutation_in; [symmetry; exact P|exact Hm]. }
  assert (Hin' : incl (rev ms) (lin f)) by (intros m Hm; apply Hin; now apply in_rev).
  destruct (run_top f ms ND Hin) as (cs & p0 & H1 & [HS HP] & H3).
  exists (concat cs), (cu f [] ms).
  split; [|split].
  - unfold parse_stream. rewrite parse_loop_trace, H1. cbn [app]. f_equal. f_equal.
    destruct p0 as [|[u t] r]; [reflexivity|]. exfalso.
    specialize (HP u). unfold PC in HP. cbn [ulookup] in HP. rewrite Nat.eqb_refl in HP.
    destruct HP as (T & HT & _ & _ & _ & HF).
    assert (tfull f (rev ms) u T = true); [|congruence].
    apply (tfull_all f (rev ms) u T Hin' HT). apply Hall.
  - pose proof (keys_fresh_intro f ms [] Hin ND) as KF.
    apply NoDup_Permutation; [now apply cu_nodup|apply seq_NoDup|].
    intros u. rewrite (cu_in f ms [] u KF Hin), app_nil_r, in_seq. unfold tfullb.
    destruct (nth_error f u) as [T|] eqn:HT.
    + assert (u < length f) by (apply nth_error_Some; congruence).
      split; [intros _; lia|]. intros _. split.
      * apply (tfull_all f (rev ms) u T Hin' HT). apply Hall.
      * unfold tfull, tmsgs. pose proof (lin_task_nonempty (lin_id f u) u T) as NE.
        destruct (lin_task (lin_id f u) u T); [congruence|reflexivity].
    + apply nth_error_None in HT. split; [intros [X _]; discriminate|lia].
  - eapply Forall2_impl; [exact (final_task_parsed f)|].
    apply trace_cu; [exact Hin|exact H3].
Qed.

(* the arrival orders: [order] lists the emission indexes in the order of arrival *)
Theorem C01_roundtrip cfg d e p order :
  simple p = true -> reg_ok cfg p = true ->
  Permutation order (seq 0 (length (lin (expected p)))) ->
  exists done us,
    roundtrip cfg (one_dest d e) p d order = POk (done, []) /\
    Permutation us (seq 0 (length (expected p))) /\
    Forall2 (parsed_as (expected p)) us done.
Proof.
  intros S R P. unfold roundtrip. rewrite (C01_emission cfg d e p S R).
  apply parse_all.
  eapply perm_trans; [apply Permutation_map; exact P|].
  rewrite map_nth_seq. apply Permutation_refl.
Qed.

(* in emission order in particular *)
Corollary C01_roundtrip_emission_order cfg d e p :
  simple p = true -> reg_ok cfg p = true ->
  exists done us,
    roundtrip cfg (one_dest d e) p d (seq 0 (length (lin (expected p)))) = POk (done, []) /\
    Permutation us (seq 0 (length (expected p))) /\
    Forall2 (parsed_as (expected p)) us done.
Proof. intros S R. now apply C01_roundtrip. Qed.

(* ====================================================================================== *)
(* Examples (program [ex_p] of C01Emission.v: six tasks, 29 messages, nesting depth 4,     *)
(* failing actions, try blocks, the three block styles)                                    *)
(* ====================================================================================== *)
Module C01RoundtripExamples.
Import C01Examples.

Example ex_emission :
  number_from 0 (trace_of (fst (run_prog ex_cfg (one_dest 0 ex_e) ex_p)) 0) = lin (expected ex_p).
Proof. vm_compute. reflexivity. Qed.

(* an arrival order: the last 20 messages in reverse, then the first 9 *)
Definition ex_order : list nat := rev (skipn 9 (seq 0 29)) ++ firstn 9 (seq 0 29).

Example ex_order_perm : Permutation ex_order (seq 0 (length (lin (expected ex_p)))).
Proof.
  change (length (lin (expected ex_p))) with 29. unfold ex_order.
  eapply perm_trans; [apply Permutation_app_comm|].
  rewrite <- (firstn_skipn 9 (seq 0 29)) at 3.
  apply Permutation_app_head. apply Permutation_sym, Permutation_rev.
Qed.

(* the hypotheses of [C01_roundtrip] hold for it ... *)
Example ex_roundtrip_hyps :
  simple ex_p = true /\ reg_ok ex_cfg ex_p = true /\
  Permutation ex_order (seq 0 (length (lin (expected ex_p)))).
Proof. split; [reflexivity|]. split; [reflexivity|]. exact ex_order_perm. Qed.

(* ... and, by evaluation: no error, nothing incomplete, six completed tasks, completed in the
   order 5,4,3,2,0,1 (uuid of each root; task 1 spans messages 1..20), each complete, each root the whole expected tree *)
Definition root_uuid (t : task) : option nat := option_map node_uuid (task_root t).

Example ex_roundtrip :
  match roundtrip ex_cfg (one_dest 0 ex_e) ex_p 0 ex_order with
  | POk (done, rest) =>
      rest = [] /\ map root_uuid done = map Some [5; 4; 3; 2; 0; 1] /\
      forallb task_complete done = true /\
      map task_root done =
        map (fun u => match nth_error (expected ex_p) u with
                      | Some T => Some (node_of (lin_id (expected ex_p) u) u (fun _ => true) (root_level T) T)
                      | None => None
                      end) [5; 4; 3; 2; 0; 1]
  | PErr _ => False
  end.
Proof. vm_compute. repeat split; reflexivity. Qed.

(* emission order and reverse emission order give the same six tasks *)
Example ex_roundtrip_orders :
  match roundtrip ex_cfg (one_dest 0 ex_e) ex_p 0 (seq 0 29),
        roundtrip ex_cfg (one_dest 0 ex_e) ex_p 0 (rev (seq 0 29)) with
  | POk (done, rest), POk (done', rest') => rest = [] /\ rest' = [] /\ done' = rev done /\ length done = 6
  | _, _ => False
  end.
Proof. vm_compute. repeat split; reflexivity. Qed.

(* outside the fragment the statement is false as stated: a start_task nested in an action is a
   new task whose messages are emitted in the middle of the enclosing task's *)
Example nested_task_not_in_emission_order :
  let p := [SAct 1 WithBlock false (T 11) [] None [] [SAct 2 WithBlock true (T 12) [] None [] []]] in
  simple p = false /\
  map pm_uuid (number_from 0 (trace_of (fst (run_prog ex_cfg (one_dest 0 ex_e) p)) 0)) = [0; 1; 1; 0].
Proof. vm_compute. split; reflexivity. Qed.

End C01RoundtripExamples.
