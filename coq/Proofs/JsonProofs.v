(* Proofs about Model/Json.v (property C10).

   1. encode_no_newline / encode_no_control : an encoding contains no byte < 32
   2. C10_events      : event list of any message sequence = per message exactly
                        [Write line; Flush] or nothing; a failing call leaves the file untouched
   3. C10_lines       : at every call boundary the content is newline-terminated and
                        splitting it on newlines gives the encodings in order
   4. encode_valid_utf8, text_mode_same_content
   5. decode_encode   : decode (encode v) = Some v on the float-free domain *)
From Coq Require Import List NArith ZArith Bool Lia Decimal DecimalFacts DecimalN DecimalPos.
Require Import Eliot.Model.Json.
Import ListNotations.
Local Open Scope N_scope.

(* ------------------------------------------------------------------ tactics *)

(* let lia reason about division and remainder by constants *)
Ltac Zify.zify_post_hook ::= Z.to_euclidean_division_equations.

Ltac nb :=
  repeat match goal with
  | H : (_ <? _) = true |- _ => apply N.ltb_lt in H
  | H : (_ <? _) = false |- _ => apply N.ltb_ge in H
  | H : (_ <=? _) = true |- _ => apply N.leb_le in H
  | H : (_ <=? _) = false |- _ => apply N.leb_gt in H
  | H : (_ =? _) = true |- _ => apply N.eqb_eq in H
  | H : (_ =? _) = false |- _ => apply N.eqb_neq in H
  | H : (_ && _) = true |- _ => apply andb_true_iff in H; destruct H
  | H : negb _ = true |- _ => apply negb_true_iff in H
  | H : negb _ = false |- _ => apply negb_false_iff in H
  end.

Ltac fa := repeat (apply Forall_cons; [try lia|]); try apply Forall_nil.

(* ---------------------------------------------------- induction principle *)

Section jv_induction.
  Variable P : jv -> Prop.
  Hypothesis Hnull : P JNull.
  Hypothesis Hbool : forall b, P (JBool b).
  Hypothesis Hint : forall z, P (JInt z).
  Hypothesis Hfloat : forall f, P (JFloat f).
  Hypothesis Hstr : forall s, P (JStr s).
  Hypothesis Harr : forall l, Forall P l -> P (JArr l).
  Hypothesis Hobj : forall l, Forall (fun kv => P (snd kv)) l -> P (JObj l).

  Fixpoint jv_ind' (v : jv) : P v :=
    match v with
    | JNull => Hnull
    | JBool b => Hbool b
    | JInt z => Hint z
    | JFloat f => Hfloat f
    | JStr s => Hstr s
    | JArr l =>
        Harr l ((fix go (l : list jv) : Forall P l :=
                   match l with
                   | [] => Forall_nil _
                   | x :: r => Forall_cons x (jv_ind' x) (go r)
                   end) l)
    | JObj l =>
        Hobj l ((fix go (l : list (jkey * jv)) : Forall (fun kv => P (snd kv)) l :=
                   match l with
                   | [] => Forall_nil _
                   | kv :: r => Forall_cons kv (jv_ind' (snd kv)) (go r)
                   end) l)
    end.
End jv_induction.

(* ------------------------------------------------------------- sequence *)

Lemma sequence_Forall2 {A B} (f : A -> option B) l parts :
  sequence (map f l) = Some parts -> Forall2 (fun x p => f x = Some p) l parts.
Proof.
  revert parts. induction l as [|x l IH]; intros parts H; cbn in H.
  - inversion H. constructor.
  - destruct (f x) eqn:E; [|discriminate].
    destruct (sequence (map f l)) eqn:E2; [|discriminate].
    inversion H; subst. constructor; auto.
Qed.

Lemma Forall2_sequence {A B} (f : A -> option B) l parts :
  Forall2 (fun x p => f x = Some p) l parts -> sequence (map f l) = Some parts.
Proof.
  induction 1; cbn; auto. now rewrite H, IHForall2.
Qed.

(* ========================================================================
   1. no newline, no raw control byte
   ======================================================================== *)

Definition printable (b : bytes) : Prop := Forall (fun x => 32 <= x) b.

Lemma printable_app a b : printable a -> printable b -> printable (a ++ b).
Proof. unfold printable. intros. apply Forall_app; auto. Qed.

Lemma printable_concat l : Forall printable l -> printable (concat l).
Proof.
  induction 1; cbn; [constructor|]. now apply printable_app.
Qed.

Lemma printable_join l : Forall printable l -> printable (join_comma l).
Proof.
  induction 1 as [|x l Hx Hl IH]; cbn; [constructor|].
  destruct l as [|y l']; [exact Hx|].
  apply printable_app; [exact Hx|]. constructor; [lia | exact IH].
Qed.

Lemma utf8_printable c : 32 <= c -> printable (utf8 c).
Proof.
  intros Hc. unfold utf8, printable. cbv zeta.
  destruct (c <? 128); [fa|].
  destruct (c <? 2048); [fa|].
  destruct (c <? 65536); fa.
Qed.

Lemma hexdigit_ge d : 32 <= hexdigit d.
Proof. unfold hexdigit. destruct (d <? 10); lia. Qed.

Lemma enc_char_printable c b : enc_char c = Some b -> printable b.
Proof.
  unfold enc_char, printable.
  destruct (c =? 34); [intros H; inversion H; fa|].
  destruct (c =? 92); [intros H; inversion H; fa|].
  destruct (c <? 32) eqn:E.
  - intros H; inversion H; subst; clear H. unfold short_escape.
    destruct (c =? 8); [fa|].
    destruct (c =? 9); [fa|].
    destruct (c =? 10); [fa|].
    destruct (c =? 12); [fa|].
    destruct (c =? 13); [fa|].
    fa; apply hexdigit_ge.
  - destruct (is_scalar c); [|discriminate].
    intros H; inversion H; subst. nb. now apply utf8_printable.
Qed.

Lemma enc_str_printable s b : enc_str s = Some b -> printable b.
Proof.
  unfold enc_str. destruct (sequence (map enc_char s)) as [parts|] eqn:E; [|discriminate].
  intros H; inversion H; subst; clear H.
  apply sequence_Forall2 in E.
  assert (Forall printable parts) as Hp.
  { induction E; constructor; auto. eapply enc_char_printable; eauto. }
  constructor; [lia|]. apply printable_app; [now apply printable_concat|].
  fa.
Qed.

Lemma uint_bytes_printable d : printable (uint_bytes d).
Proof. induction d; cbn; constructor; auto; lia. Qed.

Lemma enc_int_printable z b : enc_int z = Some b -> printable b.
Proof.
  unfold enc_int. destruct (_ && _)%bool; [|discriminate].
  intros H; inversion H; subst. apply printable_app; [|apply uint_bytes_printable].
  destruct (z <? 0)%Z; fa.
Qed.

Lemma enc_float_printable f : printable (enc_float f).
Proof.
  destruct f as [| |tok]; cbn; try (fa).
  induction tok as [|c tok IH]; cbn; constructor; auto. destruct c; cbn; lia.
Qed.

Lemma enc_printable v : forall b, enc v = Some b -> printable b.
Proof.
  induction v as [| b0 | z | f | s | l IHl | l IHl] using jv_ind'; intros out Henc; cbn in Henc.
  - inversion Henc. unfold lit_null. fa.
  - inversion Henc. destruct b0; [unfold lit_true | unfold lit_false]; fa.
  - eapply enc_int_printable; eauto.
  - inversion Henc. apply enc_float_printable.
  - eapply enc_str_printable; eauto.
  - destruct (sequence (map enc l)) as [parts|] eqn:E; [|discriminate].
    inversion Henc; subst; clear Henc. apply sequence_Forall2 in E.
    assert (Forall printable parts) as Hp.
    { revert IHl. induction E; intros HF; constructor; inversion HF; subst; auto. }
    apply Forall_cons; [lia|]. apply printable_app; [now apply printable_join|]. fa.
  - destruct (sequence (map (enc_member enc) l)) as [parts|] eqn:E; [|discriminate].
    inversion Henc; subst; clear Henc. apply sequence_Forall2 in E.
    assert (Forall printable parts) as Hp.
    { revert IHl. induction E as [|kv p l' ps Hkv E IH]; intros HF; constructor; inversion HF; subst; auto.
      destruct kv as [k x]. cbn in Hkv. destruct k as [s|]; [|discriminate].
      destruct (enc_str s) as [a|] eqn:Ea; [|discriminate].
      destruct (enc x) as [bx|] eqn:Ex; [|discriminate].
      inversion Hkv; subst. apply printable_app; [eapply enc_str_printable; eauto|].
      apply Forall_cons; [lia|]. cbn in H1. now apply H1. }
    apply Forall_cons; [lia|]. apply printable_app; [now apply printable_join|]. fa.
Qed.

Lemma encode_enc v b : encode v = Some b -> enc v = Some b.
Proof. unfold encode. destruct (Nat.leb _ _); [auto|discriminate]. Qed.

(* a successful encoding contains no raw control byte ... *)
Theorem encode_no_control : forall v b, encode v = Some b -> Forall (fun x => 32 <= x) b.
Proof. intros v b H. eapply enc_printable, encode_enc, H. Qed.

(* ... in particular no newline *)
Theorem encode_no_newline : forall v b, encode v = Some b -> ~ In 10 b.
Proof.
  intros v b H Hin. pose proof (encode_no_control v b H) as F.
  rewrite Forall_forall in F. specialize (F 10 Hin). lia.
Qed.

(* a message whose text contains newline, carriage return, NUL and U+001F still
   encodes, and the encoding has no byte below 32 *)
Example no_newline_nonvacuous :
  match encode (JObj [(KStr [10], JStr [10; 13; 0; 31; 8232; 128512])]) with
  | Some b => forallb (fun x => 32 <=? x) b = true /\ (0 < length b)%nat
  | None => False
  end.
Proof. vm_compute. split; [reflexivity | lia]. Qed.

(* ========================================================================
   2. events
   ======================================================================== *)

(* what one call adds to the file: exactly one write of the whole line and one
   flush, or nothing at all *)
Definition msg_events (md : mode) (m : jv) : list event :=
  match dumps_line md m with
  | Some d => [Write d; Flush]
  | None => []
  end.

Lemma dest_call_events md m f : fst (dest_call md m f) = f ++ msg_events md m.
Proof.
  unfold dest_call, msg_events. destruct (dumps_line md m); cbn.
  - now rewrite <- List.app_assoc.
  - now rewrite List.app_nil_r.
Qed.

Lemma run_events md ms : forall f, run md ms f = f ++ flat_map (msg_events md) ms.
Proof.
  unfold run. induction ms as [|m ms IH]; intros f; cbn.
  - now rewrite List.app_nil_r.
  - rewrite IH, dest_call_events, <- List.app_assoc. reflexivity.
Qed.

Theorem C10_events_lemma : forall md ms f,
  run md ms f = f ++ flat_map (msg_events md) ms
  /\ (forall m, encode m = None -> dest_call md m f = (f, true))
  /\ (forall m b, encode m = Some b ->
        msg_events Binary m = [Write (DBytes (b ++ [10])); Flush]).
Proof.
  intros md ms f. split; [apply run_events|]. split.
  - intros m H. unfold dest_call, dumps_line. now rewrite H.
  - intros m b H. unfold msg_events, dumps_line. now rewrite H.
Qed.

(* the binary-mode statement with everything unfolded *)
Theorem C10_events_binary_lemma : forall ms f,
  run Binary ms f =
  f ++ flat_map (fun m => match encode m with
                          | Some b => [Write (DBytes (b ++ [10])); Flush]
                          | None => []
                          end) ms.
Proof.
  intros ms f. rewrite run_events. f_equal. apply flat_map_ext. intros m.
  unfold msg_events, dumps_line. destruct (encode m); reflexivity.
Qed.

(* a call that raises leaves the file exactly as it was; a call that returns
   has appended exactly one write and one flush *)
Theorem dest_call_atomic : forall md m f,
  (snd (dest_call md m f) = true /\ fst (dest_call md m f) = f) \/
  (snd (dest_call md m f) = false /\ exists d, fst (dest_call md m f) = f ++ [Write d; Flush]).
Proof.
  intros md m f. unfold dest_call. destruct (dumps_line md m) as [d|]; cbn.
  - right. split; auto. exists d. now rewrite <- List.app_assoc.
  - left. auto.
Qed.

Example events_nonvacuous :
  run Binary [JObj [(KStr [97], JInt 1)]; JObj [(KOther, JNull)]; JObj [(KStr [98], JStr [10; 128512])]]
      (dest_open Binary [])
  = [Write (DBytes []);
     Write (DBytes [123; 34; 97; 34; 58; 49; 125; 10]); Flush;
     Write (DBytes [123; 34; 98; 34; 58; 34; 92; 110; 240; 159; 152; 128; 34; 125; 10]); Flush].
Proof. vm_compute. reflexivity. Qed.

(* ========================================================================
   3. lines
   ======================================================================== *)

Lemma content_app f g : content (f ++ g) = content f ++ content g.
Proof.
  induction f as [|e f IH]; cbn; auto. destruct e; auto. now rewrite IH, List.app_assoc.
Qed.

Definition no_nl (b : bytes) : Prop := ~ In 10 b.

Lemma split_on_app a r cur :
  no_nl a -> split_on 10 (a ++ 10 :: r) cur = (cur ++ a) :: split_on 10 r [].
Proof.
  revert cur. induction a as [|x a IH]; intros cur H; cbn [split_on List.app].
  - now rewrite List.app_nil_r.
  - destruct (N.eqb_spec x 10) as [->|Hx]; [exfalso; apply H; now left|].
    rewrite IH; [now rewrite <- List.app_assoc | intros Hin; apply H; now right].
Qed.

Definition terminated (ls : list bytes) : bytes := concat (map (fun b => b ++ [10]) ls).

Lemma split_terminated ls :
  Forall no_nl ls -> split_lines (terminated ls) = ls ++ [[]].
Proof.
  unfold split_lines, terminated. induction 1 as [|a ls Ha Hls IH]; cbn; auto.
  rewrite <- List.app_assoc. cbn. rewrite split_on_app by exact Ha. cbn. now rewrite IH.
Qed.

Lemma terminated_ends ls : terminated ls = [] \/ exists p, terminated ls = p ++ [10].
Proof.
  unfold terminated. induction ls as [|a ls IH]; cbn; auto.
  right. destruct IH as [E | [p E]]; rewrite E.
  - exists a. now rewrite List.app_nil_r.
  - exists ((a ++ [10]) ++ p). now rewrite List.app_assoc.
Qed.

Lemma encodings_no_nl ms : Forall no_nl (encodings ms).
Proof.
  induction ms as [|m ms IH]; cbn; [constructor|].
  destruct (encode m) eqn:E; auto. constructor; auto. eapply encode_no_newline; eauto.
Qed.

Lemma content_binary_events ms :
  content (flat_map (msg_events Binary) ms) = terminated (encodings ms).
Proof.
  unfold terminated. induction ms as [|m ms IH]; cbn; auto.
  rewrite content_app, IH. unfold msg_events, dumps_line.
  destruct (encode m); cbn; auto. now rewrite List.app_nil_r.
Qed.

Lemma content_open md : content (dest_open md []) = [].
Proof. destruct md; reflexivity. Qed.

Lemma content_run_binary ms f :
  content (run Binary ms f) = content f ++ terminated (encodings ms).
Proof. now rewrite run_events, content_app, content_binary_events. Qed.

(* ========================================================================
   4. UTF-8
   ======================================================================== *)

Ltac sb :=
  repeat (rewrite ?andb_true_iff, ?andb_false_iff, ?orb_true_iff, ?orb_false_iff,
            ?negb_true_iff, ?negb_false_iff,
            ?N.ltb_lt, ?N.ltb_ge, ?N.leb_le, ?N.leb_gt, ?N.eqb_eq, ?N.eqb_neq);
  lia.

(* decide the condition of some [if] of the goal by arithmetic *)
Ltac dif :=
  match goal with
  | |- context [if ?b then _ else _] =>
      let H := fresh in
      first [ assert (H : b = true) by sb | assert (H : b = false) by sb ];
      rewrite H; clear H
  end.

Lemma scalar_bounds c : is_scalar c = true -> c < 1114112 /\ (c < 55296 \/ 57344 <= c).
Proof. unfold is_scalar, is_surrogate. intros H. nb. apply andb_false_iff in H0. destruct H0; nb; lia. Qed.

Lemma utf8_dec1_utf8 c r : is_scalar c = true -> utf8_dec1 (utf8 c ++ r) = Some (c, r).
Proof.
  intros Hs. apply scalar_bounds in Hs. destruct Hs as [Hlim Hsur].
  unfold utf8. cbv zeta.
  destruct (c <? 128) eqn:E1; [|destruct (c <? 2048) eqn:E2; [|destruct (c <? 65536) eqn:E3]]; nb;
    unfold utf8_dec1, is_cont, is_surrogate; cbn [List.app]; cbv zeta.
  - now rewrite (proj2 (N.ltb_lt c 128) E1).
  - repeat dif. repeat f_equal. lia.
  - repeat dif. repeat f_equal. lia.
  - repeat dif. repeat f_equal. lia.
Qed.

Lemma utf8_length c : (1 <= length (utf8 c))%nat.
Proof.
  unfold utf8. cbv zeta. destruct (c <? 128); [cbn; lia|].
  destruct (c <? 2048); [cbn; lia|]. destruct (c <? 65536); cbn; lia.
Qed.

Lemma utf8_all_length t : (length t <= length (utf8_all t))%nat.
Proof.
  unfold utf8_all. induction t as [|c t IH]; cbn; [lia|].
  rewrite app_length. pose proof (utf8_length c). lia.
Qed.

Lemma utf8_all_app a b : utf8_all (a ++ b) = utf8_all a ++ utf8_all b.
Proof. unfold utf8_all. apply flat_map_app. Qed.

Definition scalars (t : text) : Prop := Forall (fun c => is_scalar c = true) t.

Lemma utf8_decode_fuel_all t : forall n,
  scalars t -> (length t <= n)%nat -> utf8_decode_fuel n (utf8_all t) = Some t.
Proof.
  induction t as [|c t IH]; intros n Hs Hn.
  - destruct n; reflexivity.
  - inversion Hs; subst. cbn in Hn. destruct n as [|n]; [lia|].
    change (utf8_all (c :: t)) with (utf8 c ++ utf8_all t).
    pose proof (utf8_length c) as Hl.
    destruct (utf8 c ++ utf8_all t) as [|b0 s] eqn:E.
    { apply (f_equal (@length N)) in E. rewrite app_length in E. cbn in E. lia. }
    cbn [utf8_decode_fuel]. rewrite <- E, utf8_dec1_utf8 by assumption.
    rewrite IH; auto. lia.
Qed.

(* bytes.decode(utf-8) gives back the text whose UTF-8 encoding the bytes are *)
Lemma utf8_decode_utf8_all t : scalars t -> utf8_decode (utf8_all t) = Some t.
Proof. intros Hs. unfold utf8_decode. apply utf8_decode_fuel_all; auto. apply utf8_all_length. Qed.

(* ---- the encoder's output is closed under the following generators *)
Section closure.
  Variable Q : bytes -> Prop.
  Hypothesis Qnil : Q [].
  Hypothesis Qapp : forall a b, Q a -> Q b -> Q (a ++ b).
  Hypothesis Qascii : forall x, 32 <= x -> x < 128 -> Q [x].
  Hypothesis Qutf8 : forall c, is_scalar c = true -> 128 <= c -> Q (utf8 c).

  Lemma Qcons x l : 32 <= x -> x < 128 -> Q l -> Q (x :: l).
  Proof. intros. change (x :: l) with ([x] ++ l). auto. Qed.

  Ltac qa := repeat (apply Qcons; [lia | lia |]); try apply Qnil.

  Lemma Qconcat l : Forall Q l -> Q (concat l).
  Proof. induction 1; cbn; auto. Qed.

  Lemma Qjoin l : Forall Q l -> Q (join_comma l).
  Proof.
    induction 1 as [|x l Hx Hl IH]; cbn; auto.
    destruct l as [|y l']; auto. apply Qapp; auto. apply Qcons; auto; lia.
  Qed.

  Lemma hexdigit_ascii d : d < 16 -> 32 <= hexdigit d /\ hexdigit d < 128.
  Proof. unfold hexdigit. destruct (d <? 10); lia. Qed.

  Lemma Q_enc_char c b : enc_char c = Some b -> Q b.
  Proof.
    unfold enc_char.
    destruct (c =? 34); [intros H; inversion H; qa|].
    destruct (c =? 92); [intros H; inversion H; qa|].
    destruct (c <? 32) eqn:E.
    - intros H; inversion H; subst; clear H. unfold short_escape. nb.
      destruct (c =? 8); [qa|]. destruct (c =? 9); [qa|]. destruct (c =? 10); [qa|].
      destruct (c =? 12); [qa|]. destruct (c =? 13); [qa|].
      assert (c / 16 < 16) as H1 by lia. assert (c mod 16 < 16) as H2 by lia.
      apply hexdigit_ascii in H1, H2.
      repeat (apply Qcons; [lia | lia |]). apply Qnil.
    - destruct (is_scalar c) eqn:Es; [|discriminate].
      intros H; inversion H; subst. nb.
      destruct (N.ltb_spec c 128) as [Hlt|Hge].
      + unfold utf8. rewrite (proj2 (N.ltb_lt c 128) Hlt). now apply Qascii.
      + now apply Qutf8.
  Qed.

  Lemma Q_enc_str s b : enc_str s = Some b -> Q b.
  Proof.
    unfold enc_str. destruct (sequence (map enc_char s)) as [parts|] eqn:E; [|discriminate].
    intros H; inversion H; subst; clear H. apply sequence_Forall2 in E.
    assert (Forall Q parts) as Hp.
    { induction E; constructor; auto. eapply Q_enc_char; eauto. }
    apply Qcons; try lia. apply Qapp; [now apply Qconcat|]. qa.
  Qed.

  Lemma Q_uint d : Q (uint_bytes d).
  Proof. induction d; cbn; try apply Qnil; apply Qcons; auto; lia. Qed.

  Lemma Q_enc_int z b : enc_int z = Some b -> Q b.
  Proof.
    unfold enc_int. destruct (_ && _)%bool; [|discriminate].
    intros H; inversion H; subst. apply Qapp; [|apply Q_uint].
    destruct (z <? 0)%Z; qa.
  Qed.

  Lemma Q_enc_float f : Q (enc_float f).
  Proof.
    destruct f as [| |tok]; cbn; try (unfold lit_null; qa).
    induction tok as [|c tok IH]; cbn; [apply Qnil|]. apply Qcons; auto; destruct c; cbn; lia.
  Qed.

  Lemma Q_enc v : forall b, enc v = Some b -> Q b.
  Proof.
    induction v as [| b0 | z | f | s | l IHl | l IHl] using jv_ind'; intros out Henc; cbn in Henc.
    - inversion Henc. unfold lit_null. qa.
    - inversion Henc. destruct b0; [unfold lit_true | unfold lit_false]; qa.
    - eapply Q_enc_int; eauto.
    - inversion Henc. apply Q_enc_float.
    - eapply Q_enc_str; eauto.
    - destruct (sequence (map enc l)) as [parts|] eqn:E; [|discriminate].
      inversion Henc; subst; clear Henc. apply sequence_Forall2 in E.
      assert (Forall Q parts) as Hp.
      { revert IHl. induction E; intros HF; constructor; inversion HF; subst; auto. }
      apply Qcons; try lia. apply Qapp; [now apply Qjoin|]. qa.
    - destruct (sequence (map (enc_member enc) l)) as [parts|] eqn:E; [|discriminate].
      inversion Henc; subst; clear Henc. apply sequence_Forall2 in E.
      assert (Forall Q parts) as Hp.
      { revert IHl. induction E as [|kv p l' ps Hkv E IH]; intros HF; constructor; inversion HF; subst; auto.
        destruct kv as [k x]. cbn in Hkv. destruct k as [s|]; [|discriminate].
        destruct (enc_str s) as [a|] eqn:Ea; [|discriminate].
        destruct (enc x) as [bx|] eqn:Ex; [|discriminate].
        inversion Hkv; subst. apply Qapp; [eapply Q_enc_str; eauto|].
        apply Qcons; try lia. cbn in H1. now apply H1. }
      apply Qcons; try lia. apply Qapp; [now apply Qjoin|]. qa.
  Qed.
End closure.

(* every encoding is the UTF-8 form of a text of scalar values *)
Definition is_utf8 (b : bytes) : Prop := exists t, scalars t /\ utf8_all t = b.

Lemma enc_is_utf8 v b : enc v = Some b -> is_utf8 b.
Proof.
  apply Q_enc; unfold is_utf8.
  - exists []. split; [constructor | reflexivity].
  - intros a1 b1 [t1 [S1 E1]] [t2 [S2 E2]]. exists (t1 ++ t2). split.
    + apply Forall_app; auto.
    + now rewrite utf8_all_app, E1, E2.
  - intros x H1 H2. exists [x]. split.
    + constructor; [|constructor]. unfold is_scalar, is_surrogate. sb.
    + unfold utf8_all. cbn. unfold utf8. rewrite (proj2 (N.ltb_lt x 128) H2). reflexivity.
  - intros c Hs _. exists [c]. split; [constructor; auto|]. unfold utf8_all. cbn. apply List.app_nil_r.
Qed.

Theorem encode_valid_utf8_lemma : forall v b, encode v = Some b ->
  exists t, Forall (fun c => is_scalar c = true) t /\ utf8_all t = b /\ utf8_decode b = Some t.
Proof.
  intros v b H. apply encode_enc, enc_is_utf8 in H. destruct H as [t [Hs E]].
  exists t. split; [exact Hs|]. split; [exact E|]. rewrite <- E. now apply utf8_decode_utf8_all.
Qed.

(* ---- text mode *)

Definition event_bytes (e : event) : option bytes :=
  match e with
  | Write d => Some (data_bytes d)
  | Flush => None
  end.

Lemma msg_events_text_binary m :
  map event_bytes (msg_events Text m) = map event_bytes (msg_events Binary m).
Proof.
  unfold msg_events, dumps_line. destruct (encode m) as [b|] eqn:E; [|reflexivity].
  destruct (encode_valid_utf8_lemma m b E) as [t [Hs [E1 E2]]]. rewrite E2. cbn.
  now rewrite utf8_all_app, E1.
Qed.

(* a text-mode file receives, call for call, the text whose UTF-8 encoding the
   binary-mode file receives; in particular the decode step of _dumps_unicode
   never fails on an encoding *)
Theorem text_mode_same_content_lemma : forall ms,
  map event_bytes (run Text ms []) = map event_bytes (run Binary ms [])
  /\ content (run Text ms (dest_open Text [])) = content (run Binary ms (dest_open Binary []))
  /\ (forall m, dumps_line Text m = None <-> dumps_line Binary m = None).
Proof.
  intros ms.
  assert (forall ms, map event_bytes (flat_map (msg_events Text) ms)
                     = map event_bytes (flat_map (msg_events Binary) ms)) as A.
  { induction ms0 as [|m ms0 IH]; cbn; auto. now rewrite !map_app, IH, msg_events_text_binary. }
  assert (forall f, content f = concat (map (fun e => match event_bytes e with Some b => b | None => [] end) f)) as B.
  { induction f as [|e f IH]; cbn; auto. destruct e; cbn; now rewrite IH. }
  split; [|split].
  - rewrite !run_events. cbn. apply A.
  - rewrite !run_events, !content_app, !content_open. cbn. rewrite !B.
    rewrite <- !(map_map event_bytes (fun o => match o with Some b => b | None => [] end)).
    now rewrite A.
  - intros m. unfold dumps_line. destruct (encode m) as [b|] eqn:E; [|tauto].
    destruct (encode_valid_utf8_lemma m b E) as [t [Hs [E1 E2]]]. rewrite E2. split; discriminate.
Qed.

Example text_mode_nonvacuous :
  run Text [JObj [(KStr [233], JStr [128512; 10])]] (dest_open Text [])
  = [Write (DText [123; 34; 233; 34; 58; 34; 128512; 92; 110; 34; 125; 10]); Flush].
Proof. vm_compute. reflexivity. Qed.

(* ========================================================================
   3 (continued). lines, for both modes and at every call boundary
   ======================================================================== *)

Theorem C10_lines_lemma : forall md ms k,
  let c := content (run md (firstn k ms) (dest_open md [])) in
  (c = [] \/ exists p, c = p ++ [10])
  /\ split_lines c = encodings (firstn k ms) ++ [[]]
  /\ complete_lines c = encodings (firstn k ms).
Proof.
  intros md ms k. cbv zeta.
  assert (content (run md (firstn k ms) (dest_open md [])) = terminated (encodings (firstn k ms))) as E.
  { destruct md.
    - now rewrite content_run_binary, content_open.
    - destruct (text_mode_same_content_lemma (firstn k ms)) as [_ [E _]]. rewrite E.
      now rewrite content_run_binary, content_open. }
  rewrite E. split; [apply terminated_ends|].
  assert (split_lines (terminated (encodings (firstn k ms))) = encodings (firstn k ms) ++ [[]]) as S
    by (apply split_terminated, encodings_no_nl).
  split; [exact S|]. unfold complete_lines. rewrite S. apply removelast_last.
Qed.

Example lines_nonvacuous :
  let ms := [JObj [(KStr [97], JStr [10; 13])]; JObj [(KStr [98], JInt 18446744073709551616)]; JObj []] in
  complete_lines (content (run Binary ms (dest_open Binary [])))
  = [[123; 34; 97; 34; 58; 34; 92; 110; 92; 114; 34; 125]; [123; 125]].
Proof. vm_compute. reflexivity. Qed.

(* ========================================================================
   5. decode (encode v) = Some v
   ======================================================================== *)

Definition nodigit_start (s : bytes) : Prop :=
  match s with
  | [] => True
  | b :: _ => is_digit b = false
  end.

Lemma uint_bytes_digits d : Forall (fun b => is_digit b = true) (uint_bytes d).
Proof. induction d; cbn; constructor; auto. Qed.

Lemma span_digits_app ds rest :
  Forall (fun b => is_digit b = true) ds -> nodigit_start rest ->
  span_digits (ds ++ rest) = (ds, rest).
Proof.
  induction 1 as [|b ds Hb Hds IH]; intros Hr; cbn [List.app span_digits].
  - destruct rest as [|b r]; [reflexivity|]. cbn in Hr. cbn [span_digits]. now rewrite Hr.
  - rewrite Hb, IH by exact Hr. reflexivity.
Qed.

Lemma uint_of_bytes_uint_bytes d : uint_of_bytes (uint_bytes d) = d.
Proof. induction d; cbn [uint_bytes uint_of_bytes]; try reflexivity; rewrite IHd; reflexivity. Qed.

Lemma to_uint_cons n : exists b tl, uint_bytes (N.to_uint n) = b :: tl /\ is_digit b = true.
Proof.
  pose proof (uint_bytes_digits (N.to_uint n)) as F.
  destruct (uint_bytes (N.to_uint n)) as [|b tl] eqn:E.
  - exfalso. destruct n as [|p]; [discriminate|].
    cbn in E. pose proof (Unsigned.to_uint_nonnil p) as Hn.
    destruct (Pos.to_uint p); try discriminate. now apply Hn.
  - inversion F; subst. eauto.
Qed.

Lemma parse_int_enc_int z b rest :
  enc_int z = Some b -> nodigit_start rest -> parse_int (b ++ rest) = Some (JInt z, rest).
Proof.
  unfold enc_int. destruct (_ && _)%bool; [|discriminate].
  intros H Hr; inversion H; subst; clear H.
  destruct (to_uint_cons (Z.abs_N z)) as [d0 [tl [E Hd0]]].
  pose proof (uint_bytes_digits (N.to_uint (Z.abs_N z))) as F.
  pose proof (uint_of_bytes_uint_bytes (N.to_uint (Z.abs_N z))) as U.
  unfold parse_int. destruct (z <? 0)%Z eqn:Ez.
  - cbn [List.app]. change (45 =? 45) with true. cbv iota.
    rewrite span_digits_app by assumption. rewrite E. rewrite <- E, U, DecimalN.Unsigned.of_to.
    rewrite N2Z.inj_abs_N. apply Z.ltb_lt in Ez. repeat f_equal. lia.
  - cbn [List.app]. rewrite E. cbn [List.app].
    assert (d0 =? 45 = false) as Hne.
    { unfold is_digit in Hd0. apply andb_true_iff in Hd0. destruct Hd0 as [A B].
      apply N.leb_le in A. apply N.eqb_neq. lia. }
    rewrite Hne. change (d0 :: tl ++ rest) with ((d0 :: tl) ++ rest). rewrite <- E.
    rewrite span_digits_app by assumption. rewrite E. rewrite <- E, U, DecimalN.Unsigned.of_to.
    rewrite N2Z.inj_abs_N. apply Z.ltb_ge in Ez. repeat f_equal. lia.
Qed.

(* ---- strings *)

Lemma utf8_first c : is_scalar c = true ->
  exists b0 tl, utf8 c = b0 :: tl /\ ((c < 128 /\ b0 = c) \/ 192 <= b0).
Proof.
  intros _. unfold utf8. cbv zeta.
  destruct (c <? 128) eqn:E1; [|destruct (c <? 2048) eqn:E2; [|destruct (c <? 65536) eqn:E3]]; nb;
    eexists; eexists; (split; [reflexivity|]); [left; split; [lia|reflexivity] | right; lia | right; lia | right; lia].
Qed.

Lemma parse_str_control c bs f rest :
  c < 32 -> enc_char c = Some bs ->
  parse_str (S f) (bs ++ rest) = cons_res c (parse_str f rest).
Proof.
  intros Hc H.
  assert (c = 0 \/ c = 1 \/ c = 2 \/ c = 3 \/ c = 4 \/ c = 5 \/ c = 6 \/ c = 7 \/ c = 8 \/ c = 9 \/
          c = 10 \/ c = 11 \/ c = 12 \/ c = 13 \/ c = 14 \/ c = 15 \/ c = 16 \/ c = 17 \/ c = 18 \/
          c = 19 \/ c = 20 \/ c = 21 \/ c = 22 \/ c = 23 \/ c = 24 \/ c = 25 \/ c = 26 \/ c = 27 \/
          c = 28 \/ c = 29 \/ c = 30 \/ c = 31) as D by lia.
  repeat (destruct D as [D|D]; [subst c; vm_compute in H; inversion H; subst bs; reflexivity|]).
  subst c; vm_compute in H; inversion H; subst bs; reflexivity.
Qed.

Lemma parse_str_char c bs f rest :
  enc_char c = Some bs -> parse_str (S f) (bs ++ rest) = cons_res c (parse_str f rest).
Proof.
  intros H. destruct (N.ltb_spec c 32) as [Hlt|Hge]; [eapply parse_str_control; eauto|].
  unfold enc_char in H.
  destruct (c =? 34) eqn:E34.
  { nb. subst c. inversion H; subst bs. reflexivity. }
  destruct (c =? 92) eqn:E92.
  { nb. subst c. inversion H; subst bs. reflexivity. }
  rewrite (proj2 (N.ltb_ge c 32) Hge) in H.
  destruct (is_scalar c) eqn:Es; [|discriminate]. inversion H; subst bs; clear H.
  destruct (utf8_first c Es) as [b0 [tl [E Hb0]]]. nb.
  pose proof (utf8_dec1_utf8 c rest Es) as D. rewrite E in *. cbn [List.app] in *.
  cbn [parse_str].
  assert (b0 =? 34 = false) as H1 by (apply N.eqb_neq; lia).
  assert (b0 =? 92 = false) as H2 by (apply N.eqb_neq; lia).
  assert (b0 <? 32 = false) as H3 by (apply N.ltb_ge; lia).
  now rewrite H1, H2, H3, D.
Qed.

Lemma enc_char_nonempty c bs : enc_char c = Some bs -> (1 <= length bs)%nat.
Proof.
  unfold enc_char.
  destruct (c =? 34); [intros H; inversion H; cbn; lia|].
  destruct (c =? 92); [intros H; inversion H; cbn; lia|].
  destruct (c <? 32).
  - intros H; inversion H. destruct (short_escape c); cbn; lia.
  - destruct (is_scalar c); [|discriminate]. intros H; inversion H. apply utf8_length.
Qed.

Lemma parse_str_chars s : forall parts n rest,
  Forall2 (fun c p => enc_char c = Some p) s parts -> (length s < n)%nat ->
  parse_str n (concat parts ++ 34 :: rest) = Some (s, rest).
Proof.
  induction s as [|c s IH]; intros parts n rest F Hn; inversion F; subst; cbn [concat List.app].
  - destruct n; [lia|]. reflexivity.
  - destruct n; [cbn in Hn; lia|]. rewrite <- List.app_assoc.
    erewrite parse_str_char by eassumption. rewrite (IH l' n rest); auto. cbn in Hn. lia.
Qed.

Lemma parts_length s parts :
  Forall2 (fun c p => enc_char c = Some p) s parts -> (length s <= length (concat parts))%nat.
Proof.
  induction 1; cbn; [lia|]. rewrite app_length. apply enc_char_nonempty in H. lia.
Qed.

(* after the opening quote *)
Lemma parse_str_enc_str s b rest :
  enc_str s = Some b ->
  exists body, b = 34 :: body /\
    parse_str (length (body ++ rest)) (body ++ rest) = Some (s, rest).
Proof.
  unfold enc_str. destruct (sequence (map enc_char s)) as [parts|] eqn:E; [|discriminate].
  intros H; inversion H; subst; clear H. apply sequence_Forall2 in E.
  exists (concat parts ++ [34]). split; [reflexivity|].
  rewrite <- List.app_assoc. cbn [List.app].
  apply parse_str_chars; auto. apply parts_length in E.
  rewrite app_length. cbn. lia.
Qed.

(* ---- values *)

Fixpoint float_free (v : jv) : bool :=
  match v with
  | JFloat _ => false
  | JArr l => forallb float_free l
  | JObj l => forallb (fun kv : jkey * jv => let '(_, x) := kv in float_free x) l
  | _ => true
  end.

(* fuel [parse] needs *)
Fixpoint size (v : jv) : nat :=
  match v with
  | JArr l => S (fold_right (fun x n => S (size x + n)) O l)
  | JObj l => S (fold_right (fun (kv : jkey * jv) n => let '(_, x) := kv in S (size x + n)) O l)
  | _ => 1%nat
  end.

Definition value_start (c : N) : Prop :=
  c = 110 \/ c = 116 \/ c = 102 \/ c = 34 \/ c = 91 \/ c = 123 \/ c = 45 \/ is_digit c = true.

Lemma enc_head v b : float_free v = true -> enc v = Some b -> exists c tl, b = c :: tl /\ value_start c.
Proof.
  unfold value_start. destruct v as [| b0 | z | f | s | l | l]; cbn; intros Hf H; try discriminate.
  - inversion H. eexists; eexists; split; [reflexivity|]. tauto.
  - inversion H. destruct b0; eexists; eexists; (split; [reflexivity|]); tauto.
  - unfold enc_int in H. destruct (_ && _)%bool; [|discriminate]. inversion H; subst.
    destruct (z <? 0)%Z; cbn [List.app]; [eexists; eexists; split; [reflexivity|]; tauto|].
    destruct (to_uint_cons (Z.abs_N z)) as [d0 [tl [E Hd]]]. rewrite E.
    eexists; eexists; split; [reflexivity|]. tauto.
  - unfold enc_str in H. destruct (sequence _); [|discriminate]. inversion H.
    eexists; eexists; split; [reflexivity|]. tauto.
  - destruct (sequence _); [|discriminate]. inversion H.
    eexists; eexists; split; [reflexivity|]. tauto.
  - destruct (sequence _); [|discriminate]. inversion H.
    eexists; eexists; split; [reflexivity|]. tauto.
Qed.

Definition roundtrips (v : jv) : Prop :=
  forall b rest fuel,
    float_free v = true -> enc v = Some b -> nodigit_start rest -> (size v <= fuel)%nat ->
    parse fuel (b ++ rest) = Some (v, rest).

Lemma parse_elems_ok l : forall parts rest fuel,
  Forall roundtrips l -> l <> [] ->
  forallb float_free l = true ->
  Forall2 (fun x p => enc x = Some p) l parts ->
  (fold_right (fun x n => S (size x + n)) O l <= fuel)%nat ->
  parse_elems fuel (join_comma parts ++ 93 :: rest) = Some (l, rest).
Proof.
  induction l as [|x l IH]; intros parts rest fuel HR Hne Hff F Hfuel; [congruence|].
  inversion F as [|x' p l' ps Hx Hps]; subst. inversion HR as [|x' l' Rx Rl]; subst.
  cbn [forallb] in Hff. apply andb_true_iff in Hff. destruct Hff as [Hfx Hfl].
  cbn [fold_right] in Hfuel. destruct fuel as [|fuel]; [lia|].
  destruct l as [|y l].
  - inversion Hps; subst. cbn [join_comma parse_elems].
    rewrite (Rx p (93 :: rest) fuel Hfx Hx) by (cbn; auto; lia). reflexivity.
  - inversion Hps as [|y' py l' ps' Hy Hps']; subst.
    change (join_comma (p :: py :: ps')) with (p ++ 44 :: join_comma (py :: ps')).
    rewrite <- List.app_assoc. cbn [List.app parse_elems].
    rewrite (Rx p (44 :: join_comma (py :: ps') ++ 93 :: rest) fuel Hfx Hx) by (cbn; auto; lia).
    change (44 =? 44) with true. cbv iota.
    rewrite (IH (py :: ps') rest fuel Rl); auto; [congruence | cbn [fold_right] in *; lia].
Qed.

Definition msize (kv : jkey * jv) (n : nat) : nat := let '(_, x) := kv in S (size x + n).

Lemma parse_members_ok l : forall parts rest fuel,
  Forall (fun kv => roundtrips (snd kv)) l -> l <> [] ->
  forallb (fun kv : jkey * jv => let '(_, x) := kv in float_free x) l = true ->
  Forall2 (fun kv p => enc_member enc kv = Some p) l parts ->
  (fold_right msize O l <= fuel)%nat ->
  parse_members fuel (join_comma parts ++ 125 :: rest) = Some (l, rest).
Proof.
  induction l as [|kv l IH]; intros parts rest fuel HR Hne Hff F Hfuel; [congruence|].
  inversion F as [|kv' p l' ps Hkv Hps]; subst. inversion HR as [|kv' l' Rx Rl]; subst.
  cbn [forallb] in Hff. apply andb_true_iff in Hff. destruct Hff as [Hfx Hfl].
  destruct kv as [k x]. cbn [snd] in Rx. cbn [fold_right msize] in Hfuel.
  destruct fuel as [|fuel]; [lia|].
  cbn [enc_member] in Hkv. destruct k as [s|]; [|discriminate].
  destruct (enc_str s) as [a|] eqn:Ea; [|discriminate].
  destruct (enc x) as [bx|] eqn:Ex; [|discriminate]. inversion Hkv; subst p; clear Hkv.
  destruct l as [|kv2 l].
  - inversion Hps; subst. cbn [join_comma].
    destruct (parse_str_enc_str s a (58 :: bx ++ 125 :: rest) Ea) as [body [Eb Hp]]. subst a.
    rewrite <- !List.app_assoc. cbn [List.app parse_members].
    change (34 =? 34) with true. cbv iota. rewrite Hp.
    change (58 =? 58) with true. cbv iota.
    rewrite (Rx bx (125 :: rest) fuel Hfx Ex) by (cbn; auto; lia). reflexivity.
  - inversion Hps as [|y' py l' ps' Hy Hps']; subst.
    change (join_comma ((a ++ 58 :: bx) :: py :: ps')) with ((a ++ 58 :: bx) ++ 44 :: join_comma (py :: ps')).
    destruct (parse_str_enc_str s a (58 :: bx ++ 44 :: join_comma (py :: ps') ++ 125 :: rest) Ea) as [body [Eb Hp]]. subst a.
    rewrite <- !List.app_assoc. cbn [List.app parse_members].
    change (34 =? 34) with true. cbv iota.
    rewrite <- ?List.app_assoc in Hp. cbn [List.app] in Hp. rewrite Hp.
    change (58 =? 58) with true. cbv iota.
    rewrite (Rx bx (44 :: join_comma (py :: ps') ++ 125 :: rest) fuel Hfx Ex) by (cbn; auto; lia).
    change (44 =? 44) with true. cbv iota.
    rewrite (IH (py :: ps') rest fuel Rl); auto; [congruence | cbn [fold_right msize] in *; lia].
Qed.

Lemma value_start_not c : value_start c -> c <> 93 /\ c <> 125 /\ c <> 44.
Proof.
  unfold value_start, is_digit. intros H.
  repeat (destruct H as [H|H]; [subst; repeat split; discriminate|]).
  apply andb_true_iff in H. destruct H as [A B]. apply N.leb_le in A, B. lia.
Qed.

Lemma parse_dispatch_int f b tl :
  (b = 45 \/ is_digit b = true) -> parse (S f) (b :: tl) = parse_int (b :: tl).
Proof.
  intros H. cbn [parse].
  assert (b <> 110 /\ b <> 116 /\ b <> 102 /\ b <> 34 /\ b <> 91 /\ b <> 123) as N.
  { destruct H as [->|H]; [repeat split; discriminate|].
    unfold is_digit in H. apply andb_true_iff in H. destruct H as [A B]. apply N.leb_le in A, B. lia. }
  destruct N as [N1 [N2 [N3 [N4 [N5 N6]]]]].
  apply N.eqb_neq in N1, N2, N3, N4, N5, N6. now rewrite N1, N2, N3, N4, N5, N6.
Qed.

Theorem enc_roundtrips : forall v, roundtrips v.
Proof.
  induction v as [| b0 | z | f | s | l IHl | l IHl] using jv_ind';
    intros out rest fuel Hff Henc Hrest Hfuel; cbn [size] in Hfuel;
    (destruct fuel as [|fuel]; [lia|]).
  - cbn in Henc. inversion Henc; subst. reflexivity.
  - cbn in Henc. inversion Henc; subst. destruct b0; reflexivity.
  - cbn [enc] in Henc. pose proof Henc as Henc'.
    unfold enc_int in Henc'. destruct (_ && _)%bool; [|discriminate]. injection Henc' as E.
    assert (exists b tl, out = b :: tl /\ (b = 45 \/ is_digit b = true)) as [b [tl [Eo Hb]]].
    { subst out. destruct (z <? 0)%Z; cbn [List.app]; [eauto|].
      destruct (to_uint_cons (Z.abs_N z)) as [d0 [tl [E' Hd]]]. rewrite E'. eauto. }
    rewrite Eo at 1. cbn [List.app]. rewrite parse_dispatch_int by exact Hb.
    change (b :: tl ++ rest) with ((b :: tl) ++ rest). rewrite <- Eo.
    now apply parse_int_enc_int.
  - discriminate.
  - cbn [enc] in Henc. destruct (parse_str_enc_str s out rest Henc) as [body [Eb Hp]]. subst out.
    cbn [List.app parse]. change (34 =? 110) with false. change (34 =? 116) with false.
    change (34 =? 102) with false. change (34 =? 34) with true. cbv iota. now rewrite Hp.
  - cbn [enc] in Henc. destruct (sequence (map enc l)) as [parts|] eqn:E; [|discriminate].
    inversion Henc; subst out; clear Henc. apply sequence_Forall2 in E.
    cbn [float_free] in Hff.
    destruct l as [|x l].
    + inversion E; subst. reflexivity.
    + assert (exists c tl, join_comma parts = c :: tl /\ c <> 93) as [c [tl [Ej Hc]]].
      { inversion E as [|x' p l' ps Hx Hps]; subst.
        cbn [forallb] in Hff. apply andb_true_iff in Hff. destruct Hff as [Hfx _].
        destruct (enc_head x p Hfx Hx) as [c [tl [Ep Hs]]]. apply value_start_not in Hs.
        subst p. destruct ps; cbn [join_comma List.app]; eexists; eexists; split; try reflexivity; tauto. }
      cbn [List.app]. rewrite <- List.app_assoc. cbn [List.app].
      pose proof (parse_elems_ok (x :: l) parts rest fuel IHl ltac:(congruence) Hff E ltac:(lia)) as PE.
      rewrite Ej in *. cbn [List.app] in *. cbn [parse].
      change (91 =? 110) with false. change (91 =? 116) with false. change (91 =? 102) with false.
      change (91 =? 34) with false. change (91 =? 91) with true. cbv iota.
      apply N.eqb_neq in Hc. rewrite Hc. now rewrite PE.
  - cbn [enc] in Henc. destruct (sequence (map (enc_member enc) l)) as [parts|] eqn:E; [|discriminate].
    inversion Henc; subst out; clear Henc. apply sequence_Forall2 in E.
    cbn [float_free] in Hff.
    destruct l as [|kv l].
    + inversion E; subst. reflexivity.
    + assert (exists tl, join_comma parts = 34 :: tl) as [tl Ej].
      { inversion E as [|kv' p l' ps Hkv Hps]; subst. destruct kv as [k x]. cbn [enc_member] in Hkv.
        destruct k as [s|]; [|discriminate]. unfold enc_str in Hkv.
        destruct (sequence (map enc_char s)); [|discriminate]. destruct (enc x); [|discriminate].
        inversion Hkv. destruct ps; cbn [join_comma List.app]; eauto. }
      cbn [List.app]. rewrite <- List.app_assoc. cbn [List.app].
      assert (fold_right msize O (kv :: l) <= fuel)%nat as Hm by (unfold msize; lia).
      pose proof (parse_members_ok (kv :: l) parts rest fuel IHl ltac:(congruence) Hff E Hm) as PM.
      rewrite Ej in *. cbn [List.app] in *. cbn [parse].
      change (123 =? 110) with false. change (123 =? 116) with false. change (123 =? 102) with false.
      change (123 =? 34) with false. change (123 =? 91) with false. change (123 =? 123) with true.
      change (34 =? 125) with false. cbv iota. now rewrite PM.
Qed.

Lemma join_comma_length parts :
  (fold_right (fun p n => S (length p + n)) O parts <= S (length (join_comma parts)))%nat.
Proof.
  induction parts as [|p ps IH]; cbn [fold_right join_comma]; [lia|].
  destruct ps as [|q ps]; [cbn; lia|].
  rewrite app_length. cbn [length]. cbn [fold_right] in *. lia.
Qed.

Lemma size_le_length v : forall b, float_free v = true -> enc v = Some b -> (size v <= length b)%nat.
Proof.
  induction v as [| b0 | z | f | s | l IHl | l IHl] using jv_ind'; intros out Hff Henc;
    try (destruct (enc_head _ _ Hff Henc) as [c [tl [E _]]]; subst out; cbn; lia).
  - cbn [enc] in Henc. destruct (sequence (map enc l)) as [parts|] eqn:E; [|discriminate].
    inversion Henc; subst out; clear Henc. apply sequence_Forall2 in E. cbn [float_free] in Hff.
    cbn [size length]. rewrite app_length. cbn [length].
    assert (fold_right (fun x n => S (size x + n)) O l
            <= fold_right (fun p n => S (length p + n)) O parts)%nat as A.
    { revert IHl Hff. induction E as [|x p l' ps Hx E IH]; intros HF Hff; cbn [fold_right]; [lia|].
      inversion HF; subst. cbn [forallb] in Hff. apply andb_true_iff in Hff. destruct Hff as [Hfx Hfl].
      specialize (IH H2 Hfl). specialize (H1 p Hfx Hx). lia. }
    pose proof (join_comma_length parts). lia.
  - cbn [enc] in Henc. destruct (sequence (map (enc_member enc) l)) as [parts|] eqn:E; [|discriminate].
    inversion Henc; subst out; clear Henc. apply sequence_Forall2 in E. cbn [float_free] in Hff.
    cbn [size length]. rewrite app_length. cbn [length].
    assert (fold_right msize O l <= fold_right (fun p n => S (length p + n)) O parts)%nat as A.
    { revert IHl Hff. induction E as [|kv p l' ps Hkv E IH]; intros HF Hff; cbn [fold_right]; [lia|].
      inversion HF; subst. cbn [forallb] in Hff. apply andb_true_iff in Hff. destruct Hff as [Hfx Hfl].
      specialize (IH H2 Hfl). destruct kv as [k x]. cbn [enc_member] in Hkv.
      destruct k as [s|]; [|discriminate]. destruct (enc_str s) as [a|]; [|discriminate].
      destruct (enc x) as [bx|] eqn:Ex; [|discriminate]. inversion Hkv; subst p.
      cbn [snd] in H1. specialize (H1 bx Hfx Ex). unfold msize at 1.
      rewrite app_length. cbn [length]. lia. }
    pose proof (join_comma_length parts). unfold msize in A. lia.
Qed.

(* decoding an encoding gives the value back: on the float-free domain the
   encoder is injective and its output is read back exactly *)
Theorem decode_encode_lemma : forall v b,
  float_free v = true -> encode v = Some b -> decode b = Some v.
Proof.
  intros v b Hff H. apply encode_enc in H. unfold decode.
  pose proof (size_le_length v b Hff H) as Hs.
  pose proof (enc_roundtrips v b [] (S (length b)) Hff H I ltac:(lia)) as R.
  rewrite List.app_nil_r in R. now rewrite R.
Qed.

Corollary encode_injective : forall v w b,
  float_free v = true -> float_free w = true -> encode v = Some b -> encode w = Some b -> v = w.
Proof.
  intros v w b Hv Hw Ev Ew. apply decode_encode_lemma in Ev, Ew; auto. congruence.
Qed.

Example decode_nonvacuous :
  let v := JObj [(KStr [97; 34; 10; 233; 128512],
                  JArr [JInt (-9223372036854775808); JInt 18446744073709551615; JNull; JBool true;
                        JStr [0; 31; 127; 8232]; JObj []; JArr []])] in
  float_free v = true /\ match encode v with Some b => decode b = Some v | None => False end.
Proof. vm_compute. split; reflexivity. Qed.
