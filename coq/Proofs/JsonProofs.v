(* Proofs about Model/Json.v (property C10).

   1. encode_no_newline / encode_no_control : an encoding contains no byte < 32
   2. C10_events      : event list of any message sequence = per message exactly
                        [Write line; Flush] or nothing; a failing call leaves the file untouched
   3. C10_lines       : at every call boundary the content is newline-terminated and
                        splitting it on newlines gives the encodings in order
   4. encode_valid_utf8, text_mode_same_content
   5. decode_encode   : decode (encode v) = Some v on the float-free domain *)
From Coq Require Import List NArith ZArith Bool Lia Decimal DecimalFacts DecimalN DecimalPos.
Require Import Eliot.Model.Json.
Import ListNotations.
Local Open Scope N_scope.

(* ------------------------------------------------------------------ tactics *)

(* let lia reason about division and remainder by constants *)
Ltac Zify.zify_post_hook ::= Z.to_euclidean_division_equations.

Ltac nb :=
  repeat match goal with
  | H : (_ <? _) = true |- _ => apply N.ltb_lt in H
  | H : (_ <? _) = false |- _ => apply N.ltb_ge in H
  | H : (_ <=? _) = true |- _ => apply N.leb_le in H
  | H : (_ <=? _) = false |- _ => apply N.leb_gt in H
  | H : (_ =? _) = true |- _ => apply N.eqb_eq in H
  | H : (_ =? _) = false |- _ => apply N.eqb_neq in H
  | H : (_ && _) = true |- _ => apply andb_true_iff in H; destruct H
  | H : negb _ = true |- _ => apply negb_true_iff in H
  | H : negb _ = false |- _ => apply negb_false_iff in H
  end.

Ltac fa := repeat (apply Forall_cons; [try lia|]); try apply Forall_nil.

(* ---------------------------------------------------- induction principle *)

Section jv_induction.
  Variable P : jv -> Prop.
  Hypothesis Hnull : P JNull.
  Hypothesis Hbool : forall b, P (JBool b).
  Hypothesis Hint : forall z, P (JInt z).
  Hypothesis Hfloat : forall f, P (JFloat f).
  Hypothesis Hstr : forall s, P (JStr s).
  Hypothesis Harr : forall l, Forall P l -> P (JArr l).
  Hypothesis Hobj : forall l, Forall (fun kv => P (snd kv)) l -> P (JObj l).

  Fixpoint jv_ind' (v : jv) : P v :=
    match v with
    | JNull => Hnull
    | JBool b => Hbool b
    | JInt z => Hint z
    | JFloat f => Hfloat f
    | JStr s => Hstr s
    | JArr l =>
        Harr l ((fix go (l : list jv) : Forall P l :=
                   match l with
                   | [] => Forall_nil _
                   | x :: r => Forall_cons x (jv_ind' x) (go r)
                   end) l)
    | JObj l =>
        Hobj l ((fix go (l : list (jkey * jv)) : Forall (fun kv => P (snd kv)) l :=
                   match l with
                   | [] => Forall_nil _
                   | kv :: r => Forall_cons kv (jv_ind' (snd kv)) (go r)
                   end) l)
    end.
End jv_induction.

(* ------------------------------------------------------------- sequence *)

Lemma sequence_Forall2 {A B} (f : A -> option B) l parts :
  sequence (map f l) = Some parts -> Forall2 (fun x p => f x = Some p) l parts.
Proof.
  revert parts. induction l as [|x l IH]; intros parts H; cbn in H.
  - inversion H. constructor.
  - destruct (f x) eqn:E; [|discriminate].
    destruct (sequence (map f l)) eqn:E2; [|discriminate].
    inversion H; subst. constructor; auto.
Qed.

Lemma Forall2_sequence {A B} (f : A -> option B) l parts :
  Forall2 (fun x p => f x = Some p) l parts -> sequence (map f l) = Some parts.
Proof.
  induction 1; cbn; auto. now rewrite H, IHForall2.
Qed.

(* ========================================================================
   1. no newline, no raw control byte
   ======================================================================== *)

Definition printable (b : bytes) : Prop := Forall (fun x => 32 <= x) b.

Lemma printable_app a b : printable a -> printable b -> printable (a ++ b).
Proof. unfold printable. intros. apply Forall_app; auto. Qed.

Lemma printable_concat l : Forall printable l -> printable (concat l).
Proof.
  induction 1; cbn; [constructor|]. now apply printable_app.
Qed.

Lemma printable_join l : Forall printable l -> printable (join_comma l).
Proof.
  induction 1 as [|x l Hx Hl IH]; cbn; [constructor|].
  destruct l as [|y l']; [exact Hx|].
  apply printable_app; [exact Hx|]. constructor; [lia | exact IH].
Qed.

Lemma utf8_printable c : 32 <= c -> printable (utf8 c).
Proof.
  intros Hc. unfold utf8, printable. cbv zeta.
  destruct (c <? 128); [fa|].
  destruct (c <? 2048); [fa|].
  destruct (c <? 65536); fa.
Qed.

Lemma hexdigit_ge d : 32 <= hexdigit d.
Proof. unfold hexdigit. destruct (d <? 10); lia. Qed.

Lemma enc_char_printable c b : enc_char c = Some b -> printable b.
Proof.
  unfold enc_char, printable.
  destruct (c =? 34); [intros H; inversion H; fa|].
  destruct (c =? 92); [intros H; inversion H; fa|].
  destruct (c <? 32) eqn:E.
  - intros H; inversion H; subst; clear H. unfold short_escape.
    destruct (c =? 8); [fa|].
    destruct (c =? 9); [fa|].
    destruct (c =? 10); [fa|].
    destruct (c =? 12); [fa|].
    destruct (c =? 13); [fa|].
    fa; apply hexdigit_ge.
  - destruct (is_scalar c); [|discriminate].
    intros H; inversion H; subst. nb. now apply utf8_printable.
Qed.

Lemma enc_str_printable s b : enc_str s = Some b -> printable b.
Proof.
  unfold enc_str. destruct (sequence (map enc_char s)) as [parts|] eqn:E; [|discriminate].
  intros H; inversion H; subst; clear H.
  apply sequence_Forall2 in E.
  assert (Forall printable parts) as Hp.
  { induction E; constructor; auto. eapply enc_char_printable; eauto. }
  constructor; [lia|]. apply printable_app; [now apply printable_concat|].
  fa.
Qed.

Lemma uint_bytes_printable d : printable (uint_bytes d).
Proof. induction d; cbn; constructor; auto; lia. Qed.

Lemma enc_int_printable z b : enc_int z = Some b -> printable b.
Proof.
  unfold enc_int. destruct (_ && _)%bool; [|discriminate].
  intros H; inversion H; subst. apply printable_app; [|apply uint_bytes_printable].
  destruct (z <? 0)%Z; fa.
Qed.

Lemma enc_float_printable f : printable (enc_float f).
Proof.
  destruct f as [| |tok]; cbn; try (fa).
  induction tok as [|c tok IH]; cbn; constructor; auto. destruct c; cbn; lia.
Qed.

Lemma enc_printable v : forall b, enc v = Some b -> printable b.
Proof.
  induction v as [| b0 | z | f | s | l IHl | l IHl] using jv_ind'; intros out Henc; cbn in Henc.
  - inversion Henc. unfold lit_null. fa.
  - inversion Henc. destruct b0; [unfold lit_true | unfold lit_false]; fa.
  - eapply enc_int_printable; eauto.
  - inversion Henc. apply enc_float_printable.
  - eapply enc_str_printable; eauto.
  - destruct (sequence (map enc l)) as [parts|] eqn:E; [|discriminate].
    inversion Henc; subst; clear Henc. apply sequence_Forall2 in E.
    assert (Forall printable parts) as Hp.
    { revert IHl. induction E; intros HF; constructor; inversion HF; subst; auto. }
    apply Forall_cons; [lia|]. apply printable_app; [now apply printable_join|]. fa.
  - destruct (sequence (map (enc_member enc) l)) as [parts|] eqn:E; [|discriminate].
    inversion Henc; subst; clear Henc. apply sequence_Forall2 in E.
    assert (Forall printable parts) as Hp.
    { revert IHl. induction E as [|kv p l' ps Hkv E IH]; intros HF; constructor; inversion HF; subst; auto.
      destruct kv as [k x]. cbn in Hkv. destruct k as [s|]; [|discriminate].
      destruct (enc_str s) as [a|] eqn:Ea; [|discriminate].
      destruct (enc x) as [bx|] eqn:Ex; [|discriminate].
      inversion Hkv; subst. apply printable_app; [eapply enc_str_printable; eauto|].
      apply Forall_cons; [lia|]. cbn in H1. now apply H1. }
    apply Forall_cons; [lia|]. apply printable_app; [now apply printable_join|]. fa.
Qed.

Lemma encode_enc v b : encode v = Some b -> enc v = Some b.
Proof. unfold encode. destruct (Nat.leb _ _); [auto|discriminate]. Qed.

(* a successful encoding contains no raw control byte ... *)
Theorem encode_no_control : forall v b, encode v = Some b -> Forall (fun x => 32 <= x) b.
Proof. intros v b H. eapply enc_printable, encode_enc, H. Qed.

(* ... in particular no newline *)
Theorem encode_no_newline : forall v b, encode v = Some b -> ~ In 10 b.
Proof.
  intros v b H Hin. pose proof (encode_no_control v b H) as F.
  rewrite Forall_forall in F. specialize (F 10 Hin). lia.
Qed.

(* ========================================================================
   2. events
   ======================================================================== *)

(* what one call adds to the file: exactly one write of the whole line and one
   flush, or nothing at all *)
Definition msg_events (md : mode) (m : jv) : list event :=
  match dumps_line md m with
  | Some d => [Write d; Flush]
  | None => []
  end.

Lemma dest_call_events md m f : fst (dest_call md m f) = f ++ msg_events md m.
Proof.
  unfold dest_call, msg_events. destruct (dumps_line md m); cbn.
  - now rewrite <- List.app_assoc.
  - now rewrite List.app_nil_r.
Qed.

Lemma run_events md ms : forall f, run md ms f = f ++ flat_map (msg_events md) ms.
Proof.
  unfold run. induction ms as [|m ms IH]; intros f; cbn.
  - now rewrite List.app_nil_r.
  - rewrite IH, dest_call_events, <- List.app_assoc. reflexivity.
Qed.

Theorem C10_events_lemma : forall md ms f,
  run md ms f = f ++ flat_map (msg_events md) ms
  /\ (forall m, encode m = None -> dest_call md m f = (f, true))
  /\ (forall m b, encode m = Some b ->
        msg_events Binary m = [Write (DBytes (b ++ [10])); Flush]).
Proof.
  intros md ms f. split; [apply run_events|]. split.
  - intros m H. unfold dest_call, dumps_line. now rewrite H.
  - intros m b H. unfold msg_events, dumps_line. now rewrite H.
Qed.

(* the binary-mode statement with everything unfolded *)
Theorem C10_events_binary_lemma : forall ms f,
  run Binary ms f =
  f ++ flat_map (fun m => match encode m with
                          | Some b => [Write (DBytes (b ++ [10])); Flush]
                          | None => []
                          end) ms.
Proof.
  intros ms f. rewrite run_events. f_equal. apply flat_map_ext. intros m.
  unfold msg_events, dumps_line. destruct (encode m); reflexivity.
Qed.

(* a call that raises leaves the file exactly as it was; a call that returns
   has appended exactly one write and one flush *)
Theorem dest_call_atomic : forall md m f,
  (snd (dest_call md m f) = true /\ fst (dest_call md m f) = f) \/
  (snd (dest_call md m f) = false /\ exists d, fst (dest_call md m f) = f ++ [Write d; Flush]).
Proof.
  intros md m f. unfold dest_call. destruct (dumps_line md m) as [d|]; cbn.
  - right. split; auto. exists d. now rewrite <- List.app_assoc.
  - left. auto.
Qed.

Example events_nonvacuous :
  run Binary [JObj [(KStr [97], JInt 1)]; JObj [(KOther, JNull)]; JObj [(KStr [98], JStr [10; 128512])]]
      (dest_open Binary [])
  = [Write (DBytes []);
     Write (DBytes [123; 34; 97; 34; 58; 49; 125; 10]); Flush;
     Write (DBytes [123; 34; 98; 34; 58; 34; 92; 110; 240; 159; 152; 128; 34; 125; 10]); Flush].
Proof. vm_compute. reflexivity. Qed.

(* ========================================================================
   3. lines
   ======================================================================== *)

Lemma content_app f g : content (f ++ g) = content f ++ content g.
Proof.
  induction f as [|e f IH]; cbn; auto. destruct e; auto. now rewrite IH, List.app_assoc.
Qed.

Definition no_nl (b : bytes) : Prop := ~ In 10 b.

Lemma split_on_app a r cur :
  no_nl a -> split_on 10 (a ++ 10 :: r) cur = (cur ++ a) :: split_on 10 r [].
Proof.
  revert cur. induction a as [|x a IH]; intros cur H; cbn [split_on List.app].
  - now rewrite List.app_nil_r.
  - destruct (N.eqb_spec x 10) as [->|Hx]; [exfalso; apply H; now left|].
    rewrite IH; [now rewrite <- List.app_assoc | intros Hin; apply H; now right].
Qed.

Definition terminated (ls : list bytes) : bytes := concat (map (fun b => b ++ [10]) ls).

Lemma split_terminated ls :
  Forall no_nl ls -> split_lines (terminated ls) = ls ++ [[]].
Proof.
  unfold split_lines, terminated. induction 1 as [|a ls Ha Hls IH]; cbn; auto.
  rewrite <- List.app_assoc. cbn. rewrite split_on_app by exact Ha. cbn. now rewrite IH.
Qed.

Lemma terminated_ends ls : terminated ls = [] \/ exists p, terminated ls = p ++ [10].
Proof.
  unfold terminated. induction ls as [|a ls IH]; cbn; auto.
  right. destruct IH as [E | [p E]]; rewrite E.
  - exists a. now rewrite List.app_nil_r.
  - exists ((a ++ [10]) ++ p). now rewrite List.app_assoc.
Qed.

Lemma encodings_no_nl ms : Forall no_nl (encodings ms).
Proof.
  induction ms as [|m ms IH]; cbn; [constructor|].
  destruct (encode m) eqn:E; auto. constructor; auto. eapply encode_no_newline; eauto.
Qed.

Lemma content_binary_events ms :
  content (flat_map (msg_events Binary) ms) = terminated (encodings ms).
Proof.
  unfold terminated. induction ms as [|m ms IH]; cbn; auto.
  rewrite content_app, IH. unfold msg_events, dumps_line.
  destruct (encode m); cbn; auto. now rewrite List.app_nil_r.
Qed.

Lemma content_open md : content (dest_open md []) = [].
Proof. destruct md; reflexivity. Qed.
