(* C12: start-up buffering, (un)registration, the hand-over race.
   Theorems about Model/Handover.v (spec of histories against Model/Core.v; the
   two-thread interleaving model of send || first add). *)
From Coq Require Import List PArith NArith ZArith Bool Arith Lia.
Require Import Eliot.Base.Level Eliot.Model.Core Eliot.Model.Prog Eliot.Model.Handover.
Require Import Eliot.Proofs.CoreBasics Eliot.Proofs.OutputProofs.
Import ListNotations.

(* ===================================================================== *)
(* the bounded buffer: all statements for an arbitrary bound n, instantiated
   with [buffer_cap] at the end (the literal is never unfolded)            *)

Section Cap.
Context {A : Type}.
Variable n : nat.

Definition cap_add (b : list A) (m : A) : list A :=
  let b' := b ++ [m] in skipn (length b' - n) b'.

Lemma lastn_length (l : list A) : length (lastn n l) = Nat.min (length l) n.
Proof. unfold lastn. rewrite skipn_length. lia. Qed.

Lemma lastn_short (l : list A) : length l <= n -> lastn n l = l.
Proof. intros H. unfold lastn. replace (length l - n) with 0 by lia. reflexivity. Qed.

Lemma skipn_app_le (k : nat) (x y : list A) : k <= length x -> skipn k (x ++ y) = skipn k x ++ y.
Proof. intros H. rewrite skipn_app. replace (k - length x) with 0 by lia. reflexivity. Qed.

Lemma skipn_add (a b : nat) : forall l : list A, skipn (a + b) l = skipn b (skipn a l).
Proof.
  induction a as [|a IH]; intros l; [reflexivity|].
  destruct l as [|x r]; cbn [Nat.add skipn]; [now rewrite skipn_nil | apply IH].
Qed.

(* keeping the last n of (the last n of x) followed by y = keeping the last n of x ++ y *)
Lemma lastn_lastn_app (x y : list A) : lastn n (lastn n x ++ y) = lastn n (x ++ y).
Proof.
  unfold lastn. set (k := length x - n).
  rewrite !app_length, skipn_length. fold k.
  replace (length x + length y - n) with (k + (length x - k + length y - n)) by lia.
  rewrite skipn_add. rewrite (skipn_app_le k x y) by lia. reflexivity.
Qed.

Lemma cap_add_lastn (b : list A) (m : A) : cap_add b m = lastn n (b ++ [m]).
Proof. reflexivity. Qed.

Lemma fold_cap_add (l : list A) : forall b,
  fold_left cap_add l (lastn n b) = lastn n (b ++ l).
Proof.
  induction l as [|m r IH]; intros b; cbn [fold_left].
  - now rewrite app_nil_r.
  - rewrite cap_add_lastn, lastn_lastn_app, IH, <- app_assoc. reflexivity.
Qed.

Lemma lastn_suffix (l : list A) : exists p, l = p ++ lastn n l.
Proof. exists (firstn (length l - n) l). unfold lastn. now rewrite firstn_skipn. Qed.
End Cap.

Lemma buffer_add_cap b m : buffer_add b m = cap_add buffer_cap b m.
Proof. reflexivity. Qed.

Lemma fold_buffer_add l : forall b,
  fold_left buffer_add l b = fold_left (cap_add buffer_cap) l b.
Proof. induction l as [|m r IH]; intros b; cbn [fold_left]; [reflexivity | apply IH]. Qed.

(* C12 (retention): BufferingDestination keeps exactly the most recent
   [buffer_cap] messages, in order, for any number of messages: starting from a
   buffer b within the bound and calling it with the messages l one after the
   other leaves the last [buffer_cap] elements of b ++ l. *)
Theorem C12_buffer_cap (b l : list msg) :
  length b <= buffer_cap ->
  fold_left buffer_add l b = lastn buffer_cap (b ++ l) /\
  length (fold_left buffer_add l b) = Nat.min (length b + length l) buffer_cap /\
  exists dropped, b ++ l = dropped ++ fold_left buffer_add l b.
Proof.
  intros H. assert (E : fold_left buffer_add l b = lastn buffer_cap (b ++ l)).
  { rewrite fold_buffer_add. rewrite <- (lastn_short buffer_cap b H) at 1. apply fold_cap_add. }
  rewrite E. split; [reflexivity|]. split.
  - rewrite lastn_length, app_length. reflexivity.
  - apply lastn_suffix.
Qed.

(* non-vacuity on small numbers is the same statement for the bound 2 *)
Example cap_add_ex : fold_left (cap_add 2) [3; 4; 5] [1; 2] = [4; 5].
Proof. reflexivity. Qed.

Example C12_buffer_cap_ex :
  let m := fun k => logged_msg k (VAtom 20%positive) [] in
  length (fold_left buffer_add [m 1; m 2; m 3] [m 0]) = 4 /\
  fold_left buffer_add [m 1; m 2; m 3] [m 0] = [m 0; m 1; m 2; m 3].
Proof.
  intros m. destruct (C12_buffer_cap [m 0] [m 1; m 2; m 3]) as (E & L & _).
  - unfold buffer_cap. cbn [length]. lia.
  - split.
    + rewrite L. cbn [length]. unfold buffer_cap. lia.
    + rewrite E. apply lastn_short. unfold buffer_cap. cbn [length app]. lia.
Qed.

(* ===================================================================== *)
(* histories: Core.v on never-failing destinations, in closed form        *)

Definition bump (l : list msg) (d : dest) : dest :=
  mkDest (d_id d) (d_behave d) (d_calls d + length l) (d_log d ++ l).

Lemma bump_nil d : bump [] d = d.
Proof. destruct d. unfold bump. cbn. now rewrite Nat.add_0_r, app_nil_r. Qed.

Lemma bump_bump l1 l2 d : bump l2 (bump l1 d) = bump (l1 ++ l2) d.
Proof. unfold bump. cbn. now rewrite app_length, Nat.add_assoc, app_assoc. Qed.

Lemma map_bump_nil ds : map (bump []) ds = ds.
Proof. rewrite <- (map_id ds) at 2. apply map_ext. apply bump_nil. Qed.

Lemma never_fails_bump l ds : Forall never_fails ds -> Forall never_fails (map (bump l) ds).
Proof. intros H. apply Forall_map. eapply Forall_impl; [|exact H]. intros d Hd. exact Hd. Qed.

Lemma map_id_bump l ds : map d_id (map (bump l) ds) = map d_id ds.
Proof. rewrite map_map. reflexivity. Qed.

Lemma fanout_never m ds : Forall never_fails ds -> fanout m ds = (map (bump [m]) ds, []).
Proof.
  induction 1 as [|d r Hd _ IH]; cbn [fanout map]; [reflexivity|].
  rewrite IH, (Hd (d_calls d) m). unfold bump. cbn [length]. now rewrite Nat.add_1_r.
Qed.

Lemma send_never c s m :
  any_added s = true -> Forall never_fails (dests s) ->
  send c s m = set_out s true (buffer s) (map (bump [fupdate m (globals s)]) (dests s)) (gone s).
Proof.
  intros A F. unfold send, deliver. rewrite A, (fanout_never _ _ F).
  destruct (is_report m); reflexivity.
Qed.

Lemma send_buffering c s m :
  any_added s = false ->
  send c s m = set_out s false (buffer_add (buffer s) (fupdate m (globals s))) (dests s) (gone s).
Proof. intros A. unfold send, deliver. rewrite A. destruct (is_report m); reflexivity. Qed.

Lemma resend_never c ms : forall s,
  any_added s = true -> Forall never_fails (dests s) ->
  resend c s ms =
  set_out s true (buffer s) (map (bump (map (fun m => fupdate m (globals s)) ms)) (dests s)) (gone s).
Proof.
  induction ms as [|m r IH]; intros s A F; cbn [resend map].
  - rewrite map_bump_nil. destruct s; cbn in *. now subst.
  - rewrite (send_never c s m A F). rewrite IH; cbn; [|reflexivity | now apply never_fails_bump].
    unfold set_out. cbn. f_equal. rewrite map_map. apply map_ext. intros d. apply bump_bump.
Qed.

(* the part of the state histories touch *)
Record hv := mkHV {
  v_added : bool; v_buf : list msg; v_dests : list dest; v_gone : list dest;
  v_glob : fields; v_next : nat }.

Definition view (s : state) : hv :=
  mkHV (any_added s) (buffer s) (dests s) (gone s) (globals s) (next_uuid s).

Definition vstep (v : hv) (x : hop) : hv :=
  match x with
  | HLog mt fs =>
      let m := fupdate (logged_msg (v_next v) mt fs) (v_glob v) in
      if v_added v
      then mkHV true (v_buf v) (map (bump [m]) (v_dests v)) (v_gone v) (v_glob v) (S (v_next v))
      else mkHV false (buffer_add (v_buf v) m) (v_dests v) (v_gone v) (v_glob v) (S (v_next v))
  | HAdd ds =>
      if v_added v
      then mkHV true (v_buf v) (v_dests v ++ ds) (v_gone v) (v_glob v) (v_next v)
      else mkHV true [] (map (bump (map (fun m => fupdate m (v_glob v)) (v_buf v))) ds)
                (v_gone v) (v_glob v) (v_next v)
  | HRemove id =>
      match remove_dest id (v_dests v) with
      | (ds, Some d) => mkHV (v_added v) (v_buf v) ds (v_gone v ++ [d]) (v_glob v) (v_next v)
      | (_, None) => v
      end
  | HGlobals fs => mkHV (v_added v) (v_buf v) (v_dests v) (v_gone v) (fupdate (v_glob v) fs) (v_next v)
  end.

Definition vrun (h : list hop) (v : hv) : hv := fold_left vstep h v.

Definition added_dests (x : hop) : list dest := match x with HAdd ds => ds | _ => [] end.

Lemma api_view cfg s x :
  cur s 0 = None -> Forall never_fails (dests s) -> Forall never_fails (added_dests x) ->
  view (api cfg (fst (hop_op x)) s (snd (hop_op x))) = vstep (view s) x /\
  cur (api cfg (fst (hop_op x)) s (snd (hop_op x))) 0 = None.
Proof.
  intros C F Fx. destruct x as [mt fs|ds|id|fs]; cbn [hop_op fst snd api vstep view added_dests
    v_added v_buf v_dests v_gone v_glob v_next] in *.
  - unfold stamp_here, msg_position. rewrite C. cbn [fresh_uuid logger_write].
    match goal with |- context [send 0 ?s1 ?m] => set (s1' := s1); set (m' := m) end.
    destruct (any_added s) eqn:A.
    + rewrite (send_never 0 s1' m') by (subst s1'; cbn; first [assumption | reflexivity]).
      subst s1' m'. cbn. split; [reflexivity | exact C].
    + rewrite (send_buffering 0 s1' m') by (subst s1'; cbn; first [assumption | reflexivity]).
      subst s1' m'. cbn. split; [reflexivity | exact C].
  - destruct (any_added s) eqn:A.
    + cbn. split; [reflexivity | exact C].
    + rewrite resend_never by (cbn; auto). cbn. split; [reflexivity | exact C].
  - destruct (remove_dest id (dests s)) as [ds [d|]]; cbn; (split; [reflexivity | exact C]).
  - cbn. split; [reflexivity | exact C].
Qed.

(* ---- looking destinations up by id; counting ids ---------------------------- *)
Definition lookup (id : nat) (l : list dest) : option dest :=
  find (fun d => Nat.eqb (d_id d) id) l.

Definition trace_v (v : hv) (id : nat) : list msg :=
  match lookup id (v_dests v ++ v_gone v) with Some d => d_log d | None => [] end.

Definition cnt (id : nat) (l : list dest) : nat := count_occ Nat.eq_dec (map d_id l) id.

Lemma trace_of_view s id : trace_of s id = trace_v (view s) id.
Proof. reflexivity. Qed.

Lemma cnt_app id a b : cnt id (a ++ b) = cnt id a + cnt id b.
Proof. unfold cnt. now rewrite map_app, count_occ_app. Qed.

Lemma cnt_bump id l ds : cnt id (map (bump l) ds) = cnt id ds.
Proof. unfold cnt. now rewrite map_id_bump. Qed.

Lemma cnt_cons id d r : cnt id (d :: r) = (if Nat.eqb (d_id d) id then 1 else 0) + cnt id r.
Proof.
  unfold cnt. cbn [map count_occ]. destruct (Nat.eq_dec (d_id d) id) as [E|E].
  - rewrite (proj2 (Nat.eqb_eq _ _) E). reflexivity.
  - rewrite (proj2 (Nat.eqb_neq _ _) E). reflexivity.
Qed.

Lemma lookup_app id a b :
  lookup id (a ++ b) = match lookup id a with Some d => Some d | None => lookup id b end.
Proof.
  unfold lookup. induction a as [|d r IH]; cbn [app find]; [reflexivity|].
  destruct (Nat.eqb (d_id d) id); [reflexivity | exact IH].
Qed.

Lemma lookup_cnt0 id l : cnt id l = 0 -> lookup id l = None.
Proof.
  induction l as [|d r IH]; [reflexivity|]. rewrite cnt_cons. unfold lookup. cbn [find].
  destruct (Nat.eqb (d_id d) id); [discriminate | exact IH].
Qed.

Lemma lookup_some id l d : lookup id l = Some d -> d_id d = id /\ 1 <= cnt id l.
Proof.
  induction l as [|x r IH]; [discriminate|]. rewrite cnt_cons. unfold lookup. cbn [find].
  destruct (Nat.eqb (d_id x) id) eqn:E.
  - intros H. inversion H. subst. apply Nat.eqb_eq in E. split; [exact E | lia].
  - intros H. destruct (IH H). split; [assumption | lia].
Qed.

Lemma lookup_bump id l ds :
  lookup id (map (bump l) ds) = match lookup id ds with Some d => Some (bump l d) | None => None end.
Proof.
  unfold lookup. induction ds as [|d r IH]; [reflexivity|]. cbn [map find bump d_id].
  destruct (Nat.eqb (d_id d) id); [reflexivity | exact IH].
Qed.

Lemma adds_id_lookup id ds :
  if adds_id id ds then exists d, lookup id ds = Some d else cnt id ds = 0.
Proof.
  unfold adds_id, lookup. induction ds as [|d r IH]; [reflexivity|].
  cbn [existsb find]. rewrite cnt_cons. destruct (Nat.eqb (d_id d) id); cbn [orb].
  - eauto.
  - exact IH.
Qed.

Lemma remove_dest_spec id ds :
  match remove_dest id ds with
  | (ds', None) => ds' = ds /\ cnt id ds = 0
  | (ds', Some d) =>
      d_id d = id /\ lookup id ds = Some d /\
      (forall i, cnt i ds = cnt i ds' + (if Nat.eqb id i then 1 else 0)) /\
      (forall i, i <> id -> lookup i ds' = lookup i ds)
  end.
Proof.
  induction ds as [|d r IH]; cbn [remove_dest]; [split; reflexivity|].
  destruct (Nat.eqb (d_id d) id) eqn:E.
  - apply Nat.eqb_eq in E. repeat split.
    + exact E.
    + unfold lookup. cbn [find]. now rewrite (proj2 (Nat.eqb_eq _ _) E).
    + intros i. rewrite cnt_cons, E. lia.
    + intros i Hi. unfold lookup. cbn [find]. subst id.
      now rewrite (proj2 (Nat.eqb_neq _ _) (not_eq_sym Hi)).
  - destruct (remove_dest id r) as [r' [x|]].
    + destruct IH as (I1 & I2 & I3 & I4). repeat split.
      * exact I1.
      * unfold lookup. cbn [find]. rewrite E. exact I2.
      * intros i. rewrite !cnt_cons, I3. lia.
      * intros i Hi. unfold lookup. cbn [find]. destruct (Nat.eqb (d_id d) i); [reflexivity|].
        apply I4, Hi.
    + destruct IH as (I1 & I2). subst r'. split; [reflexivity|]. rewrite cnt_cons, E. exact I2.
Qed.

Lemma remove_dest_forall (P : dest -> Prop) id ds :
  Forall P ds -> Forall P (fst (remove_dest id ds)).
Proof.
  induction 1 as [|d r Hd Hr IH]; cbn [remove_dest]; [constructor|].
  destruct (Nat.eqb (d_id d) id); [exact Hr|].
  destruct (remove_dest id r) as [r' x]. cbn [fst] in *. now constructor.
Qed.

(* ---- the model run, in closed form ---------------------------------------------- *)
Lemma hist_dests_cons x h : hist_dests (x :: h) = added_dests x ++ hist_dests h.
Proof. destruct x; reflexivity. Qed.

Lemma vstep_never v x :
  Forall never_fails (v_dests v) -> Forall never_fails (added_dests x) ->
  Forall never_fails (v_dests (vstep v x)).
Proof.
  intros F Fx. destruct x as [mt fs|ds|id|fs]; cbn [vstep added_dests] in *.
  - destruct (v_added v); cbn; [now apply never_fails_bump | exact F].
  - destruct (v_added v); cbn; [apply Forall_app; now split | now apply never_fails_bump].
  - pose proof (remove_dest_forall never_fails id _ F) as R.
    destruct (remove_dest id (v_dests v)) as [ds [d|]]; cbn in *; assumption.
  - exact F.
Qed.

Lemma run_view cfg h : forall s,
  cur s 0 = None -> Forall never_fails (dests s) -> Forall never_fails (hist_dests h) ->
  view (run cfg (map hop_op h) s) = vrun h (view s).
Proof.
  unfold run, vrun. induction h as [|x r IH]; intros s C F Fh; [reflexivity|].
  rewrite hist_dests_cons in Fh. apply Forall_app in Fh as [Fx Fr].
  cbn [map fold_left]. destruct (api_view cfg s x C F Fx) as [V C'].
  rewrite IH; [now rewrite V | exact C' | | exact Fr].
  change (dests ?s) with (v_dests (view s)). rewrite V. now apply vstep_never.
Qed.

Ltac vsimpl := cbn [v_added v_buf v_dests v_gone v_glob v_next].

(* ---- what a destination is offered over a stretch of history ------------------ *)
Lemma trace_v_unreg v id : cnt id (v_dests v) = 0 -> cnt id (v_gone v) = 0 -> trace_v v id = [].
Proof.
  intros D G. unfold trace_v. rewrite lookup_app, (lookup_cnt0 _ _ D), (lookup_cnt0 _ _ G). reflexivity.
Qed.

(* a destination that is not registered and never will be: nothing further *)
Lemma stretch_gone id h : forall v,
  v_added v = true -> cnt id (v_dests v) = 0 -> cnt id (hist_dests h) = 0 ->
  trace_v (vrun h v) id = trace_v v id.
Proof.
  unfold vrun. induction h as [|x r IH]; intros v A D H; [reflexivity|].
  rewrite hist_dests_cons, cnt_app in H. cbn [fold_left].
  assert (T : trace_v (vstep v x) id = trace_v v id /\ v_added (vstep v x) = true /\
              cnt id (v_dests (vstep v x)) = 0).
  { unfold trace_v. destruct x as [mt fs|ds|i|fs]; cbn [vstep added_dests] in *; rewrite ?A; vsimpl.
    - rewrite cnt_bump. repeat split; auto.
      rewrite !lookup_app, lookup_bump, (lookup_cnt0 _ _ D). reflexivity.
    - rewrite cnt_app. repeat split; auto; [|lia].
      rewrite !lookup_app, (lookup_cnt0 _ _ D). rewrite (lookup_cnt0 id ds) by lia. reflexivity.
    - pose proof (remove_dest_spec i (v_dests v)) as R.
      destruct (remove_dest i (v_dests v)) as [ds [d|]]; vsimpl; [|auto].
      destruct R as (R1 & R2 & R3 & R4).
      destruct (Nat.eq_dec id i) as [->|Ne].
      { apply lookup_some in R2. lia. }
      repeat split; auto.
      + rewrite !lookup_app, (R4 id Ne), (lookup_cnt0 _ _ D).
        destruct (lookup id (v_gone v)); [reflexivity|].
        unfold lookup. cbn [find]. rewrite R1.
        now rewrite (proj2 (Nat.eqb_neq _ _) (not_eq_sym Ne)).
      + specialize (R3 id). lia.
    - auto. }
  destruct T as (T1 & T2 & T3). rewrite IH by (auto; lia). exact T1.
Qed.

(* a registered destination: everything logged until its removal, each message with
   the global fields in force when it was logged *)
Lemma stretch_registered id h : forall v d,
  v_added v = true -> lookup id (v_dests v) = Some d -> cnt id (v_dests v) <= 1 ->
  cnt id (v_gone v) = 0 -> cnt id (hist_dests h) = 0 ->
  trace_v (vrun h v) id = d_log d ++ stamped (v_glob v) (v_next v) (until_removed id h).
Proof.
  induction h as [|x r IH]; intros v d A L D G H.
  - unfold vrun, trace_v. cbn [fold_left until_removed stamped]. rewrite lookup_app, L. now rewrite app_nil_r.
  - rewrite hist_dests_cons, cnt_app in H. unfold vrun. cbn [fold_left]. fold (vrun r (vstep v x)).
    destruct x as [mt fs|ds|i|fs]; cbn [vstep added_dests until_removed stamped] in *; rewrite ?A.
    + rewrite (IH _ (bump [fupdate (logged_msg (v_next v) mt fs) (v_glob v)] d)); vsimpl;
        rewrite ?cnt_bump; auto; [|now rewrite lookup_bump, L].
      unfold bump. cbn [d_log]. now rewrite <- app_assoc.
    + rewrite (IH _ d); vsimpl; rewrite ?cnt_app; auto; [now rewrite lookup_app, L | lia | lia].
    + pose proof (remove_dest_spec i (v_dests v)) as R.
      destruct (remove_dest i (v_dests v)) as [ds [d0|]].
      * destruct R as (R1 & R2 & R3 & R4). destruct (Nat.eqb i id) eqn:E.
        -- apply Nat.eqb_eq in E. rewrite E in *. clear E i. rewrite L in R2. inversion R2; subst d0.
           cbn [stamped]. rewrite app_nil_r.
           pose proof (R3 id) as R3'. rewrite Nat.eqb_refl in R3'.
           rewrite stretch_gone; vsimpl; auto; try lia.
           unfold trace_v. vsimpl. rewrite !lookup_app, (lookup_cnt0 id ds) by lia.
           rewrite (lookup_cnt0 _ _ G). unfold lookup. cbn [find]. now rewrite R1, Nat.eqb_refl.
        -- apply Nat.eqb_neq in E. cbn [stamped].
           pose proof (R3 id) as R3'. rewrite (proj2 (Nat.eqb_neq _ _) E) in R3'.
           rewrite (IH _ d); vsimpl; auto; try lia.
           ++ rewrite R4; auto.
           ++ rewrite cnt_app, cnt_cons, R1, (proj2 (Nat.eqb_neq _ _) E). cbn [cnt map count_occ]. lia.
      * destruct R as (_ & R2). destruct (Nat.eqb i id) eqn:E.
        -- apply Nat.eqb_eq in E. rewrite E in *. apply lookup_some in L. lia.
        -- cbn [stamped]. apply IH; auto; lia.
    + rewrite (IH _ d); vsimpl; auto; lia.
Qed.

Lemma split_reg_cons id x r :
  split_reg id (x :: r) =
  if match x with HAdd ds => adds_id id ds | _ => false end then Some ([], r)
  else match split_reg id r with Some (p, q) => Some (x :: p, q) | None => None end.
Proof. reflexivity. Qed.

(* a destination not yet registered, after the first add: only what is logged after
   its own registration *)
Lemma stretch_later id h : forall v,
  v_added v = true -> cnt id (v_dests v) = 0 -> cnt id (v_gone v) = 0 ->
  cnt id (hist_dests h) <= 1 -> Forall (fun d => d_log d = []) (hist_dests h) ->
  trace_v (vrun h v) id =
  match split_reg id h with
  | None => []
  | Some (pre, post) =>
      stamped (globals_after (v_glob v) pre) (v_next v + count_logs pre) (until_removed id post)
  end.
Proof.
  induction h as [|x r IH]; intros v A D G H E.
  - unfold vrun. cbn [fold_left split_reg]. now apply trace_v_unreg.
  - rewrite hist_dests_cons in H, E. rewrite cnt_app in H. apply Forall_app in E as [Ex Er].
    unfold vrun. cbn [fold_left]. fold (vrun r (vstep v x)). rewrite split_reg_cons.
    destruct x as [mt fs|ds|i|fs]; cbn [vstep added_dests] in *; rewrite ?A.
    + rewrite IH; vsimpl; rewrite ?cnt_bump; auto.
      destruct (split_reg id r) as [[p q]|]; [|reflexivity].
      cbn [globals_after count_logs]. now rewrite Nat.add_succ_r.
    + pose proof (adds_id_lookup id ds) as AL. destruct (adds_id id ds).
      * destruct AL as (d & Ld). pose proof (lookup_some _ _ _ Ld) as (_ & C1).
        rewrite (stretch_registered id r _ d); vsimpl; rewrite ?cnt_app; auto; try lia.
        -- assert (In d ds) as Hin by (apply find_some in Ld; tauto).
           cbn [globals_after count_logs].
           rewrite (proj1 (Forall_forall _ _) Ex d Hin). now rewrite Nat.add_0_r.
        -- now rewrite lookup_app, (lookup_cnt0 _ _ D).
      * rewrite IH; vsimpl; rewrite ?cnt_app; auto; try lia.
        destruct (split_reg id r) as [[p q]|]; reflexivity.
    + pose proof (remove_dest_spec i (v_dests v)) as R.
      destruct (remove_dest i (v_dests v)) as [ds [d0|]].
      * destruct R as (R1 & R2 & R3 & R4).
        assert (i <> id) as Ne by (intros ->; apply lookup_some in R2; lia).
        pose proof (R3 id) as R3'. rewrite (proj2 (Nat.eqb_neq _ _) Ne) in R3'.
        rewrite IH; vsimpl; auto; try lia.
        -- destruct (split_reg id r) as [[p q]|]; reflexivity.
        -- rewrite cnt_app, cnt_cons, R1, (proj2 (Nat.eqb_neq _ _) Ne). cbn [cnt map count_occ]. lia.
      * rewrite IH; auto. destruct (split_reg id r) as [[p q]|]; reflexivity.
    + rewrite IH; vsimpl; auto. destruct (split_reg id r) as [[p q]|]; reflexivity.
Qed.

(* from the start-up state: the buffer is handed to the destinations of the first add *)
Lemma stretch_startup id h : forall v,
  v_added v = false -> v_dests v = [] -> cnt id (v_gone v) = 0 ->
  cnt id (hist_dests h) <= 1 -> Forall (fun d => d_log d = []) (hist_dests h) ->
  trace_v (vrun h v) id =
  match split_reg id h with
  | None => []
  | Some (pre, post) =>
      (if has_add pre then []
       else map (fun m => fupdate m (globals_after (v_glob v) pre))
                (fold_left buffer_add (stamped (v_glob v) (v_next v) pre) (v_buf v)))
      ++ stamped (globals_after (v_glob v) pre) (v_next v + count_logs pre) (until_removed id post)
  end.
Proof.
  induction h as [|x r IH]; intros v A D G H E.
  - unfold vrun. cbn [fold_left split_reg]. apply trace_v_unreg; [now rewrite D | exact G].
  - rewrite hist_dests_cons in H, E. rewrite cnt_app in H. apply Forall_app in E as [Ex Er].
    unfold vrun. cbn [fold_left]. fold (vrun r (vstep v x)). rewrite split_reg_cons.
    destruct x as [mt fs|ds|i|fs]; cbn [vstep added_dests] in *; rewrite ?A.
    + rewrite IH; vsimpl; auto.
      destruct (split_reg id r) as [[p q]|]; [|reflexivity].
      cbn [globals_after count_logs has_add existsb orb stamped fold_left]. fold (has_add p).
      now rewrite Nat.add_succ_r.
    + pose proof (adds_id_lookup id ds) as AL. destruct (adds_id id ds).
      * destruct AL as (d & Ld). pose proof (lookup_some _ _ _ Ld) as (_ & C1).
        set (B := map (fun m => fupdate m (v_glob v)) (v_buf v)).
        rewrite (stretch_registered id r _ (bump B d)); vsimpl; rewrite ?cnt_bump; auto; try lia.
        -- assert (In d ds) as Hin by (apply find_some in Ld; tauto).
           unfold bump. cbn [d_log has_add existsb globals_after stamped fold_left count_logs].
           rewrite (proj1 (Forall_forall _ _) Ex d Hin). now rewrite Nat.add_0_r.
        -- now rewrite lookup_bump, Ld.
      * rewrite stretch_later; vsimpl; rewrite ?cnt_bump; auto; try lia.
        destruct (split_reg id r) as [[p q]|]; reflexivity.
    + rewrite D. cbn [remove_dest]. rewrite IH; auto.
      destruct (split_reg id r) as [[p q]|]; reflexivity.
    + rewrite IH; vsimpl; auto. destruct (split_reg id r) as [[p q]|]; reflexivity.
Qed.

Lemma stamped_length g n h : length (stamped g n h) = count_logs h.
Proof.
  revert g n. induction h as [|x r IH]; intros g n; [reflexivity|].
  destruct x; cbn [stamped count_logs length]; now rewrite ?IH.
Qed.

(* C12 (histories): for every history of log / add_destinations /
   remove_destination / add_global_fields calls whose destination objects are
   distinct, fresh and never raise -- any length, any number of buffered
   messages, several destinations per add, removals of unknown destinations
   included -- every destination has been offered exactly [spec_received]:
   list equality, so "exactly once", "in order", "buffered ones first", "only
   the first add's destinations", "nothing after removal" are all part of it. *)
Theorem C12_history cfg h id :
  wf_history h ->
  trace_of (run cfg (map hop_op h) init_state) id = spec_received id h.
Proof.
  intros [ND F]. rewrite trace_of_view, run_view.
  - change (view init_state) with (mkHV false [] [] [] [] 0).
    rewrite stretch_startup; cbn [v_added v_dests v_gone v_glob v_next v_buf]; auto.
    + unfold spec_received. destruct (split_reg id h) as [[p q]|]; [|reflexivity].
      cbn [Nat.add]. destruct (has_add p); [reflexivity|].
      destruct (C12_buffer_cap [] (stamped [] 0 p)) as (E & _); [apply Nat.le_0_l|].
      now rewrite E.
    + unfold cnt. apply (proj1 (NoDup_count_occ Nat.eq_dec _) ND).
    + eapply Forall_impl; [|exact F]. cbn beta. tauto.
  - reflexivity.
  - constructor.
  - eapply Forall_impl; [|exact F]. cbn beta. tauto.
Qed.

(* ---- non-vacuity: a concrete history ------------------------------------------ *)
Definition ex_d (i : nat) : dest := mk_dest i BNever (mkExn 1 C_Exception 7%positive false).
Definition ex_h : list hop :=
  [HLog (VTypeName 10%positive) [(20%positive, VInt 1)];
   HGlobals [(30%positive, VInt 7)];
   HRemove 5;
   HLog (VTypeName 11%positive) [(30%positive, VInt 0)];
   HGlobals [(31%positive, VInt 8)];
   HAdd [ex_d 0; ex_d 1];
   HLog (VTypeName 12%positive) [];
   HGlobals [(30%positive, VInt 9)];
   HAdd [ex_d 2];
   HLog (VTypeName 13%positive) [];
   HRemove 0;
   HLog (VTypeName 14%positive) []].

Lemma ex_h_wf : wf_history ex_h.
Proof.
  split.
  - cbn. repeat constructor; cbn; intuition discriminate.
  - cbn. repeat constructor; intros n m; reflexivity.
Qed.

(* destinations 0 and 1 get the two buffered messages first (both carrying the
   fields in force at the add: f30 = 7 overrides the message's own f30 = 0), then
   the later ones; 0 nothing after its removal; 2 only what was logged after its
   own registration; 3 was never registered *)
Example C12_history_ex :
  map (fun i => map (fun m => (fget 5%positive m, fget 30%positive m, fget 31%positive m))
                    (trace_of (run ex_cfg (map hop_op ex_h) init_state) i)) [0; 1; 2; 3] =
  let t := fun n => Some (VTypeName n) in
  [ [(t 10%positive, Some (VInt 7), Some (VInt 8)); (t 11%positive, Some (VInt 7), Some (VInt 8));
     (t 12%positive, Some (VInt 7), Some (VInt 8)); (t 13%positive, Some (VInt 9), Some (VInt 8))];
    [(t 10%positive, Some (VInt 7), Some (VInt 8)); (t 11%positive, Some (VInt 7), Some (VInt 8));
     (t 12%positive, Some (VInt 7), Some (VInt 8)); (t 13%positive, Some (VInt 9), Some (VInt 8));
     (t 14%positive, Some (VInt 9), Some (VInt 8))];
    [(t 13%positive, Some (VInt 9), Some (VInt 8)); (t 14%positive, Some (VInt 9), Some (VInt 8))];
    [] ].
Proof.
  cbn [map]. rewrite !(C12_history ex_cfg ex_h _ ex_h_wf). vm_compute. reflexivity.
Qed.

(* ===================================================================== *)
(* global fields: valid for ALL destination behaviours (failure reports included) *)

(* message.update(g), read as dicts *)
Lemma fget_fupdate_dict k g : forall m,
  fget k (fupdate m g) = match fget k (mkfields g) with Some v => Some v | None => fget k m end.
Proof.
  unfold mkfields, fupdate. induction g as [|[k' v'] r IH]; intros m; cbn [fold_left fst snd]; [reflexivity|].
  rewrite (IH (fset k' v' m)), (IH (fset k' v' [])).
  match goal with |- context [fget k (fold_left ?f r [])] => destruct (fget k (fold_left f r [])) end;
    [reflexivity|].
  destruct (Pos.eq_dec k' k) as [->|Ne].
  - now rewrite !fget_fset_same.
  - now rewrite !(fget_fset_other _ _ _ _ Ne).
Qed.

Lemma carries_fupdate g m : carries g (fupdate m g).
Proof. intros k v H. now rewrite fget_fupdate_dict, H. Qed.

Lemma carries_reports g about errs rs :
  Forall2 (is_report_of g about) errs rs -> Forall (carries g) rs.
Proof.
  induction 1 as [|e r errs rs (u & l & ->) _ IH]; constructor; [apply carries_fupdate | exact IH].
Qed.

Lemma oi_carries g b l : Forall (carries g) l -> Forall (carries g) (oi b l).
Proof. destruct b; cbn [oi]; [tauto | constructor]. Qed.

Lemma send_emits_carry c s m :
  exists l, emits l s (send c s m) /\ Forall (carries (globals s)) l.
Proof.
  destruct (send_emits_full c s m) as (rs & H & P). eexists. split; [exact H|].
  constructor; [apply carries_fupdate | eapply carries_reports; exact P].
Qed.

Lemma resend_emits_carry c ms : forall s,
  exists l, emits l s (resend c s ms) /\ Forall (carries (globals s)) l.
Proof.
  induction ms as [|m r IH]; intros s; cbn [resend].
  - exists []. split; [apply emits_refl | constructor].
  - destruct (send_emits_carry c s m) as (l1 & H1 & C1).
    destruct (IH (send c s m)) as (l2 & H2 & C2).
    rewrite (emits_globals _ _ _ H1) in C2.
    exists (l1 ++ l2). split; [eapply emits_trans; eassumption | apply Forall_app; now split].
Qed.

Lemma map_log_nil (ds : list dest) : map (fun d => d_log d ++ []) ds = map d_log ds.
Proof. apply map_ext. intros; apply app_nil_r. Qed.

(* during one call, every registered destination is offered the same list l of
   messages on top of what it had, and every message of l carries all global
   fields in force at that call, with their current values *)
Lemma hop_global_fields cfg s x :
  let s' := api cfg (fst (hop_op x)) s (snd (hop_op x)) in
  exists l, Forall (carries (globals s)) l /\
    map d_id (dests s') = map d_id (dests_after s x) /\
    map d_log (dests s') = map (fun d => d_log d ++ l) (dests_after s x) /\
    globals s' = match x with HGlobals fs => fupdate (globals s) fs | _ => globals s end.
Proof.
  destruct x as [mt fs|ds|id|fs]; cbn [hop_op fst snd api dests_after].
  - pose proof (stamp_here_emits s 0 mt (mkfields fs)) as (H1 & _).
    destruct (stamp_here s 0 mt (mkfields fs)) as [s2 m]. cbn [fst snd logger_write] in *.
    destruct (send_emits_carry 0 s2 m) as (l & H2 & C2).
    rewrite (emits_globals _ _ _ H1) in C2.
    pose proof (emits_trans _ _ _ _ _ H1 H2) as H. cbn [app] in H.
    destruct H as [[a b c d e f] G].
    exists (oi (any_added s) l). split; [now apply oi_carries|].
    split; [exact c|]. split; [|exact G]. now rewrite e, map_map.
  - destruct (any_added s) eqn:A.
    + exists []. split; [constructor|]. cbn. now rewrite map_log_nil.
    + destruct (resend_emits_carry 0 (buffer s) (set_out s true [] ds (gone s))) as (l & H & C).
      exists l. split; [exact C|]. destruct H as [[a b c d e f] G]. cbn in *.
      split; [exact c|]. split; [|exact G]. now rewrite e, map_map.
  - exists []. split; [constructor|]. rewrite map_log_nil.
    pose proof (remove_dest_spec id (dests s)) as R.
    destruct (remove_dest id (dests s)) as [ds [d|]]; cbn [fst]; [cbn; auto|].
    destruct R as [-> _]. auto.
  - exists []. split; [constructor|]. cbn. now rewrite map_log_nil.
Qed.

Lemma run_globals cfg h : forall s,
  globals (run cfg (map hop_op h) s) = globals_after (globals s) h.
Proof.
  unfold run. induction h as [|x r IH]; intros s; [reflexivity|]. cbn [map fold_left].
  rewrite IH. destruct (hop_global_fields cfg s x) as (l & _ & _ & _ & G). rewrite G.
  destruct x; reflexivity.
Qed.

(* C12 (global fields): after ANY history h (any destination behaviours), the next
   call x offers every registered destination the same list l of messages --
   logged message, re-sent buffered messages, failure reports -- and every one of
   them carries every global field set by the history so far, with its latest value. *)
Theorem C12_global_fields cfg h x :
  let s := run cfg (map hop_op h) init_state in
  let s' := run cfg (map hop_op (h ++ [x])) init_state in
  exists l, Forall (carries (globals_after [] h)) l /\
    map d_id (dests s') = map d_id (dests_after s x) /\
    map d_log (dests s') = map (fun d => d_log d ++ l) (dests_after s x).
Proof.
  cbv zeta.
  assert (E : run cfg (map hop_op (h ++ [x])) init_state =
              api cfg (fst (hop_op x)) (run cfg (map hop_op h) init_state) (snd (hop_op x))).
  { unfold run. now rewrite map_app, fold_left_app. }
  rewrite E.
  destruct (hop_global_fields cfg (run cfg (map hop_op h) init_state) x) as (l & C & I & L & _).
  rewrite run_globals in C. exists l. auto.
Qed.

(* ===================================================================== *)
(* the hand-over under the lock: all schedules                             *)

(* where an activation of _send stands *)
Inductive aphase := P0 | PCallOld | PCallNew | PMadeOld | PMadeNew | PBad.

Definition aph (sd : sendst) : aphase :=
  match sd_it sd, sd_pc sd with
  | None, SFor => P0
  | Some (LOld, 1), SCall EBuf => PCallOld
  | Some (LNew, 1), SCall EDest => PCallNew
  | Some (LOld, 1), (SFor | SDone) => PMadeOld
  | Some (LNew, 1), (SFor | SDone) => PMadeNew
  | _, _ => PBad
  end.

Definition a_ok (ta : apc) (sd : sendst) : bool :=
  match ta, aph sd, sd_pc sd with
  | (ARead | AAcq), P0, _ => true
  | ARun _, (P0 | PCallOld | PCallNew), _ => true
  | ARun _, (PMadeOld | PMadeNew), SFor => true
  | (ARel | ADone), (PMadeOld | PMadeNew), _ => true
  | _, _, _ => false
  end.

Definition b_ok (tb : bpc) : bool :=
  match tb with
  | BSend _ sd => match aph sd, sd_pc sd with
                  | (P0 | PCallNew), _ => true
                  | PMadeNew, SFor => true
                  | _, _ => false
                  end
  | _ => true
  end.

Definition a_holds (ta : apc) : bool := match ta with ARun true | ARel => true | _ => false end.
Definition b_holds (tb : bpc) : bool := match tb with BAcq | BDone => false | _ => true end.
Definition b_before (tb : bpc) : bool := match tb with BAcq => true | _ => false end.
Definition b_after (tb : bpc) : bool := match tb with BRel | BDone => true | _ => false end.

Definition rel_ok (ta : apc) (sd : sendst) (tb : bpc) : bool :=
  negb (a_holds ta && b_holds tb) &&
  match aph sd with
  | PCallOld => b_before tb
  | PMadeOld => if a_holds ta then b_before tb else true
  | PCallNew | PMadeNew => b_after tb
  | _ => true
  end &&
  match ta with ARun false => b_after tb | _ => true end.

Definition lock_exp (ta : apc) (tb : bpc) : option nat :=
  if a_holds ta then Some 0 else if b_holds tb then Some 1 else None.

Definition stage_exp (tb : bpc) : lst * list elem * bool :=
  match tb with
  | BAcq | BRead | BGrab | BRebind => (LOld, [], false)
  | BExtend => (LNew, [], false)
  | BTest | BFor _ | BSend _ _ | BSet => (LNew, [EDest], false)
  | BRel | BDone => (LNew, [EDest], true)
  end.

(* number of buffered messages re-sent so far; n = current length of the buffer list *)
Definition jb (tb : bpc) (n : nat) : nat :=
  match tb with
  | BFor i => i
  | BSend i sd => match aph sd with PMadeNew => i | _ => pred i end
  | BSet | BRel | BDone => n
  | _ => 0
  end.

Section Race.
Variables (pre : list nat) (m : nat).

Definition own_buf (sd : sendst) : list nat := match aph sd with PMadeOld => [m] | _ => [] end.
Definition own_dlv (sd : sendst) : list nat := match aph sd with PMadeNew => [m] | _ => [] end.

Record Inv (st : rstate) : Prop := mkInv {
  i_a : a_ok (ta st) (sa st) = true;
  i_b : b_ok (tb st) = true;
  i_rel : rel_ok (ta st) (sa st) (tb st) = true;
  i_msg : sd_msg (sa st) = m;
  i_lock : lock (sh st) = lock_exp (ta st) (tb st);
  i_stage : (dl (sh st), newl (sh st), anyadd (sh st)) = stage_exp (tb st);
  i_buf : buf (sh st) = pre ++ own_buf (sa st);
  i_dlog : dlog (sh st) =
           firstn (jb (tb st) (length (buf (sh st)))) (buf (sh st)) ++ own_dlv (sa st);
  i_idx : match tb st with
          | BFor i => i <= length (buf (sh st))
          | BSend i sd => 1 <= i /\ nth_error (buf (sh st)) (pred i) = Some (sd_msg sd)
          | _ => True
          end
}.

Lemma inv_init : Inv (rinit pre m).
Proof. constructor; cbn; try reflexivity; auto. now rewrite app_nil_r. Qed.

Lemma firstn_succ_nth {A} (l : list A) i x :
  nth_error l i = Some x -> firstn (S i) l = firstn i l ++ [x].
Proof.
  revert i. induction l as [|y r IH]; intros [|i] H; try discriminate; cbn in *.
  - now inversion H.
  - now rewrite (IH i H).
Qed.

Lemma nth_error_lt {A} (l : list A) i x : nth_error l i = Some x -> i < length l.
Proof. intros H. apply nth_error_Some. congruence. Qed.

Lemma a_step_inv st : Inv st -> Inv (a_step st).
Proof.
  intros [Ia Ib Ir Im Il Is Ibuf Id Ii].
  destruct st as [[dl newl aa buf dlog lock] ta [am ait apc] tb].
  cbn [Handover.sh Handover.ta Handover.sa Handover.tb Handover.dl Handover.newl Handover.anyadd
       Handover.buf Handover.dlog Handover.lock sd_msg] in *.
  subst am.
  unfold a_step.
  cbn [Handover.sh Handover.ta Handover.sa Handover.tb].
  destruct ta as [| |lk| |];
    destruct ait as [[[|] [|[|k]]]|]; destruct apc as [|[|]|]; cbn in Ia; try discriminate Ia;
    destruct tb as [| | | | | |i|i bsd| | |]; cbn in Ir; try discriminate Ir;
    cbn in Is; inversion Is; subst; clear Is;
    try (destruct lk; cbn in Ir; try discriminate Ir);
    cbn [send_step sd_pc sd_it sd_msg items Handover.dl Handover.newl nth_error fst snd lock_free
         Handover.lock Nat.eqb set_lock lock_exp a_holds b_holds Handover.anyadd Handover.buf Handover.dlog];
    (constructor; cbn; auto).
  all: now rewrite ?app_nil_r.
Qed.

Lemma b_step_inv st : Inv st -> Inv (b_step st).
Proof.
  intros [Ia Ib Ir Im Il Is Ibuf Id Ii].
  destruct st as [[dl newl aa buf dlog lock] ta [am ait apc] tb].
  cbn [Handover.sh Handover.ta Handover.sa Handover.tb Handover.dl Handover.newl Handover.anyadd
       Handover.buf Handover.dlog Handover.lock sd_msg] in *.
  subst am.
  unfold b_step.
  cbn [Handover.sh Handover.ta Handover.sa Handover.tb].
  revert Ibuf Id Ii.
  destruct tb as [| | | | | |i|i [bm [[[|] [|[|k]]]|] [|[|]|]]| | |]; cbn in Ib; try discriminate Ib;
    destruct ta as [| |lk| |];
    destruct ait as [[[|] [|[|k']]]|]; destruct apc as [|[|]|]; cbn in Ia; try discriminate Ia;
    try (destruct lk); cbn in Ir; try discriminate Ir;
    cbn in Is; inversion Is; subst; clear Is;
    cbn [send_step sd_pc sd_it sd_msg items Handover.dl Handover.newl nth_error fst snd lock_free
         Handover.lock Nat.eqb set_lock Handover.anyadd Handover.buf Handover.dlog lock_exp a_holds b_holds];
    intros Ibuf Id Ii;
    try (lazymatch goal with
         | |- context [BFor 0] => destruct buf as [|b0 buf0] eqn:Eb; [|rewrite <- Eb in *]
         | |- context [nth_error buf i] => destruct (nth_error buf i) as [x|] eqn:En
         end);
    (constructor; cbn; auto; try lia).
  all: cbn in Id; rewrite ?app_nil_r in *.
  all: first
    [ split; [lia | assumption]
    | destruct Ii as [I1 I2]; apply nth_error_lt in I2; lia
    | destruct Ii as [I1 I2]; destruct i as [|i]; [lia|]; cbn [pred] in *;
      rewrite (firstn_succ_nth _ _ _ I2); now subst dlog
    | apply nth_error_None in En; replace (length buf) with i by lia; assumption
    | idtac ].
Qed.

Lemma rstep_inv st t : Inv st -> Inv (rstep st t).
Proof.
  intros H. destruct t as [|[|t]]; cbn [rstep]; [now apply a_step_inv | now apply b_step_inv | exact H].
Qed.

Lemma rrun_inv sched : forall st, Inv st -> Inv (rrun sched st).
Proof.
  unfold rrun. induction sched as [|t r IH]; intros st H; [exact H|]. cbn [fold_left].
  apply IH, rstep_inv, H.
Qed.

Lemma reach_inv sched : Inv (rrun sched (rinit pre m)).
Proof. apply rrun_inv, inv_init. Qed.

(* whenever both calls have returned, the destination has received exactly the
   buffered messages, in order, followed by the concurrently logged one *)
Lemma inv_finished st : Inv st -> finished st = true -> delivered st = pre ++ [m].
Proof.
  intros [Ia Ib Ir Im Il Is Ibuf Id Ii] F.
  destruct st as [[dl newl aa buf dlog lock] ta [am ait apc] tb].
  unfold finished, a_done, b_done, delivered in *.
  cbn [Handover.sh Handover.ta Handover.sa Handover.tb Handover.dl Handover.newl Handover.anyadd
       Handover.buf Handover.dlog Handover.lock sd_msg] in *.
  destruct ta; try discriminate F. destruct tb; try discriminate F.
  cbn [jb] in Id. rewrite firstn_all in Id. subst dlog buf.
  destruct ait as [[[|] [|[|k]]]|]; destruct apc as [|[|]|]; cbn in Ia; try discriminate Ia;
    cbn; now rewrite ?app_nil_r, <- ?app_assoc.
Qed.

(* at every moment what the destination has received is an initial segment of
   buffered messages ++ [concurrent message] *)
Lemma inv_prefix st : Inv st -> exists k, delivered st = firstn k (pre ++ [m]).
Proof.
  intros [Ia Ib Ir Im Il Is Ibuf Id Ii].
  destruct st as [[dl newl aa buf dlog lock] ta [am ait apc] tb]. unfold delivered.
  cbn [Handover.sh Handover.ta Handover.sa Handover.tb Handover.dl Handover.newl Handover.anyadd
       Handover.buf Handover.dlog Handover.lock sd_msg] in *.
  set (j := jb tb (length buf)) in *.
  assert (P : forall j, exists k, firstn j pre = firstn k (pre ++ [m])).
  { intros j0. exists (Nat.min j0 (length pre)). rewrite firstn_app.
    replace (Nat.min j0 (length pre) - length pre) with 0 by lia. cbn [firstn]. rewrite app_nil_r.
    destruct (Nat.le_ge_cases j0 (length pre)).
    - now rewrite Nat.min_l.
    - rewrite Nat.min_r by assumption. now rewrite firstn_all, firstn_all2. }
  unfold own_buf, own_dlv in *. destruct (aph {| sd_msg := am; sd_it := ait; sd_pc := apc |}) eqn:E;
    rewrite ?app_nil_r in *; subst buf dlog; try apply P; subst am.
  - exists j. reflexivity.
  - (* delivered directly: the hand-over is complete *)
    unfold rel_ok in Ir. rewrite E in Ir. apply andb_true_iff in Ir as [Ir _].
    apply andb_true_iff in Ir as [_ Ir].
    assert (j = length pre) as -> by (subst j; destruct tb; try discriminate Ir; reflexivity).
    exists (length (pre ++ [m])). now rewrite firstn_all, firstn_all.
Qed.

(* no deadlock: as long as a call has not returned, some thread can take a step *)
Lemma inv_progress st : Inv st -> finished st = false -> label st 0 <> 0 \/ label st 1 <> 0.
Proof.
  intros [Ia Ib Ir Im Il Is Ibuf Id Ii] F.
  destruct st as [[dl newl aa buf dlog lock] ta [am ait apc] tb].
  unfold finished, a_done, b_done in F.
  cbn [Handover.sh Handover.ta Handover.sa Handover.tb Handover.dl Handover.newl Handover.anyadd
       Handover.buf Handover.dlog Handover.lock sd_msg label] in *.
  destruct tb as [| | | | | |i|i [bm [[[|] [|[|k]]]|] [|[|]|]]| | |]; cbn in Ib; try discriminate Ib;
    destruct ta as [| |lk| |];
    destruct ait as [[[|] [|[|k']]]|]; destruct apc as [|[|]|]; cbn in Ia; try discriminate Ia;
    try (destruct lk); cbn in Ir; try discriminate Ir; try discriminate F;
    cbn in Il; subst lock; cbn;
    first [left; discriminate | right; discriminate].
Qed.
End Race.

(* C12 (hand-over, the code as it is now): for ALL schedules of the logging thread
   and the thread performing the first add, for any buffered messages pre and any
   concurrently logged message m: *)

Lemma NoDup_app_l {A} (a b : list A) : NoDup (a ++ b) -> NoDup a.
Proof.
  induction a as [|x r IH]; cbn; intros H; [constructor|]. inversion H; subst.
  constructor; [intros Hin; apply H2, in_or_app; now left | now apply IH].
Qed.

(* nothing is delivered twice -- at any moment of any schedule *)
Theorem C12_handover_no_dup pre m sched :
  NoDup (pre ++ [m]) -> NoDup (delivered (rrun sched (rinit pre m))).
Proof.
  intros ND. destruct (inv_prefix pre m _ (reach_inv pre m sched)) as (k & ->).
  rewrite <- (firstn_skipn k (pre ++ [m])) in ND. exact (NoDup_app_l _ _ ND).
Qed.

(* once both calls have returned nothing is lost: every buffered message and the
   concurrent message have been delivered *)
Theorem C12_handover_no_loss pre m sched :
  finished (rrun sched (rinit pre m)) = true ->
  forall x, In x (pre ++ [m]) -> In x (delivered (rrun sched (rinit pre m))).
Proof.
  intros F x Hx. now rewrite (inv_finished pre m _ (reach_inv pre m sched) F).
Qed.

(* order: the buffered messages first, in order, then the concurrent one -- also
   when its sender saw _any_added = True and did not take the lock; before the end
   the destination holds an initial segment of that sequence *)
Theorem C12_handover_order pre m sched :
  (exists k, delivered (rrun sched (rinit pre m)) = firstn k (pre ++ [m])) /\
  (finished (rrun sched (rinit pre m)) = true ->
   delivered (rrun sched (rinit pre m)) = pre ++ [m]).
Proof.
  split; [apply inv_prefix, reach_inv | apply inv_finished, reach_inv].
Qed.

(* the lock introduces no deadlock: in every reachable state with an unfinished
   call some thread is enabled (so the theorems above are not vacuous: every fair
   schedule finishes) *)
Theorem C12_handover_no_deadlock pre m sched :
  let st := rrun sched (rinit pre m) in
  finished st = false -> label st 0 <> 0 \/ label st 1 <> 0.
Proof. cbv zeta. apply (inv_progress pre m), reach_inv. Qed.

(* non-vacuity: three finishing schedules -- logging thread first; logging thread
   blocked on the lock in the middle of the hand-over; logging thread reading the
   flag after the hand-over (no lock taken) *)
Example C12_handover_ex :
  let run := fun sched => let st := rrun sched (rinit [1; 2] 3) in (finished st, delivered st, buf (sh st)) in
  run (repeat 0 6 ++ repeat 1 40) = (true, [1; 2; 3], [1; 2; 3]) /\
  run (repeat 1 8 ++ repeat 0 3 ++ repeat 1 40 ++ repeat 0 6) = (true, [1; 2; 3], [1; 2]) /\
  run (repeat 1 40 ++ repeat 0 6) = (true, [1; 2; 3], [1; 2]) /\
  map snd (labels (repeat 1 40 ++ repeat 0 4) (rinit [1; 2] 3)) =
    [10; 3; 5; 6; 7; 8; 9; 1; 2; 1; 9; 1; 2; 1; 9; 4; 11] ++ repeat 0 23 ++ [3; 1; 2; 1].
Proof. vm_compute. repeat split. Qed.

(* ---- the code before the repair ------------------------------------------------ *)
(* C12 was FALSE of the unsynchronised hand-over (finding F5, repaired in /repo):
   with one buffered message 1 and the concurrent message 2,
   (a) the logging thread obtains its iterator over the old list [buffer], the
       adding thread runs completely, the logging thread then appends to the
       orphaned buffer: message 2 is lost;
   (b) the adding thread has rebound self._destinations = [] but not yet extended
       it, the logging thread iterates over the empty list: message 2 is lost and
       not even buffered;
   (c) the adding thread has extended the list but not yet re-sent the buffer, the
       logging thread delivers directly: message 2 overtakes buffered message 1. *)
Theorem C12_handover_legacy_refuted :
  (exists sched, let st := Legacy.rrun sched (Legacy.rinit [1] 2) in
     Legacy.finished st = true /\ ~ In 2 (Legacy.delivered st) /\ buf (Legacy.sh st) = [1; 2]) /\
  (exists sched, let st := Legacy.rrun sched (Legacy.rinit [1] 2) in
     Legacy.finished st = true /\ ~ In 2 (Legacy.delivered st) /\ buf (Legacy.sh st) = [1]) /\
  (exists sched, let st := Legacy.rrun sched (Legacy.rinit [1] 2) in
     Legacy.finished st = true /\ Legacy.delivered st = [2; 1]).
Proof.
  split; [|split].
  - exists ([0] ++ repeat 1 11 ++ [0; 0]). vm_compute. repeat split. intros [H|[]]. discriminate.
  - exists (repeat 1 4 ++ [0] ++ repeat 1 7). vm_compute. repeat split. intros [H|[]]. discriminate.
  - exists (repeat 1 5 ++ [0; 0; 0] ++ repeat 1 6). vm_compute. repeat split.
Qed.

(* non-vacuity of the global-fields theorem: with a healthy, a broken and a flaky
   destination, the first add after two buffered messages offers each destination
   the two messages and the failure reports, all carrying the field set before *)
Example C12_global_fields_ex :
  let h := [HGlobals [(30%positive, VInt 7)]; HLog (VTypeName 10%positive) [];
            HLog (VTypeName 11%positive) [(30%positive, VInt 0)]] in
  map (fun d => map (fget 30%positive) (d_log d))
      (dests (run ex_cfg (map hop_op (h ++ [HAdd ex_ds3])) init_state)) =
  let l := repeat (Some (VInt 7)) 5 in [l; l; l].
Proof. vm_compute. reflexivity. Qed.
