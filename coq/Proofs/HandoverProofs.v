(* C12: start-up buffering, (un)registration, the hand-over race.
   Theorems about Model/Handover.v (spec of histories against Model/Core.v; the
   two-thread interleaving model of send || first add). *)
From Coq Require Import List PArith NArith ZArith Bool Arith Lia.
Require Import Eliot.Base.Level Eliot.Model.Core Eliot.Model.Prog Eliot.Model.Handover.
Require Import Eliot.Proofs.CoreBasics Eliot.Proofs.OutputProofs.
Import ListNotations.

(* ===================================================================== *)
(* the bounded buffer: all statements for an arbitrary bound n, instantiated
   with [buffer_cap] at the end (the literal is never unfolded)            *)

Section Cap.
Context {A : Type}.
Variable n : nat.

Definition cap_add (b : list A) (m : A) : list A :=
  let b' := b ++ [m] in skipn (length b' - n) b'.

Lemma lastn_length (l : list A) : length (lastn n l) = Nat.min (length l) n.
Proof. unfold lastn. rewrite skipn_length. lia. Qed.

Lemma lastn_short (l : list A) : length l <= n -> lastn n l = l.
Proof. intros H. unfold lastn. replace (length l - n) with 0 by lia. reflexivity. Qed.

Lemma skipn_app_le (k : nat) (x y : list A) : k <= length x -> skipn k (x ++ y) = skipn k x ++ y.
Proof. intros H. rewrite skipn_app. replace (k - length x) with 0 by lia. reflexivity. Qed.

Lemma skipn_add (a b : nat) : forall l : list A, skipn (a + b) l = skipn b (skipn a l).
Proof.
  induction a as [|a IH]; intros l; [reflexivity|].
  destruct l as [|x r]; cbn [Nat.add skipn]; [now rewrite skipn_nil | apply IH].
Qed.

(* keeping the last n of (the last n of x) followed by y = keeping the last n of x ++ y *)
Lemma lastn_lastn_app (x y : list A) : lastn n (lastn n x ++ y) = lastn n (x ++ y).
Proof.
  unfold lastn. set (k := length x - n).
  rewrite !app_length, skipn_length. fold k.
  replace (length x + length y - n) with (k + (length x - k + length y - n)) by lia.
  rewrite skipn_add. rewrite (skipn_app_le k x y) by lia. reflexivity.
Qed.

Lemma cap_add_lastn (b : list A) (m : A) : cap_add b m = lastn n (b ++ [m]).
Proof. reflexivity. Qed.

Lemma fold_cap_add (l : list A) : forall b,
  fold_left cap_add l (lastn n b) = lastn n (b ++ l).
Proof.
  induction l as [|m r IH]; intros b; cbn [fold_left].
  - now rewrite app_nil_r.
  - rewrite cap_add_lastn, lastn_lastn_app, IH, <- app_assoc. reflexivity.
Qed.

Lemma lastn_suffix (l : list A) : exists p, l = p ++ lastn n l.
Proof. exists (firstn (length l - n) l). unfold lastn. now rewrite firstn_skipn. Qed.
End Cap.

Lemma buffer_add_cap b m : buffer_add b m = cap_add buffer_cap b m.
Proof. reflexivity. Qed.

Lemma fold_buffer_add l : forall b,
  fold_left buffer_add l b = fold_left (cap_add buffer_cap) l b.
Proof. induction l as [|m r IH]; intros b; cbn [fold_left]; [reflexivity | apply IH]. Qed.

(* C12 (retention): BufferingDestination keeps exactly the most recent
   [buffer_cap] messages, in order, for any number of messages: starting from a
   buffer b within the bound and calling it with the messages l one after the
   other leaves the last [buffer_cap] elements of b ++ l. *)
Theorem C12_buffer_cap (b l : list msg) :
  length b <= buffer_cap ->
  fold_left buffer_add l b = lastn buffer_cap (b ++ l) /\
  length (fold_left buffer_add l b) = Nat.min (length b + length l) buffer_cap /\
  exists dropped, b ++ l = dropped ++ fold_left buffer_add l b.
Proof.
  intros H. assert (E : fold_left buffer_add l b = lastn buffer_cap (b ++ l)).
  { rewrite fold_buffer_add. rewrite <- (lastn_short buffer_cap b H) at 1. apply fold_cap_add. }
  rewrite E. split; [reflexivity|]. split.
  - rewrite lastn_length, app_length. reflexivity.
  - apply lastn_suffix.
Qed.

(* non-vacuity on small numbers is the same statement for the bound 2 *)
Example cap_add_ex : fold_left (cap_add 2) [3; 4; 5] [1; 2] = [4; 5].
Proof. reflexivity. Qed.

Example C12_buffer_cap_ex :
  let m := fun k => logged_msg k (VAtom 20%positive) [] in
  length (fold_left buffer_add [m 1; m 2; m 3] [m 0]) = 4 /\
  fold_left buffer_add [m 1; m 2; m 3] [m 0] = [m 0; m 1; m 2; m 3].
Proof.
  intros m. destruct (C12_buffer_cap [m 0] [m 1; m 2; m 3]) as (E & L & _).
  - unfold buffer_cap. cbn [length]. lia.
  - split.
    + rewrite L. cbn [length]. unfold buffer_cap. lia.
    + rewrite E. apply lastn_short. unfold buffer_cap. cbn [length app]. lia.
Qed.

(* ===================================================================== *)
(* histories: Core.v on never-failing destinations, in closed form        *)

Definition bump (l : list msg) (d : dest) : dest :=
  mkDest (d_id d) (d_behave d) (d_calls d + length l) (d_log d ++ l).

Lemma bump_nil d : bump [] d = d.
Proof. destruct d. unfold bump. cbn. now rewrite Nat.add_0_r, app_nil_r. Qed.

Lemma bump_bump l1 l2 d : bump l2 (bump l1 d) = bump (l1 ++ l2) d.
Proof. unfold bump. cbn. now rewrite app_length, Nat.add_assoc, app_assoc. Qed.

Lemma map_bump_nil ds : map (bump []) ds = ds.
Proof. rewrite <- (map_id ds) at 2. apply map_ext. apply bump_nil. Qed.

Lemma never_fails_bump l ds : Forall never_fails ds -> Forall never_fails (map (bump l) ds).
Proof. intros H. apply Forall_map. eapply Forall_impl; [|exact H]. intros d Hd. exact Hd. Qed.

Lemma map_id_bump l ds : map d_id (map (bump l) ds) = map d_id ds.
Proof. rewrite map_map. reflexivity. Qed.

Lemma fanout_never m ds : Forall never_fails ds -> fanout m ds = (map (bump [m]) ds, []).
Proof.
  induction 1 as [|d r Hd _ IH]; cbn [fanout map]; [reflexivity|].
  rewrite IH, (Hd (d_calls d) m). unfold bump. cbn [length]. now rewrite Nat.add_1_r.
Qed.

Lemma send_never c s m :
  any_added s = true -> Forall never_fails (dests s) ->
  send c s m = set_out s true (buffer s) (map (bump [fupdate m (globals s)]) (dests s)) (gone s).
Proof.
  intros A F. unfold send, deliver. rewrite A, (fanout_never _ _ F).
  destruct (is_report m); reflexivity.
Qed.

Lemma send_buffering c s m :
  any_added s = false ->
  send c s m = set_out s false (buffer_add (buffer s) (fupdate m (globals s))) (dests s) (gone s).
Proof. intros A. unfold send, deliver. rewrite A. destruct (is_report m); reflexivity. Qed.

Lemma resend_never c ms : forall s,
  any_added s = true -> Forall never_fails (dests s) ->
  resend c s ms =
  set_out s true (buffer s) (map (bump (map (fun m => fupdate m (globals s)) ms)) (dests s)) (gone s).
Proof.
  induction ms as [|m r IH]; intros s A F; cbn [resend map].
  - rewrite map_bump_nil. destruct s; cbn in *. now subst.
  - rewrite (send_never c s m A F). rewrite IH; cbn; [|reflexivity | now apply never_fails_bump].
    unfold set_out. cbn. f_equal. rewrite map_map. apply map_ext. intros d. apply bump_bump.
Qed.

(* the part of the state histories touch *)
Record hv := mkHV {
  v_added : bool; v_buf : list msg; v_dests : list dest; v_gone : list dest;
  v_glob : fields; v_next : nat }.

Definition view (s : state) : hv :=
  mkHV (any_added s) (buffer s) (dests s) (gone s) (globals s) (next_uuid s).

Definition vstep (v : hv) (x : hop) : hv :=
  match x with
  | HLog mt fs =>
      let m := fupdate (logged_msg (v_next v) mt fs) (v_glob v) in
      if v_added v
      then mkHV true (v_buf v) (map (bump [m]) (v_dests v)) (v_gone v) (v_glob v) (S (v_next v))
      else mkHV false (buffer_add (v_buf v) m) (v_dests v) (v_gone v) (v_glob v) (S (v_next v))
  | HAdd ds =>
      if v_added v
      then mkHV true (v_buf v) (v_dests v ++ ds) (v_gone v) (v_glob v) (v_next v)
      else mkHV true [] (map (bump (map (fun m => fupdate m (v_glob v)) (v_buf v))) ds)
                (v_gone v) (v_glob v) (v_next v)
  | HRemove id =>
      match remove_dest id (v_dests v) with
      | (ds, Some d) => mkHV (v_added v) (v_buf v) ds (v_gone v ++ [d]) (v_glob v) (v_next v)
      | (_, None) => v
      end
  | HGlobals fs => mkHV (v_added v) (v_buf v) (v_dests v) (v_gone v) (fupdate (v_glob v) fs) (v_next v)
  end.

Definition vrun (h : list hop) (v : hv) : hv := fold_left vstep h v.

Definition added_dests (x : hop) : list dest := match x with HAdd ds => ds | _ => [] end.

Lemma api_view cfg s x :
  cur s 0 = None -> Forall never_fails (dests s) -> Forall never_fails (added_dests x) ->
  view (api cfg (fst (hop_op x)) s (snd (hop_op x))) = vstep (view s) x /\
  cur (api cfg (fst (hop_op x)) s (snd (hop_op x))) 0 = None.
Proof.
  intros C F Fx. destruct x as [mt fs|ds|id|fs]; cbn [hop_op fst snd api vstep view added_dests
    v_added v_buf v_dests v_gone v_glob v_next] in *.
  - unfold stamp_here, msg_position. rewrite C. cbn [fresh_uuid logger_write].
    match goal with |- context [send 0 ?s1 ?m] => set (s1' := s1); set (m' := m) end.
    destruct (any_added s) eqn:A.
    + rewrite (send_never 0 s1' m') by (subst s1'; cbn; first [assumption | reflexivity]).
      subst s1' m'. cbn. split; [reflexivity | exact C].
    + rewrite (send_buffering 0 s1' m') by (subst s1'; cbn; first [assumption | reflexivity]).
      subst s1' m'. cbn. split; [reflexivity | exact C].
  - destruct (any_added s) eqn:A.
    + cbn. split; [reflexivity | exact C].
    + rewrite resend_never by (cbn; auto). cbn. split; [reflexivity | exact C].
  - destruct (remove_dest id (dests s)) as [ds [d|]]; cbn; (split; [reflexivity | exact C]).
  - cbn. split; [reflexivity | exact C].
Qed.

(* ---- looking destinations up by id; counting ids ---------------------------- *)
Definition lookup (id : nat) (l : list dest) : option dest :=
  find (fun d => Nat.eqb (d_id d) id) l.

Definition trace_v (v : hv) (id : nat) : list msg :=
  match lookup id (v_dests v ++ v_gone v) with Some d => d_log d | None => [] end.

Definition cnt (id : nat) (l : list dest) : nat := count_occ Nat.eq_dec (map d_id l) id.

Lemma trace_of_view s id : trace_of s id = trace_v (view s) id.
Proof. reflexivity. Qed.

Lemma cnt_app id a b : cnt id (a ++ b) = cnt id a + cnt id b.
Proof. unfold cnt. now rewrite map_app, count_occ_app. Qed.

Lemma cnt_bump id l ds : cnt id (map (bump l) ds) = cnt id ds.
Proof. unfold cnt. now rewrite map_id_bump. Qed.

Lemma cnt_cons id d r : cnt id (d :: r) = (if Nat.eqb (d_id d) id then 1 else 0) + cnt id r.
Proof.
  unfold cnt. cbn [map count_occ]. destruct (Nat.eq_dec (d_id d) id) as [E|E].
  - rewrite (proj2 (Nat.eqb_eq _ _) E). reflexivity.
  - rewrite (proj2 (Nat.eqb_neq _ _) E). reflexivity.
Qed.

Lemma lookup_app id a b :
  lookup id (a ++ b) = match lookup id a with Some d => Some d | None => lookup id b end.
Proof.
  unfold lookup. induction a as [|d r IH]; cbn [app find]; [reflexivity|].
  destruct (Nat.eqb (d_id d) id); [reflexivity | exact IH].
Qed.

Lemma lookup_cnt0 id l : cnt id l = 0 -> lookup id l = None.
Proof.
  induction l as [|d r IH]; [reflexivity|]. rewrite cnt_cons. unfold lookup. cbn [find].
  destruct (Nat.eqb (d_id d) id); [discriminate | exact IH].
Qed.

Lemma lookup_some id l d : lookup id l = Some d -> d_id d = id /\ 1 <= cnt id l.
Proof.
  induction l as [|x r IH]; [discriminate|]. rewrite cnt_cons. unfold lookup. cbn [find].
  destruct (Nat.eqb (d_id x) id) eqn:E.
  - intros H. inversion H. subst. apply Nat.eqb_eq in E. split; [exact E | lia].
  - intros H. destruct (IH H). split; [assumption | lia].
Qed.

Lemma lookup_bump id l ds :
  lookup id (map (bump l) ds) = match lookup id ds with Some d => Some (bump l d) | None => None end.
Proof.
  unfold lookup. induction ds as [|d r IH]; [reflexivity|]. cbn [map find bump d_id].
  destruct (Nat.eqb (d_id d) id); [reflexivity | exact IH].
Qed.

Lemma adds_id_lookup id ds :
  if adds_id id ds then exists d, lookup id ds = Some d else cnt id ds = 0.
Proof.
  unfold adds_id, lookup. induction ds as [|d r IH]; [reflexivity|].
  cbn [existsb find]. rewrite cnt_cons. destruct (Nat.eqb (d_id d) id); cbn [orb].
  - eauto.
  - exact IH.
Qed.

Lemma remove_dest_spec id ds :
  match remove_dest id ds with
  | (ds', None) => ds' = ds /\ cnt id ds = 0
  | (ds', Some d) =>
      d_id d = id /\ lookup id ds = Some d /\
      (forall i, cnt i ds = cnt i ds' + (if Nat.eqb id i then 1 else 0)) /\
      (forall i, i <> id -> lookup i ds' = lookup i ds)
  end.
Proof.
  induction ds as [|d r IH]; cbn [remove_dest]; [split; reflexivity|].
  destruct (Nat.eqb (d_id d) id) eqn:E.
  - apply Nat.eqb_eq in E. repeat split.
    + exact E.
    + unfold lookup. cbn [find]. now rewrite (proj2 (Nat.eqb_eq _ _) E).
    + intros i. rewrite cnt_cons, E. lia.
    + intros i Hi. unfold lookup. cbn [find]. subst id.
      now rewrite (proj2 (Nat.eqb_neq _ _) (not_eq_sym Hi)).
  - destruct (remove_dest id r) as [r' [x|]].
    + destruct IH as (I1 & I2 & I3 & I4). repeat split.
      * exact I1.
      * unfold lookup. cbn [find]. rewrite E. exact I2.
      * intros i. rewrite !cnt_cons, I3. lia.
      * intros i Hi. unfold lookup. cbn [find]. destruct (Nat.eqb (d_id d) i); [reflexivity|].
        apply I4, Hi.
    + destruct IH as (I1 & I2). subst r'. split; [reflexivity|]. rewrite cnt_cons, E. exact I2.
Qed.

Lemma remove_dest_forall (P : dest -> Prop) id ds :
  Forall P ds -> Forall P (fst (remove_dest id ds)).
Proof.
  induction 1 as [|d r Hd Hr IH]; cbn [remove_dest]; [constructor|].
  destruct (Nat.eqb (d_id d) id); [exact Hr|].
  destruct (remove_dest id r) as [r' x]. cbn [fst] in *. now constructor.
Qed.

(* ---- the model run, in closed form ---------------------------------------------- *)
Lemma hist_dests_cons x h : hist_dests (x :: h) = added_dests x ++ hist_dests h.
Proof. destruct x; reflexivity. Qed.

Lemma vstep_never v x :
  Forall never_fails (v_dests v) -> Forall never_fails (added_dests x) ->
  Forall never_fails (v_dests (vstep v x)).
Proof.
  intros F Fx. destruct x as [mt fs|ds|id|fs]; cbn [vstep added_dests] in *.
  - destruct (v_added v); cbn; [now apply never_fails_bump | exact F].
  - destruct (v_added v); cbn; [apply Forall_app; now split | now apply never_fails_bump].
  - pose proof (remove_dest_forall never_fails id _ F) as R.
    destruct (remove_dest id (v_dests v)) as [ds [d|]]; cbn in *; assumption.
  - exact F.
Qed.

Lemma run_view cfg h : forall s,
  cur s 0 = None -> Forall never_fails (dests s) -> Forall never_fails (hist_dests h) ->
  view (run cfg (map hop_op h) s) = vrun h (view s).
Proof.
  unfold run, vrun. induction h as [|x r IH]; intros s C F Fh; [reflexivity|].
  rewrite hist_dests_cons in Fh. apply Forall_app in Fh as [Fx Fr].
  cbn [map fold_left]. destruct (api_view cfg s x C F Fx) as [V C'].
  rewrite IH; [now rewrite V | exact C' | | exact Fr].
  change (dests ?s) with (v_dests (view s)). rewrite V. now apply vstep_never.
Qed.
