(* C12: start-up buffering, (un)registration, the hand-over race.
   Theorems about Model/Handover.v (spec of histories against Model/Core.v; the
   two-thread interleaving model of send || first add). *)
From Coq Require Import List PArith NArith ZArith Bool Arith Lia.
Require Import Eliot.Base.Level Eliot.Model.Core Eliot.Model.Prog Eliot.Model.Handover.
Require Import Eliot.Proofs.CoreBasics Eliot.Proofs.OutputProofs.
Import ListNotations.

(* ===================================================================== *)
(* the bounded buffer: all statements for an arbitrary bound n, instantiated
   with [buffer_cap] at the end (the literal is never unfolded)            *)

Section Cap.
Context {A : Type}.
Variable n : nat.

Definition cap_add (b : list A) (m : A) : list A :=
  let b' := b ++ [m] in skipn (length b' - n) b'.

Lemma lastn_length (l : list A) : length (lastn n l) = Nat.min (length l) n.
Proof. unfold lastn. rewrite skipn_length. lia. Qed.

Lemma lastn_short (l : list A) : length l <= n -> lastn n l = l.
Proof. intros H. unfold lastn. replace (length l - n) with 0 by lia. reflexivity. Qed.

Lemma skipn_app_le (k : nat) (x y : list A) : k <= length x -> skipn k (x ++ y) = skipn k x ++ y.
Proof. intros H. rewrite skipn_app. replace (k - length x) with 0 by lia. reflexivity. Qed.

Lemma skipn_add (a b : nat) : forall l : list A, skipn (a + b) l = skipn b (skipn a l).
Proof.
  induction a as [|a IH]; intros l; [reflexivity|].
  destruct l as [|x r]; cbn [Nat.add skipn]; [now rewrite skipn_nil | apply IH].
Qed.

(* keeping the last n of (the last n of x) followed by y = keeping the last n of x ++ y *)
Lemma lastn_lastn_app (x y : list A) : lastn n (lastn n x ++ y) = lastn n (x ++ y).
Proof.
  unfold lastn. set (k := length x - n).
  rewrite !app_length, skipn_length. fold k.
  replace (length x + length y - n) with (k + (length x - k + length y - n)) by lia.
  rewrite skipn_add. rewrite (skipn_app_le k x y) by lia. reflexivity.
Qed.

Lemma cap_add_lastn (b : list A) (m : A) : cap_add b m = lastn n (b ++ [m]).
Proof. reflexivity. Qed.

Lemma fold_cap_add (l : list A) : forall b,
  fold_left cap_add l (lastn n b) = lastn n (b ++ l).
Proof.
  induction l as [|m r IH]; intros b; cbn [fold_left].
  - now rewrite app_nil_r.
  - rewrite cap_add_lastn, lastn_lastn_app, IH, <- app_assoc. reflexivity.
Qed.

Lemma lastn_suffix (l : list A) : exists p, l = p ++ lastn n l.
Proof. exists (firstn (length l - n) l). unfold lastn. now rewrite firstn_skipn. Qed.
End Cap.

Lemma buffer_add_cap b m : buffer_add b m = cap_add buffer_cap b m.
Proof. reflexivity. Qed.

Lemma fold_buffer_add l : forall b,
  fold_left buffer_add l b = fold_left (cap_add buffer_cap) l b.
Proof. induction l as [|m r IH]; intros b; cbn [fold_left]; [reflexivity | apply IH]. Qed.

(* C12 (retention): BufferingDestination keeps exactly the most recent
   [buffer_cap] messages, in order, for any number of messages: starting from a
   buffer b within the bound and calling it with the messages l one after the
   other leaves the last [buffer_cap] elements of b ++ l. *)
Theorem C12_buffer_cap (b l : list msg) :
  length b <= buffer_cap ->
  fold_left buffer_add l b = lastn buffer_cap (b ++ l) /\
  length (fold_left buffer_add l b) = Nat.min (length b + length l) buffer_cap /\
  exists dropped, b ++ l = dropped ++ fold_left buffer_add l b.
Proof.
  intros H. assert (E : fold_left buffer_add l b = lastn buffer_cap (b ++ l)).
  { rewrite fold_buffer_add. rewrite <- (lastn_short buffer_cap b H) at 1. apply fold_cap_add. }
  rewrite E. split; [reflexivity|]. split.
  - rewrite lastn_length, app_length. reflexivity.
  - apply lastn_suffix.
Qed.

(* non-vacuity on small numbers is the same statement for the bound 2 *)
Example cap_add_ex : fold_left (cap_add 2) [3; 4; 5] [1; 2] = [4; 5].
Proof. reflexivity. Qed.

Example C12_buffer_cap_ex :
  let m := fun k => logged_msg k (VAtom 20%positive) [] in
  length (fold_left buffer_add [m 1; m 2; m 3] [m 0]) = 4 /\
  fold_left buffer_add [m 1; m 2; m 3] [m 0] = [m 0; m 1; m 2; m 3].
Proof.
  intros m. destruct (C12_buffer_cap [m 0] [m 1; m 2; m 3]) as (E & L & _).
  - unfold buffer_cap. cbn [length]. lia.
  - split.
    + rewrite L. cbn [length]. unfold buffer_cap. lia.
    + rewrite E. apply lastn_short. unfold buffer_cap. cbn [length app]. lia.
Qed.
