(* Order facts for the maps of Model/Parser.v: [level_ltb] is a strict total
   order, the association lists [linsert]/[uinsert] and the sets [set_add] stay
   strictly sorted, and a strictly sorted list is determined by its lookups. *)
From Coq Require Import List PArith Bool Arith Lia Sorted.
Require Import Eliot.Base.Level Eliot.Model.Parser Eliot.Proofs.ParserBasics.
Import ListNotations.

(* ---- the order on levels ------------------------------------------------ *)

Lemma level_eqb_sym a b : level_eqb a b = level_eqb b a.
Proof.
  destruct (level_eqb a b) eqn:E.
  - apply level_eqb_eq in E. subst. now rewrite level_eqb_refl.
  - destruct (level_eqb b a) eqn:E'; [|reflexivity].
    apply level_eqb_eq in E'. subst. now rewrite level_eqb_refl in E.
Qed.

Lemma level_eqb_neq a b : level_eqb a b = false <-> a <> b.
Proof.
  split.
  - intros E ->. now rewrite level_eqb_refl in E.
  - intros N. destruct (level_eqb a b) eqn:E; [|reflexivity]. now apply level_eqb_eq in E.
Qed.

Lemma level_ltb_irrefl a : level_ltb a a = false.
Proof. induction a as [|x a IH]; cbn; [reflexivity|]. now rewrite Pos.ltb_irrefl, Pos.eqb_refl. Qed.

Lemma level_ltb_trans a b c : level_ltb a b = true -> level_ltb b c = true -> level_ltb a c = true.
Proof.
  revert b c; induction a as [|x a IH]; intros [|y b] [|z c]; cbn; try discriminate; try reflexivity.
  destruct (Pos.ltb_spec x y) as [Hxy|Hxy].
  - intros _. destruct (Pos.ltb_spec y z) as [Hyz|Hyz].
    + intros _. destruct (Pos.ltb_spec x z); [reflexivity|lia].
    + destruct (Pos.eqb_spec y z) as [->|]; [|discriminate].
      intros _. destruct (Pos.ltb_spec x z); [reflexivity|lia].
  - destruct (Pos.eqb_spec x y) as [->|]; [|discriminate].
    intros H1. destruct (Pos.ltb_spec y z) as [Hyz|Hyz]; [reflexivity|].
    destruct (Pos.eqb_spec y z) as [->|]; [|discriminate]. apply IH. exact H1.
Qed.

Lemma level_ltb_total a b : level_eqb a b = false -> level_ltb a b = false -> level_ltb b a = true.
Proof.
  revert b; induction a as [|x a IH]; intros [|y b]; cbn; try discriminate; try reflexivity.
  destruct (Pos.ltb_spec x y) as [Hxy|Hxy]; [discriminate|].
  destruct (Pos.eqb_spec x y) as [->|N].
  - cbn. rewrite Pos.ltb_irrefl, Pos.eqb_refl. apply IH.
  - intros _ _. destruct (Pos.ltb_spec y x); [reflexivity|lia].
Qed.

Lemma level_ltb_neq a b : level_ltb a b = true -> level_eqb a b = false.
Proof.
  intros H. apply level_eqb_neq. intros ->. now rewrite level_ltb_irrefl in H.
Qed.

Lemma level_ltb_asym a b : level_ltb a b = true -> level_ltb b a = false.
Proof.
  intros H. destruct (level_ltb b a) eqn:E; [|reflexivity].
  pose proof (level_ltb_trans _ _ _ H E) as C. now rewrite level_ltb_irrefl in C.
Qed.

Lemma level_eqb_app l x y : level_eqb (l ++ x) (l ++ y) = level_eqb x y.
Proof. induction l as [|a l IH]; cbn; [reflexivity|]. now rewrite Pos.eqb_refl, IH. Qed.

Lemma level_ltb_app l x y : level_ltb (l ++ x) (l ++ y) = level_ltb x y.
Proof. induction l as [|a l IH]; cbn; [reflexivity|]. now rewrite Pos.ltb_irrefl, Pos.eqb_refl, IH. Qed.

Lemma level_eqb_snoc l a b : level_eqb (l ++ [a]) (l ++ [b]) = Pos.eqb a b.
Proof. rewrite level_eqb_app. cbn. now rewrite andb_true_r. Qed.

Lemma level_ltb_snoc l a b : level_ltb (l ++ [a]) (l ++ [b]) = Pos.ltb a b.
Proof. rewrite level_ltb_app. cbn. destruct (Pos.ltb a b); [reflexivity|]. now destruct (Pos.eqb a b). Qed.

(* ---- generic strictly sorted association lists ---------------------------- *)

Section Assoc.
  Variable K : Type.
  Variable eqb ltb : K -> K -> bool.
  Hypothesis eqb_eq : forall a b, eqb a b = true <-> a = b.
  Hypothesis ltb_irrefl : forall a, ltb a a = false.
  Hypothesis ltb_trans : forall a b c, ltb a b = true -> ltb b c = true -> ltb a c = true.
  Hypothesis ltb_total : forall a b, eqb a b = false -> ltb a b = false -> ltb b a = true.

  Fixpoint ginsert {A} (k : K) (v : A) (l : list (K * A)) : list (K * A) :=
    match l with
    | [] => [(k, v)]
    | (k', v') :: r =>
        if eqb k k' then (k, v) :: r
        else if ltb k k' then (k, v) :: l
        else (k', v') :: ginsert k v r
    end.

  Fixpoint glookup {A} (k : K) (l : list (K * A)) : option A :=
    match l with
    | [] => None
    | (k', v') :: r => if eqb k k' then Some v' else glookup k r
    end.

  Fixpoint gremove {A} (k : K) (l : list (K * A)) : list (K * A) :=
    match l with
    | [] => []
    | (k', v') :: r => if eqb k k' then r else (k', v') :: gremove k r
    end.

  Definition lt (a b : K) : Prop := ltb a b = true.
  Definition gsorted {A} (l : list (K * A)) : Prop := StronglySorted lt (map fst l).

  Lemma eqb_refl a : eqb a a = true.
  Proof. now apply eqb_eq. Qed.

  Lemma eqb_sym a b : eqb a b = eqb b a.
  Proof.
    destruct (eqb a b) eqn:E.
    - apply eqb_eq in E. subst. now rewrite eqb_refl.
    - destruct (eqb b a) eqn:E'; [|reflexivity]. apply eqb_eq in E'. subst. now rewrite eqb_refl in E.
  Qed.

  Lemma lt_neq a b : ltb a b = true -> eqb a b = false.
  Proof.
    intros H. destruct (eqb a b) eqn:E; [|reflexivity]. apply eqb_eq in E. subst.
    now rewrite ltb_irrefl in H.
  Qed.

  Lemma lt_asym a b : ltb a b = true -> ltb b a = false.
  Proof.
    intros H. destruct (ltb b a) eqn:E; [|reflexivity].
    pose proof (ltb_trans _ _ _ H E) as C. now rewrite ltb_irrefl in C.
  Qed.

  Lemma glookup_ginsert_same {A} k (v : A) l : glookup k (ginsert k v l) = Some v.
  Proof.
    induction l as [|[k' v'] r IH]; cbn [ginsert glookup].
    - now rewrite eqb_refl.
    - destruct (eqb k k') eqn:E; cbn [glookup].
      + now rewrite eqb_refl.
      + destruct (ltb k k'); cbn [glookup].
        * now rewrite eqb_refl.
        * now rewrite E.
  Qed.

  Lemma glookup_ginsert_other {A} k k2 (v : A) l :
    eqb k2 k = false -> glookup k2 (ginsert k v l) = glookup k2 l.
  Proof.
    intros N. induction l as [|[k' v'] r IH]; cbn [ginsert glookup].
    - now rewrite N.
    - destruct (eqb k k') eqn:E; cbn [glookup].
      + apply eqb_eq in E. subst k'. now rewrite N.
      + destruct (ltb k k'); cbn [glookup].
        * now rewrite N.
        * now rewrite IH.
  Qed.

  Lemma glookup_ginsert {A} k k2 (v : A) l :
    glookup k2 (ginsert k v l) = if eqb k2 k then Some v else glookup k2 l.
  Proof.
    destruct (eqb k2 k) eqn:E.
    - apply eqb_eq in E. subst. apply glookup_ginsert_same.
    - now apply glookup_ginsert_other.
  Qed.

  Lemma ginsert_keys_in {A} k (v : A) l x :
    In x (map fst (ginsert k v l)) -> x = k \/ In x (map fst l).
  Proof.
    induction l as [|[k' v'] r IH]; cbn [ginsert map fst In].
    - intros [<-|[]]. now left.
    - destruct (eqb k k') eqn:E; cbn [map fst In].
      + intros [<-|H]; [now left|]. right. now right.
      + destruct (ltb k k'); cbn [map fst In].
        * intros [<-|[<-|H]]; [now left| |]; right; [now left|now right].
        * intros [<-|H]; [right; now left|]. destruct (IH H) as [->|H']; [now left|]. right. now right.
  Qed.

  Lemma ginsert_sorted {A} k (v : A) l : gsorted l -> gsorted (ginsert k v l).
  Proof.
    unfold gsorted. induction l as [|[k' v'] r IH]; cbn [ginsert map fst]; intros S.
    - constructor; constructor.
    - inversion S as [|? ? S' F]; subst.
      destruct (eqb k k') eqn:E; cbn [map fst].
      + apply eqb_eq in E. subst k'. constructor; assumption.
      + destruct (ltb k k') eqn:L; cbn [map fst].
        * constructor; [exact S|]. constructor; [exact L|].
          eapply Forall_impl; [|exact F]. intros a Ha. eapply ltb_trans; [exact L|exact Ha].
        * constructor; [now apply IH|].
          apply Forall_forall. intros x Hx. apply ginsert_keys_in in Hx as [->|Hx].
          -- unfold lt. apply ltb_total; [exact E|exact L].
          -- rewrite Forall_forall in F. now apply F.
  Qed.

  Lemma glookup_below {A} k (l : list (K * A)) :
    Forall (lt k) (map fst l) -> glookup k l = None.
  Proof.
    induction l as [|[k' v'] r IH]; cbn [map fst glookup]; intros F; [reflexivity|].
    inversion F; subst. rewrite lt_neq by assumption. now apply IH.
  Qed.

  Lemma ginsert_below {A} k (v : A) l :
    Forall (lt k) (map fst l) -> ginsert k v l = (k, v) :: l.
  Proof.
    destruct l as [|[k' v'] r]; cbn [map fst ginsert]; intros F; [reflexivity|].
    inversion F as [|? ? H ?]; subst. unfold lt in H. rewrite (lt_neq _ _ H), H. reflexivity.
  Qed.

  Lemma gsorted_ext {A} (a b : list (K * A)) :
    gsorted a -> gsorted b -> (forall k, glookup k a = glookup k b) -> a = b.
  Proof.
    unfold gsorted. revert b. induction a as [|[ka va] ra IH]; intros [|[kb vb] rb] Sa Sb H.
    - reflexivity.
    - specialize (H kb). cbn in H. now rewrite eqb_refl in H.
    - specialize (H ka). cbn in H. now rewrite eqb_refl in H.
    - cbn [map fst] in Sa, Sb. inversion Sa as [|? ? Sa' Fa]; inversion Sb as [|? ? Sb' Fb]; subst.
      assert (E : ka = kb).
      { destruct (eqb ka kb) eqn:E; [now apply eqb_eq|].
        destruct (ltb ka kb) eqn:L.
        - pose proof (H ka) as Hk. cbn [glookup] in Hk. rewrite eqb_refl, E in Hk.
          rewrite glookup_below in Hk; [discriminate|].
          eapply Forall_impl; [|exact Fb]. intros x Hx. eapply ltb_trans; [exact L|exact Hx].
        - pose proof (ltb_total _ _ E L) as L'.
          pose proof (H kb) as Hk. cbn [glookup] in Hk. rewrite eqb_refl, (eqb_sym kb ka), E in Hk.
          rewrite glookup_below in Hk; [discriminate|].
          eapply Forall_impl; [|exact Fa]. intros x Hx. eapply ltb_trans; [exact L'|exact Hx]. }
      subst kb.
      assert (va = vb).
      { pose proof (H ka) as Hk. cbn [glookup] in Hk. rewrite eqb_refl in Hk. congruence. }
      subst vb. f_equal. apply IH; try assumption.
      intros k. pose proof (H k) as Hk. cbn [glookup] in Hk.
      destruct (eqb k ka) eqn:E; [|exact Hk].
      apply eqb_eq in E. subst k.
      rewrite (glookup_below ka ra) by exact Fa. now rewrite (glookup_below ka rb) by exact Fb.
  Qed.

  Lemma gremove_keys_in {A} k (l : list (K * A)) x :
    In x (map fst (gremove k l)) -> In x (map fst l).
  Proof.
    induction l as [|[k' v'] r IH]; cbn [gremove map fst In]; [tauto|].
    destruct (eqb k k'); cbn [map fst In]; [tauto|]. intros [<-|H]; [now left|right; now apply IH].
  Qed.

  Lemma gremove_sorted {A} k (l : list (K * A)) : gsorted l -> gsorted (gremove k l).
  Proof.
    unfold gsorted. induction l as [|[k' v'] r IH]; cbn [gremove map fst]; intros S; [constructor|].
    inversion S as [|? ? S' F]; subst. destruct (eqb k k'); cbn [map fst]; [exact S'|].
    constructor; [now apply IH|]. apply Forall_forall. intros x Hx. apply gremove_keys_in in Hx.
    rewrite Forall_forall in F. now apply F.
  Qed.

  Lemma glookup_gremove_same {A} k (l : list (K * A)) : gsorted l -> glookup k (gremove k l) = None.
  Proof.
    unfold gsorted. induction l as [|[k' v'] r IH]; cbn [gremove map fst glookup]; intros S; [reflexivity|].
    inversion S as [|? ? S' F]; subst. destruct (eqb k k') eqn:E; cbn [glookup].
    - apply eqb_eq in E. subst k'. now apply glookup_below.
    - rewrite E. now apply IH.
  Qed.

  Lemma glookup_gremove_other {A} k k2 (l : list (K * A)) :
    eqb k2 k = false -> glookup k2 (gremove k l) = glookup k2 l.
  Proof.
    intros N. induction l as [|[k' v'] r IH]; cbn [gremove glookup]; [reflexivity|].
    destruct (eqb k k') eqn:E; cbn [glookup].
    - apply eqb_eq in E. subst k'. now rewrite N.
    - now rewrite IH.
  Qed.
End Assoc.

(* ---- instances ------------------------------------------------------------- *)

Ltac side :=
  first [ exact level_eqb_eq | exact level_ltb_irrefl | exact level_ltb_trans | exact level_ltb_total
        | exact Nat.eqb_eq | exact Nat.ltb_irrefl | assumption ].

Lemma linsert_g {A} k (v : A) l : linsert k v l = ginsert level level_eqb level_ltb k v l.
Proof. induction l as [|[k' v'] r IH]; cbn; [reflexivity|]. now rewrite IH. Qed.

Lemma llookup_g {A} k (l : list (level * A)) : llookup k l = glookup level level_eqb k l.
Proof. induction l as [|[k' v'] r IH]; cbn; [reflexivity|]. now rewrite IH. Qed.

Definition lsorted {A} (l : list (level * A)) : Prop := gsorted level level_ltb l.

Lemma llookup_linsert {A} k k2 (v : A) l :
  llookup k2 (linsert k v l) = if level_eqb k2 k then Some v else llookup k2 l.
Proof. rewrite linsert_g, !llookup_g. apply glookup_ginsert; side. Qed.

Lemma linsert_sorted {A} k (v : A) l : lsorted l -> lsorted (linsert k v l).
Proof. rewrite linsert_g. apply ginsert_sorted; side. Qed.

Lemma lsorted_ext {A} (a b : list (level * A)) :
  lsorted a -> lsorted b -> (forall k, llookup k a = llookup k b) -> a = b.
Proof.
  intros Sa Sb H. eapply gsorted_ext with (eqb := level_eqb) (ltb := level_ltb); try side.
  all: intros k; rewrite <- !llookup_g; apply H.
Qed.

Lemma linsert_below {A} k (v : A) l :
  Forall (fun x => level_ltb k x = true) (map fst l) -> linsert k v l = (k, v) :: l.
Proof. rewrite linsert_g. apply ginsert_below; side. Qed.

Lemma lsorted_nil {A} : lsorted (@nil (level * A)).
Proof. constructor. Qed.

(* nat keys *)
Lemma nat_ltb_total a b : Nat.eqb a b = false -> Nat.ltb a b = false -> Nat.ltb b a = true.
Proof. intros E L. apply Nat.eqb_neq in E. apply Nat.ltb_ge in L. apply Nat.ltb_lt. lia. Qed.
Lemma nat_ltb_trans a b c : Nat.ltb a b = true -> Nat.ltb b c = true -> Nat.ltb a c = true.
Proof. rewrite !Nat.ltb_lt. lia. Qed.

Ltac nside := first [ exact nat_ltb_total | exact nat_ltb_trans | side ].

Lemma uinsert_g {A} k (v : A) l : uinsert k v l = ginsert nat Nat.eqb Nat.ltb k v l.
Proof. induction l as [|[k' v'] r IH]; cbn - [Nat.ltb]; [reflexivity|]. now rewrite IH. Qed.
Lemma ulookup_g {A} k (l : list (nat * A)) : ulookup k l = glookup nat Nat.eqb k l.
Proof. induction l as [|[k' v'] r IH]; cbn; [reflexivity|]. now rewrite IH. Qed.
Lemma uremove_g {A} k (l : list (nat * A)) : uremove k l = gremove nat Nat.eqb k l.
Proof. induction l as [|[k' v'] r IH]; cbn; [reflexivity|]. now rewrite IH. Qed.

Definition usorted {A} (l : list (nat * A)) : Prop := gsorted nat Nat.ltb l.

Lemma ulookup_uinsert {A} k k2 (v : A) l :
  ulookup k2 (uinsert k v l) = if Nat.eqb k2 k then Some v else ulookup k2 l.
Proof. rewrite uinsert_g, !ulookup_g. apply glookup_ginsert; nside. Qed.

Lemma uinsert_sorted {A} k (v : A) l : usorted l -> usorted (uinsert k v l).
Proof. rewrite uinsert_g. apply ginsert_sorted; nside. Qed.

Lemma uremove_sorted {A} k (l : list (nat * A)) : usorted l -> usorted (uremove k l).
Proof. rewrite uremove_g. apply gremove_sorted. Qed.

Lemma ulookup_uremove {A} k k2 (l : list (nat * A)) :
  usorted l -> ulookup k2 (uremove k l) = if Nat.eqb k2 k then None else ulookup k2 l.
Proof.
  intros S. rewrite uremove_g, !ulookup_g. destruct (Nat.eqb k2 k) eqn:E.
  - apply Nat.eqb_eq in E. subst. apply glookup_gremove_same with (ltb := Nat.ltb); nside.
  - apply glookup_gremove_other; nside.
Qed.

Lemma usorted_ext {A} (a b : list (nat * A)) :
  usorted a -> usorted b -> (forall k, ulookup k a = ulookup k b) -> a = b.
Proof.
  intros Sa Sb H. eapply gsorted_ext with (eqb := Nat.eqb) (ltb := Nat.ltb); try nside.
  all: intros k; rewrite <- !ulookup_g; apply H.
Qed.

Lemma usorted_nil {A} : usorted (@nil (nat * A)).
Proof. constructor. Qed.

(* ---- sorted sets of levels -------------------------------------------------- *)

Definition ssorted (s : list level) : Prop := StronglySorted (fun a b => level_ltb a b = true) s.

Lemma set_mem_add k k' s : set_mem k (set_add k' s) = level_eqb k k' || set_mem k s.
Proof.
  unfold set_mem. induction s as [|x r IH]; cbn [set_add existsb].
  - now rewrite orb_false_r.
  - destruct (level_eqb k' x) eqn:E; cbn [existsb].
    + apply level_eqb_eq in E. subst x. now destruct (level_eqb k k').
    + destruct (level_ltb k' x); cbn [existsb]; [reflexivity|].
      rewrite IH. now destruct (level_eqb k x), (level_eqb k k').
Qed.

Lemma set_add_in k s x : In x (set_add k s) -> x = k \/ In x s.
Proof.
  induction s as [|y r IH]; cbn [set_add In].
  - intros [<-|[]]. now left.
  - destruct (level_eqb k y) eqn:E; [tauto|].
    destruct (level_ltb k y); cbn [In]; [intuition auto|].
    intros [<-|H]; [tauto|]. destruct (IH H); tauto.
Qed.

Lemma set_add_sorted k s : ssorted s -> ssorted (set_add k s).
Proof.
  unfold ssorted. induction s as [|y r IH]; cbn [set_add]; intros S.
  - constructor; constructor.
  - inversion S as [|? ? S' F]; subst. destruct (level_eqb k y) eqn:E; [exact S|].
    destruct (level_ltb k y) eqn:L.
    + constructor; [exact S|]. constructor; [exact L|].
      eapply Forall_impl; [|exact F]. intros a Ha. eapply level_ltb_trans; [exact L|exact Ha].
    + constructor; [now apply IH|]. apply Forall_forall. intros x Hx.
      apply set_add_in in Hx as [->|Hx].
      * apply level_ltb_total; [exact E|exact L].
      * rewrite Forall_forall in F. now apply F.
Qed.

Lemma set_mem_below k s : Forall (fun x => level_ltb k x = true) s -> set_mem k s = false.
Proof.
  unfold set_mem. induction s as [|y r IH]; cbn [existsb]; intros F; [reflexivity|].
  inversion F; subst. rewrite level_ltb_neq by assumption. now apply IH.
Qed.

Lemma ssorted_ext a b : ssorted a -> ssorted b -> (forall k, set_mem k a = set_mem k b) -> a = b.
Proof.
  unfold ssorted. revert b. induction a as [|ka ra IH]; intros [|kb rb] Sa Sb H.
  - reflexivity.
  - specialize (H kb). unfold set_mem in H. cbn in H. now rewrite level_eqb_refl in H.
  - specialize (H ka). unfold set_mem in H. cbn in H. now rewrite level_eqb_refl in H.
  - inversion Sa as [|? ? Sa' Fa]; inversion Sb as [|? ? Sb' Fb]; subst.
    assert (E : ka = kb).
    { destruct (level_eqb ka kb) eqn:E; [now apply level_eqb_eq|].
      destruct (level_ltb ka kb) eqn:L.
      - pose proof (H ka) as Hk. unfold set_mem in Hk. cbn [existsb] in Hk.
        rewrite level_eqb_refl, E in Hk. cbn in Hk.
        fold (set_mem ka rb) in Hk. rewrite set_mem_below in Hk; [discriminate|].
        eapply Forall_impl; [|exact Fb]. intros x Hx. eapply level_ltb_trans; [exact L|exact Hx].
      - pose proof (level_ltb_total _ _ E L) as L'.
        pose proof (H kb) as Hk. unfold set_mem in Hk. cbn [existsb] in Hk.
        rewrite level_eqb_refl, (level_eqb_sym kb ka), E in Hk. cbn in Hk.
        fold (set_mem kb ra) in Hk. rewrite set_mem_below in Hk; [discriminate|].
        eapply Forall_impl; [|exact Fa]. intros x Hx. eapply level_ltb_trans; [exact L'|exact Hx]. }
    subst kb. f_equal. apply IH; try assumption.
    intros k. pose proof (H k) as Hk. unfold set_mem in Hk. cbn [existsb] in Hk.
    destruct (level_eqb k ka) eqn:E; [|exact Hk].
    apply level_eqb_eq in E. subst k.
    rewrite (set_mem_below ka ra) by exact Fa. now rewrite (set_mem_below ka rb) by exact Fb.
Qed.

Lemma ssorted_nil : ssorted [].
Proof. constructor. Qed.
