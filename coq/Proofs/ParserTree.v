(* C09: the ground-truth side.  Facts about [lin_tree] (Model/Forest.v) and the
   expected parser node [node_of R l t] of a tree [t] at level [l] when exactly
   the messages whose level satisfies [R] have been received. *)
From Coq Require Import List PArith Bool Arith Lia Sorted.
Require Import Eliot.Base.Level Eliot.Model.Parser Eliot.Model.Forest.
Require Import Eliot.Proofs.ParserBasics Eliot.Proofs.ParserOrder.
Import ListNotations.

(* induction principle for the nested type *)
Lemma tree_ind' (P : tree -> Prop) :
  (forall ty, P (TMsg ty)) ->
  (forall ty st ch, Forall P ch -> P (TAct ty st ch)) ->
  forall t, P t.
Proof.
  intros HM HA. fix IH 1. intros [ty|ty st ch]; [apply HM|]. apply HA.
  induction ch as [|c r IHr]; constructor; [apply IH|exact IHr].
Qed.

(* the child at position j of a child list that starts at position pos *)
Fixpoint child_from (pos : positive) (cs : list tree) (j : positive) : option tree :=
  match cs with
  | [] => None
  | c :: r => if Pos.eqb j pos then Some c else child_from (Pos.succ pos) r j
  end.

(* position of the end message *)
Fixpoint endpos (pos : positive) (cs : list tree) : positive :=
  match cs with
  | [] => pos
  | _ :: r => endpos (Pos.succ pos) r
  end.

(* the subtree whose own level is x, relative to the root of t *)
Fixpoint subtree_at (t : tree) (x : level) : option tree :=
  match x with
  | [] => Some t
  | j :: r =>
      match t with
      | TAct _ _ ch => match child_from 2 ch j with Some c => subtree_at c r | None => None end
      | TMsg _ => None
      end
  end.

Definition is_act (t : tree) : bool := match t with TAct _ _ _ => true | TMsg _ => false end.

Lemma endpos_nat cs : forall pos, Pos.to_nat (endpos pos cs) = Pos.to_nat pos + length cs.
Proof.
  induction cs as [|c r IH]; intros pos; cbn [endpos length]; [lia|].
  rewrite IH, Pos2Nat.inj_succ. lia.
Qed.

Lemma child_from_range cs : forall pos j c,
  child_from pos cs j = Some c -> (pos <= j)%positive /\ (j < endpos pos cs)%positive.
Proof.
  induction cs as [|c0 r IH]; intros pos j c; cbn [child_from endpos]; [discriminate|].
  destruct (Pos.eqb_spec j pos) as [->|N].
  - intros _. split; [lia|]. apply Pos2Nat.inj_lt. rewrite endpos_nat, Pos2Nat.inj_succ. lia.
  - intros H. apply IH in H as [H1 H2]. split; [lia|exact H2].
Qed.

Lemma child_from_in cs : forall pos j c, child_from pos cs j = Some c -> In c cs.
Proof.
  induction cs as [|c0 r IH]; intros pos j c; cbn [child_from]; [discriminate|].
  destruct (Pos.eqb j pos); [intros H; injection H as <-; now left|].
  intros H. right. eapply IH. exact H.
Qed.

Lemma subtree_at_app t x y :
  subtree_at t (x ++ y) = match subtree_at t x with Some s => subtree_at s y | None => None end.
Proof.
  revert t. induction x as [|j r IH]; intros t; cbn [app subtree_at]; [reflexivity|].
  destruct t as [ty|ty st ch]; [reflexivity|].
  destruct (child_from 2 ch j); [apply IH|reflexivity].
Qed.

Lemma subtree_at_snoc t x j :
  subtree_at t (x ++ [j]) =
  match subtree_at t x with Some (TAct _ _ ch) => child_from 2 ch j | _ => None end.
Proof.
  rewrite subtree_at_app. destruct (subtree_at t x) as [[ty|ty st ch]|]; cbn; try reflexivity.
  now destruct (child_from 2 ch j).
Qed.

Section Tree.
  Variable idf : level -> nat.
  Variable u : nat.
  Notation mk := (mk_msg idf u).
  Notation ltree := (lin_tree idf u).

  Definition start_msg (l : level) (ty : positive) : pmsg := mk (l ++ [1%positive]) (Some ty) (Some PStarted).
  Definition end_msg (l : level) (ty : positive) (st : pstatus) (pos : positive) : pmsg :=
    mk (l ++ [pos]) (Some ty) (Some (end_status st)).

  Fixpoint lin_list (l : level) (ty : positive) (st : pstatus) (pos : positive) (cs : list tree) : list pmsg :=
    match cs with
    | [] => [end_msg l ty st pos]
    | c :: r => ltree (l ++ [pos]) c ++ lin_list l ty st (Pos.succ pos) r
    end.

  Lemma lin_tree_act l ty st ch :
    ltree l (TAct ty st ch) = start_msg l ty :: lin_list l ty st 2 ch.
  Proof.
    cbn [lin_tree]. f_equal. generalize 2%positive. induction ch as [|c r IH]; intros pos; cbn [lin_list]; [reflexivity|].
    now rewrite IH.
  Qed.

  Lemma lin_list_In l ty st cs : forall pos m,
    In m (lin_list l ty st pos cs) <->
    m = end_msg l ty st (endpos pos cs) \/ exists p c, child_from pos cs p = Some c /\ In m (ltree (l ++ [p]) c).
  Proof.
    induction cs as [|c0 r IH]; intros pos m; cbn [lin_list endpos child_from].
    - split.
      + intros [<-|[]]. now left.
      + intros [->|(p & c & H & _)]; [now left|discriminate].
    - rewrite in_app_iff, IH. split.
      + intros [H|[H|(p & c & H1 & H2)]].
        * right. exists pos, c0. now rewrite Pos.eqb_refl.
        * now left.
        * right. exists p, c. split; [|exact H2].
          pose proof (child_from_range _ _ _ _ H1) as [Hle _].
          destruct (Pos.eqb_spec p pos); [lia|exact H1].
      + intros [H|(p & c & H1 & H2)]; [right; now left|].
        destruct (Pos.eqb_spec p pos) as [->|N].
        * injection H1 as <-. now left.
        * right. right. now exists p, c.
  Qed.

  (* every message of a tree at level l has a level extending l, the task's uuid
     and the identity given by idf *)
  Lemma lin_tree_shape t : forall l m, In m (ltree l t) ->
    (exists rest, pm_level m = l ++ rest) /\ pm_uuid m = u /\ pm_id m = idf (pm_level m).
  Proof.
    induction t as [ty|ty st ch IHch] using tree_ind'; intros l m.
    - cbn. intros [<-|[]]. cbn. split; [exists []; now rewrite app_nil_r|auto].
    - rewrite lin_tree_act. cbn [In]. rewrite lin_list_In.
      intros [<-|[->|(p & c & H1 & H2)]].
      + cbn. split; [now exists [1%positive]|auto].
      + cbn. split; [now eexists|auto].
      + rewrite Forall_forall in IHch. apply (IHch c (child_from_in _ _ _ _ H1)) in H2 as [[rest E] H2].
        split; [|exact H2]. exists (p :: rest). rewrite E, <- app_assoc. reflexivity.
  Qed.

  Lemma lin_tree_nonempty t l : ltree l t <> [].
  Proof. destruct t; [cbn; discriminate|]. rewrite lin_tree_act. discriminate. Qed.

  (* ---- presence ----------------------------------------------------------- *)
  Definition present (R : level -> bool) (l : level) (t : tree) : bool :=
    existsb (fun m => R (pm_level m)) (ltree l t).
  Definition full (R : level -> bool) (l : level) (t : tree) : bool :=
    forallb (fun m => R (pm_level m)) (ltree l t).

  Definition agree_under (l : level) (R R' : level -> bool) : Prop :=
    forall rest, R (l ++ rest) = R' (l ++ rest).

  Lemma agree_under_app l x R R' : agree_under l R R' -> agree_under (l ++ x) R R'.
  Proof. intros H rest. rewrite <- app_assoc. apply H. Qed.

  Lemma present_frame R R' l t : agree_under l R R' -> present R l t = present R' l t.
  Proof.
    intros H. unfold present.
    assert (E : forall ms, (forall m, In m ms -> In m (ltree l t)) ->
                existsb (fun m => R (pm_level m)) ms = existsb (fun m => R' (pm_level m)) ms).
    { induction ms as [|m r IH]; intros Hin; cbn [existsb]; [reflexivity|].
      rewrite IH by (intros; apply Hin; now right).
      destruct (lin_tree_shape t l m (Hin m (or_introl eq_refl))) as [[rest ->] _]. now rewrite H. }
    apply E. auto.
  Qed.

  Lemma full_frame R R' l t : agree_under l R R' -> full R l t = full R' l t.
  Proof.
    intros H. unfold full.
    assert (E : forall ms, (forall m, In m ms -> In m (ltree l t)) ->
                forallb (fun m => R (pm_level m)) ms = forallb (fun m => R' (pm_level m)) ms).
    { induction ms as [|m r IH]; intros Hin; cbn [forallb]; [reflexivity|].
      rewrite IH by (intros; apply Hin; now right).
      destruct (lin_tree_shape t l m (Hin m (or_introl eq_refl))) as [[rest ->] _]. now rewrite H. }
    apply E. auto.
  Qed.

  Lemma full_present R l t : full R l t = true -> present R l t = true.
  Proof.
    unfold full, present. pose proof (lin_tree_nonempty t l) as N.
    destruct (ltree l t) as [|m r]; [congruence|]. cbn. intros H.
    apply andb_true_iff in H as [-> _]. reflexivity.
  Qed.

  Lemma present_msg R l ty : present R l (TMsg ty) = R l.
  Proof. unfold present. cbn. now rewrite orb_false_r. Qed.
  Lemma full_msg R l ty : full R l (TMsg ty) = R l.
  Proof. unfold full. cbn. now rewrite andb_true_r. Qed.

  (* ---- the expected node -------------------------------------------------- *)
  Fixpoint node_of (R : level -> bool) (l : level) (t : tree) : node :=
    match t with
    | TMsg _ => NMsg (mk l None None)
    | TAct ty st ch =>
        NAct (if R (l ++ [1%positive]) then Some (start_msg l ty) else None)
             (if R (l ++ [endpos 2 ch]) then Some (end_msg l ty st (endpos 2 ch)) else None)
             l u
             ((fix go (pos : positive) (cs : list tree) : list (level * node) :=
                 match cs with
                 | [] => []
                 | c :: r =>
                     (if existsb (fun m => R (pm_level m)) (ltree (l ++ [pos]) c)
                      then [(l ++ [pos], node_of R (l ++ [pos]) c)] else [])
                     ++ go (Pos.succ pos) r
                 end) 2%positive ch)
    end.

  Fixpoint children_of (R : level -> bool) (l : level) (pos : positive) (cs : list tree) : list (level * node) :=
    match cs with
    | [] => []
    | c :: r =>
        (if present R (l ++ [pos]) c then [(l ++ [pos], node_of R (l ++ [pos]) c)] else [])
        ++ children_of R l (Pos.succ pos) r
    end.

  Lemma node_of_act R l ty st ch :
    node_of R l (TAct ty st ch) =
    NAct (if R (l ++ [1%positive]) then Some (start_msg l ty) else None)
         (if R (l ++ [endpos 2 ch]) then Some (end_msg l ty st (endpos 2 ch)) else None)
         l u (children_of R l 2 ch).
  Proof.
    cbn [node_of]. f_equal. generalize 2%positive. induction ch as [|c r IH]; intros pos; cbn [children_of]; [reflexivity|].
    now rewrite IH.
  Qed.

  Lemma node_of_level R l t : is_act t = true -> node_level (node_of R l t) = l.
  Proof. destruct t; [discriminate|]. intros _. now rewrite node_of_act. Qed.

  Lemma node_of_frame R R' t : forall l, agree_under l R R' -> node_of R l t = node_of R' l t.
  Proof.
    induction t as [ty|ty st ch IHch] using tree_ind'; intros l H; [reflexivity|].
    rewrite !node_of_act. rewrite <- (H [1%positive]), <- (H [endpos 2 ch]). f_equal.
    generalize 2%positive. induction ch as [|c r IHr]; intros pos; cbn [children_of]; [reflexivity|].
    inversion IHch as [|? ? Hc Hr]; subst.
    rewrite (present_frame R R') by now apply agree_under_app.
    rewrite (Hc (l ++ [pos])) by now apply agree_under_app.
    now rewrite IHr.
  Qed.

  Lemma children_of_frame R R' l cs : forall pos,
    (forall p c, child_from pos cs p = Some c -> agree_under (l ++ [p]) R R') ->
    children_of R l pos cs = children_of R' l pos cs.
  Proof.
    induction cs as [|c r IH]; intros pos H; cbn [children_of]; [reflexivity|].
    assert (Hc : agree_under (l ++ [pos]) R R').
    { apply (H pos c). cbn. now rewrite Pos.eqb_refl. }
    rewrite (present_frame R R') by exact Hc. rewrite (node_of_frame R R') by exact Hc.
    rewrite IH; [reflexivity|]. intros p c' Hp. apply (H p c'). cbn [child_from].
    pose proof (child_from_range _ _ _ _ Hp) as [Hle _].
    destruct (Pos.eqb_spec p pos); [lia|exact Hp].
  Qed.

  Lemma children_of_keys R l cs : forall pos k,
    In k (map fst (children_of R l pos cs)) -> exists p, k = l ++ [p] /\ (pos <= p)%positive.
  Proof.
    induction cs as [|c r IH]; intros pos k; cbn [children_of map]; [intros []|].
    rewrite map_app, in_app_iff. intros [H|H].
    - destruct (present R (l ++ [pos]) c); [|destruct H]. destruct H as [<-|[]]. exists pos. split; [reflexivity|lia].
    - apply IH in H as (p & -> & Hp). exists p. split; [reflexivity|lia].
  Qed.

  (* receiving something below child p updates exactly that child's entry *)
  Lemma children_update R R' l cs : forall pos p c,
    child_from pos cs p = Some c ->
    present R' (l ++ [p]) c = true ->
    (forall p' c', child_from pos cs p' = Some c' -> p' <> p -> agree_under (l ++ [p']) R R') ->
    children_of R' l pos cs = linsert (l ++ [p]) (node_of R' (l ++ [p]) c) (children_of R l pos cs).
  Proof.
    induction cs as [|c0 r IH]; intros pos p c; cbn [child_from children_of]; [discriminate|].
    destruct (Pos.eqb_spec p pos) as [->|N].
    - intros E HP HA. injection E as ->. rewrite HP.
      assert (ER : children_of R' l (Pos.succ pos) r = children_of R l (Pos.succ pos) r).
      { symmetry. apply children_of_frame. intros p' c' Hp'.
        apply (HA p' c').
        - cbn [child_from]. pose proof (child_from_range _ _ _ _ Hp') as [Hle _].
          destruct (Pos.eqb_spec p' pos); [lia|exact Hp'].
        - pose proof (child_from_range _ _ _ _ Hp') as [Hle _]. lia. }
      rewrite ER. destruct (present R (l ++ [pos]) c); cbn [app].
      + cbn [linsert]. now rewrite level_eqb_refl.
      + rewrite linsert_below; [reflexivity|].
        apply Forall_forall. intros k Hk. apply children_of_keys in Hk as (p' & -> & Hp').
        rewrite level_ltb_snoc. apply Pos.ltb_lt. lia.
    - intros E HP HA.
      pose proof (child_from_range _ _ _ _ E) as [Hle _].
      assert (Hc : agree_under (l ++ [pos]) R R').
      { apply (HA pos c0); [now rewrite Pos.eqb_refl|congruence]. }
      rewrite <- (present_frame R R') by exact Hc. rewrite <- (node_of_frame R R') by exact Hc.
      rewrite (IH (Pos.succ pos) p c E HP).
      + destruct (present R (l ++ [pos]) c0); cbn [app]; [|reflexivity].
        cbn [linsert]. rewrite level_eqb_snoc, level_ltb_snoc.
        destruct (Pos.eqb_spec p pos); [congruence|].
        destruct (Pos.ltb_spec p pos); [lia|reflexivity].
      + intros p' c' Hp' Np. apply (HA p' c'); [|exact Np].
        pose proof (child_from_range _ _ _ _ Hp') as [Hle' _].
        destruct (Pos.eqb_spec p' pos); [lia|exact Hp'].
  Qed.

  (* ---- nothing received ---------------------------------------------------- *)
  Lemma children_of_absent R l cs : forall pos,
    (forall p c, child_from pos cs p = Some c -> present R (l ++ [p]) c = false) ->
    children_of R l pos cs = [].
  Proof.
    induction cs as [|c r IH]; intros pos H; cbn [children_of]; [reflexivity|].
    rewrite (H pos c) by (cbn; now rewrite Pos.eqb_refl). cbn [app]. apply IH.
    intros p c' Hp. apply (H p c'). cbn [child_from].
    pose proof (child_from_range _ _ _ _ Hp) as [Hle _].
    destruct (Pos.eqb_spec p pos); [lia|exact Hp].
  Qed.

  Lemma present_false R l t :
    present R l t = false <-> forall m, In m (ltree l t) -> R (pm_level m) = false.
  Proof.
    unfold present. split.
    - intros H m Hm. destruct (R (pm_level m)) eqn:E; [|reflexivity].
      assert (existsb (fun m => R (pm_level m)) (ltree l t) = true) by (apply existsb_exists; eauto). congruence.
    - intros H. destruct (existsb _ _) eqn:E; [|reflexivity].
      apply existsb_exists in E as (m & Hm & Hr). rewrite (H m Hm) in Hr. discriminate.
  Qed.

  Lemma present_true R l t m : In m (ltree l t) -> R (pm_level m) = true -> present R l t = true.
  Proof. intros Hm Hr. unfold present. apply existsb_exists. eauto. Qed.

  Lemma full_false R l t m : In m (ltree l t) -> R (pm_level m) = false -> full R l t = false.
  Proof.
    intros Hm Hr. unfold full. destruct (forallb _ _) eqn:E; [|reflexivity].
    rewrite forallb_forall in E. rewrite (E m Hm) in Hr. discriminate.
  Qed.

  Lemma node_of_absent R l ty st ch :
    present R l (TAct ty st ch) = false -> node_of R l (TAct ty st ch) = NAct None None l u [].
  Proof.
    intros H. rewrite present_false in H. rewrite node_of_act.
    assert (H1 : R (l ++ [1%positive]) = false).
    { apply (H (start_msg l ty)). rewrite lin_tree_act. now left. }
    assert (H2 : R (l ++ [endpos 2 ch]) = false).
    { apply (H (end_msg l ty st (endpos 2 ch))). rewrite lin_tree_act. right. apply lin_list_In. now left. }
    rewrite H1, H2. f_equal. apply children_of_absent. intros p c Hp.
    apply present_false. intros m Hm. apply H. rewrite lin_tree_act. right. apply lin_list_In. right. eauto.
  Qed.

  (* ---- the completeness test ------------------------------------------------ *)
  Definition chk (comp : list level) (kc : level * node) : bool :=
    orb (negb (is_action_node (snd kc))) (set_mem (node_level (snd kc)) comp).

  Lemma children_of_length R l cs : forall pos, length (children_of R l pos cs) <= length cs.
  Proof.
    induction cs as [|c r IH]; intros pos; cbn [children_of length]; [lia|].
    specialize (IH (Pos.succ pos)).
    destruct (present R (l ++ [pos]) c); cbn [app length]; lia.
  Qed.

  Lemma complete_list R comp l ty st cs : forall pos,
    (forall p c, child_from pos cs p = Some c -> is_act c = true ->
                 set_mem (l ++ [p]) comp = full R (l ++ [p]) c) ->
    Nat.eqb (length (children_of R l pos cs)) (length cs) && forallb (chk comp) (children_of R l pos cs)
      && R (l ++ [endpos pos cs])
    = forallb (fun m => R (pm_level m)) (lin_list l ty st pos cs).
  Proof.
    induction cs as [|c r IH]; intros pos H; cbn [children_of lin_list endpos length].
    - cbn. now rewrite andb_true_r.
    - rewrite (forallb_app (fun m : pmsg => R (pm_level m))). fold (full R (l ++ [pos]) c).
      rewrite <- (IH (Pos.succ pos)).
      2:{ intros p c' Hp. apply (H p c'). cbn [child_from].
          pose proof (child_from_range _ _ _ _ Hp) as [Hle _].
          destruct (Pos.eqb_spec p pos); [lia|exact Hp]. }
      destruct (present R (l ++ [pos]) c) eqn:EP; cbn [app length forallb].
      + assert (EC : chk comp (l ++ [pos], node_of R (l ++ [pos]) c) = full R (l ++ [pos]) c).
        { unfold chk. cbn [snd]. destruct c as [ty'|ty' st' ch'].
          - rewrite full_msg. rewrite present_msg in EP. rewrite EP. reflexivity.
          - rewrite node_of_act. cbn [is_action_node negb orb node_level].
            apply (H pos); [cbn; now rewrite Pos.eqb_refl|reflexivity]. }
        rewrite EC. cbn [Nat.eqb].
        destruct (Nat.eqb _ _), (full R (l ++ [pos]) c), (forallb (chk comp) _), (R _); reflexivity.
      + assert (EF : full R (l ++ [pos]) c = false).
        { destruct (full R (l ++ [pos]) c) eqn:EF; [|reflexivity]. apply full_present in EF. congruence. }
        rewrite EF. pose proof (children_of_length R l r (Pos.succ pos)) as Hl.
        destruct (Nat.eqb_spec (length (children_of R l (Pos.succ pos) r)) (S (length r))); [lia|reflexivity].
  Qed.

  Lemma node_complete_spec R comp l ty st ch :
    (forall p c, child_from 2 ch p = Some c -> is_act c = true ->
                 set_mem (l ++ [p]) comp = full R (l ++ [p]) c) ->
    node_complete comp (node_of R l (TAct ty st ch)) = full R l (TAct ty st ch).
  Proof.
    intros H. rewrite node_of_act. unfold full. rewrite lin_tree_act. cbn [forallb].
    rewrite <- (complete_list R comp l ty st ch 2 H).
    change (pm_level (start_msg l ty)) with (l ++ [1%positive]).
    destruct (R (l ++ [1%positive])); cbn [node_complete andb]; [|reflexivity].
    destruct (R (l ++ [endpos 2 ch])); cbn [node_complete]; [|now rewrite andb_false_r].
    rewrite andb_true_r. f_equal.
    change (pm_level (end_msg l ty st (endpos 2 ch))) with (l ++ [endpos 2 ch]).
    rewrite last_last, endpos_nat.
    destruct (Nat.eqb_spec (length (children_of R l 2 ch)) (length ch));
      destruct (Nat.eqb_spec (length (children_of R l 2 ch) + 2) (Pos.to_nat 2 + length ch)); try reflexivity; lia.
  Qed.

  (* ---- levels are distinct --------------------------------------------------- *)
  Lemma lin_list_levels l ty st cs pos m :
    In m (lin_list l ty st pos cs) -> exists p rest, pm_level m = l ++ p :: rest /\ (pos <= p)%positive.
  Proof.
    rewrite lin_list_In. intros [->|(p & c & H1 & H2)].
    - exists (endpos pos cs), []. split; [reflexivity|].
      apply Pos2Nat.inj_le. rewrite endpos_nat. lia.
    - apply lin_tree_shape in H2 as [[rest E] _]. exists p, rest. rewrite E, <- app_assoc. split; [reflexivity|].
      now apply child_from_range in H1.
  Qed.

  Lemma NoDup_app_intro {A} (a b : list A) :
    NoDup a -> NoDup b -> (forall x, In x a -> In x b -> False) -> NoDup (a ++ b).
  Proof.
    induction a as [|x a IH]; intros Ha Hb D; cbn [app]; [exact Hb|].
    inversion Ha; subst. constructor.
    - rewrite in_app_iff. intros [H|H]; [contradiction|]. apply (D x); [now left|exact H].
    - apply IH; try assumption. intros y Hy. apply D. now right.
  Qed.

  Lemma lin_tree_nodup t : forall l, NoDup (map pm_level (ltree l t)).
  Proof.
    induction t as [ty|ty st ch IHch] using tree_ind'; intros l.
    - cbn. constructor; [intros []|constructor].
    - rewrite lin_tree_act. cbn [map]. constructor.
      + rewrite in_map_iff. intros (m & E & Hm). apply lin_list_levels in Hm as (p & rest & E' & Hp).
        rewrite E' in E. change (pm_level (start_msg l ty)) with (l ++ [1%positive]) in E.
        apply app_inv_head in E. injection E as -> _. lia.
      + generalize 2%positive. induction ch as [|c r IHr]; intros pos; cbn [lin_list map].
        * constructor; [intros []|constructor].
        * inversion IHch as [|? ? Hc Hr]; subst. rewrite map_app. apply NoDup_app_intro.
          -- apply Hc.
          -- apply IHr. exact Hr.
          -- intros x H1 H2. apply in_map_iff in H1 as (m1 & <- & H1). apply in_map_iff in H2 as (m2 & E & H2).
             apply lin_tree_shape in H1 as [[rest1 E1] _].
             apply lin_list_levels in H2 as (p & rest2 & E2 & Hp).
             rewrite E1, E2, <- app_assoc in E. apply app_inv_head in E. injection E as -> _. lia.
  Qed.

  Lemma lin_tree_level_inj t l m m' :
    In m (ltree l t) -> In m' (ltree l t) -> pm_level m = pm_level m' -> m = m'.
  Proof.
    pose proof (lin_tree_nodup t l) as N. revert N.
    induction (ltree l t) as [|a r IH]; cbn [map In]; [tauto|].
    intros N. inversion N as [|? ? Hn N']; subst. intros [<-|H] [<-|H'] E.
    - reflexivity.
    - exfalso. apply Hn. rewrite E. now apply in_map.
    - exfalso. apply Hn. rewrite <- E. now apply in_map.
    - now apply IH.
  Qed.

  (* ---- what kind of message sits where ---------------------------------------- *)
  Lemma lin_tree_kind t : forall l m, In m (ltree l t) ->
    (exists ty, t = TMsg ty /\ m = mk l None None) \/
    exists rel ty st ch, subtree_at t rel = Some (TAct ty st ch) /\
      (m = start_msg (l ++ rel) ty \/ m = end_msg (l ++ rel) ty st (endpos 2 ch) \/
       exists j ty', child_from 2 ch j = Some (TMsg ty') /\ m = mk ((l ++ rel) ++ [j]) None None).
  Proof.
    induction t as [ty|ty st ch IHch] using tree_ind'; intros l m.
    - cbn. intros [<-|[]]. left. now exists ty.
    - rewrite lin_tree_act. cbn [In]. rewrite lin_list_In. intros [<-|[->|(p & c & H1 & H2)]]; right.
      + exists [], ty, st, ch. rewrite app_nil_r. split; [reflexivity|now left].
      + exists [], ty, st, ch. rewrite app_nil_r. split; [reflexivity|right; now left].
      + rewrite Forall_forall in IHch.
        destruct (IHch c (child_from_in _ _ _ _ H1) _ _ H2) as [(ty' & -> & ->)|(rel & ty' & st' & ch' & Hs & Hk)].
        * exists [], ty, st, ch. rewrite app_nil_r. split; [reflexivity|]. right. right. now exists p, ty'.
        * exists (p :: rel), ty', st', ch'. split; [cbn [subtree_at]; now rewrite H1|].
          replace (l ++ p :: rel) with ((l ++ [p]) ++ rel) by now rewrite <- app_assoc.
          exact Hk.
  Qed.
End Tree.

(* the expected node depends on R only at the levels of the tree's messages *)
Section TreeExt.
  Variable idf : level -> nat.
  Variable u : nat.
  Notation ltree := (lin_tree idf u).

  Lemma existsb_ext_in {A} (f g : A -> bool) l : (forall x, In x l -> f x = g x) -> existsb f l = existsb g l.
  Proof.
    induction l as [|a r IH]; intros H; cbn; [reflexivity|].
    rewrite (H a) by now left. rewrite IH; [reflexivity|]. intros; apply H; now right.
  Qed.
  Lemma forallb_ext_in {A} (f g : A -> bool) l : (forall x, In x l -> f x = g x) -> forallb f l = forallb g l.
  Proof.
    induction l as [|a r IH]; intros H; cbn; [reflexivity|].
    rewrite (H a) by now left. rewrite IH; [reflexivity|]. intros; apply H; now right.
  Qed.

  Lemma present_ext_msgs R R' l t :
    (forall m, In m (ltree l t) -> R (pm_level m) = R' (pm_level m)) ->
    present idf u R l t = present idf u R' l t.
  Proof. intros H. unfold present. now apply existsb_ext_in. Qed.

  Lemma full_ext_msgs R R' l t :
    (forall m, In m (ltree l t) -> R (pm_level m) = R' (pm_level m)) ->
    full idf u R l t = full idf u R' l t.
  Proof. intros H. unfold full. now apply forallb_ext_in. Qed.

  Lemma node_of_ext_msgs R R' t : forall l,
    (forall m, In m (ltree l t) -> R (pm_level m) = R' (pm_level m)) ->
    node_of idf u R l t = node_of idf u R' l t.
  Proof.
    induction t as [ty|ty st ch IHch] using tree_ind'; intros l H; [reflexivity|].
    rewrite !node_of_act.
    assert (H1 : R (l ++ [1%positive]) = R' (l ++ [1%positive])).
    { apply (H (start_msg idf u l ty)). rewrite lin_tree_act. now left. }
    assert (H2 : R (l ++ [endpos 2 ch]) = R' (l ++ [endpos 2 ch])).
    { apply (H (end_msg idf u l ty st (endpos 2 ch))). rewrite lin_tree_act. right. apply lin_list_In. now left. }
    rewrite H1, H2. f_equal.
    assert (HC : forall p c, child_from 2 ch p = Some c ->
                 forall m, In m (ltree (l ++ [p]) c) -> R (pm_level m) = R' (pm_level m)).
    { intros p c Hp m Hm. apply H. rewrite lin_tree_act. right. apply lin_list_In. right. eauto. }
    clear H H1 H2. revert HC. generalize 2%positive.
    induction ch as [|c r IHr]; intros pos HC; cbn [children_of]; [reflexivity|].
    inversion IHch as [|? ? Hc Hr]; subst.
    assert (Hpos : forall m, In m (ltree (l ++ [pos]) c) -> R (pm_level m) = R' (pm_level m)).
    { apply (HC pos c). cbn. now rewrite Pos.eqb_refl. }
    rewrite (present_ext_msgs R R') by exact Hpos. rewrite (Hc (l ++ [pos]) Hpos).
    rewrite (IHr Hr (Pos.succ pos)); [reflexivity|].
    intros p c' Hp. apply (HC p c'). cbn [child_from].
    pose proof (child_from_range _ _ _ _ Hp) as [Hle _].
    destruct (Pos.eqb_spec p pos); [lia|exact Hp].
  Qed.
End TreeExt.
