(* C17, the ground-truth side: the captured log [llin f] of a forest (the
   messages of [Forest.lin], each with its message type), the expected helper
   tree [logged_of] of an action, the actions of a forest in pre-order
   ([acts]), and where the messages of one action sit in the log ([Seg]). *)
From Coq Require Import List PArith Bool Arith Lia.
Require Import Eliot.Base.Level Eliot.Model.Parser Eliot.Model.Forest Eliot.Model.Testing.
Require Import Eliot.Proofs.ParserBasics Eliot.Proofs.ParserOrder Eliot.Proofs.ParserTree
  Eliot.Proofs.ParserStep Eliot.Proofs.ParserRun Eliot.Proofs.ParserIds.
Import ListNotations.

(* forget the message type *)
Definition to_pmsg (m : lmsg) : pmsg :=
  mkPmsg (lm_uuid m) (lm_level m) (lm_atype m) (lm_status m) (lm_id m).

Section LLin.
  Variable idf : level -> nat.
  Variable u : nat.

  Definition mk_lmsg (l : level) (a mt : option positive) (s : option pstatus) : lmsg :=
    mkLmsg u l a mt s (idf l).
  Definition lstart (l : level) (ty : positive) : lmsg :=
    mk_lmsg (l ++ [1%positive]) (Some ty) None (Some PStarted).
  Definition lend (l : level) (ty : positive) (st : pstatus) (pos : positive) : lmsg :=
    mk_lmsg (l ++ [pos]) (Some ty) None (Some (end_status st)).
  Definition lplain (l : level) (ty : positive) : lmsg := mk_lmsg l None (Some ty) None.

  (* the same level / identity rule as [Forest.lin_tree] *)
  Fixpoint llin_tree (l : level) (t : tree) : list lmsg :=
    match t with
    | TMsg ty => [lplain l ty]
    | TAct ty st ch =>
        lstart l ty ::
        (fix go (pos : positive) (cs : list tree) : list lmsg :=
           match cs with
           | [] => [lend l ty st pos]
           | c :: r => llin_tree (l ++ [pos]) c ++ go (Pos.succ pos) r
           end) 2%positive ch
    end.

  Definition llin_task (t : tree) : list lmsg :=
    match t with
    | TMsg _ => llin_tree [1%positive] t
    | TAct _ _ _ => llin_tree [] t
    end.

  Fixpoint llin_list (l : level) (ty : positive) (st : pstatus) (pos : positive) (cs : list tree) : list lmsg :=
    match cs with
    | [] => [lend l ty st pos]
    | c :: r => llin_tree (l ++ [pos]) c ++ llin_list l ty st (Pos.succ pos) r
    end.

  Lemma llin_tree_act l ty st ch :
    llin_tree l (TAct ty st ch) = lstart l ty :: llin_list l ty st 2 ch.
  Proof.
    cbn [llin_tree]. f_equal. generalize 2%positive.
    induction ch as [|c r IH]; intros pos; cbn [llin_list]; [reflexivity|]. now rewrite IH.
  Qed.

  (* ---- the expected helper tree ------------------------------------------- *)
  (* [l] is the tree's own level, as for [lin_tree] *)
  Fixpoint logged_of (l : level) (t : tree) : logged :=
    match t with
    | TMsg ty => LMessage (lplain l ty)
    | TAct ty st ch =>
        LAction (lstart l ty) (lend l ty st (endpos 2 ch))
          ((fix go (pos : positive) (cs : list tree) : list logged :=
              match cs with
              | [] => []
              | c :: r => logged_of (l ++ [pos]) c :: go (Pos.succ pos) r
              end) 2%positive ch)
    end.

  Fixpoint logged_list (l : level) (pos : positive) (cs : list tree) : list logged :=
    match cs with
    | [] => []
    | c :: r => logged_of (l ++ [pos]) c :: logged_list l (Pos.succ pos) r
    end.

  Lemma logged_of_act l ty st ch :
    logged_of l (TAct ty st ch) = LAction (lstart l ty) (lend l ty st (endpos 2 ch)) (logged_list l 2 ch).
  Proof.
    cbn [logged_of]. f_equal. generalize 2%positive.
    induction ch as [|c r IH]; intros pos; cbn [logged_list]; [reflexivity|]. now rewrite IH.
  Qed.

  (* the first message of a tree *)
  Definition start_of (l : level) (t : tree) : lmsg :=
    match t with
    | TMsg ty => lplain l ty
    | TAct ty _ _ => lstart l ty
    end.
  (* the last message of a tree *)
  Definition end_of (l : level) (t : tree) : lmsg :=
    match t with
    | TMsg ty => lplain l ty
    | TAct ty st ch => lend l ty st (endpos 2 ch)
    end.

  (* ---- relation to [lin_tree] ------------------------------------------------ *)
  Lemma to_pmsg_tree t : forall l, map to_pmsg (llin_tree l t) = lin_tree idf u l t.
  Proof.
    induction t as [ty|ty st ch IHch] using tree_ind'; intros l; [reflexivity|].
    rewrite llin_tree_act, lin_tree_act. cbn [map]. f_equal.
    generalize 2%positive. induction ch as [|c r IHr]; intros pos; cbn [llin_list lin_list map]; [reflexivity|].
    inversion IHch as [|? ? Hc Hr]; subst. rewrite map_app, Hc, (IHr Hr). reflexivity.
  Qed.

  Lemma to_pmsg_list l ty st cs : forall pos,
    map to_pmsg (llin_list l ty st pos cs) = lin_list idf u l ty st pos cs.
  Proof.
    induction cs as [|c r IH]; intros pos; cbn [llin_list lin_list map]; [reflexivity|].
    now rewrite map_app, to_pmsg_tree, IH.
  Qed.

  Lemma to_pmsg_task t : map to_pmsg (llin_task t) = lin_task idf u t.
  Proof. destruct t; cbn [llin_task lin_task]; apply to_pmsg_tree. Qed.

  Lemma llin_tree_shape t l m : In m (llin_tree l t) ->
    (exists rest, lm_level m = l ++ rest) /\ lm_uuid m = u /\ lm_id m = idf (lm_level m).
  Proof.
    intros H. apply (in_map to_pmsg) in H. rewrite to_pmsg_tree in H.
    apply lin_tree_shape in H. exact H.
  Qed.

  Lemma llin_list_levels l ty st cs pos m :
    In m (llin_list l ty st pos cs) ->
    lm_uuid m = u /\ exists p rest, lm_level m = l ++ p :: rest /\ (pos <= p)%positive.
  Proof.
    intros H. apply (in_map to_pmsg) in H. rewrite to_pmsg_list in H. split.
    - apply lin_list_In in H as [H|(p & c & _ & H)].
      + change (lm_uuid m) with (pm_uuid (to_pmsg m)). now rewrite H.
      + apply lin_tree_shape in H. apply H.
    - apply lin_list_levels in H. exact H.
  Qed.
End LLin.

Fixpoint llin_from (idf : nat -> level -> nat) (u : nat) (f : forest) : list lmsg :=
  match f with
  | [] => []
  | t :: r => llin_task (idf u) u t ++ llin_from idf (S u) r
  end.

(* the captured log of a forest *)
Definition llin (f : forest) : list lmsg := llin_from (lin_id f) 0 f.

Lemma to_pmsg_from idf f : forall u0, map to_pmsg (llin_from idf u0 f) = lin_from idf u0 f.
Proof.
  induction f as [|T r IH]; intros u0; cbn [llin_from lin_from map]; [reflexivity|].
  now rewrite map_app, to_pmsg_task, IH.
Qed.

Theorem llin_lin f : map to_pmsg (llin f) = lin f.
Proof. apply to_pmsg_from. Qed.

Lemma NoDup_of_map {A B} (g : A -> B) (l : list A) : NoDup (map g l) -> NoDup l.
Proof.
  induction l as [|a l IH]; cbn [map]; intros H; [constructor|].
  inversion H as [|? ? Hn H']; subst. constructor; [|now apply IH].
  intros Hin. apply Hn. now apply in_map.
Qed.

Lemma llin_nodup f : NoDup (llin f).
Proof. apply (NoDup_of_map to_pmsg). rewrite llin_lin. apply lin_nodup. Qed.

Lemma llin_ids f : map lm_id (llin f) = seq 0 (length (llin f)).
Proof.
  rewrite <- (map_length to_pmsg (llin f)), llin_lin, <- lin_ids, <- llin_lin, map_map. reflexivity.
Qed.

Lemma llin_task_uuid idf u T m : In m (llin_task idf u T) -> lm_uuid m = u.
Proof. destruct T; cbn [llin_task]; intros H; now apply llin_tree_shape in H. Qed.

Lemma llin_from_uuid idf f : forall u0 m, In m (llin_from idf u0 f) -> u0 <= lm_uuid m.
Proof.
  induction f as [|T r IH]; intros u0 m; cbn [llin_from]; [intros []|].
  rewrite in_app_iff. intros [H|H].
  - apply llin_task_uuid in H. lia.
  - apply IH in H. lia.
Qed.

(* ---- where the messages of one subtree sit in a log ------------------------------ *)

(* [m] does not belong to the subtree at (u, l) *)
Definition outside (u : nat) (l : level) (m : lmsg) : Prop :=
  lm_uuid m = u -> forall rest, lm_level m <> l ++ rest.

Lemma outside_app u l x m : outside u l m -> outside u (l ++ x) m.
Proof. intros H E rest. rewrite <- app_assoc. now apply H. Qed.

(* the log contains the messages of the tree [c] at (u, l) as one block and nothing else below (u, l) *)
Definition Seg (idf : level -> nat) (all : list lmsg) (u : nat) (l : level) (c : tree) : Prop :=
  exists PRE POST, all = PRE ++ llin_tree idf u l c ++ POST /\
                   Forall (outside u l) PRE /\ Forall (outside u l) POST.

Lemma snoc_inj_level (l : level) p rest q rest' :
  l ++ p :: rest = (l ++ [q]) ++ rest' -> p = q.
Proof. rewrite <- app_assoc. intros E. apply app_inv_head in E. now injection E. Qed.

Lemma list_child_split idf u l ty st cs : forall pos p c,
  child_from pos cs p = Some c ->
  exists A B, llin_list idf u l ty st pos cs = A ++ llin_tree idf u (l ++ [p]) c ++ B /\
              Forall (outside u (l ++ [p])) A /\ Forall (outside u (l ++ [p])) B.
Proof.
  induction cs as [|c0 r IH]; intros pos p c; cbn [child_from llin_list]; [discriminate|].
  destruct (Pos.eqb_spec p pos) as [->|N].
  - intros E. injection E as ->. exists [], (llin_list idf u l ty st (Pos.succ pos) r).
    split; [reflexivity|]. split; [constructor|].
    apply Forall_forall. intros m Hm _ rest E.
    apply llin_list_levels in Hm as (_ & q & rest' & E' & Hq). rewrite E' in E.
    apply snoc_inj_level in E. lia.
  - intros E. pose proof (child_from_range _ _ _ _ E) as [Hle _].
    destruct (IH _ _ _ E) as (A & B & EQ & HA & HB).
    exists (llin_tree idf u (l ++ [pos]) c0 ++ A), B. split; [rewrite EQ, <- app_assoc; reflexivity|].
    split; [|exact HB]. apply Forall_app. split; [|exact HA].
    apply Forall_forall. intros m Hm _ rest E'.
    apply llin_tree_shape in Hm as [[rest' E''] _]. rewrite E'' in E'.
    destruct rest' as [|x rest'].
    + rewrite app_nil_r, <- !app_assoc in E'. apply app_inv_head in E'. cbn in E'. injection E' as -> _. congruence.
    + rewrite <- !app_assoc in E'. apply app_inv_head in E'. cbn in E'. injection E' as -> _. congruence.
Qed.

Lemma Seg_child idf all u l ty st ch p c :
  Seg idf all u l (TAct ty st ch) -> child_from 2 ch p = Some c -> Seg idf all u (l ++ [p]) c.
Proof.
  intros (PRE & POST & E & HP & HQ) Hc. rewrite llin_tree_act in E.
  destruct (list_child_split idf u l ty st ch 2 p c Hc) as (A & B & EQ & HA & HB).
  pose proof (child_from_range _ _ _ _ Hc) as [Hle _].
  exists (PRE ++ lstart idf u l ty :: A), (B ++ POST). split; [|split].
  - rewrite E, EQ. repeat (rewrite <- ?app_assoc; cbn [app]). reflexivity.
  - apply Forall_app. split.
    + eapply Forall_impl; [|exact HP]. intros m. apply outside_app.
    + constructor; [|exact HA]. intros _ rest E'. cbn in E'.
      rewrite <- app_assoc in E'. apply app_inv_head in E'. cbn in E'. injection E' as E' _. lia.
  - apply Forall_app. split; [exact HB|].
    eapply Forall_impl; [|exact HQ]. intros m. apply outside_app.
Qed.

Lemma Seg_sub idf all u T : forall x l c,
  Seg idf all u l T -> subtree_at T x = Some c -> Seg idf all u (l ++ x) c.
Proof.
  intros x. revert T. induction x as [|j r IH]; intros T l c HS Hx.
  - cbn in Hx. injection Hx as <-. now rewrite app_nil_r.
  - cbn [subtree_at] in Hx. destruct T as [ty|ty st ch]; [discriminate|].
    destruct (child_from 2 ch j) as [c'|] eqn:Ec; [|discriminate].
    replace (l ++ j :: r) with ((l ++ [j]) ++ r) by now rewrite <- app_assoc.
    eapply IH; [|exact Hx]. eapply Seg_child; eassumption.
Qed.

Lemma from_task_split idf f : forall u0 k T,
  nth_error f k = Some T ->
  exists PRE POST, llin_from idf u0 f = PRE ++ llin_task (idf (u0 + k)) (u0 + k) T ++ POST /\
    Forall (fun m => lm_uuid m <> u0 + k) PRE /\ Forall (fun m => lm_uuid m <> u0 + k) POST.
Proof.
  induction f as [|T0 r IH]; intros u0 k T H; [destruct k; discriminate|].
  destruct k as [|k]; cbn [nth_error llin_from] in *.
  - injection H as ->. rewrite Nat.add_0_r. exists [], (llin_from idf (S u0) r). split; [reflexivity|].
    split; [constructor|]. apply Forall_forall. intros m Hm. apply llin_from_uuid in Hm. lia.
  - destruct (IH (S u0) k T H) as (PRE & POST & E & HP & HQ).
    replace (S u0 + k) with (u0 + S k) in * by lia.
    exists (llin_task (idf u0) u0 T0 ++ PRE), POST. split; [rewrite E, <- app_assoc; reflexivity|].
    split; [|exact HQ]. apply Forall_app. split; [|exact HP].
    apply Forall_forall. intros m Hm. apply llin_task_uuid in Hm. lia.
Qed.

(* every subtree of every action task of the forest is a block of the whole log *)
Lemma Seg_llin f u T l c :
  nth_error f u = Some T -> is_act T = true -> subtree_at T l = Some c ->
  Seg (lin_id f u) (llin f) u l c.
Proof.
  intros HT HA Hl. change l with ([] ++ l). eapply Seg_sub; [|exact Hl].
  destruct (from_task_split (lin_id f) f 0 u T HT) as (PRE & POST & E & HP & HQ). cbn [Nat.add] in *.
  destruct T as [|ty st ch]; [discriminate|]. cbn [llin_task] in E.
  exists PRE, POST. split; [exact E|].
  split; (eapply Forall_impl; [|eassumption]); intros m N E'; contradiction.
Qed.

(* ---- the actions of a forest, in pre-order ----------------------------------------- *)

Fixpoint acts_tree (l : level) (t : tree) : list (level * tree) :=
  match t with
  | TMsg _ => []
  | TAct ty st ch =>
      (l, t) ::
      (fix go (pos : positive) (cs : list tree) : list (level * tree) :=
         match cs with
         | [] => []
         | c :: r => acts_tree (l ++ [pos]) c ++ go (Pos.succ pos) r
         end) 2%positive ch
  end.

Fixpoint acts_list (l : level) (pos : positive) (cs : list tree) : list (level * tree) :=
  match cs with
  | [] => []
  | c :: r => acts_tree (l ++ [pos]) c ++ acts_list l (Pos.succ pos) r
  end.

Lemma acts_tree_act l ty st ch :
  acts_tree l (TAct ty st ch) = (l, TAct ty st ch) :: acts_list l 2 ch.
Proof.
  cbn [acts_tree]. f_equal. generalize 2%positive.
  induction ch as [|c r IH]; intros pos; cbn [acts_list]; [reflexivity|]. now rewrite IH.
Qed.

(* (uuid, level prefix, action) *)
Fixpoint acts_from (u : nat) (f : forest) : list (nat * level * tree) :=
  match f with
  | [] => []
  | t :: r => map (fun la => (u, fst la, snd la)) (acts_tree [] t) ++ acts_from (S u) r
  end.

Definition acts (f : forest) : list (nat * level * tree) := acts_from 0 f.

Definition has_type (ty : positive) (t : tree) : bool :=
  match t with TAct ty' _ _ => Pos.eqb ty' ty | TMsg _ => false end.

Lemma acts_list_In l cs : forall pos x,
  In x (acts_list l pos cs) <-> exists p c, child_from pos cs p = Some c /\ In x (acts_tree (l ++ [p]) c).
Proof.
  induction cs as [|c0 r IH]; intros pos x; cbn [acts_list child_from].
  - split; [intros []|]. intros (p & c & H & _). discriminate.
  - rewrite in_app_iff, IH. split.
    + intros [H|(p & c & H1 & H2)].
      * exists pos, c0. now rewrite Pos.eqb_refl.
      * exists p, c. split; [|exact H2]. pose proof (child_from_range _ _ _ _ H1) as [Hle _].
        destruct (Pos.eqb_spec p pos); [lia|exact H1].
    + intros (p & c & H1 & H2). destruct (Pos.eqb_spec p pos) as [->|N].
      * injection H1 as <-. now left.
      * right. now exists p, c.
Qed.

Lemma acts_tree_In t : forall l x,
  In x (acts_tree l t) <->
  exists rel, fst x = l ++ rel /\ subtree_at t rel = Some (snd x) /\ is_act (snd x) = true.
Proof.
  induction t as [ty|ty st ch IHch] using tree_ind'; intros l x.
  - cbn [acts_tree In]. split; [intros []|]. intros (rel & _ & H & HA).
    destruct rel; cbn in H; [|discriminate]. injection H as E. rewrite <- E in HA. discriminate.
  - rewrite acts_tree_act. cbn [In]. rewrite acts_list_In. rewrite Forall_forall in IHch. split.
    + intros [<-|(p & c & H1 & H2)].
      * exists []. cbn. now rewrite app_nil_r.
      * apply (IHch c (child_from_in _ _ _ _ H1)) in H2 as (rel & E & Hs & HA).
        exists (p :: rel). rewrite E, <- app_assoc. cbn [app subtree_at]. rewrite H1. auto.
    + intros (rel & E & Hs & HA). destruct rel as [|p rel].
      * left. cbn in Hs. injection Hs as Hs. rewrite app_nil_r in E. destruct x; cbn in *; congruence.
      * right. cbn [subtree_at] in Hs. destruct (child_from 2 ch p) as [c|] eqn:Ec; [|discriminate].
        exists p, c. split; [exact Ec|]. apply (IHch c (child_from_in _ _ _ _ Ec)).
        exists rel. rewrite E, <- app_assoc. auto.
Qed.

Lemma acts_from_In f : forall u0 u l a,
  In (u, l, a) (acts_from u0 f) <->
  exists k T, u = u0 + k /\ nth_error f k = Some T /\ subtree_at T l = Some a /\ is_act a = true.
Proof.
  induction f as [|T0 r IH]; intros u0 u l a; cbn [acts_from].
  - split; [intros []|]. intros (k & T & _ & H & _). destruct k; discriminate.
  - rewrite in_app_iff, IH, in_map_iff. split.
    + intros [((l', a') & E & H)|(k & T & -> & H1 & H2)].
      * cbn in E. injection E as <- <- <-. apply acts_tree_In in H as (rel & E & Hs & HA). cbn in *. subst l'.
        exists 0, T0. rewrite Nat.add_0_r. auto.
      * exists (S k), T. split; [lia|]. auto.
    + intros (k & T & -> & H1 & H2 & H3). destruct k as [|k].
      * left. cbn in H1. injection H1 as ->. exists (l, a). rewrite Nat.add_0_r. split; [reflexivity|].
        apply acts_tree_In. exists l. auto.
      * right. exists k, T. split; [lia|]. auto.
Qed.

(* the elements of [acts f] are exactly the actions occurring in f *)
Lemma acts_In f u l a :
  In (u, l, a) (acts f) <->
  exists T, nth_error f u = Some T /\ subtree_at T l = Some a /\ is_act a = true.
Proof.
  unfold acts. rewrite acts_from_In. cbn [Nat.add]. split.
  - intros (k & T & -> & H). eauto.
  - intros (T & H). exists u, T. auto.
Qed.

Lemma subtree_act_root T l a : subtree_at T l = Some a -> is_act a = true -> is_act T = true.
Proof.
  destruct l; cbn [subtree_at]; [intros E; injection E as ->; auto|].
  destruct T; [discriminate|reflexivity].
Qed.
