(* C09 — parsing is order-independent and detects task completeness exactly:
   the theorems, for all forests, all subsets and all arrival orders. *)
From Coq Require Import List PArith Bool Arith Lia Sorted Permutation.
Require Import Eliot.Base.Level Eliot.Model.Parser Eliot.Model.Forest.
Require Import Eliot.Proofs.ParserBasics Eliot.Proofs.ParserOrder Eliot.Proofs.ParserInterleave.
Require Import Eliot.Proofs.ParserTree Eliot.Proofs.ParserStep Eliot.Proofs.ParserRun.
Import ListNotations.

(* every message of task u in the forest is among ms / some message of u is *)
Definition all_received (f : forest) (u : nat) (ms : list pmsg) : Prop :=
  forall m, In m (lin f) -> pm_uuid m = u -> In m ms.
Definition some_received (u : nat) (ms : list pmsg) : Prop :=
  exists m, In m ms /\ pm_uuid m = u.

Lemma tfull_all f ms u T :
  incl ms (lin f) -> nth_error f u = Some T -> (tfull f ms u T = true <-> all_received f u ms).
Proof.
  intros Hin HT. unfold tfull. rewrite forallb_forall. split.
  - intros H m Hm EU. pose proof Hm as Hm0. apply lin_In in Hm as (T' & H1 & H2). rewrite EU in *.
    rewrite HT in H1. injection H1 as <-. apply H in H2. apply recv_true in H2 as (m' & H3 & H4 & H5).
    rewrite <- EU in H4.
    now rewrite <- (lin_key_inj f m' m (Hin _ H3) Hm0 H4 H5).
  - intros H m Hm. destruct (lin_In_task f u T m HT Hm) as [H1 H2].
    apply recv_true. exists m. auto.
Qed.

Lemma tpresent_some f ms u T :
  incl ms (lin f) -> nth_error f u = Some T -> (tpresent f ms u T = true <-> some_received u ms).
Proof.
  intros Hin HT. unfold tpresent. rewrite existsb_exists. split.
  - intros (m' & H1 & H2). apply recv_true in H2 as (m & H3 & H4 & _). now exists m.
  - intros (m & H1 & H2). exists m. split.
    + apply Hin in H1. apply lin_In in H1 as (T' & H3 & H4). rewrite H2 in *. congruence.
    + apply recv_true. exists m. auto.
Qed.

(* ---- 1. no error ---------------------------------------------------------------- *)

Theorem parser_no_error f ms :
  NoDup ms -> incl ms (lin f) -> exists r, parse_loop [] ms [] = POk r.
Proof.
  intros ND Hin. destruct (run_top f ms ND Hin) as (cs & p & H & _).
  rewrite parse_loop_trace, H. eauto.
Qed.

(* ---- 2. order independence -------------------------------------------------------- *)

Lemma PInv_unique f pre pre' p p' :
  (forall m, In m pre <-> In m pre') -> PInv f pre p -> PInv f pre' p' -> p = p'.
Proof.
  intros E [S H] [S' H']. apply usorted_ext; try assumption. intros u.
  assert (R : forall l, recv pre u l = recv pre' u l) by (intros; now apply recv_same_set).
  specialize (H u). specialize (H' u). unfold PC in H, H'.
  destruct (ulookup u p) as [t|], (ulookup u p') as [t'|].
  - destruct H as (T & H1 & H2 & H3 & _), H' as (T' & H1' & _ & H3' & _).
    rewrite H1 in H1'. injection H1' as <-. f_equal.
    eapply Inv_unique; [|exact H3']. eapply Inv_ext; [|exact H3]. exact R.
  - destruct H as (T & H1 & _ & _ & H4 & H5). exfalso.
    rewrite (tpresent_ext f pre pre') in H4 by exact R. rewrite (tfull_ext f pre pre') in H5 by exact R.
    destruct (H' T H1); congruence.
  - destruct H' as (T & H1 & _ & _ & H4 & H5). exfalso.
    rewrite <- (tpresent_ext f pre pre') in H4 by exact R. rewrite <- (tfull_ext f pre pre') in H5 by exact R.
    destruct (H T H1); congruence.
  - reflexivity.
Qed.

Definition tfullb (f : forest) (pre : list pmsg) (u : nat) : bool :=
  match nth_error f u with Some T => tfull f pre u T | None => false end.

(* uuids of the tasks completed while processing ms after pre, in completion order *)
Fixpoint cu (f : forest) (pre ms : list pmsg) : list nat :=
  match ms with
  | [] => []
  | m :: r => (if tfullb f (m :: pre) (pm_uuid m) then [pm_uuid m] else []) ++ cu f (m :: pre) r
  end.

Lemma trace_cu f ms : forall pre cs,
  (forall m, In m ms -> In m (lin f)) -> trace_ok f pre ms cs ->
  Forall2 (final_task f) (cu f pre ms) (concat cs).
Proof.
  induction ms as [|m r IH]; intros pre [|c cr] Hin HT; cbn [trace_ok] in HT; try contradiction.
  - constructor.
  - destruct HT as [HR HT]. cbn [cu concat].
    pose proof (Hin m (or_introl eq_refl)) as Hm. apply lin_In in Hm as (T & H1 & _).
    specialize (HR T H1). unfold tfullb. rewrite H1.
    specialize (IH (m :: pre) cr (fun x Hx => Hin x (or_intror Hx)) HT).
    destruct (tfull f (m :: pre) (pm_uuid m) T).
    + destruct HR as (t & -> & Ht). cbn [app]. now constructor.
    + subst c. exact IH.
Qed.

Lemma tfullb_mono f pre x u : tfullb f pre u = true -> tfullb f (x ++ pre) u = true.
Proof.
  unfold tfullb. destruct (nth_error f u) as [T|]; [|auto]. unfold tfull.
  rewrite !forallb_forall. intros H m Hm. apply recv_mono. now apply H.
Qed.

Lemma tfullb_other f pre m u : pm_uuid m <> u -> tfullb f (m :: pre) u = tfullb f pre u.
Proof.
  intros N. unfold tfullb. destruct (nth_error f u) as [T|]; [|reflexivity].
  apply tfull_ext. intros l. now apply recv_cons_other.
Qed.

Lemma tfullb_missing f pre m : In m (lin f) -> recv pre (pm_uuid m) (pm_level m) = false ->
  tfullb f pre (pm_uuid m) = false.
Proof.
  intros Hm HR. apply lin_In in Hm as (T & H1 & H2). unfold tfullb. rewrite H1.
  destruct (tfull f pre (pm_uuid m) T) eqn:E; [|reflexivity].
  unfold tfull in E. rewrite forallb_forall in E. rewrite (E m H2) in HR. discriminate.
Qed.

Lemma cu_in f ms : forall pre u,
  keys_fresh pre ms -> (forall m, In m ms -> In m (lin f)) ->
  (In u (cu f pre ms) <-> tfullb f (rev ms ++ pre) u = true /\ tfullb f pre u = false).
Proof.
  induction ms as [|m r IH]; intros pre u HF Hin; cbn [cu rev app].
  - split; [intros []|]. intros [H1 H2]. congruence.
  - destruct HF as [HR HF]. rewrite in_app_iff.
    rewrite (IH (m :: pre) u HF (fun x Hx => Hin x (or_intror Hx))).
    rewrite <- app_assoc. cbn [app].
    pose proof (tfullb_missing f pre m (Hin m (or_introl eq_refl)) HR) as HM.
    split.
    + intros [H|[H1 H2]].
      * destruct (tfullb f (m :: pre) (pm_uuid m)) eqn:E; [|destruct H].
        destruct H as [<-|[]]. split; [|exact HM]. now apply tfullb_mono.
      * split; [exact H1|]. destruct (tfullb f pre u) eqn:E; [|reflexivity].
        apply (tfullb_mono f pre [m]) in E. cbn in E. congruence.
    + intros [H1 H2]. destruct (tfullb f (m :: pre) u) eqn:E; [|now right].
      left. destruct (Nat.eq_dec (pm_uuid m) u) as [<-|N].
      * rewrite E. now left.
      * rewrite tfullb_other in E by exact N. congruence.
Qed.

Lemma cu_nodup f ms : forall pre,
  keys_fresh pre ms -> (forall m, In m ms -> In m (lin f)) -> NoDup (cu f pre ms).
Proof.
  induction ms as [|m r IH]; intros pre HF Hin; cbn [cu]; [constructor|].
  destruct HF as [HR HF].
  specialize (IH (m :: pre) HF (fun x Hx => Hin x (or_intror Hx))).
  destruct (tfullb f (m :: pre) (pm_uuid m)) eqn:E; cbn [app]; [|exact IH].
  constructor; [|exact IH]. intros H.
  apply (cu_in f r (m :: pre) _ HF (fun x Hx => Hin x (or_intror Hx))) in H as [_ H]. congruence.
Qed.

Lemma Forall2_functional_eq {A B} (R : A -> B -> Prop) l : forall d d',
  (forall a b b', R a b -> R a b' -> b = b') -> Forall2 R l d -> Forall2 R l d' -> d = d'.
Proof.
  induction l as [|a l IH]; intros d d' F H H'; inversion H; inversion H'; subst; [reflexivity|].
  f_equal; [eapply F; eassumption|now apply IH].
Qed.

Lemma Forall2_total {A B} (R : A -> B -> Prop) l :
  (forall a, In a l -> exists b, R a b) -> exists d, Forall2 R l d.
Proof.
  induction l as [|a l IH]; intros H; [exists []; constructor|].
  destruct (H a (or_introl eq_refl)) as [b Hb].
  destruct IH as [d Hd]; [intros; apply H; now right|]. exists (b :: d). now constructor.
Qed.

Lemma Forall2_In_l {A B} (R : A -> B -> Prop) l d a : Forall2 R l d -> In a l -> exists b, R a b.
Proof.
  induction 1 as [|x y l d Hxy H IH]; [intros []|]. intros [<-|Hin]; [eauto|now apply IH].
Qed.

Lemma Forall2_perm_functional {A B} (R : A -> B -> Prop) :
  (forall a b b', R a b -> R a b' -> b = b') ->
  forall l l', Permutation l l' -> forall d d', Forall2 R l d -> Forall2 R l' d' -> Permutation d d'.
Proof.
  intros F l l' P. induction P as [|x l l' P IH|x y l|l l2 l3 P1 IH1 P2 IH2]; intros d d' H H'.
  - inversion H; inversion H'; subst. constructor.
  - inversion H; inversion H'; subst.
    match goal with H1 : R x ?b, H2 : R x ?b' |- _ => rewrite (F x b b' H1 H2) end.
    constructor. now apply IH.
  - inversion H as [|? b1 ? d1 Hb1 Hd1]; subst. inversion Hd1 as [|? b2 ? d2 Hb2 Hd2]; subst.
    inversion H' as [|? c1 ? e1 Hc1 He1]; subst. inversion He1 as [|? c2 ? e2 Hc2 He2]; subst.
    rewrite (F _ _ _ Hb1 Hc2), (F _ _ _ Hb2 Hc1).
    rewrite (Forall2_functional_eq R l d2 e2 F Hd2 He2). apply perm_swap.
  - destruct (Forall2_total R l2) as [d2 H2].
    { intros a Ha. apply (Forall2_In_l R l d a H). eapply Permutation_in; [symmetry; exact P1|exact Ha]. }
    eapply perm_trans; [apply (IH1 d d2 H H2)|apply (IH2 d2 d' H2 H')].
Qed.

Theorem parser_order_independent f ms ms' :
  NoDup ms -> incl ms (lin f) -> Permutation ms ms' ->
  exists d d' p,
    parse_loop [] ms [] = POk (d, p) /\ parse_loop [] ms' [] = POk (d', p) /\ Permutation d d'.
Proof.
  intros ND Hin P.
  assert (ND' : NoDup ms') by (eapply Permutation_NoDup; eassumption).
  assert (Hin' : incl ms' (lin f)).
  { intros m Hm. apply Hin. eapply Permutation_in; [symmetry; exact P|exact Hm]. }
  destruct (run_top f ms ND Hin) as (cs & p & H1 & H2 & H3).
  destruct (run_top f ms' ND' Hin') as (cs' & p' & H1' & H2' & H3').
  assert (ES : forall m, In m (rev ms) <-> In m (rev ms')).
  { intros m. rewrite <- !in_rev. split; apply Permutation_in; [exact P|symmetry; exact P]. }
  assert (p' = p) by (symmetry; eapply PInv_unique; eassumption). subst p'.
  exists (concat cs), (concat cs'), p. rewrite !parse_loop_trace, H1, H1'. cbn [app].
  split; [reflexivity|]. split; [reflexivity|].
  pose proof (keys_fresh_intro f ms [] Hin ND) as KF.
  pose proof (keys_fresh_intro f ms' [] Hin' ND') as KF'.
  apply (Forall2_perm_functional (final_task f) (final_task_unique f) (cu f [] ms) (cu f [] ms')).
  - apply NoDup_Permutation; try (apply cu_nodup; assumption).
    intros u. rewrite (cu_in f ms [] u KF Hin), (cu_in f ms' [] u KF' Hin').
    rewrite !app_nil_r.
    replace (tfullb f (rev ms') u) with (tfullb f (rev ms) u); [reflexivity|].
    unfold tfullb. destruct (nth_error f u); [|reflexivity]. apply tfull_ext. intros l.
    now apply recv_same_set.
  - apply trace_cu; assumption.
  - apply trace_cu; assumption.
Qed.

(* for one task in isolation the results are equal, not just permutations *)
Corollary parser_order_independent_single f ms ms' u :
  NoDup ms -> incl ms (lin f) -> Permutation ms ms' -> (forall m, In m ms -> pm_uuid m = u) ->
  exists d p, parse_loop [] ms [] = POk (d, p) /\ parse_loop [] ms' [] = POk (d, p).
Proof.
  intros ND Hin P HU.
  destruct (parser_order_independent f ms ms' ND Hin P) as (d & d' & p & H1 & H2 & HP).
  exists d, p. split; [exact H1|]. rewrite H2. f_equal. f_equal.
  (* at most one task is returned *)
  assert (ND' : NoDup ms') by (eapply Permutation_NoDup; eassumption).
  assert (Hin' : incl ms' (lin f)).
  { intros m Hm. apply Hin. eapply Permutation_in; [symmetry; exact P|exact Hm]. }
  assert (HU' : forall m, In m ms' -> pm_uuid m = u).
  { intros m Hm. apply HU. eapply Permutation_in; [symmetry; exact P|exact Hm]. }
  assert (L : forall xs, NoDup xs -> incl xs (lin f) -> (forall m, In m xs -> pm_uuid m = u) ->
              forall ds q, parse_loop [] xs [] = POk (ds, q) -> ds = [] \/ exists t, ds = [t]).
  { intros xs NDx Hinx HUx ds q Hds.
    destruct (run_top f xs NDx Hinx) as (cs & q' & E1 & _ & E3).
    rewrite parse_loop_trace, E1 in Hds. injection Hds as <- <-. cbn [app].
    pose proof (trace_cu f xs [] cs Hinx E3) as F2.
    pose proof (cu_nodup f xs [] (keys_fresh_intro f xs [] Hinx NDx) Hinx) as NDc.
    assert (HC : forall v, In v (cu f [] xs) -> v = u).
    { clear - HUx. generalize (@nil pmsg). induction xs as [|m r IH]; intros pre v; cbn [cu]; [intros []|].
      rewrite in_app_iff. intros [H|H].
      - destruct (tfullb f (m :: pre) (pm_uuid m)); [|destruct H]. destruct H as [<-|[]]. apply HUx. now left.
      - eapply IH; [|exact H]. intros; apply HUx; now right. }
    destruct (cu f [] xs) as [|a [|b r]].
    - inversion F2. now left.
    - inversion F2 as [|? t ? d0 ? Hd0]; subst. inversion Hd0; subst. right. now exists t.
    - exfalso. rewrite (HC a), (HC b) in NDc by (cbn; auto).
      inversion NDc as [|? ? Hn _]; subst. apply Hn. now left. }
  destruct (L ms ND Hin HU d p H1) as [->|(t & ->)].
  - apply Permutation_nil in HP. now subst.
  - apply Permutation_length_1_inv in HP. now subst.
Qed.

(* ---- 3. completeness is detected exactly ------------------------------------------- *)

Lemma trace_nth f ms : forall pre cs,
  trace_ok f pre ms cs -> forall i m, nth_error ms i = Some m ->
  exists c, nth_error cs i = Some c /\ returned f (rev (firstn i ms) ++ pre) m c.
Proof.
  induction ms as [|a r IH]; intros pre [|c cr] HT i m Hi; cbn [trace_ok] in HT; try contradiction.
  - destruct i; discriminate.
  - destruct HT as [HR HT]. destruct i as [|i]; cbn in Hi.
    + injection Hi as <-. exists c. split; [reflexivity|exact HR].
    + destruct (IH (a :: pre) cr HT i m Hi) as (c' & H1 & H2). exists c'. split; [exact H1|].
      cbn [firstn rev]. now rewrite <- app_assoc.
Qed.

Lemma firstn_S_nth {A} (l : list A) : forall i x, nth_error l i = Some x ->
  forall y, In y (firstn (S i) l) <-> y = x \/ In y (firstn i l).
Proof.
  induction l as [|a l IH]; intros i x Hi y; destruct i as [|i]; try discriminate.
  - cbn in Hi. injection Hi as ->. cbn. intuition auto.
  - cbn in Hi. cbn [firstn In]. rewrite (IH i x Hi y). cbn [firstn In]. tauto.
Qed.

Lemma In_firstn_nth {A} (l : list A) : forall n y, In y (firstn n l) -> exists k, k < n /\ nth_error l k = Some y.
Proof.
  induction l as [|a l IH]; intros n y; destruct n as [|n]; cbn; try tauto.
  intros [<-|H]; [exists 0; split; [lia|reflexivity]|].
  apply IH in H as (k & H1 & H2). exists (S k). split; [lia|exact H2].
Qed.

Lemma firstn_incl {A} (l : list A) n : incl (firstn n l) l.
Proof.
  intros y H. apply In_firstn_nth in H as (k & _ & H). eapply nth_error_In. exact H.
Qed.

Theorem parser_complete_exact f ms :
  NoDup ms -> incl ms (lin f) ->
  exists cs p,
    parse_trace [] ms = POk (cs, p) /\ parse_loop [] ms [] = POk (concat cs, p) /\
    length cs = length ms /\
    (* the task of message i is returned at step i iff all its messages have arrived by then *)
    (forall i m, nth_error ms i = Some m ->
       exists c, nth_error cs i = Some c /\
         (all_received f (pm_uuid m) (firstn (S i) ms) ->
            exists t, c = [t] /\ final_task f (pm_uuid m) t /\ task_complete t = true) /\
         (~ all_received f (pm_uuid m) (firstn (S i) ms) -> c = [])) /\
    (* nothing is returned before the last message of the task *)
    (forall i j m m', i < j -> nth_error ms i = Some m -> nth_error ms j = Some m' ->
       pm_uuid m = pm_uuid m' -> nth_error cs i = Some []) /\
    (* what remains: the tasks with some but not all messages, as their partial trees *)
    (forall u, ulookup u p <> None <-> some_received u ms /\ ~ all_received f u ms) /\
    (forall u t, ulookup u p = Some t ->
       exists T, nth_error f u = Some T /\ is_act T = true /\ task_complete t = false /\
                 task_root t = Some (node_of (lin_id f u) u (recv ms u) [] T)).
Proof.
  intros ND Hin.
  destruct (run_top f ms ND Hin) as (cs & p & H1 & [HS HP] & H3).
  exists cs, p. split; [exact H1|]. split; [rewrite parse_loop_trace, H1; reflexivity|].
  split; [eapply parse_trace_length; exact H1|].
  assert (Step : forall i m, nth_error ms i = Some m ->
            exists c, nth_error cs i = Some c /\
              (all_received f (pm_uuid m) (firstn (S i) ms) ->
                 exists t, c = [t] /\ final_task f (pm_uuid m) t /\ task_complete t = true) /\
              (~ all_received f (pm_uuid m) (firstn (S i) ms) -> c = [])).
  { intros i m Hi. destruct (trace_nth f ms [] cs H3 i m Hi) as (c & Hc & HR).
    exists c. split; [exact Hc|]. rewrite app_nil_r in HR.
    pose proof (Hin m (nth_error_In _ _ Hi)) as Hm. apply lin_In in Hm as (T & HT & HmT).
    specialize (HR T HT).
    assert (EQ : tfull f (m :: rev (firstn i ms)) (pm_uuid m) T = true <->
                 all_received f (pm_uuid m) (firstn (S i) ms)).
    { rewrite <- (tfull_all f (firstn (S i) ms) (pm_uuid m) T); [|intros y Hy; apply Hin; eapply firstn_incl; exact Hy|exact HT].
      rewrite (tfull_ext f (m :: rev (firstn i ms)) (firstn (S i) ms)); [reflexivity|].
      intros l. apply recv_same_set. intros y. rewrite (firstn_S_nth ms i m Hi y). cbn [In]. rewrite <- in_rev.
      intuition auto. }
    destruct (tfull f (m :: rev (firstn i ms)) (pm_uuid m) T) eqn:E.
    - split; [|intros N; exfalso; apply N; now apply EQ].
      intros _. destruct HR as (t & -> & Ht). exists t. split; [reflexivity|]. split; [exact Ht|].
      destruct Ht as (T' & HT' & Ht). rewrite HT in HT'. injection HT' as <-.
      destruct T as [ty|ty st ch]; [now subst t|].
      rewrite (Inv_complete _ _ (TAct ty st ch) eq_refl _ _ Ht). unfold full. apply forallb_forall. reflexivity.
    - split; [|intros _; exact HR]. intros A. apply EQ in A. discriminate. }
  split; [exact Step|]. split.
  { intros i j m m' Hij Hi Hj EU. destruct (Step i m Hi) as (c & Hc & _ & Hn).
    rewrite Hc. f_equal. apply Hn. intros A.
    assert (Hm' : In m' (firstn (S i) ms)).
    { apply A; [apply Hin; eapply nth_error_In; exact Hj|now symmetry]. }
    apply In_firstn_nth in Hm' as (k & Hk & Hk').
    rewrite NoDup_nth_error in ND.
    assert (k = j); [|lia]. apply ND; [apply nth_error_Some; congruence|congruence]. }
  split.
  { intros u. specialize (HP u). unfold PC in HP.
    assert (RS : forall T, tpresent f (rev ms) u T = tpresent f ms u T).
    { intros T. apply tpresent_ext. intros l. apply recv_same_set. intros y. now rewrite <- in_rev. }
    assert (RF : forall T, tfull f (rev ms) u T = tfull f ms u T).
    { intros T. apply tfull_ext. intros l. apply recv_same_set. intros y. now rewrite <- in_rev. }
    destruct (ulookup u p) as [t|].
    - destruct HP as (T & HT & _ & _ & H4 & H5). rewrite RS in H4. rewrite RF in H5.
      split; [|intros _; discriminate]. intros _. split.
      + now apply (tpresent_some f ms u T Hin HT).
      + intros A. apply (tfull_all f ms u T Hin HT) in A. congruence.
    - split; [intros N; now contradiction N|]. intros [(m & Hm & EU) NA]. exfalso.
      pose proof (Hin m Hm) as Hm'. apply lin_In in Hm' as (T & HT & _). rewrite EU in HT.
      destruct (HP T HT) as [H|H].
      + rewrite RS in H. assert (tpresent f ms u T = true) by (apply (tpresent_some f ms u T Hin HT); now exists m).
        congruence.
      + rewrite RF in H. apply NA. now apply (tfull_all f ms u T Hin HT). }
  { intros u t Hu. specialize (HP u). unfold PC in HP. rewrite Hu in HP.
    destruct HP as (T & HT & HA & HI & H4 & H5). exists T. split; [exact HT|]. split; [exact HA|].
    assert (HI' : Inv (lin_id f u) u T (recv ms u) t).
    { eapply Inv_ext; [|exact HI]. intros l. apply recv_same_set. intros y. now rewrite <- in_rev. }
    split.
    - rewrite (Inv_complete _ _ _ HA _ _ HI). now rewrite <- (tfull_act f (rev ms) u T HA).
    - unfold task_root. rewrite (inv_nodes _ _ _ _ _ HI'). unfold nodes_spec. cbn [subtree_at].
      rewrite HA. cbn [andb].
      rewrite <- (tpresent_act f ms u T HA).
      replace (tpresent f ms u T) with true; [reflexivity|].
      rewrite <- H4. apply tpresent_ext. intros l. apply recv_same_set. intros y. now rewrite <- in_rev. }
Qed.

(* the root of a completed task is the whole tree *)
Lemma final_task_root f u t T :
  final_task f u t -> nth_error f u = Some T -> is_act T = true ->
  task_root t = Some (node_of (lin_id f u) u (fun _ => true) [] T).
Proof.
  intros (T' & HT' & Ht) HT HA. rewrite HT in HT'. injection HT' as <-.
  destruct T as [|ty st ch]; [discriminate|].
  unfold task_root. rewrite (inv_nodes _ _ _ _ _ Ht). unfold nodes_spec. cbn [subtree_at is_act andb].
  replace (present (lin_id f u) u (fun _ => true) [] (TAct ty st ch)) with true
    by (symmetry; unfold present; rewrite lin_tree_act; reflexivity).
  reflexivity.
Qed.

(* ---- 4. interleaving ------------------------------------------------------------------ *)

Theorem parser_interleaving f ms u :
  NoDup ms -> incl ms (lin f) ->
  exists cs p,
    parse_trace [] ms = POk (cs, p) /\
    parse_trace [] (only u ms) = POk (select u ms cs, restrict p u).
Proof.
  intros ND Hin. destruct (run_top f ms ND Hin) as (cs & p & H & _).
  exists cs, p. split; [exact H|]. now apply interleaving_alone.
Qed.

(* ---- examples: a nested action, a remote-style sub-action (type 4), a
   context-less message task and an empty action; 10 of the 12 messages, shuffled ---- *)

Definition ex_f : forest :=
  [ TAct 10 PSucceeded [TMsg 11; TAct 12 PFailed [TMsg 13; TAct 4 PSucceeded []]; TMsg 11];
    TMsg 10;
    TAct 11 PFailed [] ].

Definition ex_pick (ix : list nat) : list pmsg :=
  map (fun i => nth i (lin ex_f) (mkPmsg 0 [] None None 0)) ix.

(* messages 1 (a child message of task 0) and 7 are missing *)
Definition ex_ms : list pmsg := ex_pick [11; 5; 0; 10; 3; 8; 6; 2; 9; 4].
Definition ex_ms' : list pmsg := rev ex_ms.

Example ex_ids : map pm_id (lin ex_f) = seq 0 12.
Proof. vm_compute. reflexivity. Qed.

Example ex_hyp : NoDup ex_ms /\ incl ex_ms (lin ex_f) /\ Permutation ex_ms ex_ms'.
Proof.
  split; [|split].
  - vm_compute. repeat (constructor; [cbn; intuition discriminate|]). constructor.
  - intros m Hm. vm_compute in Hm. vm_compute. intuition (subst; auto 20).
  - apply Permutation_rev.
Qed.

Example ex_no_error : exists r, parse_loop [] ex_ms [] = POk r.
Proof. vm_compute. eexists. reflexivity. Qed.

(* same remaining map, the completed tasks (task 2 then task 1 / task 1 then task 2) permuted *)
Example ex_order :
  match parse_loop [] ex_ms [], parse_loop [] ex_ms' [] with
  | POk (d, p), POk (d', p') => p = p' /\ d' = rev d /\ length d = 2 /\ map fst p = [0]
  | _, _ => False
  end.
Proof. vm_compute. repeat split; reflexivity. Qed.

(* task 2 is returned at step 3 when its second message arrives, task 1 (one
   message) at step 8, task 0 never (two messages missing) *)
Example ex_complete :
  match parse_trace [] ex_ms with
  | POk (cs, p) => map (@length task) cs = [0; 0; 0; 1; 0; 0; 0; 0; 1; 0] /\ map fst p = [0]
  | PErr _ => False
  end.
Proof. vm_compute. split; reflexivity. Qed.

Example ex_interleaving :
  match parse_trace [] ex_ms with
  | POk (cs, p) => parse_trace [] (only 0 ex_ms) = POk (select 0 ex_ms cs, restrict p 0)
                   /\ parse_trace [] (only 2 ex_ms) = POk (select 2 ex_ms cs, restrict p 2)
  | PErr _ => False
  end.
Proof. vm_compute. split; reflexivity. Qed.

(* all messages, in reverse emission order: everything completes *)
Example ex_all :
  match parse_loop [] (rev (lin ex_f)) [] with
  | POk (d, p) => p = [] /\ length d = 3
  | PErr _ => False
  end.
Proof. vm_compute. split; reflexivity. Qed.

(* the hypotheses of [task_add_step] on task 0 of the example, nothing received yet,
   for its message number 3 *)
Example ex_step_hyp :
  let T := nth 0 ex_f (TMsg 1) in
  is_act T = true /\ Inv (lin_id ex_f 0) 0 T (fun _ => false) empty_task /\
  In (nth 3 (lin ex_f) (mkPmsg 0 [] None None 0)) (lin_tree (lin_id ex_f 0) 0 [] T).
Proof.
  split; [reflexivity|]. split; [now apply Inv_empty|]. vm_compute. auto 10.
Qed.
