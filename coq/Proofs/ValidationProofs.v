(* Theorems about Model/Validation.v (property C14). *)
From Coq Require Import List ZArith Bool String Ascii Arith Lia.
Require Import Eliot.Model.Validation.
Import ListNotations.
Local Open Scope string_scope.
Local Open Scope list_scope.

(* ------------------------------------------------------------------ keys, dicts *)
Lemma mkey_eqb_eq a b : mkey_eqb a b = true <-> a = b.
Proof.
  destruct a as [s|u s|n], b as [t|v t|m]; cbn; split; intros H; try discriminate; try congruence.
  - apply String.eqb_eq in H. now subst.
  - inversion H. apply String.eqb_refl.
  - apply andb_true_iff in H as [H1 H2]. apply Bool.eqb_prop in H1. apply String.eqb_eq in H2. now subst.
  - inversion H. subst. now rewrite Bool.eqb_reflx, String.eqb_refl.
  - apply Nat.eqb_eq in H. now subst.
  - inversion H. apply Nat.eqb_refl.
Qed.

Lemma mkey_eqb_refl a : mkey_eqb a a = true.
Proof. now apply mkey_eqb_eq. Qed.

Lemma mkey_eqb_neq a b : a <> b -> mkey_eqb a b = false.
Proof.
  intros H. destruct (mkey_eqb a b) eqn:E; auto. apply mkey_eqb_eq in E. contradiction.
Qed.

Lemma mem_str_In s l : mem_str s l = true <-> In s l.
Proof.
  induction l as [|x l IH]; cbn.
  - split; [discriminate | tauto].
  - rewrite orb_true_iff, IH, String.eqb_eq. split; intros [H|H]; auto.
Qed.

Lemma mem_str_false s l : mem_str s l = false <-> ~ In s l.
Proof.
  rewrite <- mem_str_In. destruct (mem_str s l); split; intros; congruence.
Qed.

Lemma mget_mset_eq k v m : mget k (mset k v m) = Some v.
Proof.
  induction m as [|[k' v'] m IH]; cbn.
  - now rewrite mkey_eqb_refl.
  - destruct (mkey_eqb k k') eqn:E; cbn; [now rewrite mkey_eqb_refl | now rewrite E].
Qed.

Lemma mget_mset_neq k k' v m : k <> k' -> mget k (mset k' v m) = mget k m.
Proof.
  intros N. induction m as [|[k2 v2] m IH]; cbn.
  - now rewrite (mkey_eqb_neq _ _ N).
  - destruct (mkey_eqb k' k2) eqn:E; cbn.
    + apply mkey_eqb_eq in E. subst k2. now rewrite (mkey_eqb_neq _ _ N).
    + now rewrite IH.
Qed.

Lemma in_mset k v k' v' m : In (k, v) (mset k' v' m) -> (k = k' /\ v = v') \/ In (k, v) m.
Proof.
  induction m as [|[k2 v2] m IH]; cbn.
  - intros [H|[]]. inversion H. auto.
  - destruct (mkey_eqb k' k2) eqn:E; cbn.
    + intros [H|H]; [inversion H; auto | auto].
    + intros [H|H]; [auto | destruct (IH H); auto].
Qed.

Lemma in_mset_new k v m : In (k, v) (mset k v m).
Proof.
  induction m as [|[k2 v2] m IH]; cbn; auto.
  destruct (mkey_eqb k k2); cbn; auto.
Qed.

Lemma keys_mset k v m : forall k0, In k0 (map fst (mset k v m)) <-> k0 = k \/ In k0 (map fst m).
Proof.
  intros k0. induction m as [|[k2 v2] m IH]; cbn.
  - split; intros [H|H]; auto.
  - destruct (mkey_eqb k k2) eqn:E; cbn.
    + apply mkey_eqb_eq in E. subst k2. intuition auto.
    + rewrite IH. tauto.
Qed.

Lemma keys_mset_present k v v0 m : mget k m = Some v0 -> map fst (mset k v m) = map fst m.
Proof.
  induction m as [|[k2 v2] m IH]; cbn; [discriminate|].
  destruct (mkey_eqb k k2) eqn:E; cbn.
  - apply mkey_eqb_eq in E. now subst.
  - intros H. now rewrite IH.
Qed.

Lemma mget_some_in k v m : mget k m = Some v -> In (k, v) m.
Proof.
  induction m as [|[k2 v2] m IH]; cbn; [discriminate|].
  destruct (mkey_eqb k k2) eqn:E.
  - apply mkey_eqb_eq in E. intros H. inversion H. subst. auto.
  - auto.
Qed.

Lemma in_mget_some k v m : In (k, v) m -> exists v', mget k m = Some v'.
Proof.
  induction m as [|[k2 v2] m IH]; cbn; [tauto|].
  intros [H|H].
  - inversion H. subst. rewrite mkey_eqb_refl. eauto.
  - destruct (mkey_eqb k k2); eauto.
Qed.

Lemma mget_none_notin k m : mget k m = None -> forall v, ~ In (k, v) m.
Proof.
  intros H v Hin. destruct (in_mget_some _ _ _ Hin) as [v' E]. congruence.
Qed.

Lemma mget_mdel_eq k m : mget k (mdel k m) = None.
Proof.
  unfold mdel. induction m as [|[k2 v2] m IH]; cbn; auto.
  destruct (mkey_eqb k k2) eqn:E; cbn; auto. now rewrite E.
Qed.

Lemma mget_mdel_neq k k' m : k <> k' -> mget k (mdel k' m) = mget k m.
Proof.
  intros N. unfold mdel. induction m as [|[k2 v2] m IH]; cbn; auto.
  destruct (mkey_eqb k' k2) eqn:E; cbn.
  - apply mkey_eqb_eq in E. subst k2. now rewrite (mkey_eqb_neq _ _ N).
  - now rewrite IH.
Qed.

Lemma in_mdel kv k m : In kv (mdel k m) -> In kv m.
Proof. unfold mdel. intros H. now apply filter_In in H. Qed.

Lemma in_mupdate k v upd : forall m, In (k, v) (mupdate m upd) -> In (k, v) m \/ In (k, v) upd.
Proof.
  unfold mupdate. induction upd as [|[k2 v2] upd IH]; cbn; auto.
  intros m H. destruct (IH _ H) as [H1|H1]; auto.
  destruct (in_mset _ _ _ _ _ H1) as [[-> ->]|H2]; auto.
Qed.

Lemma mget_mupdate_notin k upd : (forall v, ~ In (k, v) upd) ->
  forall m, mget k (mupdate m upd) = mget k m.
Proof.
  unfold mupdate. induction upd as [|[k2 v2] upd IH]; cbn; auto.
  intros N m. rewrite IH.
  - apply mget_mset_neq. intros ->. apply (N v2). auto.
  - intros v Hin. apply (N v). auto.
Qed.

(* ------------------------------------------------------------------ Field.validate *)
Definition accepts (F : Field) (v : jv) : Prop :=
  (exists v', fser F v = Ok v') /\ fextra F v = true.

Lemma field_validate_ok F v : field_validate F v = Ok tt <-> accepts F v.
Proof.
  unfold field_validate, accepts. destruct (fser F v) as [v'|e].
  - destruct (fextra F v); split; intros H; try discriminate; eauto; try tauto.
    destruct H as [_ H]. discriminate.
  - split; [discriminate|]. intros [[v' H] _]. discriminate.
Qed.

Lemma unit_result_ok (r : result unit) : (exists u, r = Ok u) <-> r = Ok tt.
Proof. split; [intros [[] H]; auto | eauto]. Qed.

(* Field.forValue accepts exactly the values equal (Python ==) to the declared one *)
Theorem for_value_accepts k value x : accepts (for_value k value) x <-> py_eq x value = true.
Proof. unfold accepts, for_value; cbn. split; [tauto | eauto]. Qed.

(* Field.forTypes accepts exactly the instances of one of the classes that the
   extra validator (if any) lets through *)
Theorem for_types_accepts k classes extra v :
  accepts (for_types k classes extra) v <->
  (exists c, In c classes /\ inst v c = true) /\ extra v = true.
Proof.
  unfold accepts, for_types; cbn. rewrite andb_true_iff, existsb_exists. split.
  - intros [_ [H1 H2]]. auto.
  - intros [H1 H2]. eauto.
Qed.

(* the serialized form of an accepted value: the declared value / the value itself *)
Lemma for_value_serializes k value x : field_serialize (for_value k value) x = Ok value.
Proof. reflexivity. Qed.
Lemma for_types_serializes k cs extra x : field_serialize (for_types k cs extra) x = Ok x.
Proof. reflexivity. Qed.

Lemma py_eq_str s : py_eq (JStr s) (JStr s) = true.
Proof. cbn. apply String.eqb_refl. Qed.

(* bool is an int for forTypes, and True == 1 == 1.0 for forValue *)
Example bool_is_int : accepts (for_types "n" [TInt] no_extra) (JBool true).
Proof. apply for_types_accepts. split; [exists TInt; cbn; auto | reflexivity]. Qed.
Example true_equals_one :
  accepts (for_value "n" (JInt 1)) (JBool true) /\ accepts (for_value "n" (JInt 1)) (JFloat 4)
  /\ ~ accepts (for_value "n" (JInt 1)) (JStr "1").
Proof.
  repeat split; try (apply for_value_accepts; reflexivity).
  intros H. apply for_value_accepts in H. discriminate.
Qed.

(* ------------------------------------------------------------------ _MessageSerializer.validate *)
Definition declared (sz : serializer) (k : mkey) : Prop :=
  exists F, In F (sfields sz) /\ k = K (fkey F).

Definition reserved (k : mkey) : Prop :=
  k = K TASK_LEVEL \/ k = K TASK_UUID \/ k = K TIMESTAMP.

Lemma declared_key_spec sz k : declared_key sz k = true <-> declared sz k.
Proof.
  unfold declared_key, declared, field_keys. destruct k as [s|u s|n].
  - rewrite mem_str_In, in_map_iff. split.
    + intros [F [E HF]]. exists F. split; auto. unfold K. now rewrite E.
    + intros [F [HF E]]. inversion E. eauto.
  - split; [discriminate | intros [F [_ E]]; discriminate].
  - split; [discriminate | intros [F [_ E]]; discriminate].
Qed.

Lemma reserved_key_spec k : reserved_key k = true <-> reserved k.
Proof.
  unfold reserved_key, reserved, K. destruct k as [s|u s|n].
  - rewrite mem_str_In. cbn. split.
    + intros [H|[H|[H|[]]]]; subst; auto.
    + intros [H|[H|H]]; inversion H; auto.
  - split; [discriminate | intros [H|[H|H]]; discriminate].
  - split; [discriminate | intros [H|[H|H]]; discriminate].
Qed.

Lemma validate_fields_ok fs m :
  validate_fields fs m = Ok tt <->
  forall F, In F fs -> exists v, mget (K (fkey F)) m = Some v /\ accepts F v.
Proof.
  induction fs as [|F fs IH]; cbn.
  - split; [intros _ F [] | auto].
  - destruct (mget (K (fkey F)) m) as [v|] eqn:G.
    + destruct (field_validate F v) as [[]|e] eqn:V.
      * rewrite IH. apply field_validate_ok in V. split.
        -- intros H F' [<-|HF]; eauto.
        -- intros H F' HF. apply H. auto.
      * split; [discriminate|]. intros H. destruct (H F (or_introl eq_refl)) as [v' [E A]].
        rewrite G in E. inversion E. subst v'. apply field_validate_ok in A. congruence.
    + split; [discriminate|]. intros H. destruct (H F (or_introl eq_refl)) as [v' [E _]]. congruence.
Qed.

(* _MessageSerializer.validate accepts exactly: every declared field present with an
   accepted value, and (unless additional fields are allowed) no field that is neither
   declared nor one of task_level / task_uuid / timestamp *)
Theorem validate_iff sz m :
  validate sz m = Ok tt <->
  (forall F, In F (sfields sz) -> exists v, mget (K (fkey F)) m = Some v /\ accepts F v)
  /\ (allow_additional sz = true \/ forall k v, In (k, v) m -> declared sz k \/ reserved k).
Proof.
  unfold validate. rewrite <- validate_fields_ok.
  destruct (validate_fields (sfields sz) m) as [[]|e].
  - destruct (allow_additional sz).
    + split; auto.
    + destruct (forallb _ m) eqn:Fa.
      * split; auto. intros _. split; auto. right. intros k v Hin.
        rewrite forallb_forall in Fa. specialize (Fa _ Hin). cbn in Fa.
        apply orb_true_iff in Fa as [H|H]; [left; now apply declared_key_spec | right; now apply reserved_key_spec].
      * split; [discriminate|]. intros [_ [H|H]]; [discriminate|].
        assert (forallb (fun kv => declared_key sz (fst kv) || reserved_key (fst kv)) m = true); [|congruence].
        apply forallb_forall. intros [k v] Hin. cbn. apply orb_true_iff.
        destruct (H _ _ Hin); [left; now apply declared_key_spec | right; now apply reserved_key_spec].
  - split; [discriminate | intros [H _]; discriminate].
Qed.

(* a validation failure is a ValidationError unless a field serializer raises something else *)
Theorem validate_error_class sz m e :
  validate sz m = Raise e ->
  (forall F v e', In F (sfields sz) -> fser F v = Raise e' -> e' = EValidation) ->
  e = EValidation.
Proof.
  unfold validate. intros H Hs.
  assert (forall fs, (forall F, In F fs -> In F (sfields sz)) -> forall e0, validate_fields fs m = Raise e0 -> e0 = EValidation) as A.
  { induction fs as [|F fs IH]; cbn; [discriminate|]. intros Hin e0.
    destruct (mget (K (fkey F)) m) as [v|]; [|congruence].
    unfold field_validate. destruct (fser F v) as [v'|e1] eqn:S1.
    - destruct (fextra F v); [|congruence]. apply IH. intros F' HF'. apply Hin. auto.
    - intros E. inversion E. subst. eapply Hs; [apply Hin; cbn; auto | exact S1]. }
  destruct (validate_fields (sfields sz) m) as [[]|e0] eqn:V.
  - destruct (allow_additional sz); [discriminate|]. destruct (forallb _ m); congruence.
  - inversion H. subst. eapply A; eauto.
Qed.

(* ------------------------------------------------------------------ single deviations *)
Theorem C14_single_deviation sz m :
  validate sz m = Ok tt ->
  (* a declared field is removed *)
  (forall F, In F (sfields sz) -> validate sz (mdel (K (fkey F)) m) <> Ok tt)
  (* an undeclared, non-reserved field is added where additional fields are not allowed *)
  /\ (forall k v, allow_additional sz = false -> ~ declared sz k -> ~ reserved k ->
        validate sz (mset k v m) <> Ok tt)
  (* a declared field gets a value its Field does not accept *)
  /\ (forall F v, In F (sfields sz) -> ~ accepts F v -> validate sz (mset (K (fkey F)) v m) <> Ok tt).
Proof.
  intros _. repeat split.
  - intros F HF H. apply validate_iff in H as [H _]. destruct (H F HF) as [v [E _]].
    rewrite mget_mdel_eq in E. discriminate.
  - intros k v Hal Hd Hr H. apply validate_iff in H as [_ [H|H]]; [congruence|].
    destruct (H k v (in_mset_new k v m)); contradiction.
  - intros F v HF Hna H. apply validate_iff in H as [H _]. destruct (H F HF) as [v' [E A]].
    rewrite mget_mset_eq in E. inversion E. subst. contradiction.
Qed.

(* ------------------------------------------------------------------ serialize *)
Lemma nodup_str_cons x l : nodup_str (x :: l) = true <-> ~ In x l /\ nodup_str l = true.
Proof. cbn. rewrite andb_true_iff, negb_true_iff, mem_str_false. tauto. Qed.

Lemma K_inj a b : K a = K b -> a = b.
Proof. intros H. now inversion H. Qed.

Lemma validate_fields_mset fs k v m :
  ~ In k (field_keys fs) -> validate_fields fs (mset (K k) v m) = validate_fields fs m.
Proof.
  induction fs as [|F fs IH]; cbn; auto. intros N.
  rewrite mget_mset_neq by (intros E; apply K_inj in E; apply N; auto).
  destruct (mget (K (fkey F)) m) as [v0|]; auto.
  destruct (field_validate F v0); auto.
Qed.

Lemma serialize_keys fs : forall m, map fst (fst (serialize_fields fs m)) = map fst m.
Proof.
  induction fs as [|F fs IH]; cbn; auto. intros m.
  destruct (mget (K (fkey F)) m) as [v|] eqn:G; cbn; auto.
  destruct (field_serialize F v) as [v'|e]; cbn; auto.
  rewrite IH. eapply keys_mset_present; eauto.
Qed.

Lemma serialize_untouched fs k : ~ (exists s, k = K s /\ In s (field_keys fs)) ->
  forall m, mget k (fst (serialize_fields fs m)) = mget k m.
Proof.
  induction fs as [|F fs IH]; cbn; auto. intros N m.
  destruct (mget (K (fkey F)) m) as [v|] eqn:G; cbn; auto.
  destruct (field_serialize F v) as [v'|e]; cbn; auto.
  rewrite IH.
  - apply mget_mset_neq. intros ->. apply N. eauto.
  - intros [s [E Hs]]. apply N. eauto.
Qed.

(* with distinct field names (guaranteed by the constructor), a message that
   validates also serializes *)
Theorem serialize_ok_of_validate fs : nodup_str (field_keys fs) = true ->
  forall m, validate_fields fs m = Ok tt -> snd (serialize_fields fs m) = Ok tt.
Proof.
  induction fs as [|F fs IH]; cbn; auto. intros ND m.
  change (nodup_str (fkey F :: field_keys fs) = true) in ND.
  apply nodup_str_cons in ND as [Nin ND].
  destruct (mget (K (fkey F)) m) as [v|] eqn:G; [|discriminate].
  unfold field_validate, field_serialize. destruct (fser F v) as [v'|e]; [|discriminate].
  destruct (fextra F v); [|discriminate]. intros V. apply IH; auto.
  now rewrite validate_fields_mset.
Qed.

(* ------------------------------------------------------------------ MemoryLogger *)
Definition text_key (k : mkey) : Prop := (exists s, k = KStr s) \/ (exists s, k = KBytes true s).

Lemma check_keys_ok m : check_keys m = Ok tt <-> forall k v, In (k, v) m -> text_key k.
Proof.
  induction m as [|[k v] m IH]; cbn.
  - split; [intros _ k v [] | auto].
  - destruct k as [s|[|] s|n].
    + rewrite IH. split.
      * intros H k v' [E|Hin]; [inversion E; left; eauto | eauto].
      * intros H k v' Hin. eauto.
    + rewrite IH. split.
      * intros H k v' [E|Hin]; [inversion E; right; eauto | eauto].
      * intros H k v' Hin. eauto.
    + split; [discriminate|]. intros H. destruct (H _ _ (or_introl eq_refl)) as [[s' E]|[s' E]]; discriminate.
    + split; [discriminate|]. intros H. destruct (H _ _ (or_introl eq_refl)) as [[s' E]|[s' E]]; discriminate.
Qed.

Lemma encodable_msg_ok m :
  encodable_msg m = true <-> forall k v, In (k, v) m -> (exists s, k = KStr s) /\ encodable v = true.
Proof.
  unfold encodable_msg. rewrite forallb_forall. split.
  - intros H k v Hin. specialize (H _ Hin). cbn in H. destruct k; try discriminate. eauto.
  - intros H [k v] Hin. destruct (H _ _ Hin) as [[s ->] E]. exact E.
Qed.

(* what _validate_message leaves in the dict when it returns normally *)
Definition serialized (s : option serializer) (m : msg) : msg :=
  match s with Some sz => fst (serialize sz m) | None => m end.

(* a stored message passes _validate_message *)
Definition message_ok (m : msg) (s : option serializer) : Prop :=
  (forall sz, s = Some sz -> validate sz m = Ok tt)
  /\ (forall k v, In (k, v) m -> text_key k)
  /\ (forall sz, s = Some sz -> snd (serialize sz m) = Ok tt)
  /\ encodable_msg (serialized s m) = true.

(* ... or fails it: typed validation, a non-text key, a raising serializer, or not JSON *)
Definition message_fails (m : msg) (s : option serializer) : Prop :=
  (exists sz, s = Some sz /\ validate sz m <> Ok tt)
  \/ (exists k v, In (k, v) m /\ ~ text_key k)
  \/ (exists sz, s = Some sz /\ snd (serialize sz m) <> Ok tt)
  \/ encodable_msg (serialized s m) = false.

Lemma validate_message_ok m s : snd (validate_message m s) = Ok tt <-> message_ok m s.
Proof.
  unfold validate_message, message_ok, serialized.
  destruct s as [sz|].
  - destruct (validate sz m) as [[]|e] eqn:V; cbn.
    + destruct (check_keys m) as [[]|e] eqn:C; cbn.
      * destruct (serialize sz m) as [d' [[]|e]] eqn:S; cbn.
        -- destruct (encodable_msg d') eqn:E; cbn.
           ++ split; auto. intros _. repeat split; auto.
              ** intros sz' H. inversion H. now subst.
              ** now apply check_keys_ok.
              ** intros sz' H. inversion H. subst. now rewrite S.
           ++ split; [discriminate|]. intros [_ [_ [_ H]]]. unfold encodable_msg in *. cbn [fst] in *. congruence.
        -- split; [discriminate|]. intros [_ [_ [H _]]]. specialize (H sz eq_refl). rewrite S in H. discriminate.
      * split; [discriminate|]. intros [_ [H _]]. apply check_keys_ok in H. congruence.
    + split; [discriminate|]. intros [H _]. specialize (H sz eq_refl). congruence.
  - cbn. destruct (check_keys m) as [[]|e] eqn:C; cbn.
    + destruct (encodable_msg m) eqn:E; cbn.
      * split; auto. intros _. repeat split; auto; try discriminate. now apply check_keys_ok.
      * split; [discriminate|]. intros [_ [_ [_ H]]]. unfold encodable_msg in *. cbn [fst] in *. congruence.
    + split; [discriminate|]. intros [_ [H _]]. apply check_keys_ok in H. congruence.
Qed.

Lemma not_all_text_keys m : check_keys m <> Ok tt -> exists k v, In (k, v) m /\ ~ text_key k.
Proof.
  induction m as [|[k v] m IH]; cbn; [congruence|].
  destruct k as [s|[|] s|n].
  - intros H. destruct (IH H) as [k [v' [Hin N]]]. exists k, v'. auto.
  - intros H. destruct (IH H) as [k [v' [Hin N]]]. exists k, v'. auto.
  - intros _. exists (KBytes false s), v. split; auto. intros [[s' E]|[s' E]]; discriminate.
  - intros _. exists (KOther n), v. split; auto. intros [[s' E]|[s' E]]; discriminate.
Qed.

Lemma validate_message_fails m s : snd (validate_message m s) <> Ok tt <-> message_fails m s.
Proof.
  split.
  - intros H. unfold message_fails, serialized. unfold validate_message in H.
    destruct s as [sz|].
    + destruct (validate sz m) as [[]|e] eqn:V; cbn in H.
      * destruct (check_keys m) as [[]|e] eqn:C; cbn in H.
        -- destruct (serialize sz m) as [d' [[]|e]] eqn:S; cbn in H.
           ++ destruct (encodable_msg d') eqn:E; cbn in H; [congruence|].
              right. right. right. cbn [fst]. exact E.
           ++ right. right. left. exists sz. rewrite S. cbn. split; [auto | discriminate].
        -- right. left. apply not_all_text_keys. congruence.
      * left. exists sz. split; auto. congruence.
    + cbn in H. destruct (check_keys m) as [[]|e] eqn:C; cbn in H.
      * destruct (encodable_msg m) eqn:E; cbn in H; [congruence|]. right. right. right. reflexivity.
      * right. left. apply not_all_text_keys. congruence.
  - intros F Hok. apply validate_message_ok in Hok as [H1 [H2 [H3 H4]]].
    destruct F as [[sz [E N]]|[[k [v [Hin N]]]|[[sz [E N]]|N]]].
    + apply N. auto.
    + apply N. eauto.
    + apply N. auto.
    + congruence.
Qed.

Lemma validate_all_ok ms : forall ss,
  snd (validate_all ms ss) = Ok tt <->
  forall m s, In (m, s) (combine ms ss) -> snd (validate_message m s) = Ok tt.
Proof.
  induction ms as [|m ms IH]; intros ss; cbn.
  - split; [intros _ m s [] | auto].
  - destruct ss as [|s ss]; cbn.
    + split; [intros _ m' s' [] | auto].
    + destruct (validate_message m s) as [m' [[]|e]] eqn:V.
      * specialize (IH ss). destruct (validate_all ms ss) as [mr r]. cbn in *. rewrite IH. split.
        -- intros H m2 s2 [E|Hin]; [inversion E; subst; now rewrite V | auto].
        -- intros H m2 s2 Hin. auto.
      * cbn. split; [discriminate|]. intros H. specialize (H m s (or_introl eq_refl)). rewrite V in H. exact H.
Qed.

(* MemoryLogger.validate() returns normally iff every stored message passes ... *)
Theorem memory_validate_ok L :
  snd (logger_validate L) = Ok tt <->
  forall m s, In (m, s) (combine (messages L) (serializers L)) -> message_ok m s.
Proof.
  unfold logger_validate. pose proof (validate_all_ok (messages L) (serializers L)) as H.
  destruct (validate_all (messages L) (serializers L)) as [ms r]. cbn in *. rewrite H.
  split; intros A m s Hin; apply validate_message_ok; auto.
Qed.

(* ... and raises iff some stored message fails typed validation, has a non-text
   key, has a raising serializer or does not encode to JSON *)
Theorem memory_validate_iff L :
  snd (logger_validate L) <> Ok tt <->
  exists m s, In (m, s) (combine (messages L) (serializers L)) /\ message_fails m s.
Proof.
  split.
  - intros H.
    assert (forall ms ss, snd (validate_all ms ss) <> Ok tt ->
            exists m s, In (m, s) (combine ms ss) /\ snd (validate_message m s) <> Ok tt) as A.
    { induction ms as [|m ms IH]; intros ss; cbn; [congruence|].
      destruct ss as [|s ss]; cbn; [congruence|].
      destruct (validate_message m s) as [m' [[]|e]] eqn:V.
      - specialize (IH ss). destruct (validate_all ms ss) as [mr r]. cbn in *. intros N.
        destruct (IH N) as [m2 [s2 [Hin F]]]. exists m2, s2. auto.
      - cbn. intros _. exists m, s. split; auto. rewrite V. cbn. discriminate. }
    unfold logger_validate in H.
    destruct (validate_all (messages L) (serializers L)) as [ms r] eqn:E. cbn in H.
    destruct (A (messages L) (serializers L)) as [m [s [Hin F]]]; [now rewrite E|].
    exists m, s. split; auto. now apply validate_message_fails.
  - intros [m [s [Hin F]]] Hok. rewrite memory_validate_ok in Hok.
    apply validate_message_fails in F. apply F. apply validate_message_ok. auto.
Qed.

(* the exception validate() raises has the class of the first failing message *)
Theorem memory_validate_class L ms1 m ms2 ss1 s ss2 e :
  messages L = ms1 ++ m :: ms2 -> serializers L = ss1 ++ s :: ss2 ->
  List.length ms1 = List.length ss1 ->
  (forall m' s', In (m', s') (combine ms1 ss1) -> message_ok m' s') ->
  snd (validate_message m s) = Raise e ->
  snd (logger_validate L) = Raise e.
Proof.
  intros Hm Hs Hl Hok Hf. unfold logger_validate. rewrite Hm, Hs. clear Hm Hs.
  assert (snd (validate_all (ms1 ++ m :: ms2) (ss1 ++ s :: ss2)) = Raise e) as A.
  { revert ss1 Hl Hok. induction ms1 as [|m1 ms1 IH]; intros [|s1 ss1] Hl Hok; cbn in Hl; try discriminate; cbn.
    - destruct (validate_message m s) as [m' [[]|e']]; cbn in *; [discriminate | exact Hf].
    - assert (snd (validate_message m1 s1) = Ok tt) as V by (apply validate_message_ok, Hok; cbn; auto).
      destruct (validate_message m1 s1) as [m1' [[]|e']]; cbn in V; [|discriminate].
      specialize (IH ss1). destruct (validate_all (ms1 ++ m :: ms2) (ss1 ++ s :: ss2)) as [mr r]. cbn in *.
      apply IH; [lia|]. intros m' s' Hin. apply Hok. auto. }
  destruct (validate_all (ms1 ++ m :: ms2) (ss1 ++ s :: ss2)) as [mr r]. exact A.
Qed.

(* a logger built by writes: what it stores *)
Definition written (ws : list (msg * option serializer)) : mlogger :=
  fold_left (fun L ds => write L (fst ds) (snd ds)) ws new_logger.

Lemma written_stores ws :
  messages (written ws) = map fst ws /\ serializers (written ws) = map snd ws.
Proof.
  unfold written.
  assert (forall L, messages (fold_left (fun L ds => write L (fst ds) (snd ds)) ws L) = messages L ++ map fst ws
                 /\ serializers (fold_left (fun L ds => write L (fst ds) (snd ds)) ws L) = serializers L ++ map snd ws) as A.
  { induction ws as [|[d s] ws IH]; intros L; cbn.
    - now rewrite !app_nil_r.
    - destruct (IH (write L d s)) as [H1 H2]. rewrite H1, H2. cbn. now rewrite <- !app_assoc. }
  apply (A new_logger).
Qed.

Lemma combine_fst_snd {A B} (l : list (A * B)) : combine (map fst l) (map snd l) = l.
Proof. induction l as [|[a b] l IH]; cbn; congruence. Qed.

(* validate() after a sequence of writes succeeds iff every written message was fine:
   the write-time copy protects the stored message, nothing else is consulted *)
Theorem written_validate_ok ws :
  snd (logger_validate (written ws)) = Ok tt <-> forall m s, In (m, s) ws -> message_ok m s.
Proof.
  rewrite memory_validate_ok. destruct (written_stores ws) as [-> ->].
  now rewrite combine_fst_snd.
Qed.

(* write() itself never alters what it stores, whatever validation says *)
Theorem write_stores_original L d s :
  messages (write L d s) = messages L ++ [d] /\ serializers (write L d s) = serializers L ++ [s].
Proof. split; reflexivity. Qed.

(* deviations visible only at the logger level *)
Theorem C14_unencodable_deviation m s k v :
  encodable v = false ->
  (s = None \/ (forall sz, s = Some sz -> ~ declared sz k)) ->
  snd (validate_message (mset k v m) s) <> Ok tt.
Proof.
  intros E Hs Hok. apply validate_message_ok in Hok as [_ [_ [_ H]]].
  rewrite encodable_msg_ok in H.
  assert (mget k (serialized s (mset k v m)) = Some v) as G.
  { destruct s as [sz|]; cbn.
    - destruct Hs as [Hs|Hs]; [discriminate|]. unfold serialize. rewrite serialize_untouched.
      + apply mget_mset_eq.
      + intros [s0 [-> Hin]]. apply (Hs sz eq_refl). unfold field_keys in Hin.
        apply in_map_iff in Hin as [F [EF HF]]. exists F. split; auto. now rewrite EF.
    - apply mget_mset_eq. }
  apply mget_some_in in G. destruct (H _ _ G) as [_ E']. congruence.
Qed.

Theorem C14_bad_key_deviation m s k v :
  (forall t, k <> KStr t) -> snd (validate_message (mset k v m) s) <> Ok tt.
Proof.
  intros N Hok. apply validate_message_ok in Hok as [_ [_ [_ H]]].
  rewrite encodable_msg_ok in H.
  assert (In k (map fst (serialized s (mset k v m)))) as Hin.
  { destruct s as [sz|]; cbn; [unfold serialize; rewrite serialize_keys|]; apply keys_mset; auto. }
  apply in_map_iff in Hin as [[k' v'] [E Hin]]. cbn in E. subst k'.
  destruct (H _ _ Hin) as [[t Et] _]. exact (N t Et).
Qed.

(* ------------------------------------------------------------------ check_for_errors *)
Theorem C14_tracebacks_first L :
  tracebackMessages L <> [] -> check_for_errors L = (L, Raise EUnflushed).
Proof. unfold check_for_errors. destruct (tracebackMessages L); congruence. Qed.

Theorem check_for_errors_flushed L :
  tracebackMessages L = [] -> check_for_errors L = logger_validate L.
Proof. unfold check_for_errors. now intros ->. Qed.

(* a traceback written through TRACEBACK_MESSAGE is recorded as unflushed *)
Lemma write_traceback_recorded L d :
  tracebackMessages (write L d (Some TRACEBACK_SERIALIZER)) <> [].
Proof. cbn. destruct (tracebackMessages L); cbn; discriminate. Qed.
