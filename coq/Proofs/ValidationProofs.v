(* Theorems about Model/Validation.v (property C14). *)
From Coq Require Import List ZArith Bool String Ascii Arith Lia.
Require Import Eliot.Model.Validation.
Import ListNotations.
Local Open Scope string_scope.
Local Open Scope list_scope.

(* ------------------------------------------------------------------ keys, dicts *)
Lemma mkey_eqb_eq a b : mkey_eqb a b = true <-> a = b.
Proof.
  destruct a as [s|u s|n], b as [t|v t|m]; cbn; split; intros H; try discriminate; try congruence.
  - apply String.eqb_eq in H. now subst.
  - inversion H. apply String.eqb_refl.
  - apply andb_true_iff in H as [H1 H2]. apply Bool.eqb_prop in H1. apply String.eqb_eq in H2. now subst.
  - inversion H. subst. now rewrite Bool.eqb_reflx, String.eqb_refl.
  - apply Nat.eqb_eq in H. now subst.
  - inversion H. apply Nat.eqb_refl.
Qed.

Lemma mkey_eqb_refl a : mkey_eqb a a = true.
Proof. now apply mkey_eqb_eq. Qed.

Lemma mkey_eqb_neq a b : a <> b -> mkey_eqb a b = false.
Proof.
  intros H. destruct (mkey_eqb a b) eqn:E; auto. apply mkey_eqb_eq in E. contradiction.
Qed.

Lemma mem_str_In s l : mem_str s l = true <-> In s l.
Proof.
  induction l as [|x l IH]; cbn.
  - split; [discriminate | tauto].
  - rewrite orb_true_iff, IH, String.eqb_eq. split; intros [H|H]; auto.
Qed.

Lemma mem_str_false s l : mem_str s l = false <-> ~ In s l.
Proof.
  rewrite <- mem_str_In. destruct (mem_str s l); split; intros; congruence.
Qed.

Lemma mget_mset_eq k v m : mget k (mset k v m) = Some v.
Proof.
  induction m as [|[k' v'] m IH]; cbn.
  - now rewrite mkey_eqb_refl.
  - destruct (mkey_eqb k k') eqn:E; cbn; [now rewrite mkey_eqb_refl | now rewrite E].
Qed.

Lemma mget_mset_neq k k' v m : k <> k' -> mget k (mset k' v m) = mget k m.
Proof.
  intros N. induction m as [|[k2 v2] m IH]; cbn.
  - now rewrite (mkey_eqb_neq _ _ N).
  - destruct (mkey_eqb k' k2) eqn:E; cbn.
    + apply mkey_eqb_eq in E. subst k2. now rewrite (mkey_eqb_neq _ _ N).
    + now rewrite IH.
Qed.

Lemma in_mset k v k' v' m : In (k, v) (mset k' v' m) -> (k = k' /\ v = v') \/ In (k, v) m.
Proof.
  induction m as [|[k2 v2] m IH]; cbn.
  - intros [H|[]]. inversion H. auto.
  - destruct (mkey_eqb k' k2) eqn:E; cbn.
    + intros [H|H]; [inversion H; auto | auto].
    + intros [H|H]; [auto | destruct (IH H); auto].
Qed.

Lemma in_mset_new k v m : In (k, v) (mset k v m).
Proof.
  induction m as [|[k2 v2] m IH]; cbn; auto.
  destruct (mkey_eqb k k2); cbn; auto.
Qed.

Lemma keys_mset k v m : forall k0, In k0 (map fst (mset k v m)) <-> k0 = k \/ In k0 (map fst m).
Proof.
  intros k0. induction m as [|[k2 v2] m IH]; cbn.
  - split; intros [H|H]; auto.
  - destruct (mkey_eqb k k2) eqn:E; cbn.
    + apply mkey_eqb_eq in E. subst k2. intuition auto.
    + rewrite IH. tauto.
Qed.

Lemma keys_mset_present k v v0 m : mget k m = Some v0 -> map fst (mset k v m) = map fst m.
Proof.
  induction m as [|[k2 v2] m IH]; cbn; [discriminate|].
  destruct (mkey_eqb k k2) eqn:E; cbn.
  - apply mkey_eqb_eq in E. now subst.
  - intros H. now rewrite IH.
Qed.

Lemma mget_some_in k v m : mget k m = Some v -> In (k, v) m.
Proof.
  induction m as [|[k2 v2] m IH]; cbn; [discriminate|].
  destruct (mkey_eqb k k2) eqn:E.
  - apply mkey_eqb_eq in E. intros H. inversion H. subst. auto.
  - auto.
Qed.

Lemma in_mget_some k v m : In (k, v) m -> exists v', mget k m = Some v'.
Proof.
  induction m as [|[k2 v2] m IH]; cbn; [tauto|].
  intros [H|H].
  - inversion H. subst. rewrite mkey_eqb_refl. eauto.
  - destruct (mkey_eqb k k2); eauto.
Qed.

Lemma mget_none_notin k m : mget k m = None -> forall v, ~ In (k, v) m.
Proof.
  intros H v Hin. destruct (in_mget_some _ _ _ Hin) as [v' E]. congruence.
Qed.

Lemma mget_mdel_eq k m : mget k (mdel k m) = None.
Proof.
  unfold mdel. induction m as [|[k2 v2] m IH]; cbn; auto.
  destruct (mkey_eqb k k2) eqn:E; cbn; auto. now rewrite E.
Qed.

Lemma mget_mdel_neq k k' m : k <> k' -> mget k (mdel k' m) = mget k m.
Proof.
  intros N. unfold mdel. induction m as [|[k2 v2] m IH]; cbn; auto.
  destruct (mkey_eqb k' k2) eqn:E; cbn.
  - apply mkey_eqb_eq in E. subst k2. now rewrite (mkey_eqb_neq _ _ N).
  - now rewrite IH.
Qed.

Lemma in_mdel kv k m : In kv (mdel k m) -> In kv m.
Proof. unfold mdel. intros H. now apply filter_In in H. Qed.

Lemma in_mupdate k v upd : forall m, In (k, v) (mupdate m upd) -> In (k, v) m \/ In (k, v) upd.
Proof.
  unfold mupdate. induction upd as [|[k2 v2] upd IH]; cbn; auto.
  intros m H. destruct (IH _ H) as [H1|H1]; auto.
  destruct (in_mset _ _ _ _ _ H1) as [[-> ->]|H2]; auto.
Qed.

Lemma mget_mupdate_notin k upd : (forall v, ~ In (k, v) upd) ->
  forall m, mget k (mupdate m upd) = mget k m.
Proof.
  unfold mupdate. induction upd as [|[k2 v2] upd IH]; cbn; auto.
  intros N m. rewrite IH.
  - apply mget_mset_neq. intros ->. apply (N v2). auto.
  - intros v Hin. apply (N v). auto.
Qed.

(* ------------------------------------------------------------------ Field.validate *)
Definition accepts (F : Field) (v : jv) : Prop :=
  (exists v', fser F v = Ok v') /\ fextra F v = true.

Lemma field_validate_ok F v : field_validate F v = Ok tt <-> accepts F v.
Proof.
  unfold field_validate, accepts. destruct (fser F v) as [v'|e].
  - destruct (fextra F v); split; intros H; try discriminate; eauto; try tauto.
    destruct H as [_ H]. discriminate.
  - split; [discriminate|]. intros [[v' H] _]. discriminate.
Qed.

Lemma unit_result_ok (r : result unit) : (exists u, r = Ok u) <-> r = Ok tt.
Proof. split; [intros [[] H]; auto | eauto]. Qed.

(* Field.forValue accepts exactly the values equal (Python ==) to the declared one *)
Theorem for_value_accepts k value x : accepts (for_value k value) x <-> py_eq x value = true.
Proof. unfold accepts, for_value; cbn. split; [tauto | eauto]. Qed.

(* Field.forTypes accepts exactly the instances of one of the classes that the
   extra validator (if any) lets through *)
Theorem for_types_accepts k classes extra v :
  accepts (for_types k classes extra) v <->
  (exists c, In c classes /\ inst v c = true) /\ extra v = true.
Proof.
  unfold accepts, for_types; cbn. rewrite andb_true_iff, existsb_exists. split.
  - intros [_ [H1 H2]]. auto.
  - intros [H1 H2]. eauto.
Qed.

(* the serialized form of an accepted value: the declared value / the value itself *)
Lemma for_value_serializes k value x : field_serialize (for_value k value) x = Ok value.
Proof. reflexivity. Qed.
Lemma for_types_serializes k cs extra x : field_serialize (for_types k cs extra) x = Ok x.
Proof. reflexivity. Qed.

Lemma py_eq_str s : py_eq (JStr s) (JStr s) = true.
Proof. cbn. apply String.eqb_refl. Qed.

(* bool is an int for forTypes, and True == 1 == 1.0 for forValue *)
Example bool_is_int : accepts (for_types "n" [TInt] no_extra) (JBool true).
Proof. apply for_types_accepts. split; [exists TInt; cbn; auto | reflexivity]. Qed.
Example true_equals_one :
  accepts (for_value "n" (JInt 1)) (JBool true) /\ accepts (for_value "n" (JInt 1)) (JFloat 4)
  /\ ~ accepts (for_value "n" (JInt 1)) (JStr "1").
Proof.
  repeat split; try (apply for_value_accepts; reflexivity).
  intros H. apply for_value_accepts in H. discriminate.
Qed.

(* ------------------------------------------------------------------ _MessageSerializer.validate *)
Definition declared (sz : serializer) (k : mkey) : Prop :=
  exists F, In F (sfields sz) /\ k = K (fkey F).

Definition reserved (k : mkey) : Prop :=
  k = K TASK_LEVEL \/ k = K TASK_UUID \/ k = K TIMESTAMP.

Lemma declared_key_spec sz k : declared_key sz k = true <-> declared sz k.
Proof.
  unfold declared_key, declared, field_keys. destruct k as [s|u s|n].
  - rewrite mem_str_In, in_map_iff. split.
    + intros [F [E HF]]. exists F. split; auto. unfold K. now rewrite E.
    + intros [F [HF E]]. inversion E. eauto.
  - split; [discriminate | intros [F [_ E]]; discriminate].
  - split; [discriminate | intros [F [_ E]]; discriminate].
Qed.

Lemma reserved_key_spec k : reserved_key k = true <-> reserved k.
Proof.
  unfold reserved_key, reserved, K. destruct k as [s|u s|n].
  - rewrite mem_str_In. cbn. split.
    + intros [H|[H|[H|[]]]]; subst; auto.
    + intros [H|[H|H]]; inversion H; auto.
  - split; [discriminate | intros [H|[H|H]]; discriminate].
  - split; [discriminate | intros [H|[H|H]]; discriminate].
Qed.

Lemma validate_fields_ok fs m :
  validate_fields fs m = Ok tt <->
  forall F, In F fs -> exists v, mget (K (fkey F)) m = Some v /\ accepts F v.
Proof.
  induction fs as [|F fs IH]; cbn.
  - split; [intros _ F [] | auto].
  - destruct (mget (K (fkey F)) m) as [v|] eqn:G.
    + destruct (field_validate F v) as [[]|e] eqn:V.
      * rewrite IH. apply field_validate_ok in V. split.
        -- intros H F' [<-|HF]; eauto.
        -- intros H F' HF. apply H. auto.
      * split; [discriminate|]. intros H. destruct (H F (or_introl eq_refl)) as [v' [E A]].
        rewrite G in E. inversion E. subst v'. apply field_validate_ok in A. congruence.
    + split; [discriminate|]. intros H. destruct (H F (or_introl eq_refl)) as [v' [E _]]. congruence.
Qed.

(* _MessageSerializer.validate accepts exactly: every declared field present with an
   accepted value, and (unless additional fields are allowed) no field that is neither
   declared nor one of task_level / task_uuid / timestamp *)
Theorem validate_iff sz m :
  validate sz m = Ok tt <->
  (forall F, In F (sfields sz) -> exists v, mget (K (fkey F)) m = Some v /\ accepts F v)
  /\ (allow_additional sz = true \/ forall k v, In (k, v) m -> declared sz k \/ reserved k).
Proof.
  unfold validate. rewrite <- validate_fields_ok.
  destruct (validate_fields (sfields sz) m) as [[]|e].
  - destruct (allow_additional sz).
    + split; auto.
    + destruct (forallb _ m) eqn:Fa.
      * split; auto. intros _. split; auto. right. intros k v Hin.
        rewrite forallb_forall in Fa. specialize (Fa _ Hin). cbn in Fa.
        apply orb_true_iff in Fa as [H|H]; [left; now apply declared_key_spec | right; now apply reserved_key_spec].
      * split; [discriminate|]. intros [_ [H|H]]; [discriminate|].
        assert (forallb (fun kv => declared_key sz (fst kv) || reserved_key (fst kv)) m = true); [|congruence].
        apply forallb_forall. intros [k v] Hin. cbn. apply orb_true_iff.
        destruct (H _ _ Hin); [left; now apply declared_key_spec | right; now apply reserved_key_spec].
  - split; [discriminate | intros [H _]; discriminate].
Qed.

(* a validation failure is a ValidationError unless a field serializer raises something else *)
Theorem validate_error_class sz m e :
  validate sz m = Raise e ->
  (forall F v e', In F (sfields sz) -> fser F v = Raise e' -> e' = EValidation) ->
  e = EValidation.
Proof.
  unfold validate. intros H Hs.
  assert (forall fs, (forall F, In F fs -> In F (sfields sz)) -> forall e0, validate_fields fs m = Raise e0 -> e0 = EValidation) as A.
  { induction fs as [|F fs IH]; cbn; [discriminate|]. intros Hin e0.
    destruct (mget (K (fkey F)) m) as [v|]; [|congruence].
    unfold field_validate. destruct (fser F v) as [v'|e1] eqn:S1.
    - destruct (fextra F v); [|congruence]. apply IH. intros F' HF'. apply Hin. auto.
    - intros E. inversion E. subst. eapply Hs; [apply Hin; cbn; auto | exact S1]. }
  destruct (validate_fields (sfields sz) m) as [[]|e0] eqn:V.
  - destruct (allow_additional sz); [discriminate|]. destruct (forallb _ m); congruence.
  - inversion H. subst. eapply A; eauto.
Qed.

(* ------------------------------------------------------------------ single deviations *)
Theorem C14_single_deviation sz m :
  validate sz m = Ok tt ->
  (* a declared field is removed *)
  (forall F, In F (sfields sz) -> validate sz (mdel (K (fkey F)) m) <> Ok tt)
  (* an undeclared, non-reserved field is added where additional fields are not allowed *)
  /\ (forall k v, allow_additional sz = false -> ~ declared sz k -> ~ reserved k ->
        validate sz (mset k v m) <> Ok tt)
  (* a declared field gets a value its Field does not accept *)
  /\ (forall F v, In F (sfields sz) -> ~ accepts F v -> validate sz (mset (K (fkey F)) v m) <> Ok tt).
Proof.
  intros _. repeat split.
  - intros F HF H. apply validate_iff in H as [H _]. destruct (H F HF) as [v [E _]].
    rewrite mget_mdel_eq in E. discriminate.
  - intros k v Hal Hd Hr H. apply validate_iff in H as [_ [H|H]]; [congruence|].
    destruct (H k v (in_mset_new k v m)); contradiction.
  - intros F v HF Hna H. apply validate_iff in H as [H _]. destruct (H F HF) as [v' [E A]].
    rewrite mget_mset_eq in E. inversion E. subst. contradiction.
Qed.

(* ------------------------------------------------------------------ serialize *)
Lemma nodup_str_cons x l : nodup_str (x :: l) = true <-> ~ In x l /\ nodup_str l = true.
Proof. cbn. rewrite andb_true_iff, negb_true_iff, mem_str_false. tauto. Qed.

Lemma K_inj a b : K a = K b -> a = b.
Proof. intros H. now inversion H. Qed.

Lemma validate_fields_mset fs k v m :
  ~ In k (field_keys fs) -> validate_fields fs (mset (K k) v m) = validate_fields fs m.
Proof.
  induction fs as [|F fs IH]; cbn; auto. intros N.
  rewrite mget_mset_neq by (intros E; apply K_inj in E; apply N; auto).
  destruct (mget (K (fkey F)) m) as [v0|]; auto.
  destruct (field_validate F v0); auto.
Qed.

Lemma serialize_keys fs : forall m, map fst (fst (serialize_fields fs m)) = map fst m.
Proof.
  induction fs as [|F fs IH]; cbn; auto. intros m.
  destruct (mget (K (fkey F)) m) as [v|] eqn:G; cbn; auto.
  destruct (field_serialize F v) as [v'|e]; cbn; auto.
  rewrite IH. eapply keys_mset_present; eauto.
Qed.

Lemma serialize_untouched fs k : ~ (exists s, k = K s /\ In s (field_keys fs)) ->
  forall m, mget k (fst (serialize_fields fs m)) = mget k m.
Proof.
  induction fs as [|F fs IH]; cbn; auto. intros N m.
  destruct (mget (K (fkey F)) m) as [v|] eqn:G; cbn; auto.
  destruct (field_serialize F v) as [v'|e]; cbn; auto.
  rewrite IH.
  - apply mget_mset_neq. intros ->. apply N. eauto.
  - intros [s [E Hs]]. apply N. eauto.
Qed.

(* with distinct field names (guaranteed by the constructor), a message that
   validates also serializes *)
Theorem serialize_ok_of_validate fs : nodup_str (field_keys fs) = true ->
  forall m, validate_fields fs m = Ok tt -> snd (serialize_fields fs m) = Ok tt.
Proof.
  induction fs as [|F fs IH]; cbn; auto. intros ND m.
  change (nodup_str (fkey F :: field_keys fs) = true) in ND.
  apply nodup_str_cons in ND as [Nin ND].
  destruct (mget (K (fkey F)) m) as [v|] eqn:G; [|discriminate].
  unfold field_validate, field_serialize. destruct (fser F v) as [v'|e]; [|discriminate].
  destruct (fextra F v); [|discriminate]. intros V. apply IH; auto.
  now rewrite validate_fields_mset.
Qed.

(* ------------------------------------------------------------------ MemoryLogger *)
Definition text_key (k : mkey) : Prop := (exists s, k = KStr s) \/ (exists s, k = KBytes true s).

Lemma check_keys_ok m : check_keys m = Ok tt <-> forall k v, In (k, v) m -> text_key k.
Proof.
  induction m as [|[k v] m IH]; cbn.
  - split; [intros _ k v [] | auto].
  - destruct k as [s|[|] s|n].
    + rewrite IH. split.
      * intros H k v' [E|Hin]; [inversion E; left; eauto | eauto].
      * intros H k v' Hin. eauto.
    + rewrite IH. split.
      * intros H k v' [E|Hin]; [inversion E; right; eauto | eauto].
      * intros H k v' Hin. eauto.
    + split; [discriminate|]. intros H. destruct (H _ _ (or_introl eq_refl)) as [[s' E]|[s' E]]; discriminate.
    + split; [discriminate|]. intros H. destruct (H _ _ (or_introl eq_refl)) as [[s' E]|[s' E]]; discriminate.
Qed.

Lemma encodable_msg_ok m :
  encodable_msg m = true <-> forall k v, In (k, v) m -> (exists s, k = KStr s) /\ encodable v = true.
Proof.
  unfold encodable_msg. rewrite forallb_forall. split.
  - intros H k v Hin. specialize (H _ Hin). cbn in H. destruct k; try discriminate. eauto.
  - intros H [k v] Hin. destruct (H _ _ Hin) as [[s ->] E]. exact E.
Qed.

(* what _validate_message leaves in the dict when it returns normally *)
Definition serialized (s : option serializer) (m : msg) : msg :=
  match s with Some sz => fst (serialize sz m) | None => m end.

(* a stored message passes _validate_message *)
Definition message_ok (m : msg) (s : option serializer) : Prop :=
  (forall sz, s = Some sz -> validate sz m = Ok tt)
  /\ (forall k v, In (k, v) m -> text_key k)
  /\ (forall sz, s = Some sz -> snd (serialize sz m) = Ok tt)
  /\ encodable_msg (serialized s m) = true.

(* ... or fails it: typed validation, a non-text key, a raising serializer, or not JSON *)
Definition message_fails (m : msg) (s : option serializer) : Prop :=
  (exists sz, s = Some sz /\ validate sz m <> Ok tt)
  \/ (exists k v, In (k, v) m /\ ~ text_key k)
  \/ (exists sz, s = Some sz /\ snd (serialize sz m) <> Ok tt)
  \/ encodable_msg (serialized s m) = false.

Lemma validate_message_ok m s : snd (validate_message m s) = Ok tt <-> message_ok m s.
Proof.
  unfold validate_message, message_ok, serialized.
  destruct s as [sz|].
  - destruct (validate sz m) as [[]|e] eqn:V; cbn.
    + destruct (check_keys m) as [[]|e] eqn:C; cbn.
      * destruct (serialize sz m) as [d' [[]|e]] eqn:S; cbn.
        -- destruct (encodable_msg d') eqn:E; cbn.
           ++ split; auto. intros _. repeat split; auto.
              ** intros sz' H. inversion H. now subst.
              ** now apply check_keys_ok.
              ** intros sz' H. inversion H. subst. now rewrite S.
           ++ split; [discriminate|]. intros [_ [_ [_ H]]]. unfold encodable_msg in *. cbn [fst] in *. congruence.
        -- split; [discriminate|]. intros [_ [_ [H _]]]. specialize (H sz eq_refl). rewrite S in H. discriminate.
      * split; [discriminate|]. intros [_ [H _]]. apply check_keys_ok in H. congruence.
    + split; [discriminate|]. intros [H _]. specialize (H sz eq_refl). congruence.
  - cbn. destruct (check_keys m) as [[]|e] eqn:C; cbn.
    + destruct (encodable_msg m) eqn:E; cbn.
      * split; auto. intros _. repeat split; auto; try discriminate. now apply check_keys_ok.
      * split; [discriminate|]. intros [_ [_ [_ H]]]. unfold encodable_msg in *. cbn [fst] in *. congruence.
    + split; [discriminate|]. intros [_ [H _]]. apply check_keys_ok in H. congruence.
Qed.

Lemma not_all_text_keys m : check_keys m <> Ok tt -> exists k v, In (k, v) m /\ ~ text_key k.
Proof.
  induction m as [|[k v] m IH]; cbn; [congruence|].
  destruct k as [s|[|] s|n].
  - intros H. destruct (IH H) as [k [v' [Hin N]]]. exists k, v'. auto.
  - intros H. destruct (IH H) as [k [v' [Hin N]]]. exists k, v'. auto.
  - intros _. exists (KBytes false s), v. split; auto. intros [[s' E]|[s' E]]; discriminate.
  - intros _. exists (KOther n), v. split; auto. intros [[s' E]|[s' E]]; discriminate.
Qed.

Lemma validate_message_fails m s : snd (validate_message m s) <> Ok tt <-> message_fails m s.
Proof.
  split.
  - intros H. unfold message_fails, serialized. unfold validate_message in H.
    destruct s as [sz|].
    + destruct (validate sz m) as [[]|e] eqn:V; cbn in H.
      * destruct (check_keys m) as [[]|e] eqn:C; cbn in H.
        -- destruct (serialize sz m) as [d' [[]|e]] eqn:S; cbn in H.
           ++ destruct (encodable_msg d') eqn:E; cbn in H; [congruence|].
              right. right. right. cbn [fst]. exact E.
           ++ right. right. left. exists sz. rewrite S. cbn. split; [auto | discriminate].
        -- right. left. apply not_all_text_keys. congruence.
      * left. exists sz. split; auto. congruence.
    + cbn in H. destruct (check_keys m) as [[]|e] eqn:C; cbn in H.
      * destruct (encodable_msg m) eqn:E; cbn in H; [congruence|]. right. right. right. reflexivity.
      * right. left. apply not_all_text_keys. congruence.
  - intros F Hok. apply validate_message_ok in Hok as [H1 [H2 [H3 H4]]].
    destruct F as [[sz [E N]]|[[k [v [Hin N]]]|[[sz [E N]]|N]]].
    + apply N. auto.
    + apply N. eauto.
    + apply N. auto.
    + congruence.
Qed.

Lemma validate_all_ok ms : forall ss,
  snd (validate_all ms ss) = Ok tt <->
  forall m s, In (m, s) (combine ms ss) -> snd (validate_message m s) = Ok tt.
Proof.
  induction ms as [|m ms IH]; intros ss; cbn.
  - split; [intros _ m s [] | auto].
  - destruct ss as [|s ss]; cbn.
    + split; [intros _ m' s' [] | auto].
    + destruct (validate_message m s) as [m' [[]|e]] eqn:V.
      * specialize (IH ss). destruct (validate_all ms ss) as [mr r]. cbn in *. rewrite IH. split.
        -- intros H m2 s2 [E|Hin]; [inversion E; subst; now rewrite V | auto].
        -- intros H m2 s2 Hin. auto.
      * cbn. split; [discriminate|]. intros H. specialize (H m s (or_introl eq_refl)). rewrite V in H. exact H.
Qed.

(* MemoryLogger.validate() returns normally iff every stored message passes ... *)
Theorem memory_validate_ok L :
  snd (logger_validate L) = Ok tt <->
  forall m s, In (m, s) (combine (messages L) (serializers L)) -> message_ok m s.
Proof.
  unfold logger_validate. pose proof (validate_all_ok (messages L) (serializers L)) as H.
  destruct (validate_all (messages L) (serializers L)) as [ms r]. cbn in *. rewrite H.
  split; intros A m s Hin; apply validate_message_ok; auto.
Qed.

(* ... and raises iff some stored message fails typed validation, has a non-text
   key, has a raising serializer or does not encode to JSON *)
Theorem memory_validate_iff L :
  snd (logger_validate L) <> Ok tt <->
  exists m s, In (m, s) (combine (messages L) (serializers L)) /\ message_fails m s.
Proof.
  split.
  - intros H.
    assert (forall ms ss, snd (validate_all ms ss) <> Ok tt ->
            exists m s, In (m, s) (combine ms ss) /\ snd (validate_message m s) <> Ok tt) as A.
    { induction ms as [|m ms IH]; intros ss; cbn; [congruence|].
      destruct ss as [|s ss]; cbn; [congruence|].
      destruct (validate_message m s) as [m' [[]|e]] eqn:V.
      - specialize (IH ss). destruct (validate_all ms ss) as [mr r]. cbn in *. intros N.
        destruct (IH N) as [m2 [s2 [Hin F]]]. exists m2, s2. auto.
      - cbn. intros _. exists m, s. split; auto. rewrite V. cbn. discriminate. }
    unfold logger_validate in H.
    destruct (validate_all (messages L) (serializers L)) as [ms r] eqn:E. cbn in H.
    destruct (A (messages L) (serializers L)) as [m [s [Hin F]]]; [now rewrite E|].
    exists m, s. split; auto. now apply validate_message_fails.
  - intros [m [s [Hin F]]] Hok. rewrite memory_validate_ok in Hok.
    apply validate_message_fails in F. apply F. apply validate_message_ok. auto.
Qed.

(* the exception validate() raises has the class of the first failing message *)
Theorem memory_validate_class L ms1 m ms2 ss1 s ss2 e :
  messages L = ms1 ++ m :: ms2 -> serializers L = ss1 ++ s :: ss2 ->
  List.length ms1 = List.length ss1 ->
  (forall m' s', In (m', s') (combine ms1 ss1) -> message_ok m' s') ->
  snd (validate_message m s) = Raise e ->
  snd (logger_validate L) = Raise e.
Proof.
  intros Hm Hs Hl Hok Hf. unfold logger_validate. rewrite Hm, Hs. clear Hm Hs.
  assert (snd (validate_all (ms1 ++ m :: ms2) (ss1 ++ s :: ss2)) = Raise e) as A.
  { revert ss1 Hl Hok. induction ms1 as [|m1 ms1 IH]; intros [|s1 ss1] Hl Hok; cbn in Hl; try discriminate; cbn.
    - destruct (validate_message m s) as [m' [[]|e']]; cbn in *; [discriminate | exact Hf].
    - assert (snd (validate_message m1 s1) = Ok tt) as V by (apply validate_message_ok, Hok; cbn; auto).
      destruct (validate_message m1 s1) as [m1' [[]|e']]; cbn in V; [|discriminate].
      specialize (IH ss1). destruct (validate_all (ms1 ++ m :: ms2) (ss1 ++ s :: ss2)) as [mr r]. cbn in *.
      apply IH; [lia|]. intros m' s' Hin. apply Hok. auto. }
  destruct (validate_all (ms1 ++ m :: ms2) (ss1 ++ s :: ss2)) as [mr r]. exact A.
Qed.

(* a logger built by writes: what it stores *)
Definition written (ws : list (msg * option serializer)) : mlogger :=
  fold_left (fun L ds => write L (fst ds) (snd ds)) ws new_logger.

Lemma written_stores ws :
  messages (written ws) = map fst ws /\ serializers (written ws) = map snd ws.
Proof.
  unfold written.
  assert (forall L, messages (fold_left (fun L ds => write L (fst ds) (snd ds)) ws L) = messages L ++ map fst ws
                 /\ serializers (fold_left (fun L ds => write L (fst ds) (snd ds)) ws L) = serializers L ++ map snd ws) as A.
  { induction ws as [|[d s] ws IH]; intros L; cbn.
    - now rewrite !app_nil_r.
    - destruct (IH (write L d s)) as [H1 H2]. rewrite H1, H2. cbn. now rewrite <- !app_assoc. }
  apply (A new_logger).
Qed.

Lemma combine_fst_snd {A B} (l : list (A * B)) : combine (map fst l) (map snd l) = l.
Proof. induction l as [|[a b] l IH]; cbn; congruence. Qed.

(* validate() after a sequence of writes succeeds iff every written message was fine:
   the write-time copy protects the stored message, nothing else is consulted *)
Theorem written_validate_ok ws :
  snd (logger_validate (written ws)) = Ok tt <-> forall m s, In (m, s) ws -> message_ok m s.
Proof.
  rewrite memory_validate_ok. destruct (written_stores ws) as [-> ->].
  now rewrite combine_fst_snd.
Qed.

(* write() itself never alters what it stores, whatever validation says *)
Theorem write_stores_original L d s :
  messages (write L d s) = messages L ++ [d] /\ serializers (write L d s) = serializers L ++ [s].
Proof. split; reflexivity. Qed.

(* deviations visible only at the logger level *)
Theorem C14_unencodable_deviation m s k v :
  encodable v = false ->
  (s = None \/ (forall sz, s = Some sz -> ~ declared sz k)) ->
  snd (validate_message (mset k v m) s) <> Ok tt.
Proof.
  intros E Hs Hok. apply validate_message_ok in Hok as [_ [_ [_ H]]].
  rewrite encodable_msg_ok in H.
  assert (mget k (serialized s (mset k v m)) = Some v) as G.
  { destruct s as [sz|]; cbn.
    - destruct Hs as [Hs|Hs]; [discriminate|]. unfold serialize. rewrite serialize_untouched.
      + apply mget_mset_eq.
      + intros [s0 [-> Hin]]. apply (Hs sz eq_refl). unfold field_keys in Hin.
        apply in_map_iff in Hin as [F [EF HF]]. exists F. split; auto. now rewrite EF.
    - apply mget_mset_eq. }
  apply mget_some_in in G. destruct (H _ _ G) as [_ E']. congruence.
Qed.

Theorem C14_bad_key_deviation m s k v :
  (forall t, k <> KStr t) -> snd (validate_message (mset k v m) s) <> Ok tt.
Proof.
  intros N Hok. apply validate_message_ok in Hok as [_ [_ [_ H]]].
  rewrite encodable_msg_ok in H.
  assert (In k (map fst (serialized s (mset k v m)))) as Hin.
  { destruct s as [sz|]; cbn; [unfold serialize; rewrite serialize_keys|]; apply keys_mset; auto. }
  apply in_map_iff in Hin as [[k' v'] [E Hin]]. cbn in E. subst k'.
  destruct (H _ _ Hin) as [[t Et] _]. exact (N t Et).
Qed.

(* ------------------------------------------------------------------ check_for_errors *)
Theorem C14_tracebacks_first L :
  tracebackMessages L <> [] -> check_for_errors L = (L, Raise EUnflushed).
Proof. unfold check_for_errors. destruct (tracebackMessages L); congruence. Qed.

Theorem check_for_errors_flushed L :
  tracebackMessages L = [] -> check_for_errors L = logger_validate L.
Proof. unfold check_for_errors. now intros ->. Qed.

(* a traceback written through TRACEBACK_MESSAGE is recorded as unflushed *)
Lemma write_traceback_recorded L d :
  tracebackMessages (write L d (Some TRACEBACK_SERIALIZER)) <> [].
Proof. cbn. destruct (tracebackMessages L); cbn; discriminate. Qed.

(* ------------------------------------------------------------------ constructor checks *)
Lemma nodup_str_app l l' : nodup_str (l ++ l') = true -> forall x, In x l -> In x l' -> False.
Proof.
  induction l as [|y l IH]; cbn; [tauto|].
  rewrite andb_true_iff, negb_true_iff, mem_str_false. intros [N ND] x [->|Hx] Hx'.
  - apply N, in_or_app. auto.
  - eapply IH; eauto.
Qed.

Lemma ctor_ok_parts fs : ctor_ok fs = true ->
  nodup_str (field_keys fs) = true /\ forall r, In r RESERVED_FIELDS -> ~ In r (field_keys fs).
Proof.
  unfold ctor_ok. rewrite !andb_true_iff, negb_true_iff. intros [[[ND _] _] R]. split; auto.
  intros r Hr Hin. apply negb_true_iff in R.
  assert (existsb (fun r => mem_str r (field_keys fs)) RESERVED_FIELDS = true); [|congruence].
  apply existsb_exists. exists r. split; auto. now apply mem_str_In.
Qed.

Lemma mk_serializer_some id fs allow sz : mk_serializer id fs allow = Some sz ->
  sfields sz = fs /\ allow_additional sz = allow /\ sid sz = id /\ ctor_ok fs = true.
Proof.
  unfold mk_serializer. destruct (ctor_ok fs); [|discriminate]. intros H. inversion H. cbn. auto.
Qed.

Lemma not_reserved_key fs F : ctor_ok fs = true -> In F fs -> ~ reserved (K (fkey F)).
Proof.
  intros C HF R. apply ctor_ok_parts in C as [_ C].
  assert (In (fkey F) (field_keys fs)) as Hin by (unfold field_keys; apply in_map; auto).
  destruct R as [R|[R|R]]; apply K_inj in R; rewrite R in Hin; eapply C; eauto; cbn; auto.
Qed.

(* ------------------------------------------------------------------ library-built messages conform *)
Ltac peel H := repeat (apply in_mset in H as [[-> ->]|H]).

(* common shape: the message consists of the caller's fields (exactly the declared
   user fields, with accepted values), reserved fields, and the automatic fields *)
Lemma stamped_conforms sz user autos fields final :
  sfields sz = user ++ autos ->
  (forall F, In F user -> mget (K (fkey F)) final = mget (K (fkey F)) fields) ->
  (forall F, In F user -> exists v, mget (K (fkey F)) fields = Some v /\ accepts F v) ->
  (forall F, In F autos -> exists v, mget (K (fkey F)) final = Some v /\ accepts F v) ->
  (forall k v, In (k, v) final ->
     In (k, v) fields \/ reserved k \/ exists F, In F autos /\ k = K (fkey F)) ->
  (forall k v, In (k, v) fields -> exists F, In F user /\ k = K (fkey F)) ->
  validate sz final = Ok tt.
Proof.
  intros Hf Hsame Huser Hauto Hfinal Hfields. apply validate_iff. split.
  - intros F HF. rewrite Hf in HF. apply in_app_or in HF as [HF|HF].
    + rewrite Hsame by auto. auto.
    + auto.
  - right. intros k v Hin. destruct (Hfinal _ _ Hin) as [H|[H|[F [HF ->]]]].
    + left. destruct (Hfields _ _ H) as [F [HF ->]]. exists F. split; auto. rewrite Hf. apply in_or_app. auto.
    + auto.
    + left. exists F. split; auto. rewrite Hf. apply in_or_app. auto.
Qed.

Lemma accepts_for_value_str k s : accepts (for_value k (JStr s)) (JStr s).
Proof. apply for_value_accepts, py_eq_str. Qed.

Lemma action_type_some id name sf uf a : action_type id name sf uf = Some a ->
  let atf := for_value ACTION_TYPE (JStr name) in
  (sfields (s_start a) = sf ++ [atf; for_value ACTION_STATUS STARTED]
   /\ allow_additional (s_start a) = false
   /\ ctor_ok (sf ++ [atf; for_value ACTION_STATUS STARTED]) = true)
  /\ (sfields (s_success a) = uf ++ [atf; for_value ACTION_STATUS SUCCEEDED]
   /\ allow_additional (s_success a) = false
   /\ ctor_ok (uf ++ [atf; for_value ACTION_STATUS SUCCEEDED]) = true)
  /\ (sfields (s_failure a) = [atf; for_value ACTION_STATUS FAILED; REASON; EXCEPTION]
   /\ allow_additional (s_failure a) = true).
Proof.
  unfold action_type. intros H.
  destruct (mk_serializer id _ false) as [s1|] eqn:E1; [|discriminate].
  destruct (mk_serializer (S id) _ false) as [s2|] eqn:E2; [|discriminate].
  destruct (mk_serializer (S (S id)) _ true) as [s3|] eqn:E3; [|discriminate].
  inversion H. subst a. cbn.
  apply mk_serializer_some in E1 as [A1 [A2 [_ A3]]].
  apply mk_serializer_some in E2 as [B1 [B2 [_ B3]]].
  apply mk_serializer_some in E3 as [C1 [C2 _]]. auto 10.
Qed.

(* user fields of an action's start/success serializer are none of the automatic names *)
Lemma user_key_fresh user k1 v1 k2 v2 F :
  ctor_ok (user ++ [for_value k1 v1; for_value k2 v2]) = true -> In F user ->
  fkey F <> k1 /\ fkey F <> k2 /\ ~ reserved (K (fkey F)).
Proof.
  intros C HF. pose proof (not_reserved_key _ F C (in_or_app _ _ _ (or_introl HF))) as R.
  apply ctor_ok_parts in C as [ND _]. unfold field_keys in ND. rewrite map_app in ND.
  assert (In (fkey F) (map fkey user)) as Hin by (apply in_map; auto).
  repeat split; auto; intros E; eapply (nodup_str_app _ _ ND); eauto; cbn; auto.
Qed.

Lemma action_message_conforms sz user name status uuid level ts fields :
  sfields sz = user ++ [for_value ACTION_TYPE (JStr name); for_value ACTION_STATUS (JStr status)] ->
  ctor_ok (user ++ [for_value ACTION_TYPE (JStr name); for_value ACTION_STATUS (JStr status)]) = true ->
  (forall F, In F user -> exists v, mget (K (fkey F)) fields = Some v /\ accepts F v) ->
  (forall k v, In (k, v) fields -> exists F, In F user /\ k = K (fkey F)) ->
  validate sz (mset (K TASK_LEVEL) level
                 (mupdate (mset (K TIMESTAMP) ts (mset (K ACTION_STATUS) (JStr status) fields))
                          [(K TASK_UUID, uuid); (K ACTION_TYPE, JStr name)])) = Ok tt.
Proof.
  intros Hf C Hu Hfields.
  eapply stamped_conforms with (fields := fields); eauto; cbn [mupdate fold_left fst snd].
  - intros F HF. destruct (user_key_fresh _ _ _ _ _ F C HF) as [N1 [N2 NR]].
    assert (forall s, reserved (K s) -> K (fkey F) <> K s) as NK by (intros s Rs E; rewrite E in NR; auto).
    rewrite !mget_mset_neq; auto.
    + intros E. apply K_inj in E. auto.
    + apply NK. right. right. reflexivity.
    + apply NK. right. left. reflexivity.
    + intros E. apply K_inj in E. auto.
    + apply NK. left. reflexivity.
  - intros F [<-|[<-|[]]]; cbn [fkey for_value].
    + exists (JStr name). split; [|apply accepts_for_value_str].
      rewrite mget_mset_neq by discriminate. apply mget_mset_eq.
    + exists (JStr status). split; [|apply accepts_for_value_str].
      rewrite !mget_mset_neq by discriminate. apply mget_mset_eq.
  - intros k v H. peel H; auto.
    + right. left. left. reflexivity.
    + right. right. eexists. split; [left; reflexivity | reflexivity].
    + right. left. right. left. reflexivity.
    + right. left. right. right. reflexivity.
    + right. right. eexists. split; [right; left; reflexivity | reflexivity].
Qed.

(* start message of an ActionType, built by Action._start from accepted keyword arguments *)
Theorem start_conforms id name sf uf a uuid level ts fields :
  action_type id name sf uf = Some a ->
  (forall F, In F sf -> exists v, mget (K (fkey F)) fields = Some v /\ accepts F v) ->
  (forall k v, In (k, v) fields -> exists F, In F sf /\ k = K (fkey F)) ->
  validate (s_start a) (start_message (JStr name) uuid level ts fields) = Ok tt.
Proof.
  intros H. apply action_type_some in H as [[A1 [_ A3]] _]. unfold start_message, STARTED in *.
  intros. eapply action_message_conforms; eauto.
Qed.

(* success message, built by Action.finish(None) from the accumulated success fields *)
Theorem success_conforms id name sf uf a uuid level ts success :
  action_type id name sf uf = Some a ->
  (forall F, In F uf -> exists v, mget (K (fkey F)) success = Some v /\ accepts F v) ->
  (forall k v, In (k, v) success -> exists F, In F uf /\ k = K (fkey F)) ->
  validate (s_success a) (success_message (JStr name) uuid level ts success) = Ok tt.
Proof.
  intros H. apply action_type_some in H as [_ [[A1 [_ A3]] _]]. unfold success_message, SUCCEEDED in *.
  intros. eapply action_message_conforms; eauto.
Qed.

(* failure message, built by Action.finish(exception): whatever the extractor returned *)
Theorem failure_conforms id name sf uf a uuid level ts exc_name reason extracted :
  action_type id name sf uf = Some a ->
  validate (s_failure a) (failure_message (JStr name) uuid level ts exc_name reason extracted) = Ok tt.
Proof.
  intros H. apply action_type_some in H as [_ [_ [A1 A2]]].
  apply validate_iff. split; [|auto]. rewrite A1. unfold failure_message. cbn [mupdate fold_left fst snd].
  intros F [<-|[<-|[<-|[<-|[]]]]]; cbn [fkey for_value REASON EXCEPTION for_types].
  - exists (JStr name). split; [|apply accepts_for_value_str].
    rewrite mget_mset_neq by discriminate. apply mget_mset_eq.
  - exists FAILED. split; [|apply accepts_for_value_str].
    rewrite !mget_mset_neq by discriminate. apply mget_mset_eq.
  - exists (JStr reason). split.
    + rewrite !mget_mset_neq by discriminate. apply mget_mset_eq.
    + apply for_types_accepts. split; [exists TStr; cbn; auto | reflexivity].
  - exists (JStr exc_name). split.
    + rewrite !mget_mset_neq by discriminate. apply mget_mset_eq.
    + apply for_types_accepts. split; [exists TStr; cbn; auto | reflexivity].
Qed.

(* a MessageType message, built by MessageType.log from accepted keyword arguments *)
Theorem message_conforms id name fs sz uuid level ts fields :
  message_type id name fs = Some sz ->
  (forall F, In F fs -> exists v, mget (K (fkey F)) fields = Some v /\ accepts F v) ->
  (forall k v, In (k, v) fields -> exists F, In F fs /\ k = K (fkey F)) ->
  validate sz (log_message (JStr name) uuid level ts fields) = Ok tt.
Proof.
  unfold message_type. intros H Hu Hfields. apply mk_serializer_some in H as [A1 [_ [_ C]]].
  eapply stamped_conforms with (fields := fields); eauto; unfold log_message.
  - intros F HF. pose proof (not_reserved_key _ F C (in_or_app _ _ _ (or_introl HF))) as NR.
    assert (forall s, reserved (K s) -> K (fkey F) <> K s) as NK by (intros s Rs E; rewrite E in NR; auto).
    apply ctor_ok_parts in C as [ND _]. unfold field_keys in ND. rewrite map_app in ND.
    assert (fkey F <> MESSAGE_TYPE) as NM.
    { intros E. eapply (nodup_str_app _ _ ND (fkey F)); [apply in_map; auto | rewrite E; cbn; auto]. }
    rewrite !mget_mset_neq; auto.
    + apply NK. right. right. reflexivity.
    + apply NK. right. left. reflexivity.
    + apply NK. left. reflexivity.
    + intros E. apply K_inj in E. auto.
  - intros F [<-|[]]. cbn [fkey for_value]. exists (JStr name). split; [apply mget_mset_eq | apply accepts_for_value_str].
  - intros k v H. peel H; auto.
    + right. right. eexists. split; [left; reflexivity | reflexivity].
    + right. left. left. reflexivity.
    + right. left. right. left. reflexivity.
    + right. left. right. right. reflexivity.
Qed.

(* a traceback message, built by write_traceback: any exception object, any traceback
   text, the exception's class, plus whatever the extractor returned under other names *)
Theorem traceback_conforms uuid level ts exn tb c mro extracted :
  (forall v, ~ In (K REASON_FIELD, v) extracted) ->
  (forall v, ~ In (K TRACEBACK_FIELD, v) extracted) ->
  (forall v, ~ In (K EXCEPTION_FIELD, v) extracted) ->
  (forall v, ~ In (K MESSAGE_TYPE, v) extracted) ->
  validate TRACEBACK_SERIALIZER
           (traceback_message uuid level ts exn tb (JExnType (c :: mro)) extracted) = Ok tt.
Proof.
  intros N1 N2 N3 N4. unfold traceback_message.
  set (c0 := mdict _).
  assert (c0 = [(K REASON_FIELD, exn); (K TRACEBACK_FIELD, tb); (K EXCEPTION_FIELD, JExnType (c :: mro));
                (K MESSAGE_TYPE, JStr TRACEBACK_TYPE)]) as Ec by reflexivity.
  rewrite (mget_mupdate_notin _ _ N4), Ec. cbn [mget mkey_eqb K MESSAGE_TYPE REASON_FIELD TRACEBACK_FIELD EXCEPTION_FIELD].
  cbn -[mupdate mdel log_message TRACEBACK_SERIALIZER]. rewrite <- Ec.
  apply validate_iff. split; [|left; reflexivity].
  unfold log_message. cbn [sfields TRACEBACK_SERIALIZER].
  intros F [<-|[<-|[<-|[<-|[]]]]]; cbn [fkey for_value].
  - exists exn. split.
    + rewrite !mget_mset_neq by discriminate. rewrite mget_mdel_neq by discriminate.
      rewrite (mget_mupdate_notin _ _ N1), Ec. reflexivity.
    + split; [eexists; reflexivity | reflexivity].
  - exists tb. split.
    + rewrite !mget_mset_neq by discriminate. rewrite mget_mdel_neq by discriminate.
      rewrite (mget_mupdate_notin _ _ N2), Ec. reflexivity.
    + split; [eexists; reflexivity | reflexivity].
  - exists (JExnType (c :: mro)). split.
    + rewrite !mget_mset_neq by discriminate. rewrite mget_mdel_neq by discriminate.
      rewrite (mget_mupdate_notin _ _ N3), Ec. reflexivity.
    + split; [eexists; reflexivity | reflexivity].
  - exists (JStr TRACEBACK_TYPE). split; [apply mget_mset_eq | apply accepts_for_value_str].
Qed.

(* "Messages produced by correct use of a declared type always validate" *)
Theorem C14_library_conforms :
  (forall id name sf uf a uuid level ts fields,
     action_type id name sf uf = Some a ->
     (forall F, In F sf -> exists v, mget (K (fkey F)) fields = Some v /\ accepts F v) ->
     (forall k v, In (k, v) fields -> exists F, In F sf /\ k = K (fkey F)) ->
     validate (s_start a) (start_message (JStr name) uuid level ts fields) = Ok tt)
  /\ (forall id name sf uf a uuid level ts success,
     action_type id name sf uf = Some a ->
     (forall F, In F uf -> exists v, mget (K (fkey F)) success = Some v /\ accepts F v) ->
     (forall k v, In (k, v) success -> exists F, In F uf /\ k = K (fkey F)) ->
     validate (s_success a) (success_message (JStr name) uuid level ts success) = Ok tt)
  /\ (forall id name sf uf a uuid level ts exc_name reason extracted,
     action_type id name sf uf = Some a ->
     validate (s_failure a) (failure_message (JStr name) uuid level ts exc_name reason extracted) = Ok tt)
  /\ (forall id name fs sz uuid level ts fields,
     message_type id name fs = Some sz ->
     (forall F, In F fs -> exists v, mget (K (fkey F)) fields = Some v /\ accepts F v) ->
     (forall k v, In (k, v) fields -> exists F, In F fs /\ k = K (fkey F)) ->
     validate sz (log_message (JStr name) uuid level ts fields) = Ok tt)
  /\ (forall uuid level ts exn tb c mro extracted,
     (forall v, ~ In (K REASON_FIELD, v) extracted) ->
     (forall v, ~ In (K TRACEBACK_FIELD, v) extracted) ->
     (forall v, ~ In (K EXCEPTION_FIELD, v) extracted) ->
     (forall v, ~ In (K MESSAGE_TYPE, v) extracted) ->
     validate TRACEBACK_SERIALIZER
              (traceback_message uuid level ts exn tb (JExnType (c :: mro)) extracted) = Ok tt).
Proof.
  repeat split.
  - apply start_conforms.
  - apply success_conforms.
  - apply failure_conforms.
  - apply message_conforms.
  - apply traceback_conforms.
Qed.

(* ------------------------------------------------------------------ the unittest harness *)
Definition not_restore (c : cleanup) : Prop := forall p, c <> CRestore p.

Lemma run_cleanup_default sk c w :
  not_restore c -> default_logger (fst (run_cleanup sk c w)) = default_logger w.
Proof.
  intros N. destruct c as [l|l a|p]; cbn.
  - destruct (check_for_errors (logger_of w l)) as [L' r]. reflexivity.
  - destruct sk; reflexivity.
  - exfalso. eapply N. reflexivity.
Qed.

Lemma do_cleanups_default sk cs : Forall not_restore cs ->
  forall w r, default_logger (fst (do_cleanups sk cs w r)) = default_logger w.
Proof.
  induction 1 as [|c cs Hc Hcs IH]; intros w r; cbn; auto.
  pose proof (run_cleanup_default sk c w Hc) as D.
  destruct (run_cleanup sk c w) as [w' e]. cbn in D. rewrite IH. exact D.
Qed.

(* "capture_logging always restores the previous default logger whatever the test's
   outcome": for every assertion callback, every test body (it may log, flush, replace
   the default logger itself) and every outcome it ends in *)
Lemma do_cleanups_restore sk p rest w r :
  do_cleanups sk (CRestore p :: rest) w r = do_cleanups sk rest (fst (swap_logger w p)) r.
Proof. reflexivity. Qed.

Theorem C14_restore a body w :
  default_logger (fst (run_test (capture_logging a (lift body)) w)) = default_logger w.
Proof.
  unfold run_test, capture_logging, validate_logging, capture_wrapper, lift.
  cbn [fst snd new_memory_logger swap_logger default_logger].
  destruct (body _ _) as [w' o]. cbn [fst snd].
  destruct a as [g|]; rewrite do_cleanups_restore, do_cleanups_default; try reflexivity;
    repeat constructor; intros p; discriminate.
Qed.

(* it holds in particular for each of the four outcomes *)
Corollary C14_restore_each_outcome a steps w :
  forall o, In o [OPass; OFail; OError ERuntime; OSkip] ->
  default_logger (fst (run_test (capture_logging a (lift (body_of steps o))) w)) = default_logger w.
Proof. intros o _. apply C14_restore. Qed.

(* the test body really runs with the MemoryLogger as default logger *)
Theorem capture_swaps a body w :
  exists st o, capture_logging a (lift body) (w, []) = (st, o) /\
  forall l w', new_memory_logger w = (w', l) ->
    body l (fst (swap_logger w' l)) = (fst st, o).
Proof.
  unfold capture_logging, validate_logging, capture_wrapper, lift.
  cbn [fst snd new_memory_logger swap_logger].
  destruct (body _ _) as [w1 o] eqn:B. eexists. exists o. split; [reflexivity|].
  intros l w' E. inversion E. subst. cbn [fst]. exact B.
Qed.

(* the assertion callback runs exactly once, unless the body raised SkipTest *)
Theorem C14_assertion_unless_skipped g body w :
  let '(w0, l) := new_memory_logger w in
  let '(w1, o) := body l (fst (swap_logger w0 l)) in
  assertion_calls (fst (run_test (capture_logging (Some g) (lift body)) w))
  = assertion_calls w1 + (if is_skip o then 0 else 1).
Proof.
  unfold run_test, capture_logging, validate_logging, capture_wrapper, lift.
  cbn [fst snd new_memory_logger swap_logger].
  destruct (body _ _) as [w1 o]. cbn [fst snd do_cleanups run_cleanup swap_logger].
  destruct (is_skip o); cbn [fst snd].
  - destruct (check_for_errors _) as [L' r]. cbn. lia.
  - destruct (check_for_errors _) as [L' r]. cbn. lia.
Qed.

(* whatever check_for_errors finds in the test's logger after the body is reported by
   the test run (UnflushedTracebacks, ValidationError, TypeError: as errors) *)
Theorem C14_errors_surface a body w e :
  let '(w0, l) := new_memory_logger w in
  let '(w1, o) := body l (fst (swap_logger w0 l)) in
  snd (check_for_errors (logger_of w1 l)) = Raise e -> e <> EAssertion ->
  In e (r_errors (snd (run_test (capture_logging a (lift body)) w))).
Proof.
  unfold run_test, capture_logging, validate_logging, capture_wrapper, lift.
  cbn [fst snd new_memory_logger swap_logger].
  destruct (body _ _) as [w1 o]. intros Hc Ne.
  assert (forall r, In e (r_errors (record_exc e r))) as Rec.
  { intros r. destruct e; cbn; try (apply in_or_app; right; cbn; auto). congruence. }
  destruct a as [g|]; cbn [fst snd do_cleanups run_cleanup swap_logger].
  - destruct (is_skip o); cbn [fst snd];
      unfold logger_of in *; cbn [mem] in *;
      destruct (check_for_errors _) as [L' [[]|e']]; cbn in *; try discriminate;
      inversion Hc; subst; apply Rec.
  - unfold logger_of in *; cbn [mem] in *.
    destruct (check_for_errors _) as [L' [[]|e']]; cbn in *; try discriminate.
    inversion Hc; subst; apply Rec.
Qed.

(* ------------------------------------------------------------------ non-vacuity *)
Definition ex_fields : list Field :=
  [for_types "key" [TInt] (extra_of XPositive); field_of (FCustom "path" SSucc XNone)].

Definition ex_type : option action_serializers :=
  action_type 1 "app:lookup" ex_fields [for_types "result" [TStr; TNone] no_extra].

Definition ex_start : msg :=
  start_message (JStr "app:lookup") (JStr "U") (JList [JInt 1]) (JFloat 6)
                [(K "key", JInt 5); (K "path", JInt 0)].

(* a declared type exists, its start message validates, and each single deviation fails *)
Example ex_conforming :
  match ex_type with
  | Some a =>
      validate (s_start a) ex_start = Ok tt
      /\ validate (s_start a) (mdel (K "key") ex_start) = Raise EValidation
      /\ validate (s_start a) (mset (K "exception") (JStr "x") ex_start) = Raise EValidation
      /\ validate (s_start a) (mset (K "key") (JInt 0) ex_start) = Raise EValidation
      /\ validate (s_start a) (mset (K "key") (JStr "5") ex_start) = Raise EValidation
      /\ validate (s_start a) (mset (K "task_uuid") (JInt 1) ex_start) = Ok tt
      /\ validate (s_failure a) (mset (K "errno") (JInt 2)
           (failure_message (JStr "app:lookup") (JStr "U") (JList [JInt 2]) (JFloat 6)
              "builtins.OSError" "boom" [(K "errno", JInt 2); (K "reason", JInt 7)])) = Ok tt
  | None => False
  end.
Proof. vm_compute. repeat split. Qed.

(* the hypotheses of start_conforms hold for that use *)
Example ex_hypotheses :
  (forall F, In F ex_fields -> exists v, mget (K (fkey F)) [(K "key", JInt 5); (K "path", JInt 0)] = Some v /\ accepts F v)
  /\ (forall k v, In (k, v) [(K "key", JInt 5); (K "path", JInt 0)] -> exists F, In F ex_fields /\ k = K (fkey F)).
Proof.
  split.
  - intros F [<-|[<-|[]]].
    + exists (JInt 5). split; [reflexivity|]. apply for_types_accepts. split; [exists TInt; cbn; auto | reflexivity].
    + exists (JInt 0). split; [reflexivity|]. split; [eexists; reflexivity | reflexivity].
  - intros k v [E|[E|[]]]; inversion E; subst.
    + exists (for_types "key" [TInt] (extra_of XPositive)). split; [cbn; auto | reflexivity].
    + exists (field_of (FCustom "path" SSucc XNone)). split; [cbn; auto | reflexivity].
Qed.

(* illegal definitions are refused by the constructor *)
Example ex_ctor_refuses :
  message_type 1 "m" [for_types "task_uuid" [TInt] no_extra] = None
  /\ message_type 1 "m" [for_types "_x" [TInt] no_extra] = None
  /\ message_type 1 "m" [for_types "x" [TInt] no_extra; for_types "x" [TStr] no_extra] = None
  /\ message_type 1 "m" [for_types "action_type" [TInt] no_extra] = None
  /\ action_type 1 "a" [for_types "action_status" [TInt] no_extra] [] = None.
Proof. vm_compute. repeat split. Qed.

(* MemoryLogger: a valid and a not-JSON-encodable message; the class comes from the first failure *)
Example ex_memory_logger :
  match ex_type with
  | Some a =>
      let L := write new_logger ex_start (Some (s_start a)) in
      snd (logger_validate L) = Ok tt
      /\ snd (logger_validate (write L [(K "message_type", JStr "plain"); (K "blob", JObj false 1)] None)) = Raise EType
      /\ snd (logger_validate (write L [(KBytes false "k", JInt 1)] None)) = Raise EUnicodeDecode
      /\ snd (logger_validate (write L (mset (K "key") (JInt 18446744073709551616) ex_start) (Some (s_start a)))) = Raise EType
      /\ snd (logger_validate (write (write L (mdel (K "path") ex_start) (Some (s_start a)))
                                     [(KOther 1, JInt 1)] None)) = Raise EValidation
  | None => False
  end.
Proof. vm_compute. repeat split. Qed.

(* unflushed tracebacks win over a validation error; flushing lets validation speak *)
Example ex_tracebacks_first :
  let RT := ["builtins.RuntimeError"; "builtins.Exception"] in
  let tb := traceback_message (JStr "U") (JList [JInt 1]) (JFloat 6) (JExn RT "boom") (JStr "Traceback...")
                              (JExnType RT) [(K "errno", JInt 2)] in
  let L := write (write new_logger tb (Some TRACEBACK_SERIALIZER)) [(KOther 1, JInt 1)] None in
  validate TRACEBACK_SERIALIZER tb = Ok tt
  /\ tracebackMessages L = [0]
  /\ snd (check_for_errors L) = Raise EUnflushed
  /\ snd (flush_tracebacks L "builtins.ValueError") = Ok []
  /\ snd (flush_tracebacks L "builtins.Exception") = Ok [0]
  /\ snd (check_for_errors (fst (flush_tracebacks L "builtins.Exception"))) = Raise EType.
Proof. vm_compute. repeat split. Qed.

(* the harness: a failing body that also replaced the default logger; it is restored,
   the assertion ran, the invalid message surfaces as an error next to the failure *)
Example ex_harness :
  match message_type 1 "app:m" [for_types "x" [TInt] no_extra] with
  | Some sz =>
      let bad := log_message (JStr "app:m") (JStr "U") (JList [JInt 1]) (JFloat 6) [(K "x", JStr "one")] in
      let w0 := mkWorld 7 7 [] 0 in
      let '(w, r) := run_test (capture_logging (Some (fun _ => None))
                                 (lift (body_of [SWriteDefault bad (Some sz); SClobber 99] OFail))) w0 in
      default_logger w = 7 /\ assertion_calls w = 1
      /\ r_failures r = [EAssertion] /\ r_errors r = [EValidation] /\ r_success r = false
  | None => False
  end.
Proof. vm_compute. repeat split. Qed.
