(* C04/C05: where a message or a new action goes is decided by the current action of the
   context that logs it, and by nothing else. *)
From Coq Require Import List PArith Arith Bool.
Require Import Eliot.Base.Level Eliot.Model.Core Eliot.Proofs.CoreBasics.
Import ListNotations.

(* a message logged with no current action forms its own one-message task: fresh uuid, level [1] *)
Lemma orphan_message_position s c :
  cur s c = None ->
  msg_position s c = (fst (fresh_uuid s), next_uuid s, [1%positive]).
Proof. intros H. unfold msg_position. rewrite H. reflexivity. Qed.

Lemma orphan_message_stamp s c mt fs :
  cur s c = None ->
  snd (stamp_here s c mt fs) = stamp (next_uuid s) [1%positive] mt fs /\
  next_uuid (fst (stamp_here s c mt fs)) = S (next_uuid s).
Proof. intros H. unfold stamp_here. rewrite (orphan_message_position s c H). cbn. auto. Qed.

(* a message logged inside an action takes the next position of THAT action, with its uuid *)
Lemma attributed_message_position s c h a :
  cur s c = Some h -> alookup h (heap s) = Some a ->
  msg_position s c =
    (set_heap s h (fst (next_level a)), a_uuid a, a_level a ++ [Pos.of_nat (S (a_last a))]).
Proof.
  intros Hc Ha. unfold msg_position, take_level. rewrite Hc, Ha.
  destruct (next_level_spec a) as (E & _). unfold next_level in *. cbn. reflexivity.
Qed.

Section Cfg.
Variable cfg : config.

(* start_task always begins a new tree, whatever the context: fresh uuid, root level *)
Lemma start_task_ignores_context c s h ty fs sers :
  start_action cfg c s h true ty fs sers =
  start_message cfg c (set_heap (fst (fresh_uuid s)) h (mkAction (next_uuid s) [] 0 false [] ty sers None)) h fs.
Proof. unfold start_action. cbn. reflexivity. Qed.

(* a child action takes the next position of the action current in the starting context *)
Lemma child_action_position c s h p pa ty fs sers :
  cur s c = Some p -> alookup p (heap s) = Some pa ->
  start_action cfg c s h false ty fs sers =
  start_message cfg c
    (set_heap (fst (take_level s p)) h
       (mkAction (a_uuid pa) (a_level pa ++ [Pos.of_nat (S (a_last pa))]) 0 false [] ty sers None)) h fs.
Proof.
  intros Hc Hp. unfold start_action. cbn. rewrite Hc, Hp.
  unfold take_level. rewrite Hp. cbn. reflexivity.
Qed.

(* with no current action, start_action is start_task *)
Lemma start_action_without_context c s h ty fs sers :
  cur s c = None ->
  start_action cfg c s h false ty fs sers = start_action cfg c s h true ty fs sers.
Proof. intros H. unfold start_action. cbn. rewrite H. reflexivity. Qed.

End Cfg.
