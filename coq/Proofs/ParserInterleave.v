(* C09, interleaving: what the parser does for task uuid u depends only on the
   subsequence of the stream with that uuid.  Generic in the stream (no forest
   needed): whenever a stream parses, its u-subsequence parses alone to the same
   returned tasks at the same messages and to the same remaining task for u. *)
From Coq Require Import List PArith Bool Arith Lia Sorted.
Require Import Eliot.Base.Level Eliot.Model.Parser Eliot.Proofs.ParserBasics Eliot.Proofs.ParserOrder.
Import ListNotations.

(* parse_loop is parse_trace with the returned lists concatenated *)
Lemma parse_loop_trace ms : forall p d,
  parse_loop p ms d =
  match parse_trace p ms with
  | POk (cs, p') => POk (d ++ concat cs, p')
  | PErr e => PErr e
  end.
Proof.
  induction ms as [|m r IH]; intros p d; cbn [parse_loop parse_trace].
  - cbn. now rewrite app_nil_r.
  - destruct (parser_add p m) as [[c p1]|e]; [|reflexivity].
    rewrite IH. destruct (parse_trace p1 r) as [[cs p2]|e]; [|reflexivity].
    cbn [concat]. now rewrite app_assoc.
Qed.

Lemma parse_trace_length ms : forall p cs p', parse_trace p ms = POk (cs, p') -> length cs = length ms.
Proof.
  induction ms as [|m r IH]; intros p cs p'; cbn [parse_trace].
  - intros H. injection H as <- _. reflexivity.
  - destruct (parser_add p m) as [[c p1]|e]; [|discriminate].
    destruct (parse_trace p1 r) as [[cs1 p2]|e] eqn:E; [|discriminate].
    intros H. injection H as <- _. cbn. f_equal. eapply IH. exact E.
Qed.

Definition only (u : nat) (ms : list pmsg) : list pmsg :=
  filter (fun m => Nat.eqb (pm_uuid m) u) ms.

(* the part of the parser map that concerns u *)
Definition restrict (p : parser) (u : nat) : parser :=
  match ulookup u p with Some t => [(u, t)] | None => [] end.

(* the returned lists at the messages of u *)
Fixpoint select (u : nat) (ms : list pmsg) (cs : list (list task)) : list (list task) :=
  match ms, cs with
  | m :: r, c :: cr => if Nat.eqb (pm_uuid m) u then c :: select u r cr else select u r cr
  | _, _ => []
  end.

Lemma ulookup_restrict p u : ulookup u (restrict p u) = ulookup u p.
Proof.
  unfold restrict. destruct (ulookup u p) eqn:E; cbn; [|reflexivity]. now rewrite Nat.eqb_refl.
Qed.

Lemma parser_add_sorted p m c p' : usorted p -> parser_add p m = POk (c, p') -> usorted p'.
Proof.
  unfold parser_add. intros S.
  destruct (task_add _ m) as [t'|e]; [|discriminate].
  destruct (task_complete t'); intros H; injection H as _ <-.
  - now apply uremove_sorted.
  - now apply uinsert_sorted.
Qed.

Lemma parser_add_restrict p m c p' u :
  usorted p -> parser_add p m = POk (c, p') ->
  if Nat.eqb (pm_uuid m) u then parser_add (restrict p u) m = POk (c, restrict p' u)
  else restrict p' u = restrict p u.
Proof.
  intros S. unfold parser_add. destruct (Nat.eqb (pm_uuid m) u) eqn:E.
  - apply Nat.eqb_eq in E. subst u. rewrite ulookup_restrict.
    destruct (task_add _ m) as [t'|e]; [|discriminate].
    destruct (task_complete t'); intros H; injection H as <- <-; f_equal; f_equal.
    + unfold restrict at 2. rewrite ulookup_uremove by exact S. rewrite Nat.eqb_refl.
      unfold restrict. destruct (ulookup (pm_uuid m) p); cbn; [|reflexivity]. now rewrite Nat.eqb_refl.
    + unfold restrict at 2. rewrite ulookup_uinsert, Nat.eqb_refl.
      unfold restrict. destruct (ulookup (pm_uuid m) p); cbn; [|reflexivity]. now rewrite Nat.eqb_refl.
  - destruct (task_add _ m) as [t'|e]; [|discriminate].
    rewrite Nat.eqb_sym in E.
    destruct (task_complete t'); intros H; injection H as _ <-; unfold restrict.
    + rewrite ulookup_uremove by exact S. now rewrite E.
    + rewrite ulookup_uinsert. now rewrite E.
Qed.

Lemma interleaving_trace ms : forall p cs p' u,
  usorted p -> parse_trace p ms = POk (cs, p') ->
  parse_trace (restrict p u) (only u ms) = POk (select u ms cs, restrict p' u).
Proof.
  induction ms as [|m r IH]; intros p cs p' u S; cbn [parse_trace only filter].
  - intros H. injection H as <- <-. reflexivity.
  - destruct (parser_add p m) as [[c p1]|e] eqn:EA; [|discriminate].
    destruct (parse_trace p1 r) as [[cs1 p2]|e] eqn:ET; [|discriminate].
    intros H. injection H as <- <-.
    pose proof (parser_add_sorted _ _ _ _ S EA) as S1.
    pose proof (parser_add_restrict _ _ _ _ u S EA) as R.
    pose proof (IH _ _ _ u S1 ET) as IH'. cbn [select].
    destruct (Nat.eqb (pm_uuid m) u).
    + cbn [parse_trace]. rewrite R. fold (only u r). now rewrite IH'.
    + fold (only u r). now rewrite <- R.
Qed.

(* Tasks with different uuids do not affect each other. *)
Theorem interleaving_alone ms cs p u :
  parse_trace [] ms = POk (cs, p) ->
  parse_trace [] (only u ms) = POk (select u ms cs, restrict p u).
Proof. intros H. exact (interleaving_trace ms [] cs p u usorted_nil H). Qed.

Theorem interleaving_same_subsequence ms ms' cs cs' p p' u :
  only u ms = only u ms' ->
  parse_trace [] ms = POk (cs, p) -> parse_trace [] ms' = POk (cs', p') ->
  ulookup u p = ulookup u p' /\ select u ms cs = select u ms' cs'.
Proof.
  intros E H H'. apply (interleaving_alone _ _ _ u) in H. apply (interleaving_alone _ _ _ u) in H'.
  rewrite E in H. rewrite H in H'. injection H' as E1 E2. split; [|exact E1].
  rewrite <- (ulookup_restrict p u), <- (ulookup_restrict p' u). now rewrite E2.
Qed.
