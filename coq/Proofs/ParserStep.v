(* C09, the core step: the state of a [task] is a function of the set of
   messages received ([Inv R t], R = received levels), and [task_add] of a new
   message of the task's tree moves from the state for R to the state for
   R + that message, without error ([task_add_step] — the DESIGN's add_step). *)
From Coq Require Import List PArith Bool Arith Lia Sorted.
Require Import Eliot.Base.Level Eliot.Model.Parser Eliot.Model.Forest.
Require Import Eliot.Proofs.ParserBasics Eliot.Proofs.ParserOrder Eliot.Proofs.ParserTree.
Import ListNotations.

(* ---- prefixes ------------------------------------------------------------- *)
Lemma is_prefix_nil_r x : is_prefix x [] = level_eqb x [].
Proof. now destruct x. Qed.

Lemma is_prefix_snoc x : forall pl j, is_prefix x (pl ++ [j]) = is_prefix x pl || level_eqb x (pl ++ [j]).
Proof.
  induction x as [|a x IH]; intros pl j; [reflexivity|].
  destruct pl as [|b pl]; cbn [app is_prefix level_eqb].
  - rewrite is_prefix_nil_r. reflexivity.
  - rewrite IH. now destruct (Pos.eqb a b), (is_prefix x pl), (level_eqb x (pl ++ [j])).
Qed.

Lemma is_prefix_longer q : forall p r, is_prefix (q ++ p :: r) q = false.
Proof. induction q as [|a q IH]; intros p r; cbn; [reflexivity|]. now rewrite IH, andb_false_r. Qed.

Lemma is_prefix_refl q : is_prefix q q = true.
Proof. induction q as [|a q IH]; cbn; [reflexivity|]. now rewrite Pos.eqb_refl. Qed.

Lemma is_prefix_app q r : is_prefix q (q ++ r) = true.
Proof. induction q as [|a q IH]; cbn; [reflexivity|]. now rewrite Pos.eqb_refl. Qed.

Lemma is_prefix_spec x : forall y, is_prefix x y = true -> exists r, y = x ++ r.
Proof.
  induction x as [|a x IH]; intros y; [intros _; now exists y|].
  destruct y as [|b y]; cbn; [discriminate|]. intros H. apply andb_true_iff in H as [H1 H2].
  apply Pos.eqb_eq in H1. subst b. apply IH in H2 as [r ->]. now exists r.
Qed.

(* unfolding lemmas for the model *)
Lemma insert_action_S n t nd :
  insert_action (S n) t nd =
  let completed := if node_complete (t_completed t) nd then set_add (node_level nd) (t_completed t)
                   else t_completed t in
  let t1 := mkTask (linsert (node_level nd) nd (t_nodes t)) completed in
  let pl := parent_level (node_level nd) in
  let parent := match llookup pl (t_nodes t1) with
                | Some p => p
                | None => NAct None None pl (node_uuid nd) []
                end in
  match add_child parent nd with
  | PErr e => PErr e
  | POk parent' => insert_action n t1 parent'
  end.
Proof. reflexivity. Qed.

Lemma insert_action_0 t nd :
  insert_action 0 t nd =
  POk (mkTask (linsert (node_level nd) nd (t_nodes t))
              (if node_complete (t_completed t) nd then set_add (node_level nd) (t_completed t)
               else t_completed t)).
Proof. reflexivity. Qed.

Lemma task_add_nonnil t m :
  pm_level m <> [] ->
  task_add t m =
    match pm_atype m with
    | Some _ =>
        let al := parent_level (pm_level m) in
        let action := match llookup al (t_nodes t) with
                      | Some a => a
                      | None => NAct None None al (pm_uuid m) []
                      end in
        let started := match pm_status m with Some PStarted => true | _ => false end in
        match (if started then start_action_node action m else end_action_node action m) with
        | PErr e => PErr e
        | POk action' => insert_action (length al) t action'
        end
    | None =>
        if level_eqb (pm_level m) [1%positive]
        then POk (mkTask (linsert [] (NMsg m) (t_nodes t)) (set_add [] (t_completed t)))
        else ensure_parents_msg t m
    end.
Proof. unfold task_add. destruct (pm_level m); [congruence|reflexivity]. Qed.

Lemma ensure_parents_msg_nonnil t m :
  pm_level m <> [] ->
  ensure_parents_msg t m =
    let pl := parent_level (pm_level m) in
    let parent := match llookup pl (t_nodes t) with
                  | Some p => p
                  | None => NAct None None pl (pm_uuid m) []
                  end in
    match add_child parent (NMsg m) with
    | PErr e => PErr e
    | POk parent' => insert_action (length pl) t parent'
    end.
Proof. unfold ensure_parents_msg. destruct (pm_level m); [congruence|reflexivity]. Qed.

Definition addl (lm : level) (R : level -> bool) : level -> bool := fun x => level_eqb x lm || R x.

Lemma addl_same lm R : addl lm R lm = true.
Proof. unfold addl. now rewrite level_eqb_refl. Qed.

Lemma addl_other lm R x : x <> lm -> addl lm R x = R x.
Proof. intros N. unfold addl. apply level_eqb_neq in N. now rewrite N. Qed.

Section Step.
  Variable idf : level -> nat.
  Variable u : nat.
  Variable T : tree.
  Hypothesis T_act : is_act T = true.

  Notation ltree := (lin_tree idf u).
  Notation nodeof := (node_of idf u).
  Notation pres := (present idf u).
  Notation ful := (full idf u).

  Definition nodes_spec (R : level -> bool) (x : level) : option node :=
    match subtree_at T x with
    | Some s => if is_act s && pres R x s then Some (nodeof R x s) else None
    | None => None
    end.

  Definition compl_spec (R : level -> bool) (x : level) : bool :=
    match subtree_at T x with
    | Some s => is_act s && ful R x s
    | None => false
    end.

  (* the state of the task of tree T after receiving exactly the levels in R *)
  Record Inv (R : level -> bool) (t : task) : Prop := {
    inv_sorted : lsorted (t_nodes t);
    inv_nodes : forall x, llookup x (t_nodes t) = nodes_spec R x;
    inv_csorted : ssorted (t_completed t);
    inv_compl : forall x, set_mem x (t_completed t) = compl_spec R x
  }.

  (* on the way up: levels at or above q are still in the old state *)
  Record LI (R R' : level -> bool) (q : level) (t : task) : Prop := {
    li_sorted : lsorted (t_nodes t);
    li_nodes : forall x, llookup x (t_nodes t) = if is_prefix x q then nodes_spec R x else nodes_spec R' x;
    li_csorted : ssorted (t_completed t);
    li_compl : forall x, set_mem x (t_completed t) = if is_prefix x q then compl_spec R x else compl_spec R' x
  }.

  Lemma spec_frame R R' x :
    (forall s, subtree_at T x = Some s -> is_act s = true -> agree_under x R R') ->
    nodes_spec R x = nodes_spec R' x /\ compl_spec R x = compl_spec R' x.
  Proof.
    intros H. unfold nodes_spec, compl_spec. destruct (subtree_at T x) as [s|]; [|auto].
    destruct (is_act s) eqn:EA; cbn [andb]; [|auto].
    specialize (H s eq_refl EA).
    rewrite (present_frame idf u R R'), (node_of_frame idf u R R'), (full_frame idf u R R') by exact H. auto.
  Qed.

  Lemma Inv_ext R R' t : (forall x, R x = R' x) -> Inv R t -> Inv R' t.
  Proof.
    intros E [H1 H2 H3 H4].
    assert (F : forall x, nodes_spec R x = nodes_spec R' x /\ compl_spec R x = compl_spec R' x).
    { intros x. apply spec_frame. intros s _ _ rest. apply E. }
    constructor; try assumption.
    - intros x. rewrite H2. apply F.
    - intros x. rewrite H4. apply F.
  Qed.

  Lemma Inv_unique R t t' : Inv R t -> Inv R t' -> t = t'.
  Proof.
    intros [A1 A2 A3 A4] [B1 B2 B3 B4]. destruct t as [n c], t' as [n' c']. cbn [t_nodes t_completed] in *. f_equal.
    - apply lsorted_ext; try assumption. intros k. now rewrite A2, B2.
    - apply ssorted_ext; try assumption. intros k. now rewrite A4, B4.
  Qed.

  Lemma Inv_empty R : (forall x, R x = false) -> Inv R empty_task.
  Proof.
    intros E. constructor; cbn.
    - apply lsorted_nil.
    - intros x. unfold nodes_spec. destruct (subtree_at T x) as [s|]; [|reflexivity].
      replace (pres R x s) with false; [now rewrite andb_false_r|].
      symmetry. apply present_false. intros. apply E.
    - apply ssorted_nil.
    - intros x. unfold compl_spec. destruct (subtree_at T x) as [s|]; [|reflexivity].
      pose proof (lin_tree_nonempty idf u s x) as N. unfold full.
      destruct (ltree x s) as [|m r]; [congruence|]. cbn. now rewrite E, andb_false_r.
  Qed.

  (* the action fetched (or created) at an action level is the expected node *)
  Lemma fetch_action R t al ty st ch uu :
    (forall x, x = al -> llookup x (t_nodes t) = nodes_spec R x) ->
    subtree_at T al = Some (TAct ty st ch) -> uu = u ->
    match llookup al (t_nodes t) with Some a => a | None => NAct None None al uu [] end
    = nodeof R al (TAct ty st ch).
  Proof.
    intros H ES ->. rewrite (H al eq_refl). unfold nodes_spec. rewrite ES. cbn [is_act andb].
    destruct (pres R al (TAct ty st ch)) eqn:EP; [reflexivity|].
    now rewrite node_of_absent.
  Qed.

  Lemma walk R lm m : R lm = false -> pm_level m = lm ->
    forall n q t s rest,
      length q = n -> lm = q ++ rest -> rest <> [] ->
      subtree_at T q = Some s -> is_act s = true -> In m (ltree q s) ->
      LI R (addl lm R) q t ->
      exists t', insert_action n t (nodeof (addl lm R) q s) = POk t' /\ Inv (addl lm R) t'.
  Proof.
    intros HR Hm. set (R' := addl lm R).
    induction n as [|n' IH]; intros q t s rest Hlen Hlm Hrest ES EA Hin [L1 L2 L3 L4];
      destruct s as [ty0|ty st ch]; try discriminate.
    all: set (s := TAct ty st ch) in *.
    all: set (nd := nodeof R' q s).
    all: assert (F1 : node_level nd = q) by (unfold nd, s; now rewrite node_of_act).
    all: assert (F3 : pres R' q s = true)
      by (apply present_true with (m := m); [exact Hin|rewrite Hm; apply addl_same]).
    all: assert (F4 : ful R q s = false)
      by (apply full_false with (m := m); [exact Hin|now rewrite Hm]).
    all: assert (F2 : node_complete (t_completed t) nd = ful R' q s).
    1,3: unfold nd, s; apply node_complete_spec; intros p c Hp Hc;
         rewrite L4, is_prefix_longer; unfold compl_spec; rewrite subtree_at_snoc, ES; unfold s;
         rewrite Hp, Hc; reflexivity.
    all: set (t1 := mkTask (linsert (node_level nd) nd (t_nodes t))
                     (if node_complete (t_completed t) nd then set_add (node_level nd) (t_completed t)
                      else t_completed t)).
    all: assert (P1 : lsorted (t_nodes t1)) by (cbn; now apply linsert_sorted).
    all: assert (P2 : forall x, llookup x (t_nodes t1) =
                   if level_eqb x q then nodes_spec R' x
                   else if is_prefix x q then nodes_spec R x else nodes_spec R' x).
    1,3: intros x; cbn [t1 t_nodes]; rewrite llookup_linsert, F1;
         destruct (level_eqb x q) eqn:EQ; [|apply L2];
         apply level_eqb_eq in EQ; subst x; unfold nodes_spec; rewrite ES; unfold s at 1;
         cbn [is_act andb]; fold s; rewrite F3; reflexivity.
    all: assert (P3 : ssorted (t_completed t1))
      by (cbn [t1 t_completed]; destruct (node_complete (t_completed t) nd); [now apply set_add_sorted|exact L3]).
    all: assert (P4 : forall x, set_mem x (t_completed t1) =
                   if level_eqb x q then compl_spec R' x
                   else if is_prefix x q then compl_spec R x else compl_spec R' x).
    1,3: intros x; cbn [t1 t_completed]; rewrite F2, F1;
         assert (EC : compl_spec R' q = ful R' q s) by (unfold compl_spec; rewrite ES; reflexivity);
         assert (EC0 : compl_spec R q = false) by (unfold compl_spec; rewrite ES; unfold s at 1; cbn [is_act andb]; exact F4);
         destruct (ful R' q s) eqn:EF;
         [ rewrite set_mem_add; destruct (level_eqb x q) eqn:EQ; cbn [orb];
           [apply level_eqb_eq in EQ; subst x; now rewrite EC | apply L4]
         | destruct (level_eqb x q) eqn:EQ; [|apply L4];
           apply level_eqb_eq in EQ; subst x; now rewrite L4, is_prefix_refl, EC0, EC ].
    - (* at the root *)
      apply length_zero_iff_nil in Hlen. subst q. rewrite insert_action_0. fold t1.
      exists t1. split; [reflexivity|]. constructor; try assumption.
      + intros x. rewrite P2. destruct x; reflexivity.
      + intros x. rewrite P4. destruct x; reflexivity.
    - (* one level up *)
      destruct (exists_last (l := q)) as (pl & j & ->); [intros ->; discriminate|].
      rewrite app_length in Hlen. cbn in Hlen.
      rewrite subtree_at_snoc in ES.
      destruct (subtree_at T pl) as [[ty'|ty' st' ch']|] eqn:ESP; try discriminate.
      set (sp := TAct ty' st' ch') in *.
      rewrite insert_action_S. cbv zeta. fold t1. rewrite F1.
      unfold parent_level. rewrite removelast_last.
      assert (EU : node_uuid nd = u) by (unfold nd, s; now rewrite node_of_act).
      rewrite (fetch_action R t1 pl ty' st' ch' (node_uuid nd)); [| |exact ESP|exact EU].
      2:{ intros x ->. rewrite P2. rewrite is_prefix_app.
          replace (level_eqb pl (pl ++ [j])) with false; [reflexivity|].
          symmetry. apply level_eqb_neq. intros E. apply (f_equal (@length _)) in E.
          rewrite app_length in E. cbn in E. lia. }
      rewrite (node_of_act idf u R pl). unfold add_child. rewrite EU, Nat.eqb_refl. cbn [negb].
      rewrite F1. unfold parent_level. rewrite removelast_last, level_eqb_refl. cbn [negb].
      assert (EN : NAct (if R (pl ++ [1%positive]) then Some (start_msg idf u pl ty') else None)
                        (if R (pl ++ [endpos 2 ch']) then Some (end_msg idf u pl ty' st' (endpos 2 ch')) else None)
                        pl u (linsert (pl ++ [j]) nd (children_of idf u R pl 2 ch'))
                   = nodeof R' pl sp).
      { unfold sp. rewrite (node_of_act idf u R' pl).
        assert (NE : forall a, pl ++ [a] <> lm).
        { intros a E. rewrite Hlm in E. apply (f_equal (@length _)) in E.
          rewrite !app_length in E. cbn in E. destruct rest; [congruence|cbn in E; lia]. }
        unfold R' at 1 2. rewrite !addl_other by apply NE. f_equal.
        symmetry. unfold nd. apply children_update; [exact ES|exact F3|].
        intros p' c' Hp' Np rest'. unfold R', addl. rewrite Hlm.
        replace (level_eqb ((pl ++ [p']) ++ rest') ((pl ++ [j]) ++ rest)) with false; [reflexivity|].
        symmetry. rewrite <- !app_assoc, level_eqb_app. cbn.
        destruct (Pos.eqb_spec p' j); [congruence|reflexivity]. }
      rewrite EN.
      apply (IH pl t1 sp (j :: rest)).
      + lia.
      + rewrite Hlm, <- app_assoc. reflexivity.
      + discriminate.
      + exact ESP.
      + reflexivity.
      + unfold sp. rewrite lin_tree_act. right. apply lin_list_In. right. exists j, s. auto.
      + constructor; try assumption.
        * intros x. rewrite P2, is_prefix_snoc.
          destruct (level_eqb x (pl ++ [j])) eqn:EQ.
          -- apply level_eqb_eq in EQ. subst x. now rewrite is_prefix_longer.
          -- now rewrite orb_false_r.
        * intros x. rewrite P4, is_prefix_snoc.
          destruct (level_eqb x (pl ++ [j])) eqn:EQ.
          -- apply level_eqb_eq in EQ. subst x. now rewrite is_prefix_longer.
          -- now rewrite orb_false_r.
  Qed.

  (* from the full invariant to the start of the walk *)
  Lemma leaf R t m al j sa :
    Inv R t -> pm_level m = al ++ [j] -> R (al ++ [j]) = false ->
    subtree_at T al = Some sa -> is_act sa = true -> In m (ltree al sa) ->
    (forall s, subtree_at T (al ++ [j]) = Some s -> is_act s = false) ->
    exists t', insert_action (length al) t (nodeof (addl (al ++ [j]) R) al sa) = POk t'
               /\ Inv (addl (al ++ [j]) R) t'.
  Proof.
    intros [I1 I2 I3 I4] Hm HR ES EA Hin Hleaf.
    apply (walk R (al ++ [j]) m HR Hm (length al) al t sa [j]); try assumption; try reflexivity; try discriminate.
    assert (F : forall x, is_prefix x al = false ->
                nodes_spec R x = nodes_spec (addl (al ++ [j]) R) x /\
                compl_spec R x = compl_spec (addl (al ++ [j]) R) x).
    { intros x Hx. apply spec_frame. intros s Hs Hact rest. unfold addl.
      replace (level_eqb (x ++ rest) (al ++ [j])) with false; [reflexivity|].
      symmetry. apply level_eqb_neq. intros E.
      destruct (exists_last (l := rest)) as (rest' & j' & ->).
      - intros ->. rewrite app_nil_r in E. subst x. rewrite (Hleaf s Hs) in Hact. discriminate.
      - rewrite app_assoc in E. apply app_inj_tail in E as [E _]. subst al.
        rewrite is_prefix_app in Hx. discriminate. }
    constructor; try assumption.
    - intros x. rewrite I2. destruct (is_prefix x al) eqn:EP; [reflexivity|]. now apply F.
    - intros x. rewrite I4. destruct (is_prefix x al) eqn:EP; [reflexivity|]. now apply F.
  Qed.

  Lemma snoc_nonnil {A} (l : list A) a : l ++ [a] <> [].
  Proof. destruct l; discriminate. Qed.

  Lemma subtree_msgs al : forall l0 T0 sa,
    subtree_at T0 al = Some sa -> forall m', In m' (ltree (l0 ++ al) sa) -> In m' (ltree l0 T0).
  Proof.
    induction al as [|p al IH]; intros l0 T0 sa ES m' Hm'.
    - cbn in ES. injection ES as ->. now rewrite app_nil_r in Hm'.
    - cbn [subtree_at] in ES. destruct T0 as [|ty0 st0 ch0]; [discriminate|].
      destruct (child_from 2 ch0 p) as [c|] eqn:EC; [|discriminate].
      rewrite lin_tree_act. right. apply lin_list_In. right. exists p, c. split; [exact EC|].
      apply (IH (l0 ++ [p]) c sa ES). now rewrite <- app_assoc.
  Qed.

  Lemma spec_ext_msgs R R' :
    (forall m, In m (ltree [] T) -> R (pm_level m) = R' (pm_level m)) ->
    forall x, nodes_spec R x = nodes_spec R' x /\ compl_spec R x = compl_spec R' x.
  Proof.
    intros H x. unfold nodes_spec, compl_spec. destruct (subtree_at T x) as [s|] eqn:ES; [|auto].
    assert (Hs : forall m, In m (ltree x s) -> R (pm_level m) = R' (pm_level m)).
    { intros m Hm. apply H. apply (subtree_msgs x [] T s ES). exact Hm. }
    rewrite (present_ext_msgs idf u R R'), (node_of_ext_msgs idf u R R'), (full_ext_msgs idf u R R') by exact Hs.
    auto.
  Qed.

  Lemma Inv_ext_msgs R R' t :
    (forall m, In m (ltree [] T) -> R (pm_level m) = R' (pm_level m)) -> Inv R t -> Inv R' t.
  Proof.
    intros E [H1 H2 H3 H4]. pose proof (spec_ext_msgs R R' E) as F.
    constructor; try assumption.
    - intros x. rewrite H2. apply F.
    - intros x. rewrite H4. apply F.
  Qed.

  Lemma Inv_empty_msgs R : pres R [] T = false -> Inv R empty_task.
  Proof.
    intros H. apply (Inv_ext_msgs (fun _ => false)); [|now apply Inv_empty].
    intros m Hm. symmetry. rewrite present_false in H. now apply H.
  Qed.

  (* add_step *)
  Theorem task_add_step R t m :
    Inv R t -> In m (ltree [] T) -> R (pm_level m) = false ->
    exists t', task_add t m = POk t' /\ Inv (addl (pm_level m) R) t'.
  Proof.
    intros HI Hin HR.
    destruct (lin_tree_kind idf u T [] m Hin) as [(ty & E & _)|(al & ty & st & ch & ES & Hk)].
    { rewrite E in T_act. discriminate. }
    cbn [app] in Hk. set (sa := TAct ty st ch) in *.
    pose proof HI as [I1 I2 I3 I4].
    assert (Hsub : forall m', In m' (ltree al sa) -> In m' (ltree [] T)) by (intros m'; apply (subtree_msgs al [] T sa ES)).
    destruct Hk as [Hk|[Hk|(j & ty' & Hj & Hk)]].
    - (* start message *)
      assert (Hl : pm_level m = al ++ [1%positive]) by now rewrite Hk.
      rewrite Hl in *.
      destruct (leaf R t m al 1%positive sa HI Hl HR ES eq_refl) as (t' & Ht' & HI').
      + rewrite Hk. unfold sa. rewrite lin_tree_act. now left.
      + intros s Hs. rewrite subtree_at_snoc, ES in Hs. unfold sa in Hs.
        destruct ch as [|c0 r]; cbn in Hs; [discriminate|].
        apply child_from_range in Hs. lia.
      + exists t'. split; [|exact HI'].
        rewrite task_add_nonnil by (rewrite Hl; apply snoc_nonnil).
        rewrite Hl. unfold parent_level. rewrite removelast_last.
        rewrite Hk at 1. cbn [pm_atype start_msg mk_msg]. cbv zeta.
        rewrite (fetch_action R t al ty st ch (pm_uuid m)); [|intros x _; apply I2|exact ES|now rewrite Hk].
        rewrite Hk at 1. cbn [pm_status start_msg mk_msg].
        rewrite node_of_act. unfold start_action_node. rewrite Hk at 1. cbn [pm_status start_msg mk_msg].
        rewrite Hl, last_last. cbn [Pos.eqb].
        rewrite <- Ht'. f_equal. unfold sa. rewrite node_of_act. rewrite addl_same.
        rewrite addl_other.
        2:{ intros E. apply app_inj_tail in E as [_ E].
            pose proof (endpos_nat ch 2). rewrite E in H. cbn in H. lia. }
        rewrite <- Hk. f_equal. apply children_of_frame. intros p c Hp rest. unfold addl.
        replace (level_eqb ((al ++ [p]) ++ rest) (al ++ [1%positive])) with false; [reflexivity|].
        symmetry. rewrite <- app_assoc, level_eqb_app. cbn [app level_eqb].
        apply child_from_range in Hp as [Hp _]. destruct (Pos.eqb_spec p 1); [lia|reflexivity].
    - (* end message *)
      assert (Hl : pm_level m = al ++ [endpos 2 ch]) by now rewrite Hk.
      rewrite Hl in *.
      assert (H2 : (2 <= endpos 2 ch)%positive).
      { apply Pos2Nat.inj_le. rewrite endpos_nat. lia. }
      destruct (leaf R t m al (endpos 2 ch) sa HI Hl HR ES eq_refl) as (t' & Ht' & HI').
      + rewrite Hk. unfold sa. rewrite lin_tree_act. right. apply lin_list_In. now left.
      + intros s Hs. rewrite subtree_at_snoc, ES in Hs. unfold sa in Hs.
        apply child_from_range in Hs. lia.
      + exists t'. split; [|exact HI'].
        rewrite task_add_nonnil by (rewrite Hl; apply snoc_nonnil).
        rewrite Hl. unfold parent_level. rewrite removelast_last.
        rewrite Hk at 1. cbn [pm_atype end_msg mk_msg]. cbv zeta.
        rewrite (fetch_action R t al ty st ch (pm_uuid m)); [|intros x _; apply I2|exact ES|now rewrite Hk].
        rewrite Hk at 1. cbn [pm_status end_msg mk_msg].
        replace (match end_status st with PStarted => true | _ => false end) with false by now destruct st.
        rewrite node_of_act. rewrite HR. unfold end_action_node.
        assert (OK : (match action_type_of (if R (al ++ [1%positive]) then Some (start_msg idf u al ty) else None) None with
                      | None => true
                      | Some t0 => opt_eqb Pos.eqb (Some t0) (pm_atype m)
                      end) = true).
        { rewrite Hk. destruct (R (al ++ [1%positive])); cbn; [apply Pos.eqb_refl|reflexivity]. }
        rewrite OK. cbn [negb].
        replace (Nat.eqb (pm_uuid m) u) with true by (rewrite Hk; cbn; now rewrite Nat.eqb_refl).
        cbn [negb]. rewrite Hl. unfold parent_level. rewrite removelast_last, level_eqb_refl. cbn [negb].
        assert (ST : pm_status m = Some PSucceeded \/ pm_status m = Some PFailed).
        { rewrite Hk. cbn. destruct st; auto. }
        assert (EN : NAct (if R (al ++ [1%positive]) then Some (start_msg idf u al ty) else None) (Some m) al u
                       (children_of idf u R al 2 ch) = nodeof (addl (al ++ [endpos 2 ch]) R) al sa).
        { unfold sa. rewrite node_of_act. rewrite addl_same.
          rewrite addl_other.
          2:{ intros E. apply app_inj_tail in E as [_ E]. lia. }
          rewrite <- Hk. f_equal. apply children_of_frame. intros p c Hp rest. unfold addl.
          replace (level_eqb ((al ++ [p]) ++ rest) (al ++ [endpos 2 ch])) with false; [reflexivity|].
          symmetry. rewrite <- app_assoc, level_eqb_app. cbn [app level_eqb].
          apply child_from_range in Hp as [_ Hp]. destruct (Pos.eqb_spec p (endpos 2 ch)); [lia|reflexivity]. }
        destruct ST as [ST|ST]; rewrite ST, EN; exact Ht'.
    - (* message child *)
      assert (Hl : pm_level m = al ++ [j]) by now rewrite Hk.
      rewrite Hl in *.
      pose proof (child_from_range _ _ _ _ Hj) as [Hj2 Hje].
      destruct (leaf R t m al j sa HI Hl HR ES eq_refl) as (t' & Ht' & HI').
      + rewrite Hk. unfold sa. rewrite lin_tree_act. right. apply lin_list_In. right.
        exists j, (TMsg ty'). split; [exact Hj|]. now left.
      + intros s Hs. rewrite subtree_at_snoc, ES in Hs. unfold sa in Hs. rewrite Hj in Hs.
        injection Hs as <-. reflexivity.
      + exists t'. split; [|exact HI'].
        rewrite task_add_nonnil by (rewrite Hl; apply snoc_nonnil).
        rewrite Hk at 1. cbn [pm_atype mk_msg].
        replace (level_eqb (pm_level m) [1%positive]) with false.
        2:{ symmetry. apply level_eqb_neq. rewrite Hl. intros E.
            destruct al as [|a [|b al]]; cbn in E; try discriminate. injection E as E. lia. }
        rewrite ensure_parents_msg_nonnil by (rewrite Hl; apply snoc_nonnil).
        rewrite Hl. unfold parent_level. rewrite removelast_last. cbv zeta.
        rewrite (fetch_action R t al ty st ch (pm_uuid m)); [|intros x _; apply I2|exact ES|now rewrite Hk].
        rewrite node_of_act. unfold add_child. cbn [node_uuid node_level].
        replace (Nat.eqb (pm_uuid m) u) with true by (rewrite Hk; cbn; now rewrite Nat.eqb_refl).
        cbn [negb]. rewrite Hl. unfold parent_level. rewrite removelast_last, level_eqb_refl. cbn [negb].
        rewrite <- Ht'. f_equal. unfold sa. rewrite node_of_act.
        rewrite !addl_other.
        2:{ intros E. apply app_inj_tail in E as [_ E]. lia. }
        2:{ intros E. apply app_inj_tail in E as [_ E]. lia. }
        f_equal.
        rewrite (children_update idf u R (addl (al ++ [j]) R) al ch 2 j (TMsg ty') Hj).
        * cbn [node_of]. now rewrite <- Hk.
        * rewrite present_msg. apply addl_same.
        * intros p' c' Hp' Np rest. unfold addl.
          replace (level_eqb ((al ++ [p']) ++ rest) (al ++ [j])) with false; [reflexivity|].
          symmetry. rewrite <- app_assoc, level_eqb_app. cbn [app level_eqb].
          destruct (Pos.eqb_spec p' j); [congruence|reflexivity].
  Qed.

  Lemma Inv_complete R t : Inv R t -> task_complete t = ful R [] T.
  Proof.
    intros [_ _ _ I4]. unfold task_complete. rewrite I4. unfold compl_spec. cbn. now rewrite T_act.
  Qed.
End Step.
